"""Translator: digests of the source functions the hand-written Coq models were transcribed from -> coq/Gen/GenPins.v.
A digest is taken over the function's syntax tree without docstrings, comments and layout (Python: ast.dump; Lua: the
function's text with comments and blank runs removed), so only a change of the code itself changes it.  The property files
state the digests the models were written against; a different digest means the model is no longer known to describe the
code (reported like every broken correspondence: the checks then look for a failing input).  Recorded digests are updated
with tools/repin.py after a deliberate change of /repo (a fix: commit) has been carried over into the models."""
import os
import ast
import hashlib
import re
from pathlib import Path

SRC = Path(os.environ.get("VERIF_REPO", "/repo")) / "src/wikitextprocessor"

# pin name -> (file, dotted path of the function inside the module: Class.method or function[.inner])
PY_PINS = {
    "merge_str_children": ("parser.py", "_parser_merge_str_children"),
    "parser_push": ("parser.py", "_parser_push"),
    "parser_pop": ("parser.py", "_parser_pop"),
    "parse_encoded": ("parser.py", "parse_encoded"),
    "list_fn": ("parser.py", "list_fn"),
    "pop_until_nth_list": ("parser.py", "pop_until_nth_list"),
    "subtitle_start_fn": ("parser.py", "subtitle_start_fn"),
    "subtitle_end_fn": ("parser.py", "subtitle_end_fn"),
    "hline_fn": ("parser.py", "hline_fn"),
    "parse_attrs": ("parser.py", "parse_attrs"),
    "table_start_fn": ("parser.py", "table_start_fn"),
    "table_caption_fn": ("parser.py", "table_caption_fn"),
    "table_row_fn": ("parser.py", "table_row_fn"),
    "table_hdr_cell_fn": ("parser.py", "table_hdr_cell_fn"),
    "table_cell_fn": ("parser.py", "table_cell_fn"),
    "double_vbar_fn": ("parser.py", "double_vbar_fn"),
    "vbar_fn": ("parser.py", "vbar_fn"),
    "table_end_fn": ("parser.py", "table_end_fn"),
    "table_check_attrs": ("parser.py", "table_check_attrs"),
    "table_row_check_attrs": ("parser.py", "table_row_check_attrs"),
    "check_for_attributes": ("parser.py", "check_for_attributes"),
    "template_parameters": ("parser.py", "TemplateNode.template_parameters"),
    "expand": ("core.py", "Wtp.expand"),
    "finalize_expand": ("core.py", "Wtp._finalize_expand"),
    "detect_loop": ("core.py", "detect_expand_template_loop"),
    "check_template_need_expand": ("core.py", "Wtp.check_template_need_expand"),
    "add_page": ("core.py", "Wtp.add_page"),
    "get_page": ("core.py", "Wtp.get_page"),
    "get_page_resolve_redirect": ("core.py", "Wtp.get_page_resolve_redirect"),
    "analyze_templates": ("core.py", "Wtp.analyze_templates"),
    "backup_db": ("core.py", "Wtp.backup_db"),
    "create_db": ("core.py", "Wtp.create_db"),
    "start_page": ("core.py", "Wtp.start_page"),
    "if_fn": ("parserfns.py", "if_fn"),
    "ifeq_fn": ("parserfns.py", "ifeq_fn"),
    "switch_fn": ("parserfns.py", "switch_fn"),
    "expr_fn": ("parserfns.py", "expr_fn"),
    "padleft_fn": ("parserfns.py", "padleft_fn"),
    "padright_fn": ("parserfns.py", "padright_fn"),
    "sub_fn": ("parserfns.py", "sub_fn"),
    "pos_fn": ("parserfns.py", "pos_fn"),
    "rpos_fn": ("parserfns.py", "rpos_fn"),
    "len_fn": ("parserfns.py", "len_fn"),
    "replace_fn": ("parserfns.py", "replace_fn"),
    "explode_fn": ("parserfns.py", "explode_fn"),
    "plural_fn": ("parserfns.py", "plural_fn"),
    "formatnum_fn": ("parserfns.py", "formatnum_fn"),
    "formatnum_reverse": ("parserfns.py", "_formatnum_reverse"),
    "parse_dump_xml": ("dumpparser.py", "parse_dump_xml"),
    "to_wikitext": ("node_expand.py", "to_wikitext"),
    "to_attrs": ("node_expand.py", "to_attrs"),
    "nowiki_quote": ("common.py", "nowiki_quote"),
    "call_lua_sandbox": ("luaexec.py", "call_lua_sandbox"),
    "add_empty_sandbox_lua_module": ("luaexec.py", "add_empty_sandbox_lua_module"),
}
LUA_PINS = {
    "lua_invoke": ("lua/_sandbox_phase2.lua", "_lua_invoke"),
    "lua_frame_args_index": ("lua/_sandbox_phase2.lua", "frame_args_index"),
    "lua_set_timeout": ("lua/_sandbox_phase1.lua", "_lua_set_timeout"),
    "lua_clear_timeout_hook": ("lua/_sandbox_phase1.lua", "_lua_clear_timeout_hook"),
}
# which property's models each pin belongs to
BY_PROPERTY = {
    "C01": ["merge_str_children", "parser_push", "parser_pop", "parse_encoded"],
    "C02": ["list_fn", "pop_until_nth_list", "subtitle_start_fn", "subtitle_end_fn", "hline_fn"],
    "C03": ["parse_attrs", "table_start_fn", "table_caption_fn", "table_row_fn", "table_hdr_cell_fn", "table_cell_fn",
            "double_vbar_fn", "vbar_fn", "table_end_fn", "table_check_attrs", "table_row_check_attrs", "check_for_attributes"],
    "C04": ["expand", "finalize_expand", "if_fn", "ifeq_fn", "switch_fn"],
    "C05": ["detect_loop"],
    "C07": ["lua_invoke", "lua_set_timeout", "lua_clear_timeout_hook"],
    "C10": ["add_page", "get_page", "get_page_resolve_redirect"],
    "C11": ["backup_db", "create_db"],
    "C12": ["parse_dump_xml"],
    "C13": ["check_template_need_expand"],
    "C14": ["template_parameters", "lua_frame_args_index"],
    "C15": ["nowiki_quote"],
    "C16": ["call_lua_sandbox", "start_page"],
    "C17": ["analyze_templates"],
    "C18": ["expr_fn", "padleft_fn", "padright_fn", "sub_fn", "pos_fn", "rpos_fn", "len_fn", "replace_fn", "explode_fn", "plural_fn",
            "formatnum_fn", "formatnum_reverse"],
    "C19": ["to_wikitext", "to_attrs"],
    "C20": ["add_empty_sandbox_lua_module"],
}


class Unsupported(Exception):
    pass


def _strip_docstrings(node):
    for n in ast.walk(node):
        if isinstance(n, (ast.FunctionDef, ast.AsyncFunctionDef, ast.ClassDef)) and n.body and \
                isinstance(n.body[0], ast.Expr) and isinstance(getattr(n.body[0], "value", None), ast.Constant) and \
                isinstance(n.body[0].value.value, str):
            n.body = n.body[1:] or [ast.Pass()]
    return node


def py_digest(file, dotted):
    tree = ast.parse((SRC / file).read_text())
    cur = tree
    for part in dotted.split("."):
        found = None
        for n in getattr(cur, "body", []):
            if isinstance(n, (ast.FunctionDef, ast.ClassDef)) and n.name == part:
                found = n
        if found is None:
            raise Unsupported("%s: %s not found" % (file, dotted))
        cur = found
    dump = ast.dump(_strip_docstrings(cur), annotate_fields=False, include_attributes=False)
    return hashlib.sha256(dump.encode()).hexdigest()[:16]


def lua_digest(file, name):
    text = (SRC / file).read_text()
    m = re.search(r"^(?:local )?function %s\(.*?^end\b" % re.escape(name), text, flags=re.S | re.M)
    if not m:
        raise Unsupported("%s: function %s not found" % (file, name))
    body = re.sub(r"--[^\n]*", "", m.group(0))
    body = re.sub(r"\s+", " ", body).strip()
    return hashlib.sha256(body.encode()).hexdigest()[:16]


def digests():
    out = {}
    for k, (f, d) in PY_PINS.items():
        out[k] = py_digest(f, d)
    for k, (f, d) in LUA_PINS.items():
        out[k] = lua_digest(f, d)
    return out


def generate() -> str:
    d = digests()
    lines = ["(* GENERATED by translate/pins.py from /repo/src/wikitextprocessor on every run -- do not edit *)",
             "From Coq Require Import String.", "Open Scope string_scope."]
    for k in sorted(d):
        lines.append('Definition pin_%s : string := "%s".' % (k, d[k]))
    return "\n".join(lines) + "\n"


def fallback(err):
    lines = ["(* translator failed: %s *)" % err.replace("*)", "* )").replace('"', "'"),
             "From Coq Require Import String.", "Open Scope string_scope."]
    for k in sorted(list(PY_PINS) + list(LUA_PINS)):
        lines.append('Definition pin_%s : string := "".' % k)
    return "\n".join(lines) + "\n"


if __name__ == "__main__":
    print(generate())
