"""Translator: control-flow skeleton of Wtp.expand (and its nested functions)
with respect to self.expand_stack -> coq/Gen/GenSkeleton.v.  Fail-closed: any
use of expand_stack or any statement kind it does not understand is an error."""
import os
import ast
from pathlib import Path

REPO = Path(os.environ.get("VERIF_REPO", "/repo"))
SRC = REPO / "src/wikitextprocessor/core.py"
SRC_LUA = REPO / "src/wikitextprocessor/luaexec.py"
LEAK_ATTRS = {"lua_invoke"}          # calls into the Lua runtime: callbacks may be aborted inside (pcall swallows)
METHOD_ROOTS = {"expand": "expand"}  # self.expand(...) / ctx.expand(...) -> the translated Wtp.expand


class Unsupported(Exception):
    pass


def is_stack(node):
    return (isinstance(node, ast.Attribute) and node.attr == "expand_stack"
            and isinstance(node.value, ast.Name) and node.value.id in ("self", "ctx"))


class Fn:
    def __init__(self, name, node, idx):
        self.name, self.node, self.idx = name, node, idx


class Translator:
    def __init__(self, tops):
        self.fns: dict[str, Fn] = {}
        self.order: list[Fn] = []
        self.leaks = 0
        self.restores = 0
        for top in tops:
            self.collect(top)

    def collect(self, fn):
        f = Fn(fn.name, fn, len(self.order))
        if fn.name in self.fns:
            raise Unsupported("duplicate nested function name " + fn.name)
        self.fns[fn.name] = f
        self.order.append(f)
        for n in ast.walk(fn):
            if isinstance(n, (ast.FunctionDef,)) and n is not fn and self.parent_fn(fn, n):
                self.collect(n)

    @staticmethod
    def parent_fn(fn, n):
        # n is directly nested in fn (not in a deeper FunctionDef)
        def direct(body_owner):
            for c in ast.iter_child_nodes(body_owner):
                if c is n:
                    return True
                if isinstance(c, (ast.FunctionDef, ast.Lambda, ast.ClassDef)):
                    continue
                if direct(c):
                    return True
            return False
        return direct(fn)

    # ---- expressions: calls in source order --------------------------------
    def expr_stmts(self, e, out):
        """Append skeleton statements for the effects of evaluating expression e."""
        if e is None:
            return
        if isinstance(e, ast.Call):
            f = e.func
            if isinstance(f, ast.Attribute) and is_stack(f.value):
                if f.attr == "append" and len(e.args) == 1:
                    self.expr_stmts(e.args[0], out)
                    out.append("Push")
                    return
                if f.attr == "pop" and not e.args:
                    out.append("Pop")
                    return
                raise Unsupported("expand_stack.%s at line %d" % (f.attr, e.lineno))
            if isinstance(f, ast.Attribute) and f.attr in LEAK_ATTRS:
                for a in e.args:
                    self.expr_stmts(a, out)
                self.leaks += 1
                out.append("Leak")
                return
            if (isinstance(f, ast.Attribute) and f.attr in METHOD_ROOTS and isinstance(f.value, ast.Name)
                    and f.value.id in ("self", "ctx") and METHOD_ROOTS[f.attr] in self.fns):
                for a in e.args:
                    self.expr_stmts(a, out)
                for k in e.keywords:
                    self.expr_stmts(k.value, out)
                out.append("Call %d" % self.fns[METHOD_ROOTS[f.attr]].idx)
                return
            self.expr_stmts(f, out)
            for a in e.args:
                if is_stack(a):
                    continue  # read-only use as an argument (len, loop detection, formatting)
                if isinstance(a, ast.Starred):
                    a = a.value
                self.expr_stmts(a, out)
            for k in e.keywords:
                self.expr_stmts(k.value, out)
            if isinstance(f, ast.Name) and f.id in self.fns:
                out.append("Call %d" % self.fns[f.id].idx)
            else:
                # an external callee may call back any nested function passed to it
                cbs = [a.id for a in list(e.args) + [k.value for k in e.keywords]
                       if isinstance(a, ast.Name) and a.id in self.fns]
                if cbs:
                    body = "Nil"
                    for c in reversed(cbs):
                        body = "Cons (Call %d) (%s)" % (self.fns[c].idx, body)
                    out.append("Loop (%s)" % body)
            return
        if isinstance(e, ast.Compare) and len(e.ops) == 1 and isinstance(e.ops[0], (ast.In, ast.NotIn)) \
                and is_stack(e.comparators[0]):
            self.expr_stmts(e.left, out)      # read-only membership test
            return
        if is_stack(e):
            raise Unsupported("expand_stack used in an unrecognised way at line %d" % e.lineno)
        if isinstance(e, (ast.GeneratorExp, ast.ListComp, ast.SetComp, ast.DictComp)):
            inner = []
            for g in e.generators:
                self.expr_stmts(g.iter, out)
                for c in g.ifs:
                    self.expr_stmts(c, inner)
            if isinstance(e, ast.DictComp):
                self.expr_stmts(e.key, inner)
                self.expr_stmts(e.value, inner)
            else:
                self.expr_stmts(e.elt, inner)
            if inner:
                out.append("Loop (%s)" % self.blk(inner))
            return
        if isinstance(e, ast.Lambda):
            inner = []
            self.expr_stmts(e.body, inner)
            if inner:
                raise Unsupported("lambda with stack effects at line %d" % e.lineno)
            return
        if isinstance(e, (ast.BoolOp, ast.IfExp)):
            # short-circuit: later operands may or may not be evaluated
            parts = e.values if isinstance(e, ast.BoolOp) else [e.test, e.body, e.orelse]
            self.expr_stmts(parts[0], out)
            for p in parts[1:]:
                inner = []
                self.expr_stmts(p, inner)
                if inner:
                    out.append("If2 (%s) Nil" % self.blk(inner))
            return
        for c in ast.iter_child_nodes(e):
            if isinstance(c, ast.expr):
                self.expr_stmts(c, out)
            elif isinstance(c, (ast.keyword,)):
                self.expr_stmts(c.value, out)
            elif isinstance(c, ast.comprehension):
                raise Unsupported("comprehension shape at line %d" % e.lineno)

    @staticmethod
    def blk(stmts):
        b = "Nil"
        for s in reversed(stmts):
            b = "Cons (%s) (%s)" % (s, b)
        return b

    # ---- statements ------------------------------------------------------------
    @staticmethod
    def saved_len_name(s):
        """`X = len(ctx.expand_stack)` -> "X" """
        if (isinstance(s, ast.Assign) and len(s.targets) == 1 and isinstance(s.targets[0], ast.Name)
                and isinstance(s.value, ast.Call) and isinstance(s.value.func, ast.Name) and s.value.func.id == "len"
                and len(s.value.args) == 1 and is_stack(s.value.args[0])):
            return s.targets[0].id
        return None

    @staticmethod
    def is_restore_loop(finalbody, name):
        """`while len(ctx.expand_stack) > X: ctx.expand_stack.pop()`"""
        if len(finalbody) != 1 or not isinstance(finalbody[0], ast.While):
            return False
        w = finalbody[0]
        t = w.test
        ok_test = (isinstance(t, ast.Compare) and len(t.ops) == 1 and isinstance(t.ops[0], ast.Gt)
                   and isinstance(t.left, ast.Call) and isinstance(t.left.func, ast.Name) and t.left.func.id == "len"
                   and len(t.left.args) == 1 and is_stack(t.left.args[0])
                   and isinstance(t.comparators[0], ast.Name) and t.comparators[0].id == name)
        b = w.body
        ok_body = (len(b) == 1 and isinstance(b[0], ast.Expr) and isinstance(b[0].value, ast.Call)
                   and isinstance(b[0].value.func, ast.Attribute) and b[0].value.func.attr == "pop"
                   and is_stack(b[0].value.func.value) and not b[0].value.args)
        return ok_test and ok_body and not w.orelse

    def stmts(self, body):
        out = []
        i = 0
        while i < len(body):
            s = body[i]
            name = self.saved_len_name(s)
            if name is not None:
                # find the try statement that restores to this length
                j = next((j for j in range(i + 1, len(body))
                          if isinstance(body[j], ast.Try) and self.is_restore_loop(body[j].finalbody, name)), None)
                if j is None:
                    raise Unsupported("saved stack length %s is never restored by a try/finally (line %d)" % (name, s.lineno))
                inner = []
                for k in range(i + 1, j):
                    self.stmt(body[k], inner)
                t = body[j]
                if t.orelse:
                    raise Unsupported("try-else at line %d" % t.lineno)
                tb = self.stmts(t.body)
                if any(x.startswith("Pop") for x in tb):
                    raise Unsupported("direct pop inside a restoring try body at line %d" % t.lineno)
                alts = self.blk(tb)
                for h in t.handlers:
                    # the handler runs after an arbitrary prefix of the body: the prefix can only have leaked entries
                    alts = "Cons (If2 (%s) (%s)) Nil" % (alts, self.blk(["Leak"] + self.stmts(h.body)))
                inner.append("If2 (%s) Nil" % alts if False else alts_to_stmt(alts))
                self.restores += 1
                out.append("Restore (%s)" % self.blk(inner))
                i = j + 1
                continue
            self.stmt(s, out)
            i += 1
        return out

    def stmt(self, s, out):
        if isinstance(s, (ast.FunctionDef, ast.Pass, ast.Import, ast.ImportFrom, ast.Global, ast.Nonlocal)):
            return
        if isinstance(s, ast.Expr):
            self.expr_stmts(s.value, out)
        elif isinstance(s, (ast.Assign, ast.AnnAssign, ast.AugAssign)):
            targets = s.targets if isinstance(s, ast.Assign) else [s.target]
            for t in targets:
                for n in ast.walk(t):
                    if is_stack(n):
                        raise Unsupported("assignment to expand_stack at line %d" % s.lineno)
            self.expr_stmts(s.value, out)
        elif isinstance(s, ast.Assert):
            self.expr_stmts(s.test, out)
        elif isinstance(s, ast.Return):
            self.expr_stmts(s.value, out)
            out.append("Ret")
        elif isinstance(s, ast.Continue):
            out.append("Cont")
        elif isinstance(s, ast.Break):
            out.append("Brk")
        elif isinstance(s, ast.Raise):
            out.append("Abort")
        elif isinstance(s, ast.If):
            self.expr_stmts(s.test, out)
            out.append("If2 (%s) (%s)" % (self.blk(self.stmts(s.body)), self.blk(self.stmts(s.orelse))))
        elif isinstance(s, (ast.For, ast.While)):
            if s.orelse:
                raise Unsupported("loop-else at line %d" % s.lineno)
            pre = []
            self.expr_stmts(s.iter if isinstance(s, ast.For) else s.test, pre)
            if isinstance(s, ast.For):
                out.extend(pre)
                out.append("Loop (%s)" % self.blk(self.stmts(s.body)))
            else:
                out.extend(pre)
                out.append("Loop (%s)" % self.blk(self.stmts(s.body) + pre))
        elif isinstance(s, ast.Try):
            # only effect-free try statements are accepted here (the restoring idiom is handled in stmts())
            parts = self.stmts(s.body) + [x for h in s.handlers for x in self.stmts(h.body)] + \
                self.stmts(s.orelse) + self.stmts(s.finalbody)
            if any(p for p in parts):
                raise Unsupported("try statement with stack effects outside the restore idiom at line %d" % s.lineno)
        elif isinstance(s, ast.Delete):
            for n in ast.walk(s):
                if is_stack(n):
                    raise Unsupported("del on expand_stack at line %d" % s.lineno)
        else:
            raise Unsupported("statement %s at line %d" % (type(s).__name__, s.lineno))


def alts_to_stmt(blk_text):
    """A block used as one statement: If2 blk blk is the same as running blk."""
    return "If2 (%s) (%s)" % (blk_text, blk_text)


def find_lua_sandbox():
    tree = ast.parse(SRC_LUA.read_text())
    for f in tree.body:
        if isinstance(f, ast.FunctionDef) and f.name == "call_lua_sandbox":
            return f
    raise Unsupported("call_lua_sandbox not found")


def find_expand():
    tree = ast.parse(SRC.read_text())
    for cls in tree.body:
        if isinstance(cls, ast.ClassDef) and cls.name == "Wtp":
            for f in cls.body:
                if isinstance(f, ast.FunctionDef) and f.name == "expand":
                    return f
    raise Unsupported("Wtp.expand not found")


HEADER = """(* GENERATED by translate/skeleton.py from %s on every run -- do not edit *)
From Coq Require Import List.
Import ListNotations.
From WTP Require Import Model.Skeleton.
"""


def generate() -> str:
    tr = Translator([find_expand(), find_lua_sandbox()])
    lines = [HEADER % (str(SRC) + " and " + str(SRC_LUA))]
    names = []
    for f in tr.order:
        body = tr.blk(tr.stmts(f.node.body))
        lines.append("(* %d: %s (line %d) *)" % (f.idx, f.name, f.node.lineno))
        lines.append("Definition fn_%s : blk :=\n  %s.\n" % (f.name, body))
        names.append("fn_" + f.name)
    if tr.leaks < 1 or tr.restores < 1:
        raise Unsupported("call into the Lua runtime / its restoring try-finally not recognised (leaks=%d restores=%d)"
                          % (tr.leaks, tr.restores))
    lines.append("Definition funs : list blk := [%s]." % "; ".join(names))
    lines.append("Definition translated_ok : bool := true.")
    return "\n".join(lines) + "\n"


def fallback(err: str) -> str:
    """Translator failure: emit a skeleton that cannot pass the check."""
    return (HEADER % (str(SRC) + " and " + str(SRC_LUA))) + "(* translator failed: %s *)\n" % err.replace("*)", "* )") + \
        "Definition funs : list blk := [Cons Push Nil].\nDefinition translated_ok : bool := false.\n"


if __name__ == "__main__":
    print(generate())
