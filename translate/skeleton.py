"""Translator: control-flow skeleton of Wtp.expand (and its nested functions)
with respect to self.expand_stack -> coq/Gen/GenSkeleton.v.  Fail-closed: any
use of expand_stack or any statement kind it does not understand is an error."""
import ast
from pathlib import Path

REPO = Path("/repo")
SRC = REPO / "src/wikitextprocessor/core.py"


class Unsupported(Exception):
    pass


def is_stack(node):
    return (isinstance(node, ast.Attribute) and node.attr == "expand_stack"
            and isinstance(node.value, ast.Name) and node.value.id in ("self", "ctx"))


class Fn:
    def __init__(self, name, node, idx):
        self.name, self.node, self.idx = name, node, idx


class Translator:
    def __init__(self, top: ast.FunctionDef):
        self.fns: dict[str, Fn] = {}
        self.order: list[Fn] = []
        self.collect(top)

    def collect(self, fn):
        f = Fn(fn.name, fn, len(self.order))
        if fn.name in self.fns:
            raise Unsupported("duplicate nested function name " + fn.name)
        self.fns[fn.name] = f
        self.order.append(f)
        for n in ast.walk(fn):
            if isinstance(n, (ast.FunctionDef,)) and n is not fn and self.parent_fn(fn, n):
                self.collect(n)

    @staticmethod
    def parent_fn(fn, n):
        # n is directly nested in fn (not in a deeper FunctionDef)
        def direct(body_owner):
            for c in ast.iter_child_nodes(body_owner):
                if c is n:
                    return True
                if isinstance(c, (ast.FunctionDef, ast.Lambda, ast.ClassDef)):
                    continue
                if direct(c):
                    return True
            return False
        return direct(fn)

    # ---- expressions: calls in source order --------------------------------
    def expr_stmts(self, e, out):
        """Append skeleton statements for the effects of evaluating expression e."""
        if e is None:
            return
        if isinstance(e, ast.Call):
            f = e.func
            if isinstance(f, ast.Attribute) and is_stack(f.value):
                if f.attr == "append" and len(e.args) == 1:
                    self.expr_stmts(e.args[0], out)
                    out.append("Push")
                    return
                if f.attr == "pop" and not e.args:
                    out.append("Pop")
                    return
                raise Unsupported("expand_stack.%s at line %d" % (f.attr, e.lineno))
            self.expr_stmts(f, out)
            for a in e.args:
                if is_stack(a):
                    continue  # read-only use as an argument (len, loop detection, formatting)
                if isinstance(a, ast.Starred):
                    a = a.value
                self.expr_stmts(a, out)
            for k in e.keywords:
                self.expr_stmts(k.value, out)
            if isinstance(f, ast.Name) and f.id in self.fns:
                out.append("Call %d" % self.fns[f.id].idx)
            else:
                # an external callee may call back any nested function passed to it
                cbs = [a.id for a in list(e.args) + [k.value for k in e.keywords]
                       if isinstance(a, ast.Name) and a.id in self.fns]
                if cbs:
                    body = "Nil"
                    for c in reversed(cbs):
                        body = "Cons (Call %d) (%s)" % (self.fns[c].idx, body)
                    out.append("Loop (%s)" % body)
            return
        if is_stack(e):
            raise Unsupported("expand_stack used in an unrecognised way at line %d" % e.lineno)
        if isinstance(e, (ast.GeneratorExp, ast.ListComp, ast.SetComp, ast.DictComp)):
            inner = []
            for g in e.generators:
                self.expr_stmts(g.iter, out)
                for c in g.ifs:
                    self.expr_stmts(c, inner)
            if isinstance(e, ast.DictComp):
                self.expr_stmts(e.key, inner)
                self.expr_stmts(e.value, inner)
            else:
                self.expr_stmts(e.elt, inner)
            if inner:
                out.append("Loop (%s)" % self.blk(inner))
            return
        if isinstance(e, ast.Lambda):
            inner = []
            self.expr_stmts(e.body, inner)
            if inner:
                raise Unsupported("lambda with stack effects at line %d" % e.lineno)
            return
        if isinstance(e, (ast.BoolOp, ast.IfExp)):
            # short-circuit: later operands may or may not be evaluated
            parts = e.values if isinstance(e, ast.BoolOp) else [e.test, e.body, e.orelse]
            self.expr_stmts(parts[0], out)
            for p in parts[1:]:
                inner = []
                self.expr_stmts(p, inner)
                if inner:
                    out.append("If2 (%s) Nil" % self.blk(inner))
            return
        for c in ast.iter_child_nodes(e):
            if isinstance(c, ast.expr):
                self.expr_stmts(c, out)
            elif isinstance(c, (ast.keyword,)):
                self.expr_stmts(c.value, out)
            elif isinstance(c, ast.comprehension):
                raise Unsupported("comprehension shape at line %d" % e.lineno)

    @staticmethod
    def blk(stmts):
        b = "Nil"
        for s in reversed(stmts):
            b = "Cons (%s) (%s)" % (s, b)
        return b

    # ---- statements ------------------------------------------------------------
    def stmts(self, body):
        out = []
        for s in body:
            self.stmt(s, out)
        return out

    def stmt(self, s, out):
        if isinstance(s, (ast.FunctionDef, ast.Pass, ast.Import, ast.ImportFrom, ast.Global, ast.Nonlocal)):
            return
        if isinstance(s, ast.Expr):
            self.expr_stmts(s.value, out)
        elif isinstance(s, (ast.Assign, ast.AnnAssign, ast.AugAssign)):
            targets = s.targets if isinstance(s, ast.Assign) else [s.target]
            for t in targets:
                for n in ast.walk(t):
                    if is_stack(n):
                        raise Unsupported("assignment to expand_stack at line %d" % s.lineno)
            self.expr_stmts(s.value, out)
        elif isinstance(s, ast.Assert):
            self.expr_stmts(s.test, out)
        elif isinstance(s, ast.Return):
            self.expr_stmts(s.value, out)
            out.append("Ret")
        elif isinstance(s, ast.Continue):
            out.append("Cont")
        elif isinstance(s, ast.Break):
            out.append("Brk")
        elif isinstance(s, ast.Raise):
            out.append("Abort")
        elif isinstance(s, ast.If):
            self.expr_stmts(s.test, out)
            out.append("If2 (%s) (%s)" % (self.blk(self.stmts(s.body)), self.blk(self.stmts(s.orelse))))
        elif isinstance(s, (ast.For, ast.While)):
            if s.orelse:
                raise Unsupported("loop-else at line %d" % s.lineno)
            pre = []
            self.expr_stmts(s.iter if isinstance(s, ast.For) else s.test, pre)
            if isinstance(s, ast.For):
                out.extend(pre)
                out.append("Loop (%s)" % self.blk(self.stmts(s.body)))
            else:
                out.extend(pre)
                out.append("Loop (%s)" % self.blk(self.stmts(s.body) + pre))
        elif isinstance(s, ast.Delete):
            for n in ast.walk(s):
                if is_stack(n):
                    raise Unsupported("del on expand_stack at line %d" % s.lineno)
        else:
            raise Unsupported("statement %s at line %d" % (type(s).__name__, s.lineno))


def find_expand():
    tree = ast.parse(SRC.read_text())
    for cls in tree.body:
        if isinstance(cls, ast.ClassDef) and cls.name == "Wtp":
            for f in cls.body:
                if isinstance(f, ast.FunctionDef) and f.name == "expand":
                    return f
    raise Unsupported("Wtp.expand not found")


HEADER = """(* GENERATED by translate/skeleton.py from %s on every run -- do not edit *)
From Coq Require Import List.
Import ListNotations.
From WTP Require Import Model.Skeleton.
"""


def generate() -> str:
    tr = Translator(find_expand())
    lines = [HEADER % SRC]
    names = []
    for f in tr.order:
        body = tr.blk(tr.stmts(f.node.body))
        lines.append("(* %d: %s (core.py:%d) *)" % (f.idx, f.name, f.node.lineno))
        lines.append("Definition fn_%s : blk :=\n  %s.\n" % (f.name, body))
        names.append("fn_" + f.name)
    lines.append("Definition funs : list blk := [%s]." % "; ".join(names))
    lines.append("Definition translated_ok : bool := true.")
    return "\n".join(lines) + "\n"


def fallback(err: str) -> str:
    """Translator failure: emit a skeleton that cannot pass the check."""
    return (HEADER % SRC) + "(* translator failed: %s *)\n" % err.replace("*)", "* )") + \
        "Definition funs : list blk := [Cons Push Nil].\nDefinition translated_ok : bool := false.\n"


if __name__ == "__main__":
    print(generate())
