"""Translator: which context fields (Wtp.__slots__) are written where
-> coq/Gen/GenFields.v.  Python-ast walk of the package sources; fail-closed on
setattr/vars()/__dict__ access to the context."""
import os
import ast
from pathlib import Path

SRC = Path(os.environ.get("VERIF_REPO", "/repo")) / "src/wikitextprocessor"
FILES = ["core.py", "parser.py", "luaexec.py", "parserfns.py", "node_expand.py", "dumpparser.py", "wikidata.py", "interwiki.py"]
CTX_NAMES = {"self", "ctx", "wtp"}
MUTATORS = {"append", "pop", "clear", "update", "extend", "insert", "remove", "add", "discard", "setdefault", "popitem",
            "appendleft", "popleft", "sort", "reverse"}
SETUP_FUNCS = {"__init__", "create_db", "init_namespace_data", "init_localization_data", "init_data_folder", "close_db_conn",
               "backup_db", "initialize_lua", "init_wikidata_cache"}


class Unsupported(Exception):
    pass


def ctx_attr(node):
    if isinstance(node, ast.Attribute) and isinstance(node.value, ast.Name) and node.value.id in CTX_NAMES:
        return node.attr
    # helper objects that hold the context as self.ctx (BegLineDisableManager)
    if isinstance(node, ast.Attribute) and isinstance(node.value, ast.Attribute) and node.value.attr in ("ctx", "wtp") \
            and isinstance(node.value.value, ast.Name) and node.value.value.id == "self":
        return node.attr
    return None


def writes_in(fn):
    out = set()
    for n in ast.walk(fn):
        targets = []
        if isinstance(n, ast.Assign):
            targets = n.targets
        elif isinstance(n, (ast.AugAssign, ast.AnnAssign)):
            targets = [n.target]
        elif isinstance(n, ast.Delete):
            targets = n.targets
        for t in targets:
            for tt in ast.walk(t) if isinstance(t, (ast.Tuple, ast.List)) else [t]:
                a = ctx_attr(tt)
                if a:
                    out.add(a)
                if isinstance(tt, ast.Subscript):
                    a = ctx_attr(tt.value)
                    if a:
                        out.add(a)
        if isinstance(n, ast.Call):
            f = n.func
            if isinstance(f, ast.Attribute) and f.attr in MUTATORS:
                a = ctx_attr(f.value)
                if a:
                    out.add(a)
            if isinstance(f, ast.Name) and f.id in ("setattr", "delattr") and n.args and isinstance(n.args[0], ast.Name) \
                    and n.args[0].id in CTX_NAMES:
                raise Unsupported("setattr on the context at %s:%d" % (fn.name, n.lineno))
        if isinstance(n, ast.Attribute) and n.attr == "__dict__" and isinstance(n.value, ast.Name) and n.value.id in CTX_NAMES:
            raise Unsupported("__dict__ of the context at line %d" % n.lineno)
    return out


def all_functions(tree):
    for n in ast.walk(tree):
        if isinstance(n, (ast.FunctionDef, ast.AsyncFunctionDef)):
            yield n


MEMO_DECORATORS = {"lru_cache", "cache", "cached_property", "memoize", "memoized", "cached"}


def decorator_name(d):
    if isinstance(d, ast.Call):
        d = d.func
    if isinstance(d, ast.Attribute):
        return d.attr
    if isinstance(d, ast.Name):
        return d.id
    return None


def memo_facts(tree, facts):
    """memoised functions (results kept between calls: state that start_page does not reset), the functions that write the
    pages table, and which function clears which memo"""
    import re
    for fn in all_functions(tree):
        if any(decorator_name(d) in MEMO_DECORATORS for d in fn.decorator_list):
            facts["memo"].add(fn.name)
        for n in ast.walk(fn):
            if isinstance(n, ast.Constant) and isinstance(n.value, str) and \
                    re.search(r"\b(INSERT\s+INTO|UPDATE|DELETE\s+FROM)\s+pages\b", n.value, re.I):
                facts["writers"].add(fn.name)
            if isinstance(n, ast.Call) and isinstance(n.func, ast.Attribute) and n.func.attr == "cache_clear" \
                    and isinstance(n.func.value, ast.Attribute):
                facts["clears"].add(fn.name + ">" + n.func.value.attr)
            if isinstance(n, ast.Call) and isinstance(n.func, ast.Attribute) and isinstance(n.func.value, ast.Name) \
                    and n.func.value.id in CTX_NAMES:
                facts["calls"].add(fn.name + ">" + n.func.attr)


def generate() -> str:
    slots = None
    facts = {"memo": set(), "writers": set(), "clears": set(), "calls": set()}
    start_page = set()
    prologue = set()
    processing = {}
    for fname in FILES:
        p = SRC / fname
        if not p.exists():
            continue
        tree = ast.parse(p.read_text())
        memo_facts(tree, facts)
        for cls in tree.body:
            if isinstance(cls, ast.ClassDef) and cls.name == "Wtp":
                for st in cls.body:
                    if isinstance(st, ast.Assign) and any(isinstance(t, ast.Name) and t.id == "__slots__" for t in st.targets):
                        slots = [e.value for e in st.value.elts]
        # nested functions are reached through their parents: only look at top-level and class-level defs
        tops = [n for n in tree.body if isinstance(n, ast.FunctionDef)]
        for cls in tree.body:
            if isinstance(cls, ast.ClassDef):
                tops += [n for n in cls.body if isinstance(n, ast.FunctionDef)]
        for fn in tops:
            w = writes_in(fn)
            if fn.name == "start_page" and fname == "core.py":
                start_page = w
            elif fn.name == "parse_encoded" and fname == "parser.py":
                # fields (re)initialised before the token loop
                pro = set()
                for st in fn.body:
                    if isinstance(st, ast.Try):
                        break
                    if isinstance(st, ast.Assign):
                        for t in st.targets:
                            a = ctx_attr(t)
                            if a:
                                pro.add(a)
                prologue = pro
                processing.setdefault(fname + ":" + fn.name, set()).update(w)
            elif fn.name in SETUP_FUNCS:
                continue
            else:
                if w:
                    processing.setdefault(fname + ":" + fn.name, set()).update(w)
    if slots is None:
        raise Unsupported("Wtp.__slots__ not found")
    written = set()
    for k, v in processing.items():
        written |= (v & set(slots))
    q = lambda l: "[" + "; ".join('"%s"' % x for x in sorted(l)) + "]"
    out = ["(* GENERATED by translate/fields.py from %s on every run -- do not edit *)" % SRC,
           "From Coq Require Import List String.", "Import ListNotations.", "Open Scope string_scope.",
           "Definition slots : list string := %s." % q(slots),
           "Definition start_page_resets : list string := %s." % q(start_page & set(slots)),
           "Definition parse_prologue_resets : list string := %s." % q(prologue & set(slots)),
           "Definition written_during_processing : list string := %s." % q(written),
           "(* functions whose results are kept between calls (lru_cache and the like), the functions that write the pages",
           "   table, and 'f>m' for every function f that calls m.cache_clear() *)",
           "Definition memoised_functions : list string := %s." % q(facts["memo"]),
           "Definition store_writers : list string := %s." % q(facts["writers"]),
           "Definition cache_clears : list string := %s." % q(facts["clears"]),
           "(* 'f>w' for every function f that calls the store writer w on the context *)",
           "Definition writer_calls : list string := %s." % q(c for c in facts["calls"] if c.split(">")[1] in facts["writers"]),
           "(* where each field is written:"]
    for f in sorted(written):
        out.append("   %s: %s" % (f, ", ".join(sorted(k for k, v in processing.items() if f in v))))
    out.append("*)")
    return "\n".join(out) + "\n"


def fallback(err):
    return ("(* translator failed: %s *)\nFrom Coq Require Import List String.\nImport ListNotations.\nOpen Scope string_scope.\n"
            "Definition slots : list string := [].\nDefinition start_page_resets : list string := [].\n"
            "Definition parse_prologue_resets : list string := [].\n"
            "Definition written_during_processing : list string := [\"TRANSLATOR-FAILED\"].\n"
            "Definition memoised_functions : list string := [\"TRANSLATOR-FAILED\"].\n"
            "Definition store_writers : list string := [].\nDefinition cache_clears : list string := [].\n"
            "Definition writer_calls : list string := [].\n") % err.replace("*)", "* )")


if __name__ == "__main__":
    print(generate())
