"""Worker process for C20.  argv: db_path spec_json.  spec: pages (list of texts), delay (s), gate {line k of create_db/
init_wikidata_cache/add_empty... : wait until file exists}, out (result file)."""
import json
import os
import sys
import time
import logging
logging.disable(logging.CRITICAL)

db_path, spec = sys.argv[1], json.loads(sys.argv[2])
from wikitextprocessor import Wtp  # noqa: E402

GATED = {"create_db", "init_wikidata_cache", "add_empty_sandbox_lua_module", "initialize_lua"}
count = [0]
gate = spec.get("gate")


def tracer(frame, event, arg):
    code = frame.f_code
    if "wikitextprocessor" not in code.co_filename or code.co_name not in GATED:
        return None

    def local(frame, event, arg):
        if event == "line":
            count[0] += 1
            if gate and count[0] == gate["line"]:
                open(gate["reached"], "w").write(str(frame.f_lineno))
                t0 = time.time()
                while not os.path.exists(gate["release"]) and time.time() - t0 < 30:
                    time.sleep(0.005)
        return local
    return local


res = {"outs": [], "error": None, "lines": 0}
try:
    if spec.get("barrier"):
        t0 = time.time()
        while not os.path.exists(spec["barrier"]) and time.time() - t0 < 30:
            time.sleep(0.001)
    time.sleep(spec.get("delay", 0))
    if gate or spec.get("count_lines"):
        sys.settrace(tracer)
    ctx = Wtp(db_path=db_path, quiet=True, quiet_output=True)
    for t in spec["pages"]:
        ctx.start_page("W")
        res["outs"].append(ctx.expand(t))
    sys.settrace(None)
    ctx.db_conn.close()
except BaseException as e:  # noqa
    import traceback
    tb = traceback.extract_tb(e.__traceback__)
    res["error"] = [type(e).__name__, str(e)[:120], tb[-1].name if tb else ""]
res["lines"] = count[0]
open(spec["out"], "w").write(json.dumps(res))
os._exit(0)
