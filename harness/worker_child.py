"""Worker process for C20.  argv: db_path spec_json.  spec: pages (list of texts), delay (s), gate {line k of create_db/
init_wikidata_cache/add_empty... : wait until file exists} or gate {page k: wait before expanding the k-th text},
iterate (keep a live get_all_pages() cursor while expanding, as in "for page in ctx.get_all_pages(): ..."), out (result file)."""
import json
import os
import sys
import time
import logging
logging.disable(logging.CRITICAL)

db_path, spec = sys.argv[1], json.loads(sys.argv[2])
from wikitextprocessor import Wtp  # noqa: E402

GATED = {"create_db", "init_wikidata_cache", "add_empty_sandbox_lua_module", "initialize_lua"}
count = [0]
line_fns = []
gate = spec.get("gate")


def tracer(frame, event, arg):
    code = frame.f_code
    if "wikitextprocessor" not in code.co_filename or code.co_name not in GATED:
        return None

    def local(frame, event, arg):
        if event == "line":
            count[0] += 1
            line_fns.append(code.co_name)
            if gate and count[0] == gate.get("line"):
                # a worker that is inside a transaction may hold the database's write lock: suspending it there for longer than
                # the others' busy timeout (5 s) is not a schedule the lock discipline admits, so the pause is limited to 1 s
                holder = frame.f_locals.get("wtp") or frame.f_locals.get("self") or frame.f_locals.get("ctx")
                conn = getattr(holder, "db_conn", None)
                in_txn = bool(getattr(conn, "in_transaction", False))
                open(gate["reached"], "w").write("%d txn=%d" % (frame.f_lineno, in_txn))
                res["gate_in_txn"] = in_txn
                t0 = time.time()
                while not os.path.exists(gate["release"]) and time.time() - t0 < (1.0 if in_txn else 30):
                    time.sleep(0.005)
        return local
    return local


res = {"outs": [], "error": None, "lines": 0}
try:
    if spec.get("barrier"):
        t0 = time.time()
        while not os.path.exists(spec["barrier"]) and time.time() - t0 < 30:
            time.sleep(0.001)
    time.sleep(spec.get("delay", 0))
    if gate or spec.get("count_lines"):
        sys.settrace(tracer)
    ctx = Wtp(db_path=db_path, quiet=True, quiet_output=True)
    cursor_pages = ctx.get_all_pages([0]) if spec.get("iterate") else None
    for k, t in enumerate(spec["pages"]):
        if cursor_pages is not None:
            next(cursor_pages, None)          # the loop's read cursor stays open while the page is processed
        if gate and gate.get("page") == k:
            open(gate["reached"], "w").write("page %d" % k)
            t0 = time.time()
            while not os.path.exists(gate["release"]) and time.time() - t0 < 30:
                time.sleep(0.005)
        ctx.start_page("W")
        res["outs"].append(ctx.expand(t))
    if cursor_pages is not None:
        cursor_pages.close()
    sys.settrace(None)
    ctx.db_conn.close()
except BaseException as e:  # noqa
    import traceback
    tb = traceback.extract_tb(e.__traceback__)
    res["error"] = [type(e).__name__, str(e)[:120], tb[-1].name if tb else ""]
res["lines"] = count[0]
if spec.get("count_lines"):
    res["line_fns"] = line_fns
open(spec["out"], "w").write(json.dumps(res))
os._exit(0)
