"""C03 — tables, HTML elements, links and template calls parse to their written structure."""
import json
import lib
from lib import cstr, clist

CELLS = ["c%d", "c%d {{a|x}}", "c%d [[l|t]]", "'''c%d'''", "''c%d''", "c%d <b>h</b>", "c%d word word", "c%d [http://x.y e]",
         "c%d {{a|[[l]]}}", "c%d", "c%d 12", "c%d <span class=\"s\">q</span>", "c%d {{#if:a|b}}", "{{lc:Foo}} c%d", "c%d {{uc:x}} t",
         "c%d {{PAGENAME}}", "c%d {{#switch:a|a=1|2}}", "c%d=1", "n=c%d", "c%d=x y=z", "n=1 c%d",
         # bracketed addresses with schemes other than http(s): (they are read back as text)
         "c%d [ftp://h.x/p lbl]", "[irc://h.x/c] c%d", "c%d [git://h.x/r.git r] t", "c%d [telnet://h.x]", "c%d [mailto:a@b.c m]",
         "c%d [//h.x/p l]", "c%d [notascheme:x y]"]
ANAMES = ["class", "style", "id", "colspan", "data-x", "lang", "rowspan", "title", "data_kind", "row.no", "cell~ref", "xml:lang",
          "nowrap", "hidden", "reversed", "open", "align", "dir"]
AVALS = ["x", "wikitable", "2", "a-b", "a_b", "r.s", "Zz9", ""]
INLINE_TAGS_SKIP = {"pre", "nowiki", "math", "hiero", "chem", "ce", "gallery", "ref", "references", "section", "noinclude",
                    "includeonly", "onlyinclude", "syntaxhighlight", "source", "score", "templatestyles", "poem", "imagemap",
                    "timeline", "inputbox", "categorytree", "graph", "mapframe", "maplink", "templatedata", "indicator",
                    "charinsert", "dynamicpagelist", "rss", "langconvert", "translate", "tvar", "languages", "phonos",
                    "html", "body", "head", "title", "script", "style", "form", "input", "select", "option", "textarea", "button"}


# |-separated arguments of links and template calls, with the flat text their parsed form has
ARG_ATOMS = {"a": "a", "b c": "b c", "k=v": "k=v", " x ": " x ", "1=z": "1=z", "t{{a|y}}": "t<TEMPLATE>", "[[l]]": "<LINK>", "": "",
             "q r": "q r", "[[l|b [x] c]]": "<LINK>", "[[a [x] b]]": "<LINK>", "[x]": "[x]", "[http://x.y e]": "<URL>",
             "[[l|see [http://x.y s] now]]": "<LINK>", "k=[[l|b [1] c]]": "k=<LINK>", "{{a|[[l|[y]]]}}": "<TEMPLATE>",
             "{{{1|d}}}": "<TEMPLATE_ARG>", "{{#if:a|b}}": "<PARSER_FN>", "x{{lc:Foo}}": "x<PARSER_FN>", "{{PAGENAME}}": "<PARSER_FN>",
             # line breaks inside a call: what follows them is argument text, not a list, a heading or preformatted text --
             # also after a bracketed address earlier in the same call
             "see [http://x.y e]\n* b": "see <URL>\n* b", "[http://x.y e]\n": "<URL>\n", " q = c\n": " q = c\n", "\n* li": "\n* li",
             "\n: dd": "\n: dd", "\n x": "\n x", "[http://x.y]\n# n": "<URL>\n# n"}


def gen_attrs(rng, maxn=3):
    names = rng.sample(ANAMES, rng.randint(0, maxn))
    # values: from the pool, or the attribute's own name (nowrap="nowrap"), or its upper-case form
    return [[n, (n if n.isalpha() else "x") if rng.random() < 0.15 else (n.upper() if n.isalpha() and rng.random() < 0.05 else rng.choice(AVALS))]
            for n in names]


def render_attrs(attrs, rng=None):
    out = []
    for k, v in attrs:
        if v == "":
            out.append(k)
        else:
            q = rng.choice(['"', "'", ""]) if rng else '"'
            out.append("%s=%s%s%s" % (k, q, v, q))
    return " ".join(out)


def gen_table(rng, cid):
    r, c = rng.randint(1, 4), rng.randint(1, 4)
    style = rng.choice(["lines", "double", "mixed"])
    t = {"attrs": gen_attrs(rng), "caption": ("cap%d" % cid[0]) if rng.random() < 0.4 else None, "rows": [], "style": style,
         "pad": rng.choice(["", " ", " "])}
    for _ in range(r):
        row = {"attrs": gen_attrs(rng, 2), "cells": []}
        hdr = rng.random() < 0.3
        for ci in range(c):
            cid[0] += 1
            if style == "mixed":
                # cells are written in lines; a line's first mark decides the kind of all its cells
                newline = ci == 0 or rng.random() < 0.5
                if newline:
                    hdr = rng.random() < 0.4
            else:
                newline = style == "lines" or ci == 0
            row["cells"].append({"header": hdr, "newline": newline, "sep": rng.choice(["||", "!!"]) if hdr else "||", "attrs": gen_attrs(rng, 2) if style == "lines" or rng.random() < 0.5 else [],
                                 "text": rng.choice(CELLS) % cid[0], "id": cid[0]})
        t["rows"].append(row)
    return t


def render_table(t, rng):
    out = ["{|" + (" " + render_attrs(t["attrs"], rng) if t["attrs"] else "") + "\n"]
    if t["caption"]:
        out.append("|+ " + t["caption"] + "\n")
    for row in t["rows"]:
        out.append("|-" + (" " + render_attrs(row["attrs"], rng) if row["attrs"] else "") + "\n")
        mark = "!" if row["cells"][0]["header"] else "|"
        pad = t.get("pad", " ")
        if t["style"] == "mixed":
            line = ""
            for cell in row["cells"]:
                a = render_attrs(cell["attrs"], rng)
                body = (a + " | " if a else "") + cell["text"]
                if cell["newline"]:
                    if line:
                        out.append(line + "\n")
                    line = ("!" if cell["header"] else "|") + pad + body
                else:
                    line += pad + cell["sep"] + pad + body
            out.append(line + "\n")
        elif t["style"] == "lines":
            for cell in row["cells"]:
                a = render_attrs(cell["attrs"], rng)
                out.append(mark + (pad + a + " | " if a else pad) + cell["text"] + "\n")
        else:
            parts = []
            for cell in row["cells"]:
                a = render_attrs(cell["attrs"], rng)
                parts.append((a + " | " if a else "") + cell["text"])
            out.append(mark + pad + (pad + mark * 2 + pad).join(parts) + "\n")
    out.append("|}\n")
    return "".join(out)


def ids_of(node, prefix="c"):
    import re
    txt = json.dumps(node)
    return [int(x) for x in re.findall(r"\b" + prefix + r"(\d+)\b", txt)]


def abstract_table(node):
    """TABLE node -> comparable structure"""
    rows = []
    cap = None
    for ch in node.get("c", []):
        if isinstance(ch, str):
            if ch.strip():
                rows.append(["STRAY-TEXT", ch[:30]])
            continue
        if ch["k"] == "TABLE_CAPTION":
            cap = ids_of(ch, "cap")
        elif ch["k"] == "TABLE_ROW":
            cells = []
            for ce in ch.get("c", []):
                if isinstance(ce, str):
                    if ce.strip():
                        cells.append(["STRAY-TEXT", ce[:30]])
                    continue
                cells.append([ce["k"], sorted(ce.get("at", {}).items()), ids_of(ce)])
            rows.append([sorted(ch.get("at", {}).items()), cells])
        else:
            rows.append(["UNEXPECTED", ch["k"]])
    return {"attrs": sorted(node.get("at", {}).items()), "caption": cap, "rows": rows}


def expected_table(t):
    rows = []
    for row in t["rows"]:
        rows.append([sorted((k, v) for k, v in row["attrs"]),
                     [["TABLE_HEADER_CELL" if c["header"] else "TABLE_CELL", sorted((k, v) for k, v in c["attrs"]), [c["id"]]]
                      for c in row["cells"]]])
    cap = None
    if t["caption"]:
        cap = ids_of(t["caption"], "cap")
    return {"attrs": sorted((k, v) for k, v in t["attrs"]), "caption": cap, "rows": rows}


def jnorm(x):
    return json.loads(json.dumps(x))


def find_kind(node, kind):
    out = []
    if isinstance(node, dict):
        if node["k"] == kind:
            out.append(node)
        for c in node.get("c", []):
            out += find_kind(c, kind)
        for l in node.get("a", []):
            for c in l:
                out += find_kind(c, kind)
    return out


def flat(l):
    return "".join(x if isinstance(x, str) else "<%s>" % x["k"] for x in l)


def gen_attr_string(rng):
    parts = []
    for _ in range(rng.randint(0, 4)):
        r = rng.random()
        k = rng.choice(ANAMES + ["x1", "-lead", "a.b", "é"])
        v = rng.choice(AVALS + ["a b", "q\"r", "it's", "<x>", "`t`", "=", "a=b"])
        if r < 0.35:
            parts.append('%s="%s"' % (k, v.replace('"', "")))
        elif r < 0.5:
            parts.append("%s='%s'" % (k, v.replace("'", "")))
        elif r < 0.7:
            parts.append("%s=%s" % (k, v))
        elif r < 0.8:
            parts.append(k)
        elif r < 0.9:
            parts.append("%s = \"%s\"" % (k, v.replace('"', "")))
        else:
            parts.append(rng.choice(["=", "\"", "/", ">", "'x", "k=\"unclosed", " ", "\t", "a=/b"]))
    return rng.choice(["", " "]) + rng.choice([" ", "  ", "\n"]).join(parts) + rng.choice(["", " ", "/"])


# ---------------------------------------------------------------- HTML elements whose end tags are left out
def gen_implied(rng, cid):
    """an HTML table / list / definition list in which the optional end tags (td th tr li dt dd) are omitted at random;
    returns (text, skeleton) where skeleton = [tag, child, ...] and a child is a skeleton or a text id"""
    def leaf():
        cid[0] += 1
        return "c%d" % cid[0]

    def end(tag, always=False):
        return "</%s>" % tag if always or rng.random() < 0.5 else ""

    kind = rng.choice(["table", "table", "ul", "ol", "dl"])
    if kind == "table":
        text, sk = "<table>", ["table"]
        for _ in range(rng.randint(1, 3)):
            row = ["tr"]
            text += "<tr>"
            for _ in range(rng.randint(1, 3)):
                ct = rng.choice(["td", "td", "th"])
                l = leaf()
                inner = [l]
                body = l
                if rng.random() < 0.2:
                    l2 = leaf()
                    body += "<b>%s</b>" % l2
                    inner.append(["b", l2])
                text += "<%s>%s%s" % (ct, body, end(ct))
                row.append([ct] + inner)
            text += end("tr")
            sk.append(row)
        return text + "</table>", sk
    if kind in ("ul", "ol"):
        def lst(depth):
            text, sk = "<%s>" % kind, [kind]
            for _ in range(rng.randint(1, 3)):
                l = leaf()
                item = ["li", l]
                text += "<li>" + l
                if depth < 1 and rng.random() < 0.25:
                    t2, s2 = lst(depth + 1)
                    text += t2
                    item.append(s2)
                text += end("li")
                sk.append(item)
            return text + "</%s>" % kind, sk
        return lst(0)
    text, sk = "<dl>", ["dl"]
    for _ in range(rng.randint(1, 4)):
        tg = rng.choice(["dt", "dd"])
        l = leaf()
        text += "<%s>%s%s" % (tg, l, end(tg))
        sk.append([tg, l])
    return text + "</dl>", sk


def html_skeleton(node):
    """[tag, children...] of the HTML elements of a parse tree, texts reduced to the ids they hold"""
    import re as _re
    out = []
    for c in node.get("c", []):
        if isinstance(c, str):
            out += _re.findall(r"c\d+", c)
        elif c.get("k") == "HTML":
            out.append([c.get("s")] + html_skeleton(c))
        else:
            out += html_skeleton(c)
    return out


def check_implied_end_tags(run, rng, quick):
    cid = [0]
    cases = [gen_implied(rng, cid) for _ in range(400 if quick else 8000)]
    res = lib.run_impl("parse_many", [{"texts": [t for t, _ in cases[i:i + 100]]} for i in range(0, len(cases), 100)], shards=lib.NCPU)
    outs = [o for r in res for o in (r.get("outs") or [{"raised": r.get("outcome", "?")}] * 100)]
    for (t, sk), o in zip(cases, outs):
        run.count(["implied-end", t], t.count("<") >= 5, "html-implied-end-tags")
        if "raised" in o:
            run.property_failure("c03:parse-raised:%s" % o["raised"], "parse raised on %r" % t, t)
            continue
        got = html_skeleton(o["tree"])
        if got != [sk]:
            run.property_failure("c03:html:implied-end-tags:%s" % sk[0],
                                 "elements with omitted optional end tags: %r parsed to %s, written structure %s"
                                 % (t, json.dumps(got)[:400], json.dumps([sk])[:400]), t)


def run(run):
    run.rule = ("(a) tables r x c (1-4 each) in one-cell-per-line and ||/!! styles, optional caption, URL-safe attribute maps "
                "(0-3 attributes, three quoting styles) on table, rows and cells, 12 cell contents; (b) every paired tag of the "
                "allowed-tag table (minus extension/structural tags) with attribute maps and inline content; (c) links, external "
                "links and template calls with 0-5 arguments; (d) attribute strings (well-formed and malformed) through "
                "parse_attrs vs the Coq scanner model; (e) written tables of the grammar of c03_tables_parse_to_written_grid (rows, "
                "cells per line or ||/!! separated, caption, attributes everywhere, tables nested two deep) and soups of 1-16 table "
                "tokens, the real table skeleton vs Model.Tables.parse; (f) template calls, argument references and links with 1-6 "
                "plain arguments (empty ones included) vs Model.VbarSplit; (g) HTML tables, lists and definition lists whose optional "
                "end tags (td th tr li dt dd) are omitted at random vs the written element structure; non-trivial: (a) >= 2 cells, (b)-(d) at least one "
                "attribute/argument, (e) >= 4 tokens, (f) >= 2 bars; distinct by JSON hash")
    run.trusted = [
        "Coq 8.16.1 kernel; vm_compute evaluates Model.Attrs.parse_attrs on the attribute strings",
        "axioms: none",
        "model coq/Model/Attrs.v tied to parser.py:parse_attrs by direct calls on generated strings",
        "model coq/Model/Tables.v (the table handlers as a machine over the parser stack, text abstracted to atoms) tied to "
        "parser.py by comparing, inside Coq, what the machine builds with the table skeleton of the real parse tree on written "
        "tables and on arbitrary soups of table tokens; check_for_attributes' second branch is outside the machine (counted)",
        "model coq/Model/VbarSplit.v tied to core.py:_encode/vbar_split through the argument lists of real template calls, "
        "argument references and links",
        "source pins (Gen/GenPins.v) for parse_attrs and the eleven table handler functions",
        "HTML element / cell-content / link structure beyond these models is decided by execution against the structure the "
        "generator wrote (oracle); the tokenizer, tag_fn and the encoder are exercised, not modelled",
    ]
    run.prove()
    rng = run.rng
    quick = run.tier == "quick"
    texts, checks = [], []
    cid = [0]
    for _ in range(600 if quick else 6000):
        t = gen_table(rng, cid)
        texts.append(render_table(t, rng)); checks.append(("table", t))
    info = lib.run_impl("paired_tags", [{}], shards=1)[0]
    tags = [t for t in info.get("tags", []) if t not in INLINE_TAGS_SKIP]
    run.extra["paired_tags_covered"] = tags
    for tag in tags:
        for _ in range(3 if quick else 12):
            attrs = gen_attrs(rng)
            cid[0] += 1
            inner = rng.choice(CELLS) % cid[0]
            texts.append("<%s%s>%s</%s>" % (tag, (" " + render_attrs(attrs, rng)) if attrs else "", inner, tag))
            checks.append(("html", {"tag": tag, "attrs": attrs, "id": cid[0]}))
    for _ in range(500 if quick else 5000):
        args = [rng.choice(list(ARG_ATOMS)) for _ in range(rng.randint(0, 5))]
        kind = rng.choice(["link", "template", "ext"])
        # on some pages the same construct also stands as a literal example, disabled by <nowiki/> between its opening
        # characters: that twin stays text, the live one is still a node with the written arguments (either order)
        def with_twin(t):
            if rng.random() < 0.25:
                twin = t[0] + "<nowiki/>" + t[1:]
                return (twin + " " + t if rng.random() < 0.5 else t + " " + twin), True
            return t, False
        if kind == "link":
            args = [a if "[" not in a and "\n" not in a else "l" for a in args]
            t, tw = with_twin("[[Target" + "".join("|" + a for a in args) + "]]")
            texts.append(t); checks.append(("link", ["Target"] + args) if not tw else ("link-twin", ["Target"] + args))
        elif kind == "template":
            t, tw = with_twin("{{tpl" + "".join("|" + a for a in args) + "}}")
            texts.append(t); checks.append(("template", ["tpl"] + args) if not tw else ("template-twin", ["tpl"] + args))
        else:
            txt = rng.choice(["", "text", "two words", "''i''"])
            texts.append("[http://x.y/p" + (" " + txt if txt else "") + "]"); checks.append(("ext", txt))
    chunks = [texts[i:i + 150] for i in range(0, len(texts), 150)]
    res = lib.run_impl("parse_many", [{"texts": c} for c in chunks], shards=lib.NCPU)
    outs = [o for r in res for o in r["outs"]]
    # extension tags (a context created with extension_tags=...): the element itself, built-in elements directly inside
    # it, it inside built-in elements and table cells
    ext = {"foo": {"parents": ["phrasing"], "content": ["phrasing"]},
           "gadget": {"parents": ["flow"], "content": ["flow"]}}
    etexts, echecks = [], []
    for _ in range(150 if quick else 1500):
        attrs = gen_attrs(rng)
        cid[0] += 1
        a = (" " + render_attrs(attrs, rng)) if attrs else ""
        etag, inner_tag, outer_tag = rng.choice([("foo", "span", "span"), ("foo", "b", "i"), ("foo", "i", "div"),
                                                 ("gadget", "div", "div"), ("gadget", "span", "div"), ("gadget", "p", "div")])
        shape = rng.choice(["alone", "builtin-inside", "inside-builtin", "in-cell", "both"])
        body = "c%d" % cid[0]
        if shape == "alone":
            t = "<%s%s>%s</%s>" % (etag, a, body, etag)
        elif shape == "builtin-inside":
            t = "<%s%s>%s <%s class=\"k\">x</%s> y</%s>" % (etag, a, body, inner_tag, inner_tag, etag)
        elif shape == "inside-builtin":
            t = "<%s><%s%s>%s</%s></%s>" % (outer_tag, etag, a, body, etag, outer_tag)
        elif shape == "in-cell":
            t = "{|\n| <%s%s>%s <%s>x</%s></%s> || y\n|}" % (etag, a, body, inner_tag, inner_tag, etag)
        else:
            t = "<%s><%s%s>%s <%s>x</%s></%s></%s>" % (outer_tag, etag, a, body, inner_tag, inner_tag, etag, outer_tag)
        etexts.append(t)
        echecks.append({"tag": etag, "attrs": attrs, "id": cid[0], "inner": inner_tag if shape in ("builtin-inside", "in-cell", "both") else None,
                        "outer": outer_tag if shape in ("inside-builtin", "both") else None})
    eres = lib.run_impl("parse_many", [{"texts": etexts[i:i + 100], "extension_tags": ext} for i in range(0, len(etexts), 100)])
    eouts = [o for r in eres for o in (r.get("outs") or [{"raised": r.get("outcome", "?")}] * 100)]
    for t, exp, o in zip(etexts, echecks, eouts):
        run.count(["ext", t], True, "extension-tag")
        if "raised" in o:
            run.property_failure("c03:parse-raised:%s" % o["raised"], "parse raised on %r: %r" % (t, o), t)
            continue
        tree = o["tree"]
        els = [e for e in find_kind(tree, "HTML") if e.get("s") == exp["tag"]]
        ok = len(els) == 1 and sorted(els[0].get("at", {}).items()) == sorted((k, v) for k, v in exp["attrs"]) \
            and exp["id"] in ids_of(els[0])
        if ok and exp["inner"]:
            ok = any(e.get("s") == exp["inner"] for e in find_kind(els[0], "HTML") if e is not els[0])
        if ok and exp["outer"]:
            outs_ = [e for e in find_kind(tree, "HTML") if e.get("s") == exp["outer"]]
            ok = any(any(x is els[0] for x in find_kind(e, "HTML")) for e in outs_)
        import re as _re2
        odd = [k for k, _ in exp["attrs"] if not _re2.fullmatch(r"[-a-zA-Z0-9:]+", k)]
        if not ok and odd and not els:
            run.property_failure("c03:html:attribute-name-outside-tokenizer-class",
                                 "<%s> with attribute name(s) %r is not recognised as an element" % (exp["tag"], odd), t)
        elif not ok:
            run.property_failure("c03:extension-tag:%s" % exp["tag"],
                                 "extension element <%s> (context created with extension_tags) parsed as %s" % (exp["tag"], json.dumps(tree)[:500]), t)
    for t, (kind, exp), o in zip(texts, checks, outs):
        if kind == "table":
            ncell = sum(len(r["cells"]) for r in exp["rows"])
            run.count(["table", t], ncell >= 2, "table:" + exp["style"])
        else:
            run.count([kind, t], True, kind)
        if "raised" in o:
            run.property_failure("c03:parse-raised:%s" % o["raised"], "parse raised on %r" % t, t)
            continue
        tree = o["tree"]
        if kind == "table":
            tabs = find_kind(tree, "TABLE")
            if len(tabs) != 1:
                run.property_failure("c03:table:count", "%d TABLE nodes for %r" % (len(tabs), t), t)
                continue
            got, want = jnorm(abstract_table(tabs[0])), jnorm(expected_table(exp))
            if got != want:
                what = "caption" if got["caption"] != want["caption"] and got["rows"] == want["rows"] else (
                    "attrs" if [r[1] if len(r) > 1 else r for r in got["rows"]] == [r[1] for r in want["rows"]] else "cells")
                run.property_failure("c03:table:%s:%s" % (what, exp["style"]),
                                     "table structure %s differs from the written one %s" % (json.dumps(got)[:500], json.dumps(want)[:500]), t)
        elif kind == "html":
            els = [e for e in find_kind(tree, "HTML") if e.get("s") == exp["tag"]]
            ok = len(els) >= 1 and sorted(els[0].get("at", {}).items()) == sorted((k, v) for k, v in exp["attrs"]) \
                and exp["id"] in ids_of(els[0])
            import re as _re
            odd = [k for k, _ in exp["attrs"] if not _re.fullmatch(r"[-a-zA-Z0-9:]+", k)]
            outer = [e for e in els if exp["id"] in ids_of(e)]
            stayed_text = any(isinstance(c, str) and ("<%s " % exp["tag"]) in c for c in tree.get("c", []))
            if not ok and odd and not outer and stayed_text:
                run.property_failure("c03:html:attribute-name-outside-tokenizer-class",
                                     "<%s> with attribute name(s) %r is not recognised as an element" % (exp["tag"], odd), t)
            elif not ok:
                run.property_failure("c03:html:%s" % exp["tag"], "element <%s> parsed as %s" % (exp["tag"], json.dumps(tree)[:400]), t)
        elif kind in ("link", "template", "link-twin", "template-twin"):
            twin = kind.endswith("-twin")
            kind = kind.split("-")[0]
            k = "LINK" if kind == "link" else "TEMPLATE"
            ns = [n for n in find_kind(tree, k) if n.get("a") and flat(n["a"][0]) == exp[0]]
            if twin and len(ns) > 1:
                run.property_failure("c03:%s:disabled-twin-became-a-node" % kind,
                                     "the <nowiki/>-disabled copy of the construct was parsed as a node too: %s" % json.dumps(tree)[:300], t)
                continue
            if not ns:
                run.property_failure("c03:%s:missing" % kind, "no %s node for %r: %s" % (k, t, json.dumps(tree)[:300]), t)
                continue
            got = [flat(a) for a in ns[0]["a"]]
            want = [ARG_ATOMS.get(a, a) for a in exp]
            if got != want:
                run.property_failure("c03:%s:args" % kind, "arguments %r, written %r" % (got, want), t)
        else:
            ns = find_kind(tree, "URL")
            ok = len(ns) == 1 and flat(ns[0]["a"][0]) == "http://x.y/p" and \
                (len(ns[0]["a"]) == (2 if exp else 1))
            if not ok:
                run.property_failure("c03:ext", "external link parsed as %s" % json.dumps(tree)[:300], t)
    check_implied_end_tags(run, rng, quick)
    # ---- (d) parse_attrs vs model
    strings = [gen_attr_string(rng) for _ in range(1500 if quick else 20000)]
    strings += [render_attrs(gen_attrs(rng, 4), rng) for _ in range(500 if quick else 5000)]
    ares = lib.run_impl("parse_attrs", [{"strings": strings[i:i + 500]} for i in range(0, len(strings), 500)])
    aouts = [o for r in ares for o in r["outs"]]
    pair = lambda kv: "(%s, %s)" % (cstr(kv[0]), cstr(kv[1]))
    coq_cases = ["(%s, %s)" % (cstr(s), clist(o, pair, "str * str")) for s, o in zip(strings, aouts)]
    for s in strings:
        run.count(["attrs", s], "=" in s, "attr-string")
    bad, errs = lib.coq_eval_failing("c03a", ["Base.Str", "Model.Attrs"], "str * list (str * str)", coq_cases,
                                     "fun '(s, o) => attrs_eqb (parse_attrs s) o", extra_defs="Open Scope N_scope.\n")
    for e in errs:
        run.correspondence_break("model evaluation failed", None, error=e)
    for b in bad:
        run.correspondence_break("Model.Attrs.parse_attrs disagrees with parser.parse_attrs",
                                 {"string": strings[b], "impl": aouts[b]})
    run.extra["traces_validated_against_impl"] = len(coq_cases)
    import c03_tables
    c03_tables.check(run)
    check_vbar_split(run)


def check_vbar_split(run):
    """Model/VbarSplit.v against the argument lists of real template calls, argument references and links."""
    rng = run.rng
    # (arguments that are nothing but blanks are dropped by the tokenizer when the argument is re-parsed: C14's known finding)
    atoms = ["a", "b c", " x ", "", "k=v", "1", "z\nw", "é", "-", "}", "{", "]", "'", "="]
    cases, texts = [], []
    for _ in range(400 if run.tier == "quick" else 6000):
        args = [rng.choice(atoms) for _ in range(rng.randint(1, 6))]
        kind = rng.choice(["T", "A", "L"])
        name = rng.choice(["tt", "Foo bar", "x1"])
        inner = "|".join([name] + args)
        if kind == "L" and ("}" in inner or "{" in inner or "]" in inner or "\n" in inner):
            kind = "T"
        if ("}" in inner or "{" in inner) and kind != "L":
            args = [a for a in args if "{" not in a and "}" not in a] or ["a"]
            inner = "|".join([name] + args)
        texts.append({"T": "{{%s}}", "A": "{{{%s}}}", "L": "[[%s]]"}[kind] % inner)
        cases.append((kind, inner))
    res = lib.run_impl("parse_many", [{"texts": texts[i:i + 200]} for i in range(0, len(texts), 200)], shards=lib.NCPU)
    outs = [o for r in res for o in r.get("outs", [])]
    coq_cases, idx = [], []
    want_kind = {"T": ("TEMPLATE", "PARSER_FN"), "A": ("TEMPLATE_ARG",), "L": ("LINK",)}
    for i, ((kind, inner), o) in enumerate(zip(cases, outs)):
        run.count(["vbar", texts[i]], inner.count("|") >= 2, "argument-list")
        ch = o.get("tree", {}).get("c", []) if "raised" not in o else None
        node = next((c for c in (ch or []) if isinstance(c, dict) and c.get("k") in want_kind[kind]), None)
        if node is None:
            continue
        largs = ["".join(x for x in l if isinstance(x, str)) if all(isinstance(x, str) for x in l) else None for l in node.get("a", [])]
        if None in largs:
            continue
        coq_cases.append("(%s, %s)" % (cstr(inner), clist(largs, cstr, "str")))
        idx.append(i)
    bad, errs = lib.coq_eval_failing("c03v", ["Base.Str", "Model.VbarSplit"], "str * list str", coq_cases,
                                     "fun '(v, real) => match vbar_split v with Some a => strs_eqb a real | None => true end",
                                     extra_defs="Open Scope N_scope.\n", chunk=300)
    for e in errs:
        run.correspondence_break("model evaluation failed (vbar_split)", None, error=e)
    for b in bad:
        run.correspondence_break("Model.VbarSplit.vbar_split disagrees with the argument list the parser builds", texts[idx[b]])
    run.extra["argument_lists_validated_against_impl"] = len(coq_cases)


def replay(data):
    case = data.get("case") or data["breaks"][0]["case"]
    if isinstance(case, dict):
        print(lib.run_impl("parse_attrs", [{"strings": [case["string"]]}])[0])
    else:
        print(json.dumps(lib.run_impl("parse_many", [{"texts": [case]}])[0])[:3000])
    return 0
