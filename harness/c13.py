"""C13 — selective expansion expands exactly the selected templates and honours the hooks."""
import json
import lib
import regen
import gen_wt as G
import c04


def make_case(rng):
    # (calls whose name is itself the result of a parser function are only generated with parser functions switched on: with
    # expand_parserfns=False the name of such a call is an unexpanded call, which is outside the property's grammar of
    # "calls with a name and arguments" and lands in the known late-expansion findings in ways the classifier does not follow)
    parserfns = rng.random() < 0.6
    c = c04.make_case(rng, flags={"links": True, "computed_names": parserfns})
    if rng.random() < 0.35:
        # the same call text more than once on the page (identical texts share internal bookkeeping; every occurrence is a
        # call of its own for the hooks)
        calls = [it for it in c["page_ast"] if not isinstance(it, int) and it[0] == "T"]
        if calls:
            dup = rng.choice(calls)
            extra = []
            for _ in range(rng.randint(1, 2)):
                extra += G.txt(rng.choice([" ", " and ", "\n", "x"])) + [dup]
            c["page_ast"] = list(c["page_ast"]) + extra
            c["page"] = G.render(c["page_ast"])
    names = [t[0] for t in c["lib_ast"]]
    call_names = G.NAMES[:len(names)]
    for t, tt in zip(c["lib_ast"], c["lib"]):
        pre = rng.random() < 0.3
        t[2] = pre
        tt[2] = pre
    o = {"pre_expand": rng.random() < 0.8, "parserfns": parserfns}
    pick = lambda: [n for n in call_names + ["nosuch"] if rng.random() < 0.4]
    mode = rng.choice(["none", "expand", "not", "both"])
    if mode in ("expand", "both"):
        o["expand_names"] = pick()
    if mode in ("not", "both"):
        o["not_expand_names"] = pick()
    if rng.random() < 0.5:
        o["tfn"] = True
        o["tfn_ret"] = {n: "<T:%s>" % n for n in call_names + ["nosuch"] if rng.random() < 0.3}
    if rng.random() < 0.4:
        o["pfn"] = True
        o["pfn_ret"] = {n: rng.choice(["<P:%s>" % n, "*P", ""]) for n in call_names if rng.random() < 0.3}
    c["opts"] = o
    return c


def identity_case(rng):
    """Nothing selected and parser functions off: the text must come back unchanged."""
    c = c04.make_case(rng, flags={"links": True})
    c["opts"] = {"pre_expand": True, "parserfns": False}
    return c


def run(run):
    run.rule = ("libraries and pages from the expansion grammar x selections (templates_to_expand / templates_to_not_expand "
                "subsets incl. None, need_pre_expand flags per template) x switches (pre_expand, expand_parserfns) x hooks "
                "(template_fn / post_template_fn returning None or a marker per template name); plus identity cases (nothing "
                "selected, parser functions off); plus pages of text and flat calls under selections vs Model.FlatCall.page_result_sel; "
                "non-trivial = at least two calls; distinct by JSON hash")
    run.trusted = [
        "Coq 8.16.1 kernel; vm_compute to evaluate Model.Expand (selection, switches, hooks) on the encoded pages",
        "axioms: none",
        "model coq/Model/Expand.v tied to core.py:Wtp.expand (check_template_need_expand, _unexpanded_template re-emission, "
        "expand_parserfns early return, template_fn/post_template_fn call sites) by output comparison",
        "reference semantics with selection and hook log harness/gen_wt.py:Ref decides property failures",
    ]
    errs = regen.regen(["GenData"])
    for k, v in errs.items():
        run.correspondence_break("translator %s failed" % k, None, error=v)
    run.prove()
    rc, out = lib.coq_make(["Gen/GenData.vo", "Model/Expand.vo", "Model/FlatCall.vo"])
    if rc != 0:
        run.correspondence_break("Gen/GenData.v or Model/Expand.v does not build", None, error=out[-1500:])
    n = 1200 if run.tier == "quick" else 20000
    cases = [make_case(run.rng) for _ in range(n)]
    c04.run_cases(run, cases, "sel")
    check_twins(run, run.rng, run.tier == "quick")
    check_invoke_off(run, run.rng, run.tier == "quick")
    check_reentrant(run, run.rng, run.tier == "quick")
    flat_selection(run, run.tier == "quick")
    if_switched_off(run, run.tier == "quick")
    idc = [identity_case(run.rng) for _ in range(200 if run.tier == "quick" else 4000)]
    res = c04.run_cases(run, idc, "selid", use_oracle=False)
    for c, r in zip(idc, res):
        if r.get("outcome") != "ok":
            continue
        # page-level {{{x|d}}} is replaced by its default and <nowiki> is entity-quoted even with nothing selected:
        # both are outside the identity clause's grammar
        if "{{{" in c["page"] or "<nowiki" in c["page"]:
            continue
        import re as _re
        squash = lambda t: _re.sub(r"\s+", "", t).lower()
        if r["out"] != c["page"] and "{{#" in c["page"] and squash(r["out"]) == squash(c["page"]):
            run.property_failure("c13:identity:whitespace-in-unexpanded-parser-function",
                                 "%r came back as %r" % (c["page"], r["out"]),
                                 {k: c[k] for k in ("lib", "page", "opts", "title")})
        elif r["out"] != c["page"]:
            run.property_failure("c13:identity", "nothing selected, parser functions off: %r came back as %r"
                                 % (c["page"], r["out"]), {k: c[k] for k in ("lib", "page", "opts", "title")})
    run.extra["traces_validated_against_impl"] = run.evaluations


def twin_cases(rng, n):
    """A call and its display-only twin (the same text with <nowiki/> between its braces) on one page: the twin must stay text and
    must not change what happens to the real call.  Metamorphic reference: the same page with a twin that differs by a token."""
    out = []
    tok = "Qz9"
    for _ in range(n):
        c = make_case(rng)
        names = [t[0] for t in c["lib"]]
        name = rng.choice([nm[:1].lower() + nm[1:] for nm in names] + ["nosuch"])
        arg = rng.choice(["x", "k=v", " y ", ""])
        kind = rng.choice(["call", "call", "param"])
        if kind == "call":
            real = "{{%s|%s}}" % (name, arg)
            twin = lambda a: rng_choice_form("{{%s|%s}}" % (name, a))
        else:
            real = "{{{1|%s}}}" % arg
            twin = lambda a: rng_choice_form("{{{1|%s}}}" % a)
        form = rng.choice(["open", "close"])

        def rng_choice_form(text):
            return ("{<nowiki/>" + text[1:]) if form == "open" else (text[:-1] + "<nowiki/>}")
        order = rng.random() < 0.5
        fill = [rng.choice(["a ", " b ", "\n", "''i'' ", "c"]) for _ in range(3)]

        def page(tw):
            parts = [tw, real] if order else [real, tw]
            if rng_extra:
                parts.append(real)
            return fill[0] + parts[0] + fill[1] + parts[1] + fill[2] + "".join(parts[2:])
        rng_extra = rng.random() < 0.3
        base = {"lib": c["lib"], "opts": c["opts"], "title": "Tt"}
        out.append((dict(base, page=page(twin(arg))), dict(base, page=page(twin(arg + tok))), tok))
    return out


def check_twins(run, rng, quick):
    tw = twin_cases(rng, 150 if quick else 4000)
    flat = [x for a, b, _ in tw for x in (a, b)]
    res = lib.run_impl("expandlib", flat, shards=lib.NCPU)
    for i, (a, b, tok) in enumerate(tw):
        ra, rb = res[2 * i], res[2 * i + 1]
        run.count(["twin", a["page"], a["opts"]], True, "twin")
        if ra.get("outcome") != "ok" or rb.get("outcome") != "ok":
            continue              # raised / timed out: other parts of the check report that
        strip = lambda x: json.loads(json.dumps(x).replace(tok, ""))
        if ra["out"] != rb["out"].replace(tok, ""):
            run.property_failure("c13:display-twin-changes-output",
                                 "%r -> %r, but with a twin that differs by a token the page gives %r" % (a["page"], ra["out"], rb["out"]), a)
        elif strip(ra.get("calls")) != strip(rb.get("calls")):
            run.property_failure("c13:display-twin-changes-hook-calls",
                                 "hook calls %r vs %r" % (ra.get("calls"), rb.get("calls")), a)


def check_invoke_off(run, rng, quick):
    """expand_invoke=False: every #invoke call, wherever it is, comes back as written with its arguments expanded; all
    other calls expand as usual - also when the same template is called again later on the page."""
    LIB = [["I1", "<{{#invoke:m|f|{{{1|}}}}}>", False],
           ["I2", "[{{i1|{{{1|}}}}}/{{#invoke:m|g}}]", False],
           ["I3", "({{{1|}}})", False],
           ["I4", "{{#if:{{{1|}}}|{{#invoke:m|h|{{{1}}}}}|none}}", False]]
    words = ["x", "y", "zz", "Q"]

    def exp(name, arg):
        if name == "i1":
            return "<{{#invoke:m|f|%s}}>" % arg
        if name == "i2":
            return "[%s/{{#invoke:m|g}}]" % exp("i1", arg)
        if name == "i3":
            return "(%s)" % arg
        return "{{#invoke:m|h|%s}}" % arg if arg else "none"
    cases = []
    for _ in range(60 if quick else 1500):
        parts, want = [], []
        for _ in range(rng.randint(1, 7)):
            r = rng.random()
            if r < 0.15:
                w = rng.choice(words)
                parts.append("{{#invoke:m|top|%s}}" % w)
                want.append("{{#invoke:m|top|%s}}" % w)
            elif r < 0.3:
                # an #invoke in the argument of an ordinary template
                w = rng.choice(words)
                parts.append("{{i3|{{#invoke:m|a|%s}}}}" % w)
                want.append("({{#invoke:m|a|%s}})" % w)
            else:
                name, arg = rng.choice(["i1", "i2", "i3", "i4"]), rng.choice(words + [""])
                parts.append("{{%s|%s}}" % (name, arg))
                want.append(exp(name, arg))
        sep = rng.choice([" ", "", " and "])
        c = {"lib": LIB, "page": sep.join(parts), "opts": {"invoke": False}, "title": "Tt"}
        if rng.random() < 0.35:
            # a context whose language edition has other names for #invoke: the switch is about the function, not its spelling
            # (the call is emitted under the canonical name)
            alias = rng.choice(["#invoque", "#aufrufen", "#invoke2"])
            c["pf_aliases"] = {alias: "#invoke"}
            c["page"] = c["page"].replace("{{#invoke:m|top|", "{{%s:m|top|" % alias).replace("{{#invoke:m|a|", "{{%s:m|a|" % alias)
            c["lib"] = [[n, b.replace("{{#invoke:m|g}}", "{{%s:m|g}}" % alias), p] for n, b, p in LIB]
        cases.append((c, sep.join(want)))
    res = lib.run_impl("expandlib", [c for c, _ in cases], shards=lib.NCPU)
    for (c, want), r in zip(cases, res):
        run.count(["invoke-off", c["page"], c["opts"]], c["page"].count("{{") >= 2, "invoke-off")
        if r.get("outcome") != "ok":
            run.property_failure("c13:invoke-off:%s:%s" % (r.get("outcome"), r.get("exc", "")), "expand raised: %r" % (r,), c)
        elif r["out"] != want:
            run.property_failure("c13:invoke-off:output", "expand_invoke=False: %r gave %r, expected %r" % (c["page"], r["out"], want), c)
        elif not r.get("stack_ok", True):
            run.property_failure("c13:invoke-off:stack", "expand_invoke=False: the expansion path is not restored after %r" % c["page"], c)


def check_reentrant(run, rng, quick):
    """The selection of one expand() call holds for the whole call, also after Lua code or a hook has used the context for
    an expansion of its own in the middle of it."""
    LIB = [["S1", "S1[{{{1|}}}]", False], ["S2", "S2({{{1|}}})", False], ["Flg", "F<{{{1|}}}>", True], ["Oth", "O", False]]
    MODS = {"m": "local e = {}\nfunction e.pp(frame) return frame:preprocess('p{{oth}}') end\n"
                 "function e.et(frame) return frame:expandTemplate{title = 'oth'} end\nfunction e.plain(frame) return 'q' end\nreturn e"}
    cases = []
    for _ in range(40 if quick else 800):
        mid = rng.choice(["{{#invoke:m|pp}}", "{{#invoke:m|et}}", "{{#invoke:m|plain}}", "{{oth}}", ""])
        hook = rng.random() < 0.3
        parts = ["{{s1|a}}", "{{flg|b}}", mid, "{{s1|c}}", "{{s2|d}}", "{{flg|e}}"]
        if rng.random() < 0.5:
            parts = parts[2:] + parts[:2]
        page = " ".join(p for p in parts if p)
        opts = {"pre_expand": True, "expand_names": ["s1", "oth"], "not_expand_names": ["flg"], "invoke": True}
        if hook:
            opts.update({"tfn": True, "tfn_reenter": {"oth": "{{s2|h}} {{s1|h}}"}})
        # s1 and oth are selected by name, flg is flagged but vetoed, s2 is neither: only s1 and oth expand
        want = page.replace("{{s1|a}}", "S1[a]").replace("{{s1|c}}", "S1[c]").replace("{{oth}}", "O") \
                   .replace("{{#invoke:m|pp}}", "pO").replace("{{#invoke:m|et}}", "O").replace("{{#invoke:m|plain}}", "q")
        cases.append(({"lib": LIB, "modules": MODS, "page": page, "opts": opts, "title": "Tt"}, want))
    res = lib.run_impl("expandlib", [c for c, _ in cases], shards=lib.NCPU)
    for (c, want), r in zip(cases, res):
        run.count(["reentrant", c["page"], c["opts"]], True, "reentrant-selection")
        if r.get("outcome") != "ok":
            run.property_failure("c13:reentrant:%s:%s" % (r.get("outcome"), r.get("exc", "")), "expand raised: %r" % (r,), c)
        elif r["out"] != want:
            run.property_failure("c13:reentrant:selection-lost", "selection by name around a nested expansion: %r gave %r, expected %r"
                                 % (c["page"], r["out"], want), c)


def flat_selection(run, quick):
    """Wtp.expand with a selection on pages of text and flat calls against Model.FlatCall.page_result_sel (which
    c13_flat_pages_expand_exactly_the_selected_calls proves the expander model computes)."""
    import re
    from lib import cstr, cbool, clist
    rng = run.rng
    cases = []
    for _ in range(500 if quick else 10000):
        c = c04.gen_flat(rng)
        if c["lib"]:
            c["lib"][0][2] = rng.random() < 0.4                   # flagged for pre-expansion
        written = sorted(set(x.strip() for x in re.findall(r"\{\{([^|{}]*)", c["page"])))
        pick = lambda: [n for n in written + ["nosuch"] if rng.random() < 0.45]
        o = {"pre_expand": rng.random() < 0.85}
        mode = rng.choice(["none", "expand", "not", "both"])
        if mode in ("expand", "both"):
            o["expand_names"] = pick()
        if mode in ("not", "both"):
            o["not_expand_names"] = pick()
        c["opts"] = o
        cases.append(c)
    res = lib.run_impl("expandlib", cases, shards=lib.NCPU)
    coq_cases, idx = [], []
    for i, (c, r) in enumerate(zip(cases, res)):
        run.count({"flatsel": c["lib"], "page": c["page"], "opts": c["opts"]}, c["page"].count("{{") >= 2, "flat-selection")
        if r.get("outcome") != "ok":
            run.property_failure("flatsel:%s:%s" % (r.get("outcome"), r.get("exc", "")), "expand() did not return normally: %r" % (r,), c)
            continue
        pa = r["page_ast"]
        if any(not isinstance(x, int) and (x[0] != "T" or any(not isinstance(y, int) for y in x[1][0])) for x in pa) \
                or sum(1 for x in pa if not isinstance(x, int)) != c["page"].count("{{"):
            run.correspondence_break("a generated page of flat calls was not read as text and calls", c, page_ast=pa)
            continue
        # calls whose written name has blanks around it are re-emitted with them; the fragment's names have none
        if any(not isinstance(x, int) and "".join(chr(y) for y in x[1][0]) != "".join(chr(y) for y in x[1][0]).strip() for x in pa):
            continue
        coq_cases.append("(%s, %s, %s, %s, %s)" % (G.coq_lib([[t[0], t[1], t[2]] for t in r["lib_ast"]]), G.coq_opts(c["opts"]),
                                                   cbool(c["opts"]["pre_expand"]), G.coq_enc(pa), cstr(r["out"])))
        idx.append(i)
    imports = c04.IMPORTS + ["Model.FlatCall"]
    ty = "list tpl * options * bool * enc * str"
    notflat, errs = lib.coq_eval_failing("c13f0", imports, ty, coq_cases,
                                         "fun '(l, o, pre, pg, out) => forallb (flat_item parser_functions l) pg", chunk=350)
    for e in errs:
        run.correspondence_break("model evaluation failed (flat selection)", None, error=e)
    for b in notflat:
        run.correspondence_break("a generated flat page is outside the fragment of Model.FlatCall.flat_item", cases[idx[b]])
    bad, errs = lib.coq_eval_failing("c13f", imports, ty, coq_cases,
                                     "fun '(l, o, pre, pg, out) => str_eqb (codes (page_result_sel l (o_sel o) pre pg)) out", chunk=350)
    for e in errs:
        run.correspondence_break("model evaluation failed (flat selection rule)", None, error=e)
    for b in bad:
        if b in notflat:
            continue
        c = cases[idx[b]]
        want = lib.coq_eval_term(imports, "(fun '(l, o, pre, pg, out) => codes (page_result_sel l (o_sel o) pre pg)) (%s)" % coq_cases[b])
        run.property_failure("c13:flat-page-differs-from-the-selection-rule",
                             "expand(%r, %r) with templates %r gave %r; the selection rule (Model.FlatCall.page_result_sel) gives code "
                             "points %s" % (c["page"], c["opts"], c["lib"], res[idx[b]]["out"], " ".join(want.split())[:300]), c)
    run.extra["flat_pages_checked_against_the_selection_rule"] = len(coq_cases)


def replay(data):
    return c04.replay(data)



def if_switched_off(run, quick):
    """expand(..., expand_parserfns=False) on {{#if: cond | ...}} against c13_if_is_emitted_as_written_when_switched_off: the call
    comes back as written (condition without the blanks around it, the other arguments untouched and unexpanded)."""
    rng = run.rng
    cases = []
    for _ in range(150 if quick else 3000):
        cond = rng.choice(["", " ", "x", " x ", "\n", "0", "a=b", "  \t", " x y ", "x\n"])
        def piece():
            r = rng.random()
            if r < 0.4:
                return rng.choice(["", "a", " a ", "\na\n", "*li", "x=y", " ", "b c"])
            return rng.choice(["", " ", "x"]) + "{{" + "|".join([rng.choice(["i", "nosuch", " i "])] +
                                                              [rng.choice(["p", " q ", "k=v", ""]) for _ in range(rng.randint(0, 2))]) + "}}" + rng.choice(["", " z"])
        more = [piece() for _ in range(rng.randint(0, 3))]
        cases.append({"lib": [["I", rng.choice(["", "B", "[{{{1}}}]"]), False]], "page": "{{#if:" + "|".join([cond] + more) + "}}",
                      "opts": {"parserfns": False, "pre_expand": rng.random() < 0.3}, "title": "Tt"})
    res = lib.run_impl("expandlib", cases, shards=lib.NCPU)
    coq_cases, idx = [], []
    for i, (c, r) in enumerate(zip(cases, res)):
        run.count({"ifoff": c["page"], "opts": c["opts"]}, c["page"].count("|") >= 2, "if-switched-off")
        if r.get("outcome") != "ok":
            run.property_failure("ifoff:%s:%s" % (r.get("outcome"), r.get("exc", "")), "expand() did not return normally: %r" % (r,), c)
            continue
        pa = r["page_ast"]
        if len(pa) != 1 or isinstance(pa[0], int) or pa[0][0] != "T" or any(not isinstance(y, int) for y in pa[0][1][0]) \
                or pa[0][1][0][:4] != [35, 105, 102, 58]:
            run.correspondence_break("a generated #if call was not read as one call with a plain condition", c, page_ast=pa)
            continue
        # the right-hand side of the theorem is a tree; the code's result is text: compare with the rendering of the tree,
        # which for arguments of text and calls is the text they were written as
        coq_cases.append("(%s, %s, %s)" % (G.coq_enc(pa[0][1][0][4:]), c04.clist(pa[0][1][1:], G.coq_enc, "enc"), c04.cstr(r["out"])))
        idx.append(i)
    bad, errs = lib.coq_eval_failing(
        "c13o", c04.IMPORTS + ["Model.FlatCall", "Proofs.IdentityProofs"], "enc * list enc * str", coq_cases,
        "fun '(c, m, o) => plain c && str_eqb (render (chars s_lbrace2 ++ chars [35; 105; 102] ++ [Ch 58] ++ "
        "join_i vbar (lstrip_i (rstrip_i c) :: m) ++ chars s_rbrace2)%list) o", chunk=300)
    for e in errs:
        run.correspondence_break("model evaluation failed (#if switched off)", None, error=e)
    for b in bad:
        c = cases[idx[b]]
        run.property_failure("c13:if-switched-off-is-not-emitted-as-written",
                             "expand(%r, expand_parserfns=False, pre_expand=%r) gave %r" % (c["page"], c["opts"]["pre_expand"], res[idx[b]]["out"]), c)
    run.extra["if_calls_switched_off_checked_against_the_rule"] = len(coq_cases)
