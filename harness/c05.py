"""C05 — expand() terminates and reports failures in-band."""
import itertools
import json
import lib
import regen
import gen_wt as G
import c04
from lib import cstr

ARG_POOL = ["", " ", "x", "0", "1", "-1", "3.5", "1e400", "99999999999999999999", "abc def", "Talk:x", "Template:Foo",
            "a/b/c", "../x", "2^9999", "1/0", "ln 0", "1 round 1.5", "acos 2", "(", ")", "1 +", "+ 1", "* 2", "not", "e",
            "1 = = 2", "0^-1", "tan 1e400", "exp 1000", "1 mod 0", "1/0+1", "x=y", "#default", "é", "2020-13-45", "now",
            "Y-m-d", "en", "User:A/b", "a:b", "File:x.png", "http://x", "%zz", "\n", "{{a|x}}", "Category:X", "10000000",
            "12:61", "Special:X", "-", "sqrt -1", "1e", ".", "..", "1 2", "pi pi", "2 e 400", "abs", "round 2", "5 round -400"]
TITLES = ["Tt", "Talk:Foo", "User talk:A/b", "Template:X/doc", "Foo/bar", "Module:M", "Category:C", "Wiktionary:W", "A:b"]
NETWORK_FNS = {"#property", "#statements"}       # need the network (wikidata); outside the offline model


def pf_texts(rng, names, per):
    out = []
    for fn in names:
        if fn in NETWORK_FNS:
            continue
        vecs = [[]] + [[a] for a in ARG_POOL]
        for _ in range(per):
            vecs.append([rng.choice(ARG_POOL) for _ in range(rng.randint(2, 4))])
        for v in vecs:
            out.append((fn, "{{" + fn + (":" + "|".join(v) if v else "") + "}}"))
            if v and not fn.startswith("#"):
                out.append((fn, "{{" + fn + "|" + "|".join(v) + "}}"))
    return out


def expr_texts(rng, n):
    ops = ["+", "-", "*", "/", "^", "mod", "div", "round", "=", "<", ">", "<=", ">=", "!=", "<>", "and", "or", "not", "e", "(",
           ")", "ceil", "floor", "trunc", "abs", "sqrt", "ln", "exp", "sin", "cos", "tan", "asin", "acos", "atan", "pi", ".",
           "1", "0", "2", "9999", "0.5", "-", "1e400", "3", "99999999", "308", "309", "1e-400", "300", "-1e8", "1e9", "7"]
    out = []
    for _ in range(n):
        toks = [rng.choice(ops) for _ in range(rng.randint(1, 7))]
        out.append(("#expr", "{{#expr: " + " ".join(toks) + "}}"))
    return out


def expr_grid(rng, n):
    """every binary operator of #expr between operands from the edges of its domain: small and huge integers, floats, huge and
    tiny floats of both signs, integers that are results of functions, floats that are results of '/', '^' and literals"""
    OPERANDS = ["0", "1", "5", "-5", "1234", "0.5", "2.5", "-0.5", "1e400", "1.0e300", "-1.0e300", "1.0e-300", "2^40", "-(2^40)",
                "(0 - 2^40)", "10^300", "-(10^300)", "99999999", "-99999999", "1.0e9", "-1.0e9", "1e9", "-1e9", "trunc 1234",
                "floor 7.5", "ceil -7.5", "(4/2)", "(1/3)", "1.0e308", "-1.0e308", "308", "-308", "309", "-309", "1.5e10", "-1.5e10",
                "abs -3", "sqrt 16", "pi", "(7 mod 3)", "1.0e15", "-1.0e15", "2^62", "2^64", "-(2^64)"]
    OPS = ["round", "^", "e", "mod", "div", "/", "*", "+", "-", "=", "<", "and"]
    out = [("#expr", "{{#expr: %s %s %s}}" % (a, op, b)) for op in ("round", "^", "e", "mod") for a in OPERANDS for b in OPERANDS]
    for _ in range(n):
        out.append(("#expr", "{{#expr: %s %s %s %s %s}}" % (rng.choice(OPERANDS), rng.choice(OPS), rng.choice(OPERANDS),
                                                           rng.choice(OPS), rng.choice(OPERANDS))))
    if len(out) > 4 * n + 2000:
        head = out[:len(OPERANDS) ** 2]                    # the whole 'round' grid always runs
        rest = out[len(OPERANDS) ** 2:]
        rng.shuffle(rest)
        out = head + rest[:4 * n]
    return out


# minimised earlier failures: always run (first in the batch)
PF_CORPUS = [
    # argument names that str.isdigit() accepts but int() rejects
    ("template-arg-name", "{{a|\u00b2=x}}"), ("template-arg-name", "{{a|\u2460=x|\u00b9=y}}"), ("PAGENAME", "{{PAGENAME|\u00b2=x}}"),
    ("#tag", "{{#tag:ref|x|\u00b2=y}}"), ("#invoke", "{{#invoke:echo|main|\u00b2=x}}"), ("argument-reference", "{{{\u00b2}}}"),
    ("#pad", "{{padleft:a|99999999999999999999|(}}"), ("#pad", "{{padright:a|99999999999999999999|(}}"),
    ("#expr", "{{#expr: 3 e 9999}}"), ("#expr", "{{#expr: 3 e 99999999}}"), ("#expr", "{{#expr: 0 e -99999999}}"),
    ("#expr", "{{#expr: " + " * ".join(["1 e 308"] * 15) + "}}"), ("#expr", "{{#expr: 1/0}}"), ("#expr", "{{#expr: ln 0}}"),
    ("#expr", "{{#expr: 2 ^ 99999999}}"), ("#expr", "{{#expr: exp 1000}}"), ("#rel2abs", "{{#rel2abs:}}"),
    ("#invoke", "{{#invoke:}}"), ("TALKSPACE", "{{TALKSPACE}}"), ("TALKPAGENAME", "{{TALKPAGENAME}}"),
    ("#expr", "{{#expr:5 round -1e8}}"), ("#expr", "{{#expr:5 round 1e9}}"), ("#expr", "{{#expr:7^300^300^300}}"),
    ("#expr", "{{#expr:7^300^300^300^300}}"), ("#expr", "{{#expr:2 e 308 e 308 e 308}}"),
] + [("#expr", "{{#expr:" + "(" * d + "1" + ")" * d + "}}") for d in (10, 50, 90, 150, 1000)] \
  + [("#expr", "{{#expr:" + op * d + "1}}") for d in (10, 100, 1000, 3000) for op in ("- ", "not ", "+ ", "abs ", "- not ")]


def classify_exc(fn, r):
    return "pf-raises:%s:%s:%s" % (fn, r[1], r[2] if len(r) > 2 else "")


# direct cycles: each must come back quickly with the in-band error (these run first)
CYCLE_CORPUS = [
    ("self", [["Loop", "{{loop}}", False]], "{{loop}}"),
    ("self-twice", [["Loop", "x{{loop}}y{{loop}}", False]], "{{loop}}"),
    ("mutual", [["M1", "{{m2}}", False], ["M2", "a{{m1}}", False]], "{{m1}}"),
    ("mutual3", [["M1", "{{m2}}", False], ["M2", "{{m3}}{{m3}}", False], ["M3", "{{m1}}", False]], "{{m1}}{{m2}}"),
    ("through-arg", [["R", "[{{{1|}}}]{{r|{{r}}}}", False]], "{{r|z}}"),
    ("through-default", [["R", "{{{1|{{r}}}}}", False]], "{{r}}"),
    ("through-if", [["R", "{{#if:x|{{r}}|n}}", False]], "{{r}}"),
    ("through-switch", [["R", "{{#switch:a|a={{r}}|b=2}}", False]], "{{r}}"),
    ("through-named-arg", [["R", "{{r|k={{r}}}}", False]], "{{r}}"),
    ("deep-chain", [["D", "{{d|{{{1|}}}x}}", False]], "{{d}}"),
    ("through-arg-of-wrapper", [["A", "{{wrap|{{a}}}}", False], ["Wrap", "{{{1}}}", False]], "{{a}}"),
    ("through-arg-branching", [["A", "{{wrap|{{a}}{{a}}}}", False], ["Wrap", "{{{1}}}", False]], "{{a}}"),
    ("through-named-arg-branching", [["A", "{{wrap|k={{a}}x{{a}}}}", False], ["Wrap", "[{{{k}}}]", False]], "{{a}}{{a}}"),
    ("through-two-wrappers", [["A", "{{w1|{{w2|{{a}}{{a}}}}}}", False], ["W1", "{{{1}}}", False], ["W2", "<{{{1}}}>", False]], "{{a}}"),
]

FRAME_POOL = ["Tt", "Template:a", "Template:b", "Template:wrap", "TEMPLATE_NAME", "ARGVAL-1", "ARGVAL-2", "ARGVAL-k", "#if", "#switch",
              "ARG-NAME", "ARG-DEFVAL", "[[link]]", "ARGNAME", "TEMPLATE_FN", "ARGVAL-NO-TEMPLATE"]


def coq_frame(f):
    from lib import cstr, cN
    fixed = {"Tt": "FTitle", "TEMPLATE_NAME": "FTemplateName", "ARGNAME": "FArgName", "TEMPLATE_FN": "FTemplateFn",
             "ARG-NAME": "FArgName2", "ARG-DEFVAL": "FArgDefval", "ARGVAL-NO-TEMPLATE": "FArgvalNoTemplate", "[[link]]": "FLink"}
    if f in fixed:
        return fixed[f]
    if f.startswith("Template:"):
        return "FTemplate %s" % cstr(f[9:])
    if f.startswith("ARGVAL-"):
        k = f[7:]
        return "FArgVal (%s)" % ("KInt %s" % cN(int(k)) if k.isdigit() else "KStr %s" % cstr(k))
    return "FFn %s" % cstr(f)


def gen_stack(rng):
    base = [rng.choice(FRAME_POOL) for _ in range(rng.randint(0, 6))]
    pat = [rng.choice(FRAME_POOL) for _ in range(rng.randint(1, 4))]
    reps = rng.choice([0, 1, 2, 2, 3])
    tail = [rng.choice(FRAME_POOL) for _ in range(rng.choice([0, 0, 0, 1]))]
    return ["Tt"] + base + pat * reps + tail


def check_detector(run):
    """The loop detector itself (a pure function on the path) against Model.Expand.detect_loop."""
    from lib import clist
    stacks = [gen_stack(run.rng) for _ in range(3000 if run.tier == "quick" else 40000)]
    res = lib.run_impl("detect_loop", [{"stacks": stacks[i:i + 500]} for i in range(0, len(stacks), 500)])
    outs = [o for r in res for o in r["outs"]]
    coq_cases = []
    for s, o in zip(stacks, outs):
        run.count(["stack", s], len(s) >= 4, "detector")
        coq_cases.append("(%s, %s)" % (clist(s, coq_frame, "frame"), "true" if o else "false"))
    bad, errs = lib.coq_eval_failing("c05d", ["Base.Str", "Model.ArgViews", "Model.Expand"], "list frame * bool", coq_cases,
                                     "fun '(s, o) => Bool.eqb (detect_loop s) o", extra_defs="Open Scope N_scope.\n")
    for e in errs:
        run.correspondence_break("model evaluation failed (detector)", None, error=e)
    for b in bad:
        run.correspondence_break("Model.Expand.detect_loop disagrees with detect_expand_template_loop",
                                 {"stack": stacks[b], "impl": outs[b]})



def run(run):
    run.rule = ("(a) template libraries with arbitrary call graphs on <=5 templates (self/mutual recursion through bodies, "
                "arguments, defaults and parser-function branches) x pages, compared with the Coq model and checked for "
                "return/timeout; (b) every name in PARSER_FUNCTIONS (except the two network-backed ones) x argument vectors from "
                "a 60-entry pool (empty, blank, non-numeric, huge, negative, operator soup, namespace titles) on 9 page titles; "
                "(c) random #expr token soups; (d) nesting ladders to depth 100/150, acyclic chains of 5-150 distinct templates with "
                "0-5 parser-function wrappers per level, self-calls with a growing argument under wrappers; non-trivial = at least one call; "
                "distinct by JSON hash")
    run.trusted = [
        "Coq 8.16.1 kernel; vm_compute to evaluate Model.Expand (loop detection, depth limit) on cyclic libraries",
        "axioms: none",
        "model coq/Model/Expand.v tied to Wtp.expand; parser functions other than #if/#ifeq/#switch are not modelled: their "
        "totality is decided by running the real functions (oracle: returns a str, never raises, within the time bound)",
        "the #expr ladder machine whose totality is proved (Model/ExprTotal.v) erases to Model/ExprParse.v, which C18's check "
        "compares with expr_fn on trees and token soups over the ladder regenerated from the source",
        "wall-clock bound enforced by SIGALRM per case in the child interpreter",
    ]
    errs = regen.regen(["GenData"])
    for k, v in errs.items():
        run.correspondence_break("translator %s failed" % k, None, error=v)
    run.prove()
    rc, out = lib.coq_make(["Gen/GenData.vo", "Model/Expand.vo"])
    if rc != 0:
        run.correspondence_break("Gen/GenData.v or Model/Expand.v does not build", None, error=out[-1500:])
    rng = run.rng
    quick = run.tier == "quick"
    # ---- (a) cyclic libraries
    cases = []
    for _ in range(160 if quick else 4000):
        c = c04.make_case(rng, cyclic=True)
        c["_timeout"] = 10
        cases.append(c)
    corpus = [{"lib": l, "page": p, "opts": {}, "title": "Tt", "_timeout": 20, "_name": n} for n, l, p in CYCLE_CORPUS]
    cres = lib.run_impl("expandlib", [{k: c[k] for k in ("lib", "page", "opts", "title", "_timeout")} for c in corpus], shards=len(corpus))
    for c, r in zip(corpus, cres):
        run.count({"corpus": c["_name"]}, True, "cycle-corpus")
        if r.get("outcome") != "ok":
            run.property_failure("cycle-corpus:%s:%s" % (c["_name"], r.get("outcome")),
                                 "direct cycle %s did not return in time: %r" % (c["_name"], r),
                                 {k: c[k] for k in ("lib", "page", "opts", "title")})
        elif not ("Template loop detected" in r["out"] or "too deep recursion" in r["out"]) or \
                not (r["msgs"].get("warnings") or r["msgs"].get("errors")):
            run.property_failure("cycle-corpus:%s:no-inband-error" % c["_name"],
                                 "cycle %s: no error element / message: %r" % (c["_name"], r["out"][:300]),
                                 {k: c[k] for k in ("lib", "page", "opts", "title")})
    check_detector(run)
    run_cyclic(run, cases)
    # ---- (b)(c) parser functions
    from wikitextprocessor.parserfns import PARSER_FUNCTIONS
    names = sorted(PARSER_FUNCTIONS)
    calls = PF_CORPUS + pf_texts(rng, names, 2 if quick else 12) + expr_texts(rng, 600 if quick else 20000) \
        + expr_grid(rng, 600 if quick else 20000)
    # several calls on one page (failures of one call must not disturb the next): unknown functions, bad arguments and good
    # calls side by side, also inside a template argument and repeated
    # (the two functions whose known finding is a missing database table are left to their single-call pages)
    single = [t for _, t in calls if len(t) < 200 and "fullurl" not in t.lower()]
    odd = ["{{#nosuchfn:x}}", "{{#nosuchfn2|y}}", "{{#unknown}}", "{{#nosuchfn:a|k=v}}", "{{#expr:1+}}", "{{#if:x|y}}", "{{lc:A}}",
           "{{#time:}}", "{{#switch:}}", "{{#titleparts:}}", "{{#invoke:}}", "{{#tag:}}", "{{#rel2abs:}}"]
    for _ in range(150 if quick else 3000):
        k = rng.randint(2, 5)
        parts = [rng.choice(odd) if rng.random() < 0.6 else rng.choice(single) for _ in range(k)]
        text = rng.choice([" ", "", "\n"]).join(parts)
        if rng.random() < 0.2:
            text = "{{#if:x|%s}}" % text
        calls.append(("several", text))
    by_title = {}
    for i, (fn, t) in enumerate(calls):
        by_title.setdefault(TITLES[i % len(TITLES)], []).append((fn, t))
    jobs, meta = [], []
    for title, items in by_title.items():
        for k in range(0, len(items), 200):
            part = items[k:k + 200]
            jobs.append({"texts": [t for _, t in part], "title": title, "_timeout": 120})
            meta.append((title, part))
    res = lib.run_impl("expand_many", jobs, shards=lib.NCPU, timeout=180)
    for (title, part), r in zip(meta, res):
        if r.get("outcome") != "ok":
            # which call of the batch is it?  every text once more, alone, with a short limit
            singles = []
            for k0 in range(0, len(part), 32):          # one process per call: a call that hangs in C code takes nothing with it
                sub = part[k0:k0 + 32]
                singles += lib.run_impl("expand_many", [{"texts": [t], "title": title, "_timeout": 10} for _, t in sub],
                                        shards=len(sub), timeout=14)
            found = False
            for (fn, t), r1 in zip(part, singles):
                if r1.get("outcome") != "ok":
                    found = True
                    run.property_failure("pf-does-not-return:%s" % fn, "expand(%r) on page %r did not return within 10 s (%s)"
                                         % (t, title, r1.get("outcome")), {"title": title, "texts": [t]})
                elif r1["outs"][0][0] != "ok":
                    found = True
                    run.property_failure(classify_exc(fn, r1["outs"][0]), "%r on page %r raised %r" % (t, title, r1["outs"][0]),
                                         {"title": title, "texts": [t]})
            if not found:
                run.property_failure("pf-batch:%s" % r.get("outcome"), "batch did not finish: %r" % (r,),
                                     {"title": title, "texts": [t for _, t in part][:5]})
            continue
        for (fn, t), o in zip(part, r["outs"]):
            run.count(["pf", title, t], True, "pf")
            if o[0] != "ok":
                run.property_failure(classify_exc(fn, o), "%r on page %r raised %r" % (t, title, o), {"title": title, "texts": [t]})
            elif not isinstance(o[1], str):
                run.property_failure("pf-nonstr:%s" % fn, "%r returned %r" % (t, o[1]), {"title": title, "texts": [t]})
    # ---- (c2) the namespace magic words over every namespace of every shipped language edition
    import json as _json
    data = lib.REPO / "src/wikitextprocessor/data"
    langs = sorted(p_.name for p_ in data.iterdir() if (p_ / "namespaces.json").exists())
    if quick:
        langs = [l for l in langs if l in ("en", "de", "fr", "fi", "zh", "ru", "es", "ja")] + rng.sample(langs, 25)
    njobs, nmeta = [], []
    for lg in sorted(set(langs)):
        try:
            nsd = _json.loads((data / lg / "namespaces.json").read_text())
        except Exception:  # noqa
            continue
        names = sorted({v.get("name", "") for v in nsd.values()} | set(nsd.keys()))
        texts, titles = [], []
        for nm in names:
            pre = (nm + ":") if nm else ""
            for w in ("TALKSPACE", "TALKPAGENAME", "SUBJECTSPACE", "SUBJECTPAGENAME", "NAMESPACE", "NAMESPACENUMBER", "FULLPAGENAME",
                      "TALKSPACEE", "NAMESPACEE"):
                texts.append("{{%s:%sFoo}}" % (w, pre))
            texts.append("{{ns:%s}}" % nm)
        njobs.append({"lang": lg, "texts": texts, "_timeout": 120})
        nmeta.append(lg)
        # the same words without argument on a page of each namespace
        for nm in names[:40]:
            njobs.append({"lang": lg, "title": ((nm + ":") if nm else "") + "Foo/bar",
                          "texts": ["{{TALKSPACE}}|{{TALKPAGENAME}}|{{SUBJECTSPACE}}|{{SUBJECTPAGENAME}}|{{NAMESPACE}}|{{NAMESPACENUMBER}}|{{BASEPAGENAME}}"],
                          "_timeout": 60})
            nmeta.append(lg)
    nres = lib.run_impl("expand_many", njobs, shards=lib.NCPU)
    for lg, job, r in zip(nmeta, njobs, nres):
        if r.get("outcome") != "ok":
            run.property_failure("pf-batch:%s" % r.get("outcome"), "namespace batch for %s did not finish: %r" % (lg, r), {"lang": lg, "texts": job["texts"][:3]})
            continue
        for t, o in zip(job["texts"], r["outs"]):
            run.count(["ns-words", lg, job.get("title"), t], True, "ns-words")
            if o[0] != "ok":
                fn = t.split(":")[0].strip("{}|").split("}")[0]
                run.property_failure(classify_exc(fn, o), "%r (language %s, page %r) raised %r" % (t, lg, job.get("title", "Tt"), o),
                                     {"lang": lg, "title": job.get("title", "Tt"), "texts": [t]})
    # ---- (d) ladders
    ladders = []
    for depth in (1, 10, 50, 99, 100, 101, 150):
        ladders.append({"lib": [["A", "[{{{1|}}}]", False]], "page": "{{a|" * depth + "x" + "}}" * depth, "opts": {}, "title": "Tt", "_timeout": 60})
        ladders.append({"lib": [["A", "[{{{1|}}}]", False]], "page": "{{#if:x|" * depth + "y" + "}}" * depth, "opts": {}, "title": "Tt", "_timeout": 60})
        ladders.append({"lib": [["D", "{{d|{{{1|}}}x}}", False]], "page": "{{d}}", "opts": {}, "title": "Tt", "_timeout": 60})
    # acyclic chains of distinct templates (nothing for the loop detector to find), every level wrapped in parser functions
    WRAPS = ["{{#if:x|%s}}", "{{#ifeq:a|a|%s}}", "{{#switch:a|a=%s}}", "{{#if:|n|%s}}", "{{#iferror:ok|e|%s}}"]
    for length in (5, 40, 60, 99, 150):
        for nwrap in (0, 1, 3, 5):
            libr = []
            for i in range(length):
                body = "{{c%d|{{{1|}}}%s}}" % (i + 1, "x" if nwrap % 2 else "") if i + 1 < length else "end{{{1|}}}"
                for j in range(nwrap):
                    body = WRAPS[(i + j) % len(WRAPS)] % body
                libr.append(["C%d" % i, body, False])
            ladders.append({"lib": libr, "page": "{{c0|s}}", "opts": {}, "title": "Tt", "_timeout": 60})
    for nwrap in (1, 3, 5):
        body = "{{d|{{{1|}}}x}}"
        for j in range(nwrap):
            body = WRAPS[j % len(WRAPS)] % body
        ladders.append({"lib": [["D", body, False]], "page": "{{d}}", "opts": {}, "title": "Tt", "_timeout": 60})
    # the colon-less compatibility spelling of parser functions, in the page and in a template body
    for depth in (50, 150, 220, 320):
        ladders.append({"lib": [["A", "[{{{1|}}}]", False]], "page": "{{#if|x|" * depth + "y" + "}}" * depth, "opts": {}, "title": "Tt", "_timeout": 60})
        ladders.append({"lib": [["A", "[{{{1|}}}]", False]], "page": "{{#switch|a|a=" * depth + "y" + "}}" * depth, "opts": {}, "title": "Tt", "_timeout": 60})
        ladders.append({"lib": [["A", "{{#if|x|" * depth + "{{{1|}}}" + "}}" * depth, False]], "page": "{{a|z}}", "opts": {}, "title": "Tt", "_timeout": 60})
        ladders.append({"lib": [["A", "[{{{1|}}}]", False]], "page": "{{#if|x|{{lc|" * (depth // 2) + "Y" + "}}}}" * (depth // 2), "opts": {}, "title": "Tt", "_timeout": 60})
    for depth in (30, 60, 120):
        ladders.append({"lib": [["A", "[{{{1|}}}]", False]], "page": "{{a|{{#if:x|{{#switch:q|q=" * depth + "z" + "}}}}}}" * depth,
                        "opts": {}, "title": "Tt", "_timeout": 60})
    # deep chains that pass through a re-entrant expand(): a Lua function that recurses through frame:preprocess /
    # frame:expandTemplate, and a template_fn hook that expands the next template of a long chain itself.  The depth limit
    # counts all of it: the chain ends in the in-band error with a recorded message, nothing is raised.
    for levels in (60, 200):
        for api in ("frame:preprocess('{{#invoke:deep|f|' .. (n + 1) .. '}}')", "frame:expandTemplate{title = 'via', args = {n + 1}}"):
            deep = ("local e = {}\nfunction e.f(frame)\n local n = tonumber(frame.args[1]) or 0\n if n >= %d then return 'END' end\n"
                    " return %s\nend\nreturn e" % (levels, api))
            ladders.append({"lib": [["Via", "{{#invoke:deep|f|{{{1}}}}}", False]], "page": "{{#invoke:deep|f|0}}", "opts": {}, "title": "Tt",
                            "modules": {"deep": deep}, "_timeout": 90, "_deep": True})
    for n in (150, 400):
        ladders.append({"lib": [["C%d" % i, "b%d" % i, False] for i in range(n)], "page": "{{c0}}",
                        "opts": {"tfn": True, "tfn_reenter_hooked": True, "tfn_reenter": {"c%d" % i: "{{c%d}}" % (i + 1) for i in range(n - 1)}},
                        "title": "Tt", "_timeout": 90, "_deep": True})
    res = lib.run_impl("expandlib", [{k: v for k, v in c.items() if k != "_deep"} for c in ladders], shards=lib.NCPU)
    for c, r in zip(ladders, res):
        run.count(["ladder", c["page"][:40], len(c["page"]), len(c["lib"]), sorted(c.get("modules", {}).items())], True, "ladder")
        if r.get("outcome") != "ok":
            run.property_failure("ladder:%s:%s" % (r.get("outcome"), r.get("exc", "")), "nesting ladder did not return: %r" % (r,),
                                 {k: c[k] for k in ("lib", "page", "opts", "title") + (("modules",) if "modules" in c else ())})
        elif c.get("_deep") and not any("too deep" in m or "loop" in m.lower() for k_ in ("errors", "warnings")
                                        for m in (r.get("msgs") or {}).get(k_, [])):
            # (cut by the depth limit or, when the chain repeats a pattern, by loop detection: either way in-band and recorded)
            run.property_failure("ladder:deep-reentrant-chain-not-cut",
                                 "a chain deeper than the limit that passes through re-entrant expand() calls ended without the "
                                 "in-band depth (or loop) error being recorded: output %r, messages %r" % (r.get("out", "")[:120], r.get("msgs")),
                                 {k: c[k] for k in ("lib", "page", "opts", "title") + (("modules",) if "modules" in c else ())})


def run_cyclic(run, cases):
    res = lib.run_impl("expandlib", [{k: c[k] for k in ("lib", "page", "opts", "title", "_timeout")} for c in cases],
                       shards=lib.NCPU)
    coq_cases, idx = [], []
    for i, (c, r) in enumerate(zip(cases, res)):
        run.count({"lib": c["lib"], "page": c["page"]}, "{{" in c["page"], "cyclic")
        if r.get("outcome") == "timeout":
            run.property_failure("cyclic:timeout:random-branching-library",
                                 "expand() on a generated cyclic library with several calls per body did not return within "
                                 "%d s" % c.get("_timeout", 20), {k: c[k] for k in ("lib", "page", "opts", "title")})
            continue
        if r.get("outcome") != "ok":
            run.property_failure("cyclic:%s:%s:%s" % (r.get("outcome"), r.get("exc", ""), r.get("where", "")),
                                 "expand() on a cyclic library did not return normally: %r" % (r,),
                                 {k: c[k] for k in ("lib", "page", "opts", "title")})
            continue
        looped = "Template loop detected" in r["out"] or "too deep recursion" in r["out"]
        run.histogram["cyclic-inband-error" if looped else "cyclic-no-loop-hit"] = run.histogram.get(
            "cyclic-inband-error" if looped else "cyclic-no-loop-hit", 0) + 1
        if looped and not (r["msgs"].get("warnings") or r["msgs"].get("errors")):
            run.property_failure("cyclic:no-message-recorded", "loop/depth error in the output but no warning/error recorded",
                                 {k: c[k] for k in ("lib", "page", "opts", "title")})
        if G.has_unsupported(r["page_ast"]) or any(G.has_unsupported(t[1]) for t in r["lib_ast"]):
            continue
        if len(r["out"]) > 20000:
            continue
        coq_cases.append("(%s, %s, %s, %s, %s)" % (
            G.coq_lib([[t[0], t[1], t[2]] for t in r["lib_ast"]]), G.coq_opts(c["opts"]), "false",
            G.coq_enc(r["page_ast"]), cstr(r["out"])))
        idx.append(i)
    pred = ("fun '(l, o, pre, page, out) => match expand_page parser_functions nowiki_map l o pre (N.to_nat 4000) page with "
            "Some s => if str_in err_deep_marker s then str_in too_deep out else str_eqb s out | None => true end")
    defs = ("Open Scope N_scope.\nFrom WTP Require Import Model.ParserFns.\n"
            "Definition too_deep : str := %s.\n" % cstr("too deep recursion"))
    bad, errs = lib.coq_eval_failing("c05", c04.IMPORTS, c04.CASE_TY, coq_cases, pred, chunk=40, extra_defs=defs)
    for e in errs:
        run.correspondence_break("model evaluation failed", None, error=e)
    for b in bad:
        c = cases[idx[b]]
        run.correspondence_break("Model.Expand.expand_page disagrees with Wtp.expand on a cyclic library",
                                 {k: c[k] for k in ("lib", "page", "opts", "title")}, impl_out=res[idx[b]]["out"][:2000])


def replay(data):
    case = data.get("case") or data["breaks"][0]["case"]
    if "texts" in case:
        print(lib.run_impl("expand_many", [case])[0])
    else:
        print(lib.run_impl("expandlib", [case])[0])
    return 0
