"""C19 — serialising a parse tree back to wikitext preserves it."""
import json
import re
import lib
from lib import clist
import c02
import c03

INLINE = ["plain words", "''italic''", "'''bold'''", "[[link|text]]", "[[plain link]]", "{{a|x}}", "{{tpl|k=v|2}}", "{{#if:x|y|z}}",
          "{{PAGENAME}}", "<b>html</b>", "<span class=\"c\" id=\"i1\">s</span>", "[http://x.y ext]", "<br>", "{{a|{{a|n}}}}",
          "''i '''bi''' i''", "<sup>2</sup>", "a [<noinclude/>[b ''c'' d]<noinclude/>] e", "[<noinclude/>[x {{a|y}} z]<noinclude/>]",
          "p [<noinclude/>[q <b>r</b> s]<noinclude/>] t", "{{{1|d}}}", "[[a|'''b''']]", "x <ref name=\"r\">note</ref> y"]


ARGS = ["", "x", " ", "k=v", "k=", "{{a}}", "[[l]]", "''i''", "a b", "1=z", "y"]


def gen_call(rng):
    """templates, parser functions, template arguments, links and external links with random argument lists
    (empty arguments, a lone colon, trailing pipes)"""
    args = [rng.choice(ARGS) for _ in range(rng.randint(0, 3))]
    k = rng.random()
    if k < 0.3:
        return "{{" + rng.choice(["a", "tpl"]) + "".join("|" + a for a in args) + "}}"
    if k < 0.6:
        fn = rng.choice(["#if", "#ifeq", "uc", "lc", "PAGENAME", "#switch", "#expr", "NAMESPACE"])
        if not args:
            return "{{" + fn + rng.choice(["", ":"]) + "}}"
        return "{{" + fn + ":" + "|".join(args) + "}}"
    if k < 0.75:
        return "{{{" + rng.choice(["1", "k"]) + "".join("|" + a for a in args[:2] if "=" not in a) + "}}}"
    if k < 0.9:
        return "[[Target" + "".join("|" + a.replace("[[l]]", "l") for a in args) + "]]"
    return "[http://x.y/p" + rng.choice(["", " t", " two words", " ''i''"]) + "]"


def inline(rng):
    return gen_call(rng) if rng.random() < 0.3 else rng.choice(INLINE)


def gen_doc(rng):
    parts = []
    cid = [0]
    for _ in range(rng.randint(1, 7)):
        r = rng.random()
        if r < 0.25:
            parts.append("%s Title %d %s\n" % ("=" * rng.randint(2, 5), rng.randint(1, 99), "=" * 0))
            lvl = rng.randint(2, 5)
            parts[-1] = "%s Title %d %s\n" % ("=" * lvl, rng.randint(1, 99), "=" * lvl)
        elif r < 0.5:
            parts.append(" ".join(inline(rng) for _ in range(rng.randint(1, 3))) + "\n\n")
        elif r < 0.7:
            for _ in range(rng.randint(1, 3)):
                parts.append("%s %s\n" % ("".join(rng.choice("*#") for _ in range(rng.randint(1, 3))), inline(rng)))
        elif r < 0.85:
            t = c03.gen_table(rng, cid)
            t["caption"] = None if rng.random() < 0.8 else t["caption"]
            parts.append(c03.render_table(t, None))
            if rng.random() < 0.25:
                # text on the same line after the table end
                parts[-1] = parts[-1][:-1] + " after table %d\n" % rng.randint(1, 9)
        elif r < 0.92:
            parts.append("----\n" if rng.random() < 0.7 else "---- %s\n" % inline(rng))
        elif r < 0.96:
            # a block-level HTML element whose content is a table or a rule, with text after it on the same line
            tag = rng.choice(["div", "blockquote", "center"])
            attr = rng.choice(["", " class=\"c%d\"" % rng.randint(1, 9)])
            if rng.random() < 0.5:
                t = c03.gen_table(rng, cid)
                t["caption"] = None
                body = c03.render_table(t, None)[:-1] + rng.choice(["", " after %d" % rng.randint(1, 9)]) + "\n"
            else:
                body = rng.choice(["x\n", ""]) + "----" + rng.choice(["", " after %d" % rng.randint(1, 9)]) + "\n"
            parts.append("<%s%s>\n%s</%s>\n" % (tag, attr, body, tag))
        else:
            parts.append("; term : definition %d\n" % rng.randint(1, 9) if rng.random() < 0.3 else ": indented %s\n" % rng.choice(INLINE))
    return "".join(parts)


def norm_str(s):
    return re.sub(r"[ \t]*\n\s*", "\n", s).strip()


def norm(node):
    """Equivalence of the property: same nodes, arguments, attributes and text up to whitespace at block boundaries."""
    if isinstance(node, str):
        return norm_str(node)
    d = {"k": node["k"]}
    if node.get("s"):
        d["s"] = node["s"]
    if node.get("at"):
        d["at"] = node["at"]
    for key in ("c", "d"):
        if key in node:
            d[key] = norm_list(node[key])
    if "a" in node:
        d["a"] = [norm_list(l) for l in node["a"]]
    return d


def norm_list(l):
    out = []
    for x in l:
        y = norm(x)
        if isinstance(y, str):
            if not y:
                continue
            if out and isinstance(out[-1], str):
                out[-1] = norm_str(out[-1] + "\n" + y)
                continue
        out.append(y)
    return out


def kinds(node, acc=None):
    acc = acc if acc is not None else {}
    if isinstance(node, dict):
        acc[node["k"]] = acc.get(node["k"], 0) + 1
        for c in node.get("c", []) + node.get("d", []):
            kinds(c, acc)
        for l in node.get("a", []):
            for c in l:
                kinds(c, acc)
    return acc


def classify(text, t1, t2):
    k1, k2 = kinds(t1), kinds(t2)
    if k1.get("TABLE_CAPTION") and (k2.get("PREFORMATTED", 0) > k1.get("PREFORMATTED", 0) or k1 != k2):
        return "table-caption"
    if re.search(r"^;", text, flags=re.M) or k1.get("LIST_ITEM") and ";" in json.dumps(t1):
        if "d" in json.dumps(t1) and json.dumps(norm(t1)).count('"d"') != json.dumps(norm(t2)).count('"d"'):
            return "definition-list"
    diff = sorted(k for k in set(k1) | set(k2) if k1.get(k, 0) != k2.get(k, 0))
    return "kinds:" + ",".join(diff) if diff else "text-or-args"


def run(run):
    run.rule = ("documents from the block/inline grammar (sections, */# lists, tables with URL-safe attributes, bold/italic, "
                "links, templates, parser functions, magic words, HTML elements with URL-safe attribute values, refs, rules, "
                "definition/indent lines): parse -> to_wikitext -> parse -> to_wikitext -> parse; plus child lists passed "
                "directly and text nodes holding literal double brackets; non-trivial = at least 3 markup constructs; distinct by "
                "JSON hash")
    run.trusted = [
        "Coq 8.16.1 kernel; the attribute round trip used by tables and HTML elements is the theorem of Proofs/AttrsProofs.v",
        "axioms: none",
        "model coq/Model/TableEmit.v (the table emitters of to_wikitext as tokens) tied to node_expand.py by comparing, inside "
        "Coq, emit(tree) with the tokens of the real to_wikitext output on the trees of written tables; "
        "Proofs/BlocksEmitProofs.blocks_of_forest tied the same way through the block lines of section/list pages",
        "the other per-kind emitters and the parser are exercised (three parses per document), not modelled",
        "tree equivalence 'up to whitespace at block boundaries' is harness/c19.py:norm",
    ]
    run.prove()
    rng = run.rng
    quick = run.tier == "quick"
    texts = [gen_doc(rng) for _ in range(1500 if quick else 20000)]
    texts += [c02.render(c02.gen_doc(rng, rng.randint(1, 8)), rng, extras=False) for _ in range(300 if quick else 3000)]
    chunks = [texts[i:i + 100] for i in range(0, len(texts), 100)]
    res = lib.run_impl("roundtrip", [{"texts": c} for c in chunks], shards=lib.NCPU)
    outs = [o for r in res for o in (r.get("outs") or [])]
    for t, o in zip(texts, outs):
        n = sum(t.count(x) for x in ("{{", "[[", "<", "{|", "''", "\n*", "\n#", "=="))
        run.count(t, n >= 3, "doc")
        if "raised" in o:
            run.property_failure("c19:raised:%s:%s" % (o["raised"], o["where"]), "round trip raised on %r" % t, t)
            continue
        n1, n2, n3 = norm(o["t1"]), norm(o["t2"]), norm(o["t3"])
        if n1 != n2:
            run.property_failure("c19:roundtrip-differs:" + classify(t, o["t1"], o["t2"]),
                                 "tree changed by to_wikitext+parse: %s -> %r -> %s" % (json.dumps(n1)[:400], o["w1"][:300], json.dumps(n2)[:400]), t)
        elif n2 != n3:
            run.property_failure("c19:not-a-fixed-point:" + classify(t, o["t2"], o["t3"]),
                                 "second round trip changed the tree: %r -> %r" % (o["w1"][:300], o["w2"][:300]), t)
        if not o["list_ok"]:
            run.property_failure("c19:list-argument", "node_to_wikitext(list of the root's children) differs from node_to_wikitext(root)", t)
    check_table_emit(run, rng, quick)
    check_block_emit(run, texts[-(300 if quick else 3000):], outs[-(300 if quick else 3000):])
    from lib import cstr
    strings = ["".join(rng.choice(["[", "]", "[[", "]]", "a", " ", "|", "x"]) for _ in range(rng.randint(1, 8)))
               for _ in range(300 if quick else 2000)]
    strings += ["[[x]]", "a [[ b", "c ]] d", "[[a|b]] and ]]", "[[", "]]", "x[[y]]z[[w]]", "[ [", "[[[a]]]", "]]]", "[[[[", "[[a]] [[b]]"]
    bres = lib.run_impl("brackets", [{"strings": strings}], shards=1)[0]
    coq_cases = ["(%s, %s)" % (cstr(s_), cstr(o_["w"])) for s_, o_ in zip(strings, bres.get("outs", []))]
    bad, errs = lib.coq_eval_failing("c19b", ["Base.Str", "Model.ToWikitext"], "str * str", coq_cases,
                                     "fun '(s, w) => str_eqb (protect s) w", extra_defs="Open Scope N_scope.\n")
    for e in errs:
        run.correspondence_break("model evaluation failed", None, error=e)
    for b in bad:
        run.correspondence_break("Model.ToWikitext.protect disagrees with to_wikitext on a text node", strings[b])
    run.extra["traces_validated_against_impl"] = len(coq_cases)
    for s, o in zip(strings, bres.get("outs", [])):
        run.count(["brackets", s], True, "brackets")
        ch = o["tree"].get("c", [])
        kk = kinds(o["tree"])
        txt = "".join(c02.flat_text(x) for x in ch)
        if "[" not in s and "]" not in s:
            continue
        if any(k in kk for k in ("LINK", "URL", "TEMPLATE", "TEMPLATE_ARG")) or txt.strip() != s.strip():
            triple = "[[[" in s or "]]]" in s
            run.property_failure("c19:brackets:%s" % ("triple" if triple else "double"),
                                 "text %r came back as %s via %r" % (s, json.dumps(ch)[:200], o["w"]), s)


LEX_RE = None


def lex_table_text(w):
    """what the parser's tokenizer makes of serialised table text, in the token alphabet of Model/Tables.v"""
    import re
    global LEX_RE
    if LEX_RE is None:
        LEX_RE = re.compile(r"(?<=\n)\{\||(?<=\n)\|\+|(?<=\n)\|-|(?<=\n)\|\}|(?<=\n)\||(?<=\n)!|\|\||!!|\||w(\d+)|(\.+)")
    out = []
    for m in LEX_RE.finditer(w):
        g = m.group(0)
        bol = m.start() > 0 and w[m.start() - 1] == "\n"
        if m.group(1):
            out.append(("TText", int(m.group(1)), True))
        elif m.group(2):
            out.append(("TText", len(m.group(2)), False))
        elif g == "{|":
            out.append(("TStart",))
        elif g == "|+":
            out.append(("TCaption",))
        elif g == "|-":
            out.append(("TRow",))
        elif g == "|}":
            out.append(("TEnd",))
        elif g == "||":
            out.append(("TBar2",))
        elif g == "!!":
            out.append(("TBang2",))
        elif g == "|":
            out.append(("TBar", bol))
        else:
            out.append(("TBang", bol))
    return out


def check_table_emit(run, rng, quick):
    """Model/TableEmit.emit against to_wikitext on the trees of written tables, and the round trip of those trees."""
    import c03_tables as T
    docs = []
    for _ in range(200 if quick else 3000):
        t = T.gen_table(rng, T.Ids(), 2)
        docs.append(T.render(T.toks_table(t)))
    res = lib.run_impl("roundtrip", [{"texts": docs[i:i + 100]} for i in range(0, len(docs), 100)], shards=lib.NCPU)
    outs = [o for r in res for o in (r.get("outs") or [])]
    cases, idx = [], []
    for i, (text, o) in enumerate(zip(docs, outs)):
        run.count(["table-roundtrip", text], text.count("\n|") >= 3, "table-roundtrip")
        if "raised" in o:
            run.property_failure("c19:raised:%s:%s" % (o["raised"], o["where"]), "round trip raised on %r" % text, text)
            continue
        a1, a2, a3 = (T.abstract(o[k].get("c", [])) for k in ("t1", "t2", "t3"))
        if a1 is None or len(a1) != 1 or a1[0][0] != "N":
            continue                     # reported by C03's table check
        if a2 != a1:
            run.property_failure("c19:roundtrip-differs:table-skeleton", "table changed by to_wikitext+parse: %r -> %r" % (text, o["w1"]), text)
        elif a3 != a2:
            run.property_failure("c19:not-a-fixed-point:table-skeleton", "second round trip changed the table: %r" % (o["w2"],), text)
        cases.append("(%s, %s)" % (T.coq_children(a1), T.coq_toks(lex_table_text(o["w1"]))))
        idx.append(i)
    bad, errs = lib.coq_eval_failing(
        "c19t", ["Model.Tables", "Model.TableEmit"], "list tchild * list tok", cases,
        "fun '(ch, ts) => match ch with [CN n] => shaped 20 n && toks_eqb (emit n) ts | _ => false end",
        extra_defs=T.DEFS, chunk=150)
    for e in errs:
        run.correspondence_break("model evaluation failed (table emitter)", None, error=e)
    for b in bad:
        run.correspondence_break("Model.TableEmit.emit disagrees with to_wikitext on a table tree (or the tree is not of the "
                                 "shape the theorem covers)", docs[idx[b]], w1=outs[idx[b]]["w1"][:400])
    run.extra["table_trees_validated_against_impl"] = len(cases)


def block_seq_of_text(w):
    """the block lines of serialised page text, in the alphabet of Model/Blocks.v"""
    out, hr = [], 0
    for ln in w.split("\n"):
        m = re.match(r"^(=+)\s*(.*?)\s*=+\s*$", ln)
        hid = re.findall(r"\bH(\d+)\b", ln)
        if m and hid:
            out.append("BH %d %s" % (len(m.group(1)), hid[0]))
            continue
        if re.match(r"^----+\s*$", ln):
            hr += 1
            out.append("BHR %d" % hr)
            continue
        m = re.match(r"^([*#]+)", ln)
        lid = re.findall(r"\bL(\d+)\b", ln)
        if m:
            out.append("BLI %s %s" % (c02.coq_marker(m.group(1)), lid[0] if lid else "0"))
            continue
        for pid in re.findall(r"\bP(\d+)\b", ln):
            out.append("BT %s" % pid)
    return out


def check_block_emit(run, texts, outs):
    """Proofs/BlocksEmitProofs.blocks_of_forest (a page tree written back block by block) against to_wikitext on the trees
    of the section/list documents."""
    cases, idx = [], []
    for i, (t, o) in enumerate(zip(texts, outs)):
        if "raised" in o:
            continue
        got = c02.abstract(o["t1"].get("c", []))
        if not all(c02.well_shaped(x) for x in c02.collect_all_lists(got)):
            continue
        seq = block_seq_of_text(o["w1"])
        cases.append("(%s, %s)" % (c02.coq_items(got, [0]), clist(seq, lambda x: x, "cblk")))
        idx.append(i)
    bad, errs = lib.coq_eval_failing(
        "c19b", ["Model.Lists", "Model.Nest", "Model.Blocks", "Proofs.BlocksEmitProofs"], "list item * list cblk", cases,
        "fun '(tree, seq) => cblks_eqb (blocks_of_forest tree) seq",
        extra_defs="Definition cblk_eqb (a b : cblk) : bool := match a, b with BH l i, BH l' i' => Nat.eqb l l' && Nat.eqb i i' "
                   "| BT i, BT i' => Nat.eqb i i' | BHR i, BHR i' => Nat.eqb i i' | BLI m i, BLI m' i' => Lists.marker_eqb m m' && Nat.eqb i i' "
                   "| _, _ => false end.\nFixpoint cblks_eqb (a b : list cblk) : bool := match a, b with [], [] => true "
                   "| x :: a', y :: b' => cblk_eqb x y && cblks_eqb a' b' | _, _ => false end.\n", chunk=300)
    for e in errs:
        run.correspondence_break("model evaluation failed (block emitter)", None, error=e)
    for b in bad:
        run.correspondence_break("blocks_of_forest disagrees with the block lines to_wikitext writes", texts[idx[b]], w1=outs[idx[b]]["w1"][:300])
    run.extra["block_trees_validated_against_impl"] = len(cases)


def replay(data):
    case = data.get("case") or data["breaks"][0]["case"]
    print(json.dumps(lib.run_impl("roundtrip", [{"texts": [case]}])[0])[:4000])
    return 0
