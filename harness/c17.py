"""C17 — template analysis marks exactly the closure (DESIGN.md section 4, C17)."""
import itertools
import lib
from lib import cnat, clist, cpair

NAME_POOL = ["A", "B c", "été", "x-lower", "D/sub", "名前", "E e", "F", "g", "H h h",
             # names that begin with something a title lookup could take for a namespace prefix
             "T:section", "Main:see", "template:low", "Template:twice", "t:x", "Module:m"]


def spec_run(case, present, premarked):
    """One analysis on the stored pages [present], some of them already marked: least fixed point from the flagged and the
    already marked templates over 'includes', then the one-hop redirects (property text)."""
    clo = {i for i in present if case["flagged"][i] or i in premarked}
    changed = True
    while changed:
        changed = False
        for t in present:
            if t not in clo and any(u in clo for u in case["uses"][t]):
                clo.add(t)
                changed = True
    out = set(clo)
    for r in present:
        d = case["redirect"][r]
        if d is not None and d in present:
            if d in clo:
                out.add(r)
            if r in clo:
                out.add(d)
    return sorted(out)


def spec_runs(case):
    n = len(case["names"])
    pm = {i for i in range(n) if (case.get("premarked") or [False] * n)[i]}
    p2 = set(case.get("phase2") or [])
    first = [i for i in range(n) if i not in p2]
    runs = [spec_run(case, first, pm & set(first))]
    rw = set(case.get("rewrite") or [])
    if p2 or rw:
        # a page that is stored again (overwritten) has the mark it is stored with, whatever the first analysis gave it
        runs.append(spec_run(case, list(range(n)), (set(runs[0]) - rw) | pm))
    return runs


def spec(case):
    return spec_runs(case)[-1]


def gen_case(rng, n):
    names = rng.sample(NAME_POOL, n)
    redirect = [None] * n
    for i in range(n):
        if n > 1 and rng.random() < 0.25:
            redirect[i] = rng.choice([j for j in range(n) if j != i])
    dens = rng.choice([0.1, 0.25, 0.5])
    uses = [[j for j in range(n) if rng.random() < dens] for i in range(n)]
    fp = rng.choice([0.0, 0.15, 0.3, 0.6])
    flagged = [rng.random() < fp for _ in range(n)]
    c = {"names": names, "uses": uses, "flagged": flagged, "redirect": redirect}
    if rng.random() < 0.35:
        c["premarked"] = [rng.random() < 0.3 for _ in range(n)]       # stored with need_pre_expand=True (override files do that)
    if n > 1 and rng.random() < 0.35:
        c["phase2"] = sorted(rng.sample(range(n), rng.randint(1, n - 1)))   # stored after a first analysis; analysed again
    if rng.random() < 0.3:
        # templates stored once more (overwritten, as override files do) after the first analysis; analysed again
        first = [i for i in range(n) if i not in (c.get("phase2") or [])]
        c["rewrite"] = sorted(rng.sample(first, rng.randint(1, len(first))))
    return c


def exhaustive(nmax):
    for n in range(1, nmax + 1):
        pairs = [(i, j) for i in range(n) for j in range(n)]
        for mask in range(1 << len(pairs)):
            uses = [[] for _ in range(n)]
            for b, (i, j) in enumerate(pairs):
                if mask >> b & 1:
                    uses[i].append(j)
            for fl in itertools.product([False, True], repeat=n):
                yield {"names": NAME_POOL[:n], "uses": uses, "flagged": list(fl),
                       "redirect": [None] * n}


def coq_cases_of(case, runs):
    """one Coq case per analysis run: the pages present, the seeds (flagged or already marked) and the marked set"""
    n = len(case["names"])
    pm = {i for i in range(n) if (case.get("premarked") or [False] * n)[i]}
    p2 = set(case.get("phase2") or [])
    rw = set(case.get("rewrite") or [])
    pl = lambda l: clist(l, lambda p: cpair(cnat(p[0]), cnat(p[1])), "nat * nat")
    out = []
    before = set()
    for k, r in enumerate(runs):
        present = [i for i in range(n) if i not in p2] if k == 0 else list(range(n))
        ps = set(present)
        edges = [(u, t) for t in present for u in case["uses"][t] if u in ps]
        seeds = [i for i in present if case["flagged"][i] or i in pm or (i in before and i not in rw)]
        reds = [(r_, d) for r_, d in enumerate(case["redirect"]) if d is not None and r_ in ps and d in ps]
        out.append("(%s, %s, %s, %s, %s)" % (cnat(n), pl(edges), clist(seeds, cnat, "nat"), pl(reds),
                                             clist(r["marked"], cnat, "nat")))
        before = set(r["marked"])
    return out


def signature(case, got, want):
    extra = set(got) - set(want)
    missing = set(want) - set(got)
    return "marked-set:%s%s" % ("+extra" if extra else "", "+missing" if missing else "")


def run(run):
    run.rule = ("inclusion graphs on n templates (cycles, self-inclusion, diamonds; names with spaces/Unicode/"
                "lower-case initials), flag sets, redirect placements; exhaustive for n<=2 (quick) / n<=3 (thorough) "
                "plus random n<=8, a third of them with templates stored already marked and a third analysed twice (more "
                "templates stored and/or some stored once more - overwritten - in between); non-trivial = at least one flagged template and one edge; distinct by JSON hash")
    run.trusted = [
        "Coq 8.16.1 kernel; vm_compute for evaluating the model on cases and for the Example",
        "axioms: none (Print Assumptions: Closed under the global context)",
        "hand-written model coq/Model/Analyze.v tied to core.py:analyze_templates by correspondence on marked sets",
        "SQLite UPDATE..FROM semantics (one-hop redirect propagation) exercised, not modelled",
        "harness: harness/c17.py, harness/implfns.py:impl_c17 (classifier returns exact stored names)",
    ]
    run.assumptions = ["classifier returns included names exactly as stored (API contract of included_map keys)",
                       "redirect_to holds the canonical stored title of the target"]
    run.prove()
    cases = list(exhaustive(2 if run.tier == "quick" else 3))
    nrand = 1000 if run.tier == "quick" else 6000
    for _ in range(nrand):
        cases.append(gen_case(run.rng, run.rng.randint(2, 8)))
    res = lib.run_impl("c17", cases)
    coq_cases, idx = [], []
    for i, (c, r) in enumerate(zip(cases, res)):
        nontriv = any(c["flagged"]) and any(c["uses"])
        run.count(c, nontriv, "n=%d" % len(c["names"]))
        if r.get("outcome") != "ok":
            run.property_failure("analyze:" + r.get("outcome", "?") + ":" + r.get("exc", ""),
                                 "analyze_templates did not return normally: %r" % (r,), c)
            continue
        wants = spec_runs(c)
        gots = [x["marked"] for x in r["runs"]]
        if gots != wants:
            which = "" if len(wants) == 1 else (":first-run" if gots[0] != wants[0] else ":re-analysis")
            run.property_failure(signature(c, gots[-1] if gots[0] == wants[0] else gots[0],
                                           wants[-1] if gots[0] == wants[0] else wants[0]) + which,
                                 "marked sets %r differ from the closures %r" % (gots, wants), c)
        for k, x in enumerate(r["runs"]):
            if x.get("looked_up") is not None and x["looked_up"] != x["marked"]:
                run.property_failure("c17:marks-not-visible-to-lookups",
                                     "after analysis %d the stored marks are %r but get_page() on the same context reports %r"
                                     % (k + 1, x["marked"], x["looked_up"]), c)
                break
        if r["classified"] != list(range(len(c["names"]))):
            run.correspondence_break("classifier not called exactly once per template", c, got=r["classified"])
        for cc in coq_cases_of(c, r["runs"]):
            coq_cases.append(cc)
            idx.append(i)
    bad, errs = lib.coq_eval_failing(
        "c17", ["Model.Analyze"], "nat * list (nat*nat) * list nat * list (nat*nat) * list nat",
        coq_cases, "fun '(n, e, f, r, m) => set_eqb (analyze n e f r) m")
    for e in errs:
        run.correspondence_break("model evaluation failed", None, error=e)
    for b in bad:
        run.correspondence_break("Model.Analyze.analyze disagrees with analyze_templates",
                                 cases[idx[b]], impl=res[idx[b]])
    run.extra["traces_validated_against_impl"] = len(coq_cases)


def replay(data):
    case = data.get("case") or data["breaks"][0]["case"]
    r = lib.run_impl("c17", [case])[0]
    print("implementation:", r, "\nspecification :", spec(case))
    return 0 if r.get("marked") == spec(case) else 1
