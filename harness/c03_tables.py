"""C03 — the table machine of coq/Model/Tables.v against the real table handlers.

Token sequences (written tables of the theorem's grammar, and arbitrary soups of table tokens) are rendered to wikitext,
parsed by the real parser, and the table skeleton of the real tree is compared inside Coq with what the machine builds
from the same tokens.  Atoms: (id, True) is the word "w<id>" (parse_attrs finds an attribute in it), (id, False) a run of
<id> dots (no attribute)."""
import re
import lib
from lib import clist

KINDS = {"TABLE": "KTable", "TABLE_ROW": "KRow", "TABLE_CELL": "KCell", "TABLE_HEADER_CELL": "KHdr", "TABLE_CAPTION": "KCaption"}
MARKS = {"{|": 900, "|+": 901, "|-": 902, "|}": 903, "|": 904, "||": 905, "!": 906, "!!": 907}
ATOM_RE = re.compile(r"w(\d+)|(\.+)|(\{\||\|\+|\|-|\|\}|\|\||!!|\||!)")


def tok_text(t):
    k = t[0]
    if k == "TText":
        return " w%d" % t[1] if t[2] else " " + "." * t[1]
    return {"TStart": "\n{|", "TCaption": "\n|+", "TRow": "\n|-", "TEnd": "\n|}", "TBar2": " ||", "TBang2": " !!",
            "TBar": "\n|" if len(t) > 1 and t[1] else " |", "TBang": "\n!" if len(t) > 1 and t[1] else " !"}[k]


def render(toks):
    return "z" + "".join(tok_text(t) for t in toks) + "\n"


def coq_bool(b):
    return "true" if b else "false"


def coq_atom(i, y):
    return "(%d, %s)" % (i, coq_bool(y))


def coq_tok(t):
    k = t[0]
    if k == "TText":
        return "TText " + coq_atom(t[1], t[2])
    if k in ("TBar", "TBang"):
        return "%s %s" % (k, coq_bool(t[1]))
    return k


def coq_toks(toks):
    return clist([coq_tok(t) for t in toks], lambda x: x, "tok")


# ------------------------------------------------------------------ the grammar (mirrors Model/Tables.v)
class Ids:
    def __init__(self):
        self.n = 0

    def word(self):
        self.n += 1
        return (self.n, True)

    def any(self, rng):
        return self.word() if rng.random() < 0.8 else (rng.randint(1, 4), False)


def gen_body(rng, ids, depth):
    battr = ids.any(rng) if rng.random() < 0.35 else None
    content = []
    for _ in range(rng.choice([0, 1, 1, 1, 2, 3])):
        if depth > 0 and rng.random() < 0.2:
            content.append(("ITable", gen_table(rng, ids, depth - 1)))
        else:
            content.append(("IText", ids.any(rng)))
    return (battr, content)


def gen_table(rng, ids, depth=2):
    tattr = ids.any(rng) if rng.random() < 0.5 else None
    cap = gen_body(rng, ids, depth) if rng.random() < 0.35 else None
    rows = []
    for _ in range(rng.randint(0, 3)):
        rattr = ids.any(rng) if rng.random() < 0.4 else None
        h = rng.random() < 0.4
        first = gen_body(rng, ids, depth)
        more, prev = [], h
        for _ in range(rng.randint(0, 3)):
            s = rng.choice([("SBol", True), ("SBol", False), ("SDouble",), ("SDouble",)] + ([("SBang2",)] if prev else []))
            prev = s[1] if s[0] == "SBol" else (True if s[0] == "SBang2" else prev)
            more.append((s, gen_body(rng, ids, depth)))
        rows.append((rattr, h, first, more))
    return (tattr, cap, rows)


def sep_tok(s):
    if s[0] == "SBol":
        return ("TBang", True) if s[1] else ("TBar", True)
    return ("TBar2",) if s[0] == "SDouble" else ("TBang2",)


def toks_body(b):
    battr, content = b
    out = [("TText",) + battr, ("TBar", False)] if battr else []
    for kind, x in content:
        out += [("TText",) + x] if kind == "IText" else toks_table(x)
    return out


def toks_table(t):
    tattr, cap, rows = t
    out = [("TStart",)] + ([("TText",) + tattr] if tattr else [])
    if cap:
        out += [("TCaption",)] + toks_body(cap)
    for rattr, h, first, more in rows:
        out += [("TRow",)] + ([("TText",) + rattr] if rattr else []) + [sep_tok(("SBol", h))] + toks_body(first)
        for s, b in more:
            out += [sep_tok(s)] + toks_body(b)
    return out + [("TEnd",)]


def coq_opt_atom(a):
    return "Some " + coq_atom(*a) if a else "None"


def coq_body(b):
    battr, content = b
    items = ["IText " + coq_atom(*x) if kind == "IText" else "ITable (%s)" % coq_table(x) for kind, x in content]
    return "Body (%s) %s" % (coq_opt_atom(battr), clist(items, lambda x: x, "citem"))


def coq_sep(s):
    return "SBol %s" % coq_bool(s[1]) if s[0] == "SBol" else s[0]


def coq_table(t):
    tattr, cap, rows = t
    rs = ["Row (%s) %s (%s) %s" % (coq_opt_atom(rattr), coq_bool(h), coq_body(first),
                                   clist(["Cell (%s) (%s)" % (coq_sep(s), coq_body(b)) for s, b in more], lambda x: x, "cell"))
          for rattr, h, first, more in rows]
    return "Table (%s) (%s) %s" % (coq_opt_atom(tattr), "Some (%s)" % coq_body(cap) if cap else "None", clist(rs, lambda x: x, "row"))


# ------------------------------------------------------------------ soups
def gen_soup(rng, ids):
    n = rng.randint(1, 14)
    out = []
    if rng.random() < 0.8:
        out.append(("TStart",))
    for _ in range(n):
        r = rng.random()
        if r < 0.3:
            out.append(("TText",) + ids.any(rng))
        elif r < 0.42:
            out.append(("TBar", True))
        elif r < 0.5:
            out.append(("TBar", False))
        elif r < 0.58:
            out.append(("TBar2",))
        elif r < 0.66:
            out.append(("TBang", True))
        elif r < 0.7:
            out.append(("TBang", False))
        elif r < 0.76:
            out.append(("TBang2",))
        elif r < 0.85:
            out.append(("TRow",))
        elif r < 0.9:
            out.append(("TCaption",))
        elif r < 0.95:
            out.append(("TStart",))
        else:
            out.append(("TEnd",))
    if rng.random() < 0.6:
        out.append(("TEnd",))
    return out


# ------------------------------------------------------------------ the real tree, abstracted
def atoms_of(s):
    out = []
    for m in ATOM_RE.finditer(s):
        if m.group(1):
            out.append((int(m.group(1)), True))
        elif m.group(2):
            out.append((len(m.group(2)), False))
        else:
            out.append((MARKS[m.group(3)], False))
    return out


def abstract(children):
    """-> list of ("S", atoms) / ("N", kind, attr ids, children), or None when something foreign is in the tree"""
    out = []
    for ch in children:
        if isinstance(ch, str):
            a = atoms_of(ch)
            if a:
                out.append(("S", a))
            continue
        k = KINDS.get(ch.get("k"))
        if k is None:
            return None
        ids = []
        for key in ch.get("at", {}):
            m = re.fullmatch(r"w(\d+)", key)
            if not m:
                return None
            ids.append(int(m.group(1)))
        sub = abstract(ch.get("c", []))
        if sub is None:
            return None
        out.append(("N", k, ids, sub))
    return out


def coq_children(chs):
    items = []
    for c in chs:
        if c[0] == "S":
            items.append("CS " + clist([coq_atom(*a) for a in c[1]], lambda x: x, "atom"))
        else:
            items.append("CN (TN %s %s %s)" % (c[1], clist([str(i) for i in c[2]], lambda x: x, "nat"), coq_children(c[3])))
    return clist(items, lambda x: x, "tchild")


PRED_SOUP = """fun '(ts, real) =>
  match parse ts with Some ch => children_eqb 60 ch real | None => true end"""
PRED_DOC = """fun '(t, ts, real) => wf_table t && toks_eqb (render_table t) ts && children_eqb 60 real [CN (tree_table t)]"""
PRED_DOC_MODEL = """fun '(t, ts, real) => match parse ts with Some ch => children_eqb 60 ch real | None => false end"""
DEFS = """Definition tok_eqb (a b : tok) : bool :=
  match a, b with
  | TStart, TStart | TCaption, TCaption | TRow, TRow | TEnd, TEnd | TBar2, TBar2 | TBang2, TBang2 => true
  | TBar x, TBar y | TBang x, TBang y => Bool.eqb x y
  | TText (i, x), TText (j, y) => Nat.eqb i j && Bool.eqb x y
  | _, _ => false
  end.
Fixpoint toks_eqb (a b : list tok) : bool :=
  match a, b with [], [] => true | x :: a', y :: b' => tok_eqb x y && toks_eqb a' b' | _, _ => false end.
Definition unmodelled (ts : list tok) : bool := match parse ts with None => true | Some _ => false end.
"""


def check(run):
    rng = run.rng
    quick = run.tier == "quick"
    docs, soups = [], []
    for _ in range(250 if quick else 3000):
        ids = Ids()
        t = gen_table(rng, ids, 2)
        docs.append((t, toks_table(t)))
    for _ in range(700 if quick else 8000):
        soups.append(gen_soup(rng, Ids()))
    texts = [render(ts) for _, ts in docs] + [render(ts) for ts in soups]
    res = lib.run_impl("parse_many", [{"texts": texts[i:i + 200]} for i in range(0, len(texts), 200)], shards=lib.NCPU)
    outs = []
    for r in res:
        outs += r.get("outs", []) if r.get("outcome") == "ok" else []
    if len(outs) != len(texts):
        run.correspondence_break("table token texts could not be parsed by the implementation", None, got=len(outs), want=len(texts))
        return
    dcases, didx, scases, sidx = [], [], [], []
    foreign = 0
    for i, (text, o) in enumerate(zip(texts, outs)):
        is_doc = i < len(docs)
        toks = docs[i][1] if is_doc else soups[i - len(docs)]
        run.count(["table-machine", text], len(toks) >= 4, "table-doc" if is_doc else "table-soup")
        if "raised" in o:
            run.property_failure("c03:table-tokens:raised:%s" % o["raised"], "parse raised on %r: %r" % (text, o), text)
            continue
        real = abstract(o["tree"].get("c", []))
        if real is None:
            foreign += 1
            if is_doc:
                run.property_failure("c03:table-machine:foreign-node", "a written table produced a node of another kind or an "
                                     "attribute that was not written: %r" % (text,), text)
            continue
        if is_doc:
            dcases.append("(%s, %s, %s)" % (coq_table(docs[i][0]), coq_toks(toks), coq_children(real)))
            didx.append(i)
        else:
            scases.append("(%s, %s)" % (coq_toks(toks), coq_children(real)))
            sidx.append(i)
    bad, errs = lib.coq_eval_failing("c03td", ["Model.Tables"], "table * list tok * list tchild", dcases, PRED_DOC,
                                     extra_defs=DEFS, chunk=150)
    for e in errs:
        run.correspondence_break("model evaluation failed (table documents)", None, error=e)
    for b in bad:
        run.property_failure("c03:table-machine:written-table", "the parser's tree for a written table is not the table that "
                             "was written: %r" % (texts[didx[b]],), texts[didx[b]])
    bad, errs = lib.coq_eval_failing("c03tm", ["Model.Tables"], "table * list tok * list tchild", dcases, PRED_DOC_MODEL,
                                     extra_defs=DEFS, chunk=150)
    for e in errs:
        run.correspondence_break("model evaluation failed (table documents, machine)", None, error=e)
    for b in bad:
        run.correspondence_break("Model.Tables.parse disagrees with the parser on a written table", texts[didx[b]])
    bad, errs = lib.coq_eval_failing("c03ts", ["Model.Tables"], "list tok * list tchild", scases, PRED_SOUP,
                                     extra_defs=DEFS, chunk=300)
    for e in errs:
        run.correspondence_break("model evaluation failed (table token soups)", None, error=e)
    for b in bad:
        run.correspondence_break("Model.Tables.parse disagrees with the table handlers of the parser", texts[sidx[b]])
    un, errs = lib.coq_eval_failing("c03tu", ["Model.Tables"], "list tok * list tchild", scases,
                                    "fun '(ts, _) => negb (unmodelled ts)", extra_defs=DEFS, chunk=300)
    run.extra["table_docs_validated_against_impl"] = len(dcases)
    run.extra["table_soups_validated_against_impl"] = len(scases) - len(un)
    run.extra["table_soups_outside_the_machine"] = len(un)
    run.extra["table_texts_with_foreign_nodes"] = foreign
