"""C07 — every Lua invocation is stopped by its time limit and the context stays usable."""
import itertools
import json
import lib

BODIES = {
    "tight": "while true do end",
    "lib": "local s = 0 while true do s = s + #string.rep('x', 10) end",
    "tbl": "local t = {} local i = 0 while true do i = i + 1 t[i % 100] = i end",
    "recurse": "local function f(n) return f(n + 1) + 1 end return f(1)",
    "gsub": "while true do local _ = string.gsub('aaaa', 'a', 'b') end",
    "finite": "local s = 0 for i = 1, 1000 do s = s + i end return 'done' .. s",
}
WRAPPERS = {
    "none": "%s",
    "pcall": "pcall(function() %s end) return 'after-pcall'",
    "pcall-loop": "while true do pcall(function() %s end) end",
    "xpcall": "xpcall(function() %s end, function(e) return e end) return 'after-xpcall'",
    "xpcall-loop": "while true do xpcall(function() %s end, function(e) return e end) end",
    "nested-pcall": "pcall(function() pcall(function() %s end) %s end) return 'after-nested'",
    "coroutine": "local co = coroutine and coroutine.wrap(function() %s end) if co then co() end return 'no-coroutine'",
    "coroutine-loop": "if coroutine then while true do local co = coroutine.wrap(function() %s end) pcall(co) end end return 'no-coroutine'",
    "clear-hook": "if _lua_clear_timeout_hook then _lua_clear_timeout_hook() end %s",
    "set-timeout": "if _lua_set_timeout then _lua_set_timeout(59) end %s",
    "error-then-loop": "pcall(error, 'x') %s",
}
FOLLOW = ["{{#invoke:echo|main|a|b=c}}", "{{a|x}}", "{{#invoke:hang|main}}", "{{#invoke:echo|main|z}}"]
BOUND = 3.5      # seconds after the limit: one hook period plus os.time()'s one-second granularity, with slack


def run(run):
    run.rule = ("programs generated from the grammar of Model.Timeout (model verdict vs the real sandbox); non-terminating bodies (tight loop, loop calling string/table library functions, pattern matching loop, deep "
                "recursion) and a terminating control, under 11 wrappers (none, pcall, pcall in a loop, xpcall, xpcall in a loop, "
                "nested pcall, coroutine, coroutines in a loop, clearing the hook, raising the limit, error-then-loop) and in 7 places "
                "(top level of the invoked / a required / a data module, after or inside a nested invocation, after sequences of nested "
                "invocations that fail - missing or broken module, missing function, runtime error - and succeed), each "
                "followed by benign invocations on the same context; limit 1 s, external watchdog; non-trivial = non-terminating "
                "body; distinct by (body, wrapper)")
    run.trusted = [
        "Coq 8.16.1 kernel; the hook/pcall state-machine theorem is proved for all programs of the shape grammar",
        "axioms: none",
        "wall-clock time, os.time() granularity, Lua's hook delivery (every 100000 VM instructions, per coroutine) and "
        "long-running C functions are runtime behaviour the model cannot exhibit: they are exercised by running every shape for "
        "real under an external watchdog",
    ]
    run.prove()
    quick = run.tier == "quick"
    rng = run.rng
    combos = [(b, w) for b in BODIES for w in WRAPPERS]
    if quick:
        combos = [c for c in combos if c[0] in ("tight", "lib", "finite") or c[1] in ("none", "pcall-loop")]
    cases = []
    for b, w in combos:
        tpl = WRAPPERS[w]
        body = tpl % ((BODIES[b],) * tpl.count("%s"))
        cases.append({"body": body, "timeout": 1, "followups": FOLLOW[:2] if quick else FOLLOW, "_timeout": 1 + 12, "b": b, "w": w})
    # where the non-terminating code sits: at the top level of the invoked module, of a required module, of a data module,
    # or in the invoked function after a nested invocation has come and gone
    LOOP = "while true do end"
    places = {
        "module-toplevel": {"module_src": LOOP + "\nlocal e = {}\nfunction e.main(frame) return 'loaded' end\nreturn e"},
        "required-toplevel": {"module_src": "local e = {}\nfunction e.main(frame) local d = require('Module:hangdep') return 'r' end\nreturn e",
                              "extra": {"hangdep": LOOP + "\nreturn {}"}},
        "required-at-load": {"module_src": "local d = require('Module:hangdep')\nlocal e = {}\nfunction e.main(frame) return 'r' end\nreturn e",
                             "extra": {"hangdep": LOOP + "\nreturn {}"}},
        "loaddata-toplevel": {"module_src": "local e = {}\nfunction e.main(frame) local d = mw.loadData('Module:hangdata') return 'd' end\nreturn e",
                              "extra": {"hangdata": LOOP + "\nreturn {}"}},
        "after-nested-invoke": {"module_src": "local e = {}\nfunction e.main(frame) local x = frame:preprocess('{{#invoke:echo|main|q}}') "
                                              + LOOP + " end\nreturn e"},
        "after-expandtemplate": {"module_src": "local e = {}\nfunction e.main(frame) local x = frame:expandTemplate{title='a', args={'q'}} "
                                               + LOOP + " end\nreturn e"},
        "in-nested-invoke": {"module_src": "local e = {}\nfunction e.main(frame) return frame:preprocess('{{#invoke:hangdep2|main}}') end\nreturn e",
                             "extra": {"hangdep2": "local e = {}\nfunction e.main(frame) " + LOOP + " end\nreturn e"}},
    }
    places["nested-invoke-loop"] = {
        "module_src": "local e = {}\nfunction e.main(frame) while true do local x = frame:preprocess('{{#invoke:hangdep2|main}}') end end\nreturn e",
        "extra": {"hangdep2": "local e = {}\nfunction e.main(frame) " + LOOP + " end\nreturn e"}}
    # the loop comes after a SEQUENCE of nested invocations, each ending in one of the ways an invocation can end (a failing one
    # followed by a benign one: what the first leaves behind must not make the second look like an outermost invocation)
    NESTED = {"nomod": "frame:preprocess('{{#invoke:nomodule9|main}}')", "syntax": "frame:preprocess('{{#invoke:syn|main}}')",
              "nofn": "frame:preprocess('{{#invoke:echo|nofn}}')", "err": "frame:preprocess('{{#invoke:boom|main}}')",
              "ok": "frame:preprocess('{{#invoke:echo|main|q}}')", "tmpl": "frame:expandTemplate{title='a', args={'q'}}",
              "pfn": "frame:callParserFunction('#invoke', {'nomodule9', 'main'})"}
    NEXTRA = {"syn": "this is not lua (", "boom": "local e = {}\nfunction e.main(frame) error('boom') end\nreturn e"}
    seqs = [["nomod", "ok"], ["syntax", "ok"], ["nofn", "ok"], ["err", "ok"], ["nomod"], ["pfn", "tmpl"]]
    if not quick:
        seqs += [[a, b] for a in NESTED for b in NESTED] + [[rng.choice(list(NESTED)) for _ in range(3)] for _ in range(12)]
    for sq in seqs:
        stmts = " ".join("local x%d = %s" % (j, NESTED[k]) for j, k in enumerate(sq))
        places["after-nested-" + "-".join(sq)] = {
            "module_src": "local e = {}\nfunction e.main(frame) " + stmts + " " + LOOP + " end\nreturn e", "extra": dict(NEXTRA)}
    # the non-terminating invocation comes on the same page (same expand call) right after an invocation that ended in one
    # of the ways an invocation can end
    enders = {"undecodable-result": ("{{#invoke:ender|main}}", "local e = {}\nfunction e.main(frame) return 'caf' .. string.char(233) end\nreturn e"),
              "no-such-function": ("{{#invoke:ender|nofn}}", "local e = {}\nreturn e"),
              "load-error": ("{{#invoke:ender|main}}", "error('while loading')"),
              "runtime-error": ("{{#invoke:ender|main}}", "local e = {}\nfunction e.main(frame) error('boom') end\nreturn e"),
              "non-string-result": ("{{#invoke:ender|main}}", "local e = {}\nfunction e.main(frame) return {1} end\nreturn e"),
              "no-such-module": ("{{#invoke:nomodule|main}}", "return {}")}
    for nm, (call, src) in enders.items():
        if quick and nm in ("runtime-error", "non-string-result"):
            continue
        places["same-page-after-" + nm] = {"first": call + " {{#invoke:hang|main}}", "extra": {"ender": src},
                                           "module_src": "local e = {}\nfunction e.main(frame) " + LOOP + " end\nreturn e"}
    for name, spec in places.items():
        cases.append(dict(spec, body="return 'unused'", timeout=1, followups=FOLLOW[:2] if quick else FOLLOW, _timeout=13,
                          b="tight", w="place:" + name))
    # histories: an invocation that fails in some way, optionally a pause longer than the limit, then benign invocations
    firsts = {"no-such-function": "{{#invoke:echo|nofn}}", "no-such-module": "{{#invoke:nomod|main}}", "module-load-fails": "{{#invoke:syn|main}}",
              "runtime-error": "{{#invoke:hang|main}}", "timeout": "{{#invoke:hang|main}}"}
    hbody = {"runtime-error": "error('boom')", "timeout": "while true do end"}
    benign = ["{{#invoke:echo|main|a|b=c}}"] * 18 + ["{{#invoke:work|main}}", "{{#invoke:echo|main|z}}", "{{#invoke:work|main}}"]
    for name, first in firsts.items():
        for wait in ((0, 2.6) if not quick else (2.6,)):
            cases.append({"body": hbody.get(name, "return 'unused'"), "first": first, "wait": wait, "timeout": 1, "followups": benign,
                          "_timeout": 14, "b": "history:" + name, "w": "history"})
    # one process per case, killed from outside: a Lua busy loop never returns to the interpreter, so no in-process alarm can fire
    res = []
    for i in range(0, len(cases), 12):
        part = cases[i:i + 12]
        res += lib.run_impl("c07", part, shards=len(part), timeout=14)
    for r in res:
        if r.get("outcome") == "harness-timeout":
            r["outcome"] = "timeout"
    orig_pf = run.property_failure

    def pf(sig, what, case):
        # two root causes cover every failure under these wrappers (known findings); anything else keeps its own signature
        w = case.get("w") if isinstance(case, dict) else None
        if w in ("pcall", "xpcall", "nested-pcall", "pcall-loop", "xpcall-loop", "coroutine-loop"):
            sig = "c07:pcall-swallows-timeout"
        elif w in ("set-timeout", "clear-hook"):
            sig = "c07:timeout-controls-exposed"
        elif w == "place:nested-invoke-loop":
            sig = "c07:nested-invocation-swallows-timeout"
        orig_pf(sig, what, case)
    run.property_failure = pf
    for c, r in zip(cases, res):
        run.count([c["b"], c["w"]], c["b"] != "finite", "%s" % c["w"])
        key = "%s:%s" % (c["w"], "finite" if c["b"] == "finite" else ("recurse" if c["b"] == "recurse" else "loop"))
        if r.get("outcome") == "timeout":
            run.property_failure("c07:not-stopped:%s" % key, "invocation (%s body under %s) still running %d s after a 1 s limit"
                                 % (c["b"], c["w"], c["_timeout"] - 1), {k: c[k] for k in ("body", "timeout", "followups", "w", "b", "module_src", "extra") if k in c})
            continue
        if r.get("outcome") != "ok":
            run.property_failure("c07:raised:%s:%s" % (key, r.get("exc", "")), "expand raised: %r" % (r,), {k: c[k] for k in ("body", "timeout", "followups", "w", "b")})
            continue
        if c["w"] == "history":
            want = ["<<n1=a;sb=c>>"] * 18 + ["work1200003", "<<n1=z>>", "work1200003"]
            bad = [(i, f) for i, (f, g) in enumerate(zip(r["follow"], want)) if f != g]
            if bad or len(r["follow"]) != len(want):
                run.property_failure("c07:context-unusable-after:%s" % c["b"],
                                     "after %s (pause %.1f s) benign invocations went wrong: %r" % (c["b"], c.get("wait", 0), bad[:3]), c)
            if r["stack"] != ["Tt"] or r["env"] != 0:
                run.property_failure("c07:state-left:%s" % c["b"], "expand_stack %r, lua_env_stack %d" % (r["stack"], r["env"]), c)
            continue
        if c["b"] == "finite":
            if "done500500" not in r["out"] and "no-coroutine" not in r["out"] and "after" not in r["out"]:
                run.property_failure("c07:finite-body-broken:%s" % c["w"], "terminating body gave %r" % r["out"], c)
        elif c["b"] == "recurse":
            pass        # a stack overflow is an ordinary Lua error, reported in-band
        else:
            if r["dt"] > 1 + BOUND:
                run.property_failure("c07:late:%s" % key, "stopped only after %.1f s (limit 1 s)" % r["dt"], c)
            if "Lua timeout error" not in r["out"] and "no-coroutine" not in r["out"]:
                run.property_failure("c07:no-timeout-element:%s" % key, "did not expand to the timeout element: %r" % r["out"], c)
        good = ["<<n1=a;sb=c>>", "A[x]", None, "<<n1=z>>"]
        for t, g, f in zip(c["followups"], good, r["follow"]):
            if g is not None and f != g:
                run.property_failure("c07:context-unusable-after:%s" % key, "after the invocation, %r expanded to %r" % (t, f), c)
        if r["stack"] != ["Tt"] or r["env"] != 0:
            run.property_failure("c07:state-left:%s" % key, "expand_stack %r, lua_env_stack %d" % (r["stack"], r["env"]), c)
    model_tie(run, quick)


# ---------------------------------------------------------------- Model/Timeout.v against the real sandbox on generated programs
def diverges(p):
    k = p[0]
    if k in ("loop", "forever"):
        return True
    if k == "seq":
        return diverges(p[1]) or diverges(p[2])
    return False


def gen_prog(rng, depth, in_forever=False):
    """a program of Model.Timeout.prog; inside 'while true', a pcall / nested invocation always wraps something that does not
    return by itself (whether the hook fires inside or outside a pcall whose body returns is a race the model does not decide)"""
    r = rng.random()
    if depth <= 0 or r < 0.25:
        return rng.choice([("fin",), ("loop",), ("fin",), ("clear",), ("raise",)]) if rng.random() < 0.85 else ("loop",)
    if r < 0.5:
        return ("seq", gen_prog(rng, depth - 1, in_forever), gen_prog(rng, depth - 1, in_forever))
    if r < 0.62:
        return ("forever", gen_prog(rng, depth - 1, True))
    q = gen_prog(rng, depth - 1, in_forever)
    if in_forever and not diverges(q):
        q = ("seq", q, ("loop",))
    return ("pcall" if r < 0.85 else "nested", q)


def prog_lua(p, mods):
    k = p[0]
    if k == "fin":
        return "local _x = 1"
    if k == "loop":
        return "while true do end"
    if k == "seq":
        return prog_lua(p[1], mods) + " " + prog_lua(p[2], mods)
    if k == "forever":
        return "while true do " + prog_lua(p[1], mods) + " end"
    if k == "pcall":
        return "pcall(function() " + prog_lua(p[1], mods) + " end)"
    if k == "nested":
        name = "sub%d" % len(mods)
        mods[name] = None
        mods[name] = "local e = {}\nfunction e.main(frame) " + prog_lua(p[1], mods) + " return 'r' end\nreturn e"
        return "local _n = frame:preprocess('{{#invoke:%s|main}}')" % name
    if k == "clear":
        return "_lua_clear_timeout_hook()"
    return "_lua_set_timeout(59)"


def prog_coq(p):
    k = p[0]
    if k in ("seq",):
        return "Seq (%s) (%s)" % (prog_coq(p[1]), prog_coq(p[2]))
    if k in ("forever", "pcall", "nested"):
        return "%s (%s)" % ({"forever": "Forever", "pcall": "Pcall", "nested": "Nested"}[k], prog_coq(p[1]))
    return {"fin": "Finite 0", "loop": "Loop", "clear": "ClearHook", "raise": "RaiseLimit 2000"}[k]


OUTCOMES = {0: "returns normally", 1: "is stopped with the timeout element", 2: "is still running long after the limit"}


def model_tie(run, quick):
    """programs of the model's grammar compiled to Lua and run for real (limit 1 s, killed from outside after 12 s): the model's
    verdict - returns / stopped at the deadline / not stopped - against what happened"""
    rng = run.rng
    fixed = [("loop",), ("fin",), ("seq", ("pcall", ("loop",)), ("fin",)), ("seq", ("pcall", ("loop",)), ("loop",)),
             ("forever", ("pcall", ("loop",))), ("seq", ("clear",), ("loop",)), ("nested", ("loop",)),
             ("forever", ("nested", ("loop",))), ("seq", ("nested", ("loop",)), ("loop",)), ("forever", ("fin",)),
             ("pcall", ("seq", ("clear",), ("loop",))), ("seq", ("raise",), ("loop",))]
    progs = fixed + [gen_prog(rng, rng.randint(1, 4)) for _ in range(24 if quick else 240)]
    seen, uniq = set(), []
    for p in progs:
        if repr(p) not in seen:
            seen.add(repr(p)); uniq.append(p)
    cases = []
    for p in uniq:
        mods = {}
        body = prog_lua(p, mods) + " return 'done'"
        cases.append({"body": body, "extra": mods, "timeout": 1, "followups": [], "_timeout": 13, "prog": repr(p)})
    res = []
    for i in range(0, len(cases), 12):
        part = cases[i:i + 12]
        res += lib.run_impl("c07", part, shards=len(part), timeout=14)
    coq_cases, kept = [], []
    for p, c, r in zip(uniq, cases, res):
        run.count(["prog", c["prog"]], True, "model-programs")
        if r.get("outcome") == "ok" and "Lua timeout error" in r["out"] and r["dt"] < 11:
            got = 1           # stopped by the hook (how late is the business of the bound check above, not of the model)
        elif r.get("outcome") in ("harness-timeout", "timeout") or (r.get("outcome") == "ok" and r["dt"] > 1 + BOUND + 4):
            got = 2           # (the harness's own alarm at 13 s may end the run inside a Python callback: still "not stopped")
        elif r.get("outcome") == "ok" and "done" in r["out"]:
            got = 0
        else:
            run.correspondence_break("a program of the timeout model's grammar did not run as compiled", c, result=r)
            continue
        coq_cases.append("(%s, %d%%nat)" % (prog_coq(p), got))
        kept.append((c, got))
    defs = ("Definition verdict (p : prog) : nat := match exec 150 p (mkst 0 true 10) with\n"
            "  | Some (Ok s') => if Nat.ltb 1000 (now s') then 2 else 0 | Some (Timeout s') => if Nat.ltb 1000 (now s') then 2 else 1\n"
            "  | Some Hung => 2 | None => 2 end.\n")     # (a clock beyond 1000 ticks: the limit was raised, the end lies beyond the watchdog)
    bad, errs = lib.coq_eval_failing("c07m", ["Model.Timeout"], "prog * nat", coq_cases, "fun '(p, o) => Nat.eqb (verdict p) o",
                                     chunk=100, extra_defs=defs)
    for e in errs:
        run.correspondence_break("model evaluation failed (timeout programs)", None, error=e)
    for b in bad:
        c, got = kept[b]
        run.correspondence_break("Model.Timeout.exec disagrees with the sandbox: the program %s" % OUTCOMES[got], c)
    run.extra["model_programs_run"] = len(coq_cases)


def replay(data):
    case = data.get("case") or data["breaks"][0]["case"]
    print(lib.run_impl("c07", [dict(case, _timeout=15)])[0])
    return 0
