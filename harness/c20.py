"""C20 — concurrent worker contexts on one database agree and do not disturb it."""
import json
import lib


def run(run):
    run.rule = ("(a) free-running: 2-16 worker processes released by a barrier with randomised start offsets and page orders (templates "
                "and #invoke) on one database file, with/without a backup file and with/without the sandbox bootstrap page; "
                "(b) single-preemption schedules: one worker is paused at each executed line of create_db/init_wikidata_cache/"
                "initialize_lua/add_empty_sandbox_lua_module while another worker runs to completion, then resumed - at the lines of "
                "add_empty_sandbox_lua_module also with the other worker inside a get_all_pages() loop; (c) workers that "
                "keep a get_all_pages() read cursor open while expanding (free-running and staged: a second context opens between "
                "a worker's first Lua-free page and its first #invoke); non-trivial "
                "= at least two workers with overlapping start-up; distinct by JSON hash")
    run.trusted = [
        "Coq 8.16.1 kernel; the no-backup theorem holds for every schedule and number of workers by induction over the schedule",
        "axioms: none",
        "SQLite locking (single writer, readers see the last commit), the OS scheduler and lock time-outs are runtime behaviour "
        "outside the model: real interleavings are sampled (free-running) or limited to single preemptions (gated)",
    ]
    run.prove()
    rng = run.rng
    quick = run.tier == "quick"
    cases = []
    for backup in (False, True):
        for bootstrap in (False, True):
            for nw in ((2, 4, 8) if quick else (2, 4, 8, 16)):
                for _ in range(2 if quick else 20):
                    cases.append({"backup": backup, "bootstrap": bootstrap, "kind": "free",
                                  "workers": [{"pages": [rng.randrange(6) for _ in range(rng.randint(1, 4))],
                                               "delay": rng.choice([0, 0, 0.001, 0.005, 0.02])} for _ in range(nw)]})
    # workers that process pages inside a "for page in ctx.get_all_pages()" loop (a read cursor stays open): free-running, and
    # staged so that another context is opened between a worker's first (Lua-free) page and its first Lua use
    for backup in (False, True):
        for bootstrap in (False, True):
            for _ in range(2 if quick else 10):
                nw = rng.choice([2, 3, 4])
                cases.append({"backup": backup, "bootstrap": bootstrap, "kind": "free-iterating",
                              "workers": [{"pages": [rng.randrange(6) for _ in range(rng.randint(2, 4))], "iterate": rng.random() < 0.7,
                                           "delay": rng.choice([0, 0.001, 0.02, 0.1])} for _ in range(nw)]})
            for other in ([0], [1], [0, 1]):
                cases.append({"backup": backup, "bootstrap": bootstrap, "kind": "staged-iterating",
                              "workers": [{"pages": [0, 1, 4], "iterate": True, "gate": {"page": 1}},
                                          {"pages": other, "iterate": rng.random() < 0.5}]})
    # gated: discover the number of start-up line events with a counting run
    probe = lib.run_impl("c20", [{"backup": False, "bootstrap": False, "kind": "probe",
                                  "workers": [{"pages": [1], "count_lines": True}]}], shards=1)[0]
    nlines = (probe.get("results") or [{}])[0].get("lines", 0)
    line_fns = (probe.get("results") or [{}])[0].get("line_fns") or []
    run.extra["startup_line_events"] = nlines
    for backup in (False, True):
        for bootstrap in (False, True):
            for k in range(1, nlines + 1):
                # quick: every third line, but every line of the function that writes the bootstrap page
                if quick and k % 3 != 1 and not (k <= len(line_fns) and line_fns[k - 1] == "add_empty_sandbox_lua_module"):
                    continue
                cases.append({"backup": backup, "bootstrap": bootstrap, "kind": "gated",
                              "workers": [{"pages": [1, 0], "gate": {"line": k}}, {"pages": [1, 4]}]})
                if k <= len(line_fns) and line_fns[k - 1] == "add_empty_sandbox_lua_module" and not backup:
                    # the other worker is held back until the paused one is at its line, then makes its first Lua use: when the
                    # pause is inside the bootstrap transaction (at most 1 s) it has to wait for the lock, and does
                    cases.append({"backup": backup, "bootstrap": bootstrap, "kind": "gated-staged",
                                  "workers": [{"pages": [1, 0], "gate": {"line": k}},
                                              {"pages": [1, 4], "gate": {"page": 0, "release_on": 0}}]})
                    # the same pause, while the other worker walks get_all_pages() (its read cursor open) and reaches its
                    # first Lua use
                    cases.append({"backup": backup, "bootstrap": bootstrap, "kind": "gated-iterating",
                                  "workers": [{"pages": [1, 0], "gate": {"line": k}}, {"pages": [0, 1, 4], "iterate": True}]})
    res = lib.run_impl("c20", [dict(c, _timeout=200) for c in cases], shards=max(2, lib.NCPU // 4))
    model_tie(run, cases, res)
    for c, r in zip(cases, res):
        run.count(c, len(c["workers"]) >= 2, "%s:backup=%s" % (c["kind"], c["backup"]))
        cfg = "backup" if c["backup"] else "no-backup"
        if c["backup"]:
            # every failure with a backup file present has one root cause: create_db's check-then-unlink-then-rename
            # is not atomic across processes
            bad = [wr["error"] for wr in r.get("results", []) if wr.get("error")] or \
                [1 for wr in r.get("results", []) if wr.get("outs") != wr.get("want")] or \
                ([1] if r.get("after") != r.get("before") else [])
            if r.get("outcome") == "ok" and bad:
                run.property_failure("c20:backup-present:restore-race",
                                     "with a backup file present concurrent openers disturb each other: %s"
                                     % json.dumps([wr["error"] for wr in r["results"]])[:300], c)
                continue
        if r.get("outcome") != "ok":
            run.property_failure("c20:%s:%s:harness:%s" % (c["kind"], cfg, r.get("outcome")), "trial failed: %r" % (r,), c)
            continue
        for w, wr in enumerate(r["results"]):
            if wr["error"] and not c["bootstrap"] and any(x.get("iterate") for x in c["workers"]) \
                    and wr["error"][0] == "OperationalError" and wr["error"][2] == "add_page" and c["workers"][w].get("iterate") \
                    and any(any(pg % 6 in (1, 4) for pg in x["pages"]) for j, x in enumerate(c["workers"]) if j != w):
                # (only when another worker used Lua, i.e. wrote the bootstrap page: merely opening a context writes nothing)
                run.property_failure("c20:bootstrap-absent:reader-with-open-cursor-cannot-write-bootstrap",
                                     "worker %d raised %r" % (w, wr["error"]), c)
            elif wr["error"]:
                run.property_failure("c20:%s:%s:worker-raised:%s:%s" % (c["kind"], cfg, wr["error"][0], wr["error"][2]),
                                     "worker %d raised %r" % (w, wr["error"]), c)
            elif wr["outs"] != wr["want"]:
                run.property_failure("c20:%s:%s:result-differs" % (c["kind"], cfg),
                                     "worker %d got %r, a single process gets %r" % (w, wr["outs"], wr["want"]), c)
        if r["after"] != r["before"]:
            run.property_failure("c20:%s:%s:pages-disturbed" % (c["kind"], cfg),
                                 "stored pages changed: before %d rows, after %s" % (len(r["before"]), json.dumps(r["after"])[:200]), c)


def model_tie(run, cases, res):
    """Model/Workers.v against the gated runs: what really happened when worker 0 was paused somewhere in its start-up while
    worker 1 ran (which worker went wrong, what the database holds afterwards) must be the outcome of SOME schedule of the
    model's two workers (all 924 interleavings of their six steps; the model's steps are coarser than the code's lines, so a
    pause inside a step can look like either order).  Without a backup file that set is a single outcome."""
    from lib import cbool
    coq_cases, refs = [], []
    for c, r in zip(cases, res):
        if c["kind"] != "gated" or r.get("outcome") != "ok" or len(r.get("results", [])) != 2:
            continue
        if any(wr.get("error") and (wr["error"][0] == "OperationalError" or "locked" in str(wr["error"])) for wr in r["results"]):
            # a worker gave up waiting for a lock held by the paused one: lock time-outs are outside the model
            run.histogram["gated:lock-timeout-outside-model"] = run.histogram.get("gated:lock-timeout-outside-model", 0) + 1
            continue
        bad = [bool(wr.get("error")) or wr.get("outs") != wr.get("want") for wr in r["results"]]
        after, before = r.get("after"), r.get("before")
        if after == before:
            dbc = 0                     # what readers are meant to see (the backup's content when there is a backup)
        elif isinstance(after, list) and after and not (isinstance(after[0], str) and after[0].startswith("unreadable")):
            dbc = 1                     # other content (the version written after the backup)
        else:
            dbc = 2                     # empty or gone
        coq_cases.append("(%s, (%s, %s, %d%%nat))" % (cbool(c["backup"]), cbool(bad[0]), cbool(bad[1]), dbc))
        refs.append((c, bad, dbc))
    defs = ("Definition wbad (w : worker) : bool := failed w || match sees w with Some 0 => true | _ => false end.\n"
            "Fixpoint interleavings (fuel a b : nat) : list (list nat) :=\n"
            "  match fuel with O => [] | S f =>\n"
            "    match a, b with\n"
            "    | O, _ => [repeat 1 b]\n"
            "    | _, O => [repeat 0 a]\n"
            "    | S a', S b' => map (cons 0) (interleavings f a' b) ++ map (cons 1) (interleavings f a b')\n"
            "    end end%nat.\n"
            "Definition outcome (backup : bool) (sched : list nat) : bool * bool * nat :=\n"
            "  let init := if backup then mksh (Holds 2) (Holds 1) true else mksh (Holds 1) Missing true in\n"
            "  let '(sh, ws) := run_schedule init [start_worker; start_worker] sched in\n"
            "  (existsb wbad (firstn 1 ws), existsb wbad (skipn 1 ws), match dbf sh with Holds 1 => 0 | Holds 2 => 1 | _ => 2 end)%nat.\n"
            "Definition o_eqb (x y : bool * bool * nat) : bool := let '(a, b, c) := x in let '(d, e, f) := y in "
            "Bool.eqb a d && Bool.eqb b e && Nat.eqb c f.\n"
            "Definition all_scheds := interleavings 20 6 6.\n"
            "Definition possible (backup : bool) (o : bool * bool * nat) : bool := existsb (fun sc => o_eqb (outcome backup sc) o) all_scheds.\n")
    badi, errs = lib.coq_eval_failing("c20m", ["Model.Workers"], "bool * (bool * bool * nat)", coq_cases,
                                      "fun '(b, o) => possible b o", chunk=400, extra_defs=defs)
    for e in errs:
        run.correspondence_break("model evaluation failed (worker schedules)", None, error=e)
    for b in badi:
        c, bad, dbc = refs[b]
        run.correspondence_break("Model.Workers has no schedule with this outcome: workers gone wrong %r, database "
                                 "afterwards %s" % (bad, ["as readers should see it", "other content", "empty or gone"][dbc]), c)
    dist = {}
    for c, bad, dbc in refs:
        key = "backup=%s:%s:%d" % (c["backup"], "".join("x" if x else "." for x in bad), dbc)
        dist[key] = dist.get(key, 0) + 1
    run.extra["gated_outcomes_checked_against_the_model"] = dist


def replay(data):
    case = data.get("case") or data["breaks"][0]["case"]
    print(json.dumps(lib.run_impl("c20", [case])[0])[:3000])
    return 0
