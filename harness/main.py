"""Entry point: ./check Cxx [--tier quick|thorough] [--replay file]"""
import argparse
import importlib
import json
import os
import sys
from pathlib import Path

sys.path.insert(0, str(Path(__file__).resolve().parent))
import lib  # noqa: E402


def main() -> int:
    ap = argparse.ArgumentParser()
    ap.add_argument("pid")
    ap.add_argument("--tier", default=os.environ.get("VERIF_TIER", "quick"),
                    choices=["quick", "thorough"])
    ap.add_argument("--replay")
    a = ap.parse_args()
    seed = int(os.environ.get("VERIF_SEED", "0") or 0)
    mod = importlib.import_module(a.pid.lower())
    if a.replay:
        data = json.loads(Path(a.replay).read_text())
        return mod.replay(data)
    run = lib.Run(a.pid, a.tier, seed)
    try:
        mod.run(run)
    except Exception as e:  # a crash of the machinery is never a silent pass
        import traceback
        traceback.print_exc()
        run.correspondence_break("check machinery crashed: %r" % (e,), None)
    return run.finish()


if __name__ == "__main__":
    sys.exit(main())
