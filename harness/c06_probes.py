"""Attack corpus for C06: each probe is the body of a Lua function main(frame) that returns 'ESCAPE:<what>' when it obtained
a forbidden capability and 'ok' (or an error) otherwise.  Confirmation probes perform the capability for real in a scratch dir."""

HELP = r"""
local function try(f, ...) local ok, r = pcall(f, ...) if ok then return r end return nil end
local function has(x) return x ~= nil end
"""

PROBES = {
    # ---- globals that must be absent
    "global-io": "return has(io) and 'ESCAPE:io' or 'ok'",
    "global-os-execute": "return (os and (has(os.execute) or has(os.getenv) or has(os.remove) or has(os.rename) or has(os.exit) or has(os.tmpname))) and 'ESCAPE:os' or 'ok'",
    "global-load": "return (has(load) or has(loadstring) or has(dofile) or has(loadfile)) and 'ESCAPE:load' or 'ok'",
    "global-fenv": "return (has(setfenv) or has(getfenv)) and 'ESCAPE:fenv' or 'ok'",
    "global-debug": "return (debug and (has(debug.getinfo) or has(debug.getupvalue) or has(debug.sethook) or has(debug.getregistry) or has(debug.setmetatable) or has(debug.getfenv))) and 'ESCAPE:debug' or 'ok'",
    "global-python": "return has(python) and 'ESCAPE:python' or 'ok'",
    "global-coroutine": "return has(coroutine) and 'INFO:coroutine' or 'ok'",
    "global-package-loadlib": "return (package and (has(package.loadlib) or has(package.cpath) or has(package.preload))) and 'ESCAPE:package' or 'ok'",
    "global-collectgarbage": "return (has(collectgarbage) or has(newproxy) or has(module)) and 'INFO:misc' or 'ok'",
    "string-dump": "return has(string.dump) and 'INFO:string.dump' or 'ok'",
    # ---- require() of host library names
    "require-io": "local m = try(require, 'io') return (type(m) == 'table' and has(m.open)) and 'ESCAPE:io' or 'ok'",
    "require-os": "local m = try(require, 'os') return (type(m) == 'table' and has(m.execute)) and 'ESCAPE:os' or 'ok'",
    "require-package": "local m = try(require, 'package') return (type(m) == 'table' and has(m.loadlib)) and 'ESCAPE:package' or 'ok'",
    "require-debug": "local m = try(require, 'debug') return (type(m) == 'table' and has(m.getupvalue)) and 'ESCAPE:debug' or 'ok'",
    "require-python": "local m = try(require, 'python') return (type(m) == 'table' and has(m.eval)) and 'ESCAPE:python' or 'ok'",
    "require-coroutine": "local m = try(require, 'coroutine') return (type(m) == 'table' and has(m.create)) and 'INFO:coroutine' or 'ok'",
    "require-G": "local m = try(require, '_G') return (type(m) == 'table' and (has(m.io) or has(m.loadstring))) and 'ESCAPE:_G' or 'ok'",
    # the same names in spellings a loader might normalise
    "require-spellings": "local hit = nil for _, base in ipairs({'io', 'os', 'package', 'debug', 'python', '_G'}) do "
                         "for _, v in ipairs({' ' .. base, base .. ' ', '\\t' .. base, base .. '\\n', ' ' .. base .. ' ', base:upper(), 'Module:' .. base, "
                         "base .. '.lua', './' .. base, base .. '\\0'}) do "
                         "for _, fn in ipairs({require, _cached_mod}) do local m = try(fn, v) "
                         "if type(m) == 'table' and (has(m.open) or has(m.execute) or has(m.loadlib) or has(m.getupvalue) or has(m.eval) or has(m.loadstring)) "
                         "then hit = hit or ('ESCAPE:require-spelling:' .. base) end end end end return hit or 'ok'",
    # verdicts of the attribute filter must not depend on what was looked at before: read attributes of a non-callable Python
    # object first (an exception caught with pcall), then the same names on the Python helpers
    "filter-order": "local names = {'args', 'func', 'keywords', 'with_traceback', 'add_note', 'real', 'imag', 'count', 'index'} "
                    "local objs = {} "
                    "local function grab(f, ...) local ok, e = pcall(f, ...) if not ok and type(e) == 'userdata' then objs[#objs + 1] = e end end "
                    "grab(frame.expandTemplate, frame, {title = 'x', args = 'abc'}) grab(frame.callParserFunction, frame, {name = 7}) "
                    "grab(frame.preprocess, frame, {}) grab(mw_python_get_page_info) grab(mw_python_get_page_content, {}, {}, {}) "
                    "for _, o in ipairs(objs) do for _, n in ipairs(names) do try(function() return o[n] end) end end "
                    "local hit = nil "
                    "for _, h in ipairs({mw_python_get_page_info, mw_python_get_page_content, mw_python_fetch_language_name, "
                    "mw_python_fetch_language_names}) do for _, n in ipairs(names) do "
                    "local v = try(function() return h[n] end) if v ~= nil then hit = hit or ('ESCAPE:python-object:helper.' .. n) end end end "
                    "return hit or ('ok objs=' .. #objs)",
    # Python exceptions reach pcall as objects; whatever they carry (the receiver of a failed attribute access, arguments,
    # values) must not lead to the context: every helper that works offline is made to fail in many ways - wrong types, the current page's title
    # under namespaces where it is not stored, absent pages - and the public attributes of each caught error object are walked
    "exception-walk": "local helpers = {mw_python_get_page_info, mw_python_get_page_content, mw_python_fetch_language_name, "
                      "mw_python_fetch_language_names, mw_jsondecode_python, mw_jsonencode_python, mw_decode_python, mw_encode_python, "
                      "mw_language_format_date_python, mw_current_title_python, current_frame_python, _python_top_env} "
                      "local cur = try(mw_current_title_python) or 'Tt' "
                      "local argsets = {{}, {{}}, {cur}, {cur, 0}, {cur, 10}, {cur, 828}, {cur, 2}, {cur, 100}, {cur, 'x'}, {'Nosuch', 10}, "
                      "{1, 2, 3}, {'x', 'y', 'z'}, {true}, {function() end}, {cur, {}}, {{}, cur}} "
                      "local objs = {} "
                      "local function grab(f, ...) local ok, e = pcall(f, ...) if not ok and type(e) == 'userdata' then objs[#objs + 1] = e end end "
                      "for i = 1, 12 do local h = helpers[i] if h ~= nil then for _, a in ipairs(argsets) do grab(h, unpack(a)) end end end "
                      "grab(frame.expandTemplate, frame, {title = cur, args = 'abc'}) grab(frame.callParserFunction, frame, {name = 7}) "
                      "grab(frame.preprocess, frame, {}) grab(frame.extensionTag, frame, {}) grab(frame.newChild, frame, 7) "
                      "local t = try(function() return mw.title.new(cur) end) if t then grab(function() return t:getContent() end) end "
                      "local t2 = try(function() return mw.title.getCurrentTitle() end) if t2 then grab(function() return t2:getContent() end) end "
                      "local marks = {'add_page', 'db_conn', 'lua', 'expand', 'start_page', 'parser_stack', 'globals', 'eval', 'execute', 'db_path'} "
                      "local attrs = {'obj', 'args', 'name', 'value', 'object', 'key', 'path', 'filename', 'filename2', 'reason', 'msg', 'doc', "
                      "'text', 'code', 'errno', 'strerror', 'start', 'stop'} "
                      "local function sus(o) if type(o) ~= 'userdata' then return nil end "
                      "for _, m in ipairs(marks) do local v = try(function() return o[m] end) if v ~= nil then return m end end return nil end "
                      "local hit = nil "
                      "for _, o in ipairs(objs) do "
                      "local m = sus(o) if m then hit = hit or ('ESCAPE:python-object:exception.' .. m) end "
                      "for _, a in ipairs(attrs) do local v = try(function() return o[a] end) "
                      "local m2 = sus(v) if m2 then hit = hit or ('ESCAPE:python-object:exception.' .. a .. '.' .. m2) end "
                      "if type(v) == 'userdata' then for i = 0, 3 do local w = try(function() return v[i] end) "
                      "local m3 = sus(w) if m3 then hit = hit or ('ESCAPE:python-object:exception.' .. a .. '[' .. i .. '].' .. m3) end end end "
                      "end end "
                      "return hit or ('ok objs=' .. #objs)",
    # two invocations: the first leaves placeholder globals named after host libraries wherever it can write (the base
    # environment _lua_reset_env returns, its own environment, package.loaded); the second looks at what became of them
    "seq1-plant-placeholders": "local n = 0 local targets = {} "
                               "if _lua_reset_env then targets[#targets + 1] = try(_lua_reset_env) end "
                               "if getfenv then targets[#targets + 1] = try(getfenv, 0) targets[#targets + 1] = try(getfenv, 1) end "
                               "if package and type(package.loaded) == 'table' then targets[#targets + 1] = package.loaded end "
                               "for _, t in ipairs(targets) do if type(t) == 'table' then "
                               "for _, k in ipairs({'python', 'io', 'debug', 'coroutine', 'loadstring', 'load', 'dofile', 'loadfile', 'setfenv', 'newproxy'}) do "
                               "if try(rawget, t, k) == nil then if pcall(rawset, t, k, false) then n = n + 1 end end end end end "
                               "python = python or false io = io or false return 'ok planted=' .. n",
    "seq2-check-placeholders": "local bad = {} "
                               "for _, k in ipairs({'python', 'io', 'debug', 'coroutine', 'loadstring', 'load', 'dofile', 'loadfile', 'setfenv'}) do "
                               "local v = try(function() return _G and _G[k] end) if v == nil then v = try(function() return getfenv(1)[k] end) end "
                               "if v ~= nil and v ~= false then bad[#bad + 1] = k end end "
                               "if type(python) == 'table' or type(python) == 'userdata' then return 'ESCAPE:python' end "
                               "if type(io) == 'table' and has(io.open) then return 'ESCAPE:io' end "
                               "if type(loadstring) == 'function' or type(load) == 'function' or type(dofile) == 'function' then return 'ESCAPE:load' end "
                               "if type(debug) == 'table' and has(debug.getupvalue) then return 'ESCAPE:debug' end "
                               "return 'ok ' .. table.concat(bad, ',')",
    "require-table-real": "local m = try(require, 'string') return 'ok'",
    # ---- sandbox internals exposed as globals
    "cached-mod-io": "local m = _cached_mod and try(_cached_mod, 'io') return (type(m) == 'table' and has(m.open)) and 'ESCAPE:io' or 'ok'",
    "cached-mod-G": "local m = _cached_mod and try(_cached_mod, '_G') return (type(m) == 'table' and has(m.loadstring)) and 'ESCAPE:_G' or 'ok'",
    "save-mod": "if _save_mod then try(_save_mod, 'zz_probe', {x = 1}) local m = try(require, 'zz_probe') return (m and m.x == 1) and 'INFO:package.loaded-write' or 'ok' end return 'ok'",
    "reset-env": "return has(_lua_reset_env) and 'INFO:_lua_reset_env' or 'ok'",
    "set-loader": "local ok = _lua_set_python_loader and pcall(_lua_set_python_loader, function() return nil end) return ok and 'ESCAPE:loader-replaced' or 'ok'",
    "new-loader": "if _new_loader then local f = try(_new_loader, 'Module:echo', {}) return type(f) == 'function' and 'INFO:_new_loader' or 'ok' end return 'ok'",
    "python-top-env": "local e = _python_top_env and try(_python_top_env) return (type(e) == 'table' and (has(e.io) or has(e.loadstring))) and 'ESCAPE:_G' or 'ok'",
    "package-loaded": "local p = package and package.loaded return (type(p) == 'table' and (has(p.io) or has(p.os) or has(p._G))) and 'ESCAPE:package.loaded' or 'ok'",
    "G-is-env": "return (_G and (has(_G.io) or has(_G.loadstring) or has(_G.python))) and 'ESCAPE:_G' or 'ok'",
    # ---- metatables
    "string-metatable": "local mt = getmetatable('') local i = mt and mt.__index return (type(i) == 'table' and (has(i.dump))) and 'INFO:string.dump' or 'ok'",
    "env-metatable": "local mt = getmetatable(_G) return (mt and type(mt.__index) == 'table' and has(mt.__index.io)) and 'ESCAPE:_G' or 'ok'",
    "frame-metatable": "local mt = getmetatable(frame) return (mt and type(mt.__index) == 'table' and has(mt.__index.io)) and 'ESCAPE:_G' or 'ok'",
    "mw-internals": "return (mw and (has(mw.io) or has(mw._G))) and 'ESCAPE:mw' or 'ok'",
    # ---- the Lua-Python bridge
    "partial-args": "local f = mw_python_get_page_info local a = f and try(function() return f.args end) "
                    "return a ~= nil and 'ESCAPE:python-object:partial.args' or 'ok'",
    "partial-func": "local f = mw_python_get_page_info local a = f and try(function() return f.func end) "
                    "return a ~= nil and 'ESCAPE:python-object:partial.func' or 'ok'",
    "ctx-via-partial": "local f = mw_python_get_page_info local c = f and try(function() return f.args[0] end) "
                       "local d = c and try(function() return c.db_conn end) return d ~= nil and 'ESCAPE:python-object:Wtp.db_conn' or 'ok'",
    "ctx-add-page": "local f = mw_python_get_page_info local c = f and try(function() return f.args[0] end) "
                    "local d = c and try(function() return c.add_page end) return d ~= nil and 'ESCAPE:python-object:Wtp.add_page' or 'ok'",
    "ctx-lua-runtime": "local f = mw_python_get_page_info local c = f and try(function() return f.args[0] end) "
                       "local d = c and try(function() return c.lua end) local e = d and try(function() return d.eval end) "
                       "return e ~= nil and 'ESCAPE:python-object:LuaRuntime.eval' or 'ok'",
    "frame-helper-attrs": "local f = frame.preprocess local a = try(function() return f.func end) or try(function() return f.__self__ end) or try(function() return f.__globals__ end) "
                          "return a ~= nil and 'ESCAPE:python-object:function attrs' or 'ok'",
    "underscore-attr": "local f = frame.preprocess local a = try(function() return f.__globals__ end) or try(function() return f.__class__ end) "
                       "return a ~= nil and 'ESCAPE:python-object:underscore' or 'ok'",
    "frame-args-python": "local v = frame.args and frame.args._orig return 'ok'",
    "python-builtins": "local f = mw_python_get_page_info local c = f and try(function() return f.args[0] end) "
                       "local g = c and try(function() return c.start_page end) return g ~= nil and 'ESCAPE:python-object:Wtp.start_page' or 'ok'",
    "tostring-leak": "return 'ok'",
    # ---- error values: a Python exception handed to pcall is an object with attributes of its own
    "error-values": "local seen, fns, hit = {}, {}, nil "
                    "local function walk(t, path, d) if type(t) ~= 'table' or seen[t] or d > 3 then return end seen[t] = true "
                    "for k, v in pairs(t) do local p = path .. '.' .. tostring(k) "
                    "if type(v) == 'function' or type(v) == 'userdata' then fns[#fns + 1] = {p, v} elseif type(v) == 'table' then walk(v, p, d + 1) end end end "
                    "walk(_G, '_G', 0) walk(mw, 'mw', 0) walk(frame, 'frame', 0) "
                    "local skip = {['_G.error'] = 1, ['_G.assert'] = 1, ['_G.require'] = 1, ['_G.collectgarbage'] = 1, ['_G.print'] = 1} "
                    "local sensitive = {'add_page', 'db_conn', 'lua', 'start_page', 'get_page_body', 'expand', 'db_path', 'lua_env_stack'} "
                    "local function inspect(e, path, d) if hit or d > 3 then return end "
                    "if type(e) ~= 'userdata' and type(e) ~= 'table' then return end "
                    "for _, a in ipairs(sensitive) do local v = try(function() return e[a] end) if v ~= nil and type(e) == 'userdata' then hit = path .. ' has ' .. a return end end "
                    "for _, a in ipairs({'obj', 'args', 'name', 'value', 'object', 'filename', 'tb_frame', 'f_locals', 'f_globals', 'gi_frame', 'func', 'keywords', 'cause', 'context'}) do "
                    "local v = try(function() return e[a] end) if v ~= nil then inspect(v, path .. '.' .. a, d + 1) end end "
                    "if type(e) == 'userdata' then for i = 0, 3 do local v = try(function() return e[i] end) if v ~= nil then inspect(v, path .. '[' .. i .. ']', d + 1) end end end end "
                    "for _, pf in ipairs(fns) do local p, f = pf[1], pf[2] "
                    "if not skip[p] and not p:find('timeout') and not p:find('loadstring') and not p:find('^_G%.string%.rep') and not p:find('dofile') and not p:lower():find('wikibase') and not p:lower():find('wikidata') and not p:lower():find('entity') then "
                    "for _, av in ipairs({{}, {1}, {'x'}, {{}}, {frame}, {'x', 'y', 'z'}}) do "
                    "local ok, e = pcall(f, unpack(av)) if not ok then inspect(e, 'error of ' .. p, 0) end if hit then break end end end if hit then break end end "
                    "return hit and ('ESCAPE:python-object:' .. hit) or 'ok'",

    # ---- loader path games
    "require-path-traversal": "local m = try(require, '../../../etc/passwd') return m ~= nil and 'ESCAPE:loader-path' or 'ok'",
    "require-abs": "local m = try(require, '/etc/hostname') return m ~= nil and 'ESCAPE:loader-path' or 'ok'",
    "confirm-require-abs-lua": "local p = frame.args[1] local hit = nil "
                               "for _, nm in ipairs({p, p:gsub('/', ':'), '/' .. p, '//' .. p, ' ' .. p, p .. ' '}) do "
                               "local m = try(require, nm) if type(m) == 'table' and m.leak then hit = 'ESCAPE:loader-path:' .. tostring(m.leak) end "
                               "local d = try(mw.loadData, nm) if type(d) == 'table' and d.leak then hit = 'ESCAPE:loader-path:' .. tostring(d.leak) end end "
                               "return hit or 'ok'",
    "confirm-require-rel-lua": "local p = frame.args[1] local hit = nil "
                               "for _, up in ipairs({'../', '.../', '..../', '..:', '...:', './../', '%2e%2e/', '..\\\\', '. ./', '.\\n./', '.:.:', '... /'}) do "
                               "local nm = up:rep(12) .. p:sub(2) local m = try(require, nm) "
                               "if type(m) == 'table' and m.leak then hit = 'ESCAPE:loader-path:' .. tostring(m.leak) end end "
                               "return hit or 'ok'",
    "loaddata-traversal": "local m = try(mw.loadData, '../_sandbox_phase1') return m ~= nil and 'ESCAPE:loader-path' or 'ok'",
    # ---- confirmation: perform the capability
    "confirm-file-read": "local io_ = try(require, 'io') if io_ and io_.open then local f = io_.open(frame.args[1], 'r') if f then local s = f:read('*a') f:close() "
                         "return 'ESCAPE:file-read:' .. tostring(s) end end return 'ok'",
    "confirm-file-write": "local io_ = try(require, 'io') if io_ and io_.open then local f = io_.open(frame.args[1], 'w') if f then f:write('pwned') f:close() "
                          "return 'ESCAPE:file-write' end end return 'ok'",
    "confirm-command": "local os_ = try(require, 'os') if os_ and os_.execute then local r = os_.execute('touch ' .. frame.args[1]) return 'ESCAPE:command' end return 'ok'",
    "confirm-db-write": "local f = mw_python_get_page_info local c = f and try(function() return f.args[0] end) "
                        "if c and try(function() return c.add_page end) then local ok = pcall(function() c.add_page('Injected page', 0, 'x') end) "
                        "return ok and 'ESCAPE:db-write' or 'ok' end return 'ok'",
    "confirm-getenv": "local os_ = try(require, 'os') if os_ and os_.getenv then return 'ESCAPE:getenv:' .. tostring(os_.getenv('HOME')) end return 'ok'",
}
