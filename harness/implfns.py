"""impl_<kind>(case, scratch) functions: drive the real wikitextprocessor."""
import os
import itertools
from pathlib import Path

from wikitextprocessor import Wtp, Page  # noqa

_counter = itertools.count()


def new_ctx(scratch, **kw):
    p = Path(scratch) / f"db{next(_counter)}_{os.getpid()}.db"
    kw.setdefault("quiet", True)
    kw.setdefault("quiet_output", True)
    return Wtp(db_path=p, **kw)


def close_ctx(ctx):
    try:
        ctx.db_conn.close()
    except Exception:
        pass
    for suf in ("", "-wal", "-shm"):
        try:
            os.unlink(str(ctx.db_path) + suf)
        except OSError:
            pass


# ---------------------------------------------------------------- C17
def impl_c17(case, scratch):
    """case: names[i], flagged[i], uses[i] (indices), redirect[i] (index or None); optional premarked[i] (stored with
    need_pre_expand=True) and phase2 (indices stored only after a first analysis, which is then run again)"""
    names = case["names"]
    n = len(names)
    premarked = case.get("premarked") or [False] * n
    phase2 = set(case.get("phase2") or [])
    ctx = new_ctx(scratch)
    try:
        title_to_i = {"Template:" + nm: i for i, nm in enumerate(names)}
        runs = []

        def store(ids):
            for i in ids:
                nm, red = names[i], case["redirect"][i]
                if red is not None:
                    ctx.add_page("Template:" + nm, 10, body=None, redirect_to="Template:" + names[red],
                                 need_pre_expand=bool(premarked[i]))
                else:
                    ctx.add_page("Template:" + nm, 10, body="body of " + nm, need_pre_expand=bool(premarked[i]))
            ctx.db_conn.commit()

        def analyze():
            calls = []

            def classify(c, page):
                i = title_to_i[page.title]
                calls.append(i)
                return set(names[j] for j in case["uses"][i]), bool(case["flagged"][i])

            ctx.analyze_templates(classify)
            marked = sorted(title_to_i[p.title] for p in ctx.get_all_pages([10]) if p.need_pre_expand)
            # the same marks as a lookup on this context reports them (what expand() consults)
            looked = sorted(i for t, i in title_to_i.items() if (lambda pg: pg is not None and pg.need_pre_expand)(ctx.get_page(t, 10)))
            runs.append({"marked": marked, "classified": sorted(calls), "looked_up": looked})

        store([i for i in range(n) if i not in phase2])
        analyze()
        if phase2 or case.get("rewrite"):
            store(sorted(phase2) + sorted(case.get("rewrite") or []))
            analyze()
        return {"outcome": "ok", "marked": runs[-1]["marked"], "classified": runs[-1]["classified"], "runs": runs}
    finally:
        close_ctx(ctx)


# ---------------------------------------------------------------- C10
def _row(p):
    if p is None:
        return None
    return [p.title, p.namespace_id, p.redirect_to, p.body, p.model]


def impl_c10(case, scratch):
    ctx = new_ctx(scratch)
    ctxs = [ctx]
    outs = []
    try:
        for op in case["ops"]:
            k = op[0]
            if k == "add":
                _, title, ns, body, red, model = op
                ctx.add_page(title, ns, body=body, redirect_to=red, model=model)
                outs.append(None)
            elif k == "get":
                outs.append(_row(ctx.get_page(op[1], op[2], op[3])))
            elif k == "exists":
                outs.append(ctx.page_exists(op[1], op[2]))
            elif k == "body":
                outs.append(ctx.get_page_body(op[1], op[2]))
            elif k == "resolve":
                outs.append(_row(ctx.get_page_resolve_redirect(op[1], op[2])))
            elif k == "commit":
                ctx.db_conn.commit()
                outs.append(None)
            elif k == "reopen":
                ctx.db_conn.commit()
                ctx = Wtp(db_path=ctx.db_path, quiet=True, quiet_output=True)
                ctxs.append(ctx)
                outs.append(None)
            elif k == "visit":
                # a short-lived second context on the same file: opens, reads, closes properly
                ctx.db_conn.commit()
                other = Wtp(db_path=ctx.db_path, quiet=True, quiet_output=True)
                other.get_page("Visitor", 0)
                other.close_db_conn()
                outs.append(None)
        return {"outcome": "ok", "outs": outs}
    finally:
        for c in ctxs[1:]:
            try:
                c.db_conn.close()
            except Exception:
                pass
        close_ctx(ctxs[0])


# ---------------------------------------------------------------- Lua helpers
USTRING_STUB = """
local u = {}
for k, v in pairs(string) do u[k] = v end
u.codepoint = string.byte
u.toNFC = function(s) return s end
u.toNFD = function(s) return s end
u.toNFKC = function(s) return s end
u.toNFKD = function(s) return s end
u.isutf8 = function(s) return true end
return u
"""

ECHO_MODULE = r"""
local export = {}
local function q(v)
  -- everything but plain word characters is written as %XX, so that the caller sees exactly the bytes Lua saw
  return (tostring(v):gsub("[^%w _.-]", function(c) return string.format("%%%02X", c:byte()) end))
end
local function dump(args)
  local keys = {}
  for k, _ in pairs(args) do table.insert(keys, k) end
  table.sort(keys, function(a, b)
    if type(a) == type(b) then return a < b end
    return type(a) == "number"
  end)
  local out = {}
  for _, k in ipairs(keys) do
    table.insert(out, (type(k) == "number" and "n" or "s") .. q(k) .. "=" .. q(args[k]))
  end
  return table.concat(out, ";")
end
function export.main(frame) return "<<" .. dump(frame.args) .. ">>" end
function export.parent(frame)
  local p = frame:getParent()
  if p == nil then return "<<noparent>>" end
  return "<<" .. q(p:getTitle()) .. "|" .. dump(p.args) .. ">>"
end
function export.title(frame) return "<<" .. q(frame:getTitle()) .. ">>" end
function export.mutparent(frame)
  -- "normalise the arguments in place": writes into the parent frame's argument table (its own copy of it)
  local p = frame:getParent()
  if p ~= nil then
    local ok = pcall(function() p.args[1] = "MUT" p.args.extra = "added" p.args.k = "KK" end)
  end
  return ""
end
function export.pre_parent(frame) return frame:preprocess("{{#invoke:echo|parent}}") end
function export.first_arg(frame) return frame.args[1] end
function export.et_parent(frame) return frame:expandTemplate{title = "w1", args = {frame:getParent().args[1], "k"}} end
function export.reenter(frame)
  local p = frame:getParent()
  local me = "<<" .. dump(p.args) .. ">>"
  if p.args[1] == "go" then
    local how = p.args.how
    if how == "et" then return me .. frame:expandTemplate{title = "re", args = {p.args.a1, k = p.args.a2}} end
    if how == "pp" then return me .. frame:preprocess("{{rewrap|" .. p.args.a1 .. "|w=" .. p.args.a2 .. "}}") end
    if how == "pp1" then return me .. frame:preprocess("{{re|" .. p.args.a1 .. "|k=" .. p.args.a2 .. "}}") end
    return me .. p:expandTemplate{title = "re", args = {p.args.a1, k = p.args.a2}}
  end
  return me
end
function export.preprocess(frame) return "<<" .. frame:preprocess(frame.args[1]) .. ">>" end
function export.expandtemplate(frame)
  local a = {}
  for k, v in pairs(frame.args) do if k ~= "title" then a[k] = v end end
  return "<<" .. frame:expandTemplate{title = frame.args.title, args = a} .. ">>"
end
function export.callpf(frame)
  local a = {}
  local i = 1
  while frame.args[i] ~= nil do a[i] = frame.args[i]; i = i + 1 end
  return "<<" .. frame:callParserFunction{name = frame.args.name, args = a} .. ">>"
end
return export
"""


NOWIKI_CHAR = "\U0010203d"


def final_text(v):
    """expander-internal strings hold one private character for <nowiki/>; finalisation prints it as '<nowiki />'"""
    return v.replace(NOWIKI_CHAR, "<nowiki />") if isinstance(v, str) else v


def undump(s):
    """Inverse of the echo module's dump(): list of [key, value] (int keys for numbers)."""
    import re
    def uq(x):
        return re.sub(r"(?:%[0-9A-F]{2})+",
                      lambda m: bytes(int(h, 16) for h in re.findall(r"%(..)", m.group(0))).decode("utf-8", "replace"), x)
    out = []
    if s == "":
        return out
    for item in s.split(";"):
        k, v = item.split("=", 1)
        kk = uq(k[1:])
        if k[0] == "n":
            kk = float(kk)
            kk = int(kk) if kk == int(kk) else kk
        out.append([kk, uq(v)])
    return out


STD_MODULES = {
    "bad": 'local e = {}\nfunction e.main(frame) error("boom") end\nreturn e',
    "syn": 'local e = {}\nfunction e.main(frame) return "x" .. end\nreturn e',
    "retnil": 'local e = {}\nfunction e.main(frame) return nil end\nreturn e',
    "pp": 'local e = {}\nfunction e.main(frame) return frame:preprocess("{{a|" .. (frame.args[1] or "") .. "}}") end\nreturn e',
    "ppraw": 'local e = {}\nfunction e.main(frame) return frame:preprocess("{{" .. (frame.args[1] or "a") .. "}}") end\nreturn e',
    "ppcall": 'local e = {}\nfunction e.main(frame) local ok, r = pcall(frame.preprocess, frame, "{{" .. (frame.args[1] or "a") .. "}}") return "ok=" .. tostring(ok) end\nreturn e',
    "etcall": 'local e = {}\nfunction e.main(frame) local ok, r = pcall(frame.expandTemplate, frame, {title=frame.args[1] or "a", args={"q"}}) return "ok=" .. tostring(ok) end\nreturn e',
    "nest": 'local e = {}\nfunction e.main(frame) return frame:expandTemplate{title="inv", args={frame.args[1] or "n"}} end\nreturn e',
    # errors whose text call_lua_sandbox recognises and ignores (the call expands to nothing)
    "ign1": 'local e = {}\nfunction e.main(frame) error("Translations must be for attested and approved main-namespace terms.") end\nreturn e',
    "ign2": "local e = {}\nfunction e.main(frame) error(\"attempt to index a nil value (local 'lang') in function 'Module:links.getLinkPage'\") end\nreturn e",
}
STD_TEMPLATES = {
    "a": "A[{{{1|}}}]",
    "b": "B({{{1}}},{{{x|dx}}})",
    "loop": "{{loop}}",
    "m1": "{{m2}}",
    "m2": "x{{m1}}",
    "deep": "{{a|{{a|{{a|{{{1|z}}}}}}}}}",
    "inv": "{{#invoke:echo|main|{{{1|}}}}}",
    "badinv": "{{#invoke:bad|main}}",
    "list": "* item",
}

_lua_ctx = None


def lua_ctx(scratch):
    global _lua_ctx
    if _lua_ctx is None:
        def _boom(args):
            raise ZeroDivisionError("template override raised (verification harness)")
        ctx = new_ctx(scratch, template_override_funcs={"boom": _boom})
        ctx.add_page("Module:ustring:ustring", 828, USTRING_STUB, model="Scribunto")
        ctx.add_page("Module:echo", 828, ECHO_MODULE, model="Scribunto")
        for name, body in STD_MODULES.items():
            ctx.add_page("Module:" + name, 828, body, model="Scribunto")
        for name, body in STD_TEMPLATES.items():
            ctx.add_page("Template:" + name, 10, body)
        ctx.db_conn.commit()
        _lua_ctx = ctx
    return _lua_ctx


# ---------------------------------------------------------------- C14
def _keyed(d):
    return [[k, v] for k, v in d.items()]


def impl_c14(case, scratch):
    ctx = lua_ctx(scratch)
    args = case["args"]
    src_args = "".join("|" + a for a in args)
    ctx.start_page("Tt")
    tree = ctx.parse("{{t" + src_args + "}}")
    from wikitextprocessor.parser import NodeKind

    def find(n):
        if hasattr(n, "kind") and n.kind == NodeKind.TEMPLATE:
            return n
        for c in getattr(n, "children", []):
            if not isinstance(c, str):
                r = find(c)
                if r is not None:
                    return r
        return None

    node = find(tree)
    pv = _keyed(node.template_parameters) if node is not None else None
    got = []

    def tfn(name, ht):
        got.append(_keyed(ht))
        return "X"

    ctx.start_page("Tt")
    ctx.expand("{{t" + src_args + "}}", template_fn=tfn)
    ctx.start_page("Tt")
    out = ctx.expand("{{#invoke:echo|main" + src_args + "}}")
    lv = None
    if out.startswith("<<") and out.endswith(">>"):
        lv = undump(out[2:-2])
    res = {"outcome": "ok", "parser": pv, "expander": got[0] if got else None,
           "lua": lv, "lua_raw": out if lv is None else None, "stack": list(ctx.expand_stack)}
    if case.get("in_body"):
        # the same call written in the body of another template
        ctx.add_page("Template:outerE", 10, "{{t" + src_args + "}}")
        ctx.add_page("Template:outerL", 10, "{{#invoke:echo|main" + src_args + "}}")
        got2 = []
        ctx.start_page("Tt")
        ctx.expand("{{outerE}}", template_fn=lambda name, ht: got2.append(_keyed(ht)) or ("X" if name == "t" else None)
                   if name == "t" else None)
        ctx.start_page("Tt")
        out2 = ctx.expand("{{outerL}}")
        res["body_expander"] = got2[0] if got2 else None
        res["body_lua"] = undump(out2[2:-2]) if out2.startswith("<<") and out2.endswith(">>") else None
        res["body_lua_raw"] = out2[:200]
    return res


# ---------------------------------------------------------------- C16
MSG_KEYS = ["called_from", "msg", "path", "section", "subsection", "title", "trace"]


def impl_c16(case, scratch):
    ctx = lua_ctx(scratch)
    title = case["title"]
    ctx.start_page(title)
    if case.get("section"):
        ctx.start_section(case["section"])
    log = []

    def tfn(name, ht):
        log.append(name)
        return "<T:%s>" % name if case["tfn"] == "marker" and len(name) % 2 == 0 else None

    def pfn(name, ht, exp):
        return "<P>" if case["pfn"] == "marker" and len(exp) % 3 == 0 else None

    kw = dict(pre_expand=case["pre_expand"], expand_parserfns=case["parserfns"],
              expand_invoke=case["invoke"],
              template_fn=tfn if case["tfn"] else None,
              post_template_fn=pfn if case["pfn"] else None)
    if case.get("sel") is not None:
        kw["templates_to_expand"] = set(case["sel"])
    problems = []
    before = list(ctx.expand_stack)
    out = None
    for i in range(case["repeat"]):
        if case["api"] == "parse":
            ctx.parse(case["text"], pre_expand=case["pre_expand"], expand_all=not case["pre_expand"])
            if ctx.parser_stack:
                problems.append(["parser_stack", i, len(ctx.parser_stack)])
        else:
            out = ctx.expand(case["text"], **kw)
        if ctx.expand_stack != before:
            problems.append(["stack", i, list(ctx.expand_stack)])
            break
        if out is not None and "too deep recursion" in out and case.get("flat"):
            problems.append(["too-deep", i, out[:200]])
            break
    nmsgs = 0
    for lst_name, lst in ctx.to_return().items():
        for m in lst:
            nmsgs += 1
            if sorted(m.keys()) != MSG_KEYS:
                problems.append(["msg-keys", lst_name, sorted(m.keys())])
            elif m["title"] != title or m["section"] != (case.get("section") or ""):
                problems.append(["msg-context", lst_name, m["title"], m["section"]])
    ctx.start_page(title + "2")
    if any(len(l) for l in ctx.to_return().values()):
        problems.append(["not-cleared"])
    return {"outcome": "ok", "problems": problems, "nmsgs": nmsgs, "out": (out or "")[:300]}


# ---------------------------------------------------------------- C18 / generic expand
_ctx_by_lang = {}


def lang_ctx(scratch, lang):
    if lang not in _ctx_by_lang:
        ctx = new_ctx(scratch, lang_code=lang)
        mod_ns = ctx.NAMESPACE_DATA["Module"]
        ctx.add_page(mod_ns["name"] + ":ustring:ustring", mod_ns["id"], USTRING_STUB, model="Scribunto")
        ctx.add_page(mod_ns["name"] + ":e", mod_ns["id"], "return {main = function(frame) return 'E' end}", model="Scribunto")
        ctx.db_conn.commit()
        _ctx_by_lang[lang] = ctx
    return _ctx_by_lang[lang]


def impl_expand(case, scratch):
    """case: {"text": ..., "lang": "en"} -> expanded text (no templates needed)"""
    ctx = lang_ctx(scratch, case.get("lang", "en"))
    ctx.start_page(case.get("title", "Tt"))
    out = ctx.expand(case["text"])
    return {"outcome": "ok", "out": out, "stack": len(ctx.expand_stack)}


def impl_expand_many(case, scratch):
    """case: {"texts": [...], "lang": ...} -> list of outcomes (one context, one start_page per text)"""
    ctx = lang_ctx(scratch, case.get("lang", "en"))
    outs = []
    for t in case["texts"]:
        ctx.start_page(case.get("title", "Tt"))
        try:
            outs.append(["ok", ctx.expand(t)])
        except Exception as e:  # noqa
            import traceback
            tb = traceback.extract_tb(e.__traceback__)
            outs.append(["raised", type(e).__name__, tb[-1].name if tb else ""])
            ctx.expand_stack = []
    return {"outcome": "ok", "outs": outs}


# ---------------------------------------------------------------- expansion with a template library (C04/C05/C13/C15)
def _decode(ctx, text):
    """Encoded string -> nested list AST: code points, or [kind, [args...]] / ["N", content]."""
    from wikitextprocessor.common import MAGIC_FIRST, MAGIC_LAST
    out = []
    for ch in text:
        o = ord(ch)
        if MAGIC_FIRST <= o <= MAGIC_LAST and o - MAGIC_FIRST < len(ctx.cookies):
            kind, args, nowiki = ctx.cookies[o - MAGIC_FIRST]
            if kind == "N":
                out.append(["N", args[0]])
            else:
                out.append([kind + ("!" if nowiki else ""), [_decode(ctx, a) for a in args]])
        else:
            out.append(o)
    return out


def encode_ast(ctx, text):
    ctx.start_page("Tt")
    return _decode(ctx, ctx._encode(ctx.preprocess_text(text)))


def impl_expandlib(case, scratch):
    """case: lib: [[name, body, need_pre]], page, opts{pre_expand, parserfns, expand_names, not_expand_names,
    tfn, pfn}, title.  Returns output, stack, messages and the ASTs the implementation really parsed."""
    ctx = new_ctx(scratch, **({"parser_function_aliases": case["pf_aliases"]} if case.get("pf_aliases") else {}))
    try:
        for name, body, pre in case["lib"]:
            ctx.add_page("Template:" + name, 10, body, need_pre_expand=bool(pre))
        if case.get("modules"):
            ctx.add_page("Module:ustring:ustring", 828, USTRING_STUB, model="Scribunto")
            for mname, src in case["modules"].items():
                ctx.add_page("Module:" + mname, 828, src, model="Scribunto")
        ctx.db_conn.commit()
        lib_ast = []
        for name, body, pre in case["lib"]:
            stored = ctx.get_page("Template:" + name, 10).body
            b = stored
            if b.startswith(("#", "*", ";", ":")):
                b = "\n" + b
            lib_ast.append([name, encode_ast(ctx, b), bool(pre), stored])
        page_ast = encode_ast(ctx, case["page"])
        o = case.get("opts", {})
        calls = []

        def tfn(name, ht):
            calls.append(["t", name, [[k, v] for k, v in ht.items()]])
            if name in (o.get("tfn_reenter") or {}):
                # a hook may use the context itself
                if o.get("tfn_reenter_hooked"):
                    ctx.expand(o["tfn_reenter"][name], template_fn=tfn)       # the nested expansion calls the hook again
                else:
                    ctx.expand(o["tfn_reenter"][name])
            r = o.get("tfn_ret", {}).get(name)
            return r

        def pfn(name, ht, exp):
            calls.append(["p", name, [[k, v] for k, v in ht.items()], exp])
            return o.get("pfn_ret", {}).get(name)

        kw = dict(pre_expand=o.get("pre_expand", False), expand_parserfns=o.get("parserfns", True))
        if "invoke" in o:
            kw["expand_invoke"] = bool(o["invoke"])
        if o.get("expand_names") is not None:
            kw["templates_to_expand"] = set(o["expand_names"])
        if o.get("not_expand_names") is not None:
            kw["templates_to_not_expand"] = set(o["not_expand_names"])
        if o.get("tfn"):
            kw["template_fn"] = tfn
        if o.get("pfn"):
            kw["post_template_fn"] = pfn
        ctx.start_page(case.get("title", "Tt"))
        before = list(ctx.expand_stack)
        out = ctx.expand(case["page"], **kw)
        return {"outcome": "ok", "out": out, "stack_ok": ctx.expand_stack == before,
                "msgs": {k: [m["msg"][:80] for m in v] for k, v in ctx.to_return().items() if v},
                "page_ast": page_ast, "lib_ast": lib_ast, "calls": calls}
    finally:
        close_ctx(ctx)


# ---------------------------------------------------------------- C15
def _tree(node):
    """Canonical JSON form of a parse tree."""
    if isinstance(node, str):
        return node
    d = {"k": node.kind.name}
    sarg = getattr(node, "sarg", "")
    if sarg:
        d["s"] = sarg
    largs = getattr(node, "largs", [])
    if largs:
        d["a"] = [[_tree(x) for x in l] for l in largs]
    attrs = getattr(node, "attrs", {})
    if attrs:
        d["at"] = dict(attrs)
    if getattr(node, "children", None):
        d["c"] = [_tree(x) for x in node.children]
    if getattr(node, "definition", None):
        d["d"] = [_tree(x) for x in node.definition]
    return d


_c15_ctx = None


def impl_c15(case, scratch):
    """case: texts: list of wikitext; returns for each: expand output, parse tree, hook calls"""
    global _c15_ctx
    if _c15_ctx is None:
        ctx = new_ctx(scratch)
        ctx.add_page("Template:echo", 10, "{{{1}}}")
        ctx.add_page("Template:a", 10, "A[{{{1|}}}]")
        ctx.add_page("Template:two", 10, "{{{1}}}-{{{2|}}}")
        # templates whose own body holds nowiki content
        ctx.add_page("Template:lit", 10, "L<nowiki>[[x]] {{y|z}} ''q''</nowiki>R")
        ctx.add_page("Template:lit2", 10, "<nowiki>* {{{1}}} <b></nowiki>{{{1|d}}}")
        ctx.db_conn.commit()
        _c15_ctx = ctx
    ctx = _c15_ctx
    outs = []
    for t in case["texts"]:
        calls = []

        def tfn(name, ht):
            calls.append(name)
            return None
        ctx.start_page("Tt")
        try:
            e = ctx.expand(t, template_fn=tfn)
        except Exception as ex:  # noqa
            e = ["raised", type(ex).__name__]
            ctx.expand_stack = []
        ctx.start_page("Tt")
        try:
            p = _tree(ctx.parse(t))
        except Exception as ex:  # noqa
            p = ["raised", type(ex).__name__]
        outs.append({"expand": e, "tree": p, "calls": calls, "pstack": len(ctx.parser_stack)})
        ctx.parser_stack = []
    return {"outcome": "ok", "outs": outs}


def impl_preprocess(case, scratch):
    """Wtp.preprocess_text on each text; the result as items: code point | ['nw', content] | ['nwe']"""
    from wikitextprocessor.common import MAGIC_FIRST, MAGIC_LAST, MAGIC_NOWIKI_CHAR
    ctx = parse_ctx(scratch)
    outs = []
    for t in case["texts"]:
        ctx.start_page("Tt")
        r = ctx.preprocess_text(t)
        items = []
        for ch in r:
            o = ord(ch)
            if ch == MAGIC_NOWIKI_CHAR:
                items.append(["nwe"])
            elif MAGIC_FIRST <= o <= MAGIC_LAST and o - MAGIC_FIRST < len(ctx.cookies):
                kind, args, nowiki = ctx.cookies[o - MAGIC_FIRST]
                items.append(["nw", args[0]] if kind == "N" else ["cookie", kind])
            else:
                items.append(o)
        outs.append(items)
    return {"outcome": "ok", "outs": outs}


# ---------------------------------------------------------------- C08
C08_TEMPLATES = {
    "a": "A[{{{1|}}}]",
    "b": "B({{{1}}},{{{x|dx}}})",
    "s": "[{{{1}}}|{{{2|}}}|{{{k|}}}]",
    "sp": " y ",
    "w1": "{{#invoke:echo|parent}}",
    # two invocations in one expansion of the template: the first writes into its parent frame's arguments, the second must
    # still see the template's own arguments (used for half of the parent cases under the name w1)
    "w1mut": "{{#invoke:echo|mutparent}}{{#invoke:echo|parent}}",
    "w1args": "{{#invoke:echo|main|{{{1|}}}|k={{{k|}}}}}",
    "w2": "({{w1|{{{1|}}}|z={{{z|}}}}})",
    # a template whose module calls the same template again, with other arguments, while it is still running
    "re": "{{#invoke:echo|reenter}}",
    "rewrap": "{{re|{{{1}}}|w={{{w|}}}}}",
    # templates whose module expands, or receives as an argument, a nested invocation that reads the enclosing template's
    # arguments; used several times on one page with different arguments
    "ppp": "<{{#invoke:echo|pre_parent}}>",
    "viaarg": "[{{#invoke:echo|first_arg|{{#invoke:echo|parent}}}}]",
    "viaet": "({{#invoke:echo|et_parent}})",
    "star": "* item",
}
_c08_ctx = None
_c08_n = 0


def impl_c08(case, scratch):
    """case: kind in {args, parent, preprocess, expandtemplate, callpf}; returns echo output and oracle expansions"""
    global _c08_ctx, _c08_n
    if _c08_ctx is None:
        ctx = new_ctx(scratch)
        ctx.add_page("Module:ustring:ustring", 828, USTRING_STUB, model="Scribunto")
        ctx.add_page("Module:echo", 828, ECHO_MODULE + "", model="Scribunto")
        for k, v in C08_TEMPLATES.items():
            ctx.add_page("Template:" + k, 10, v)
        ctx.db_conn.commit()
        _c08_ctx = ctx
    ctx = _c08_ctx
    title = case.get("title", "Tt")
    kind = case["kind"]

    def ex(text, **kw):
        ctx.start_page(title)
        return ctx.expand(text, **kw)

    def echo(out):
        if out.startswith("<<") and out.endswith(">>"):
            return out[2:-2]
        return None
    res = {"outcome": "ok"}
    if kind == "args":
        src = "".join("|" + a for a in case["args"])
        out = ex("{{#invoke:echo|main" + src + "}}")
        res["raw"] = out
        e = echo(out)
        res["lua"] = undump(e) if e is not None else None
        res["each"] = [ex(a) for a in case["args"]]            # each argument expanded in the calling page context
        got = []
        # the hook receives expander-internal strings (placeholders for <nowiki> content): print them as finalisation would
        ex("{{s" + src + "}}", template_fn=lambda n, ht: got.append([n, [[k, ctx._finalize_expand(v)] for k, v in ht.items()]]) and None)
        got = [g[1] for g in got if g[0] == "s"]
        res["tfn"] = got[-1] if got else None
    elif kind == "parent":
        src = "".join("|" + a for a in case["args"])
        call = "{{" + case["wrapper"] + src + "}}"
        if case.get("mutate_first"):
            # Template:w1 of this context is, for this case, the variant whose first invocation mutates its parent frame
            ctx.add_page("Template:w1", 10, C08_TEMPLATES["w1mut"])
        else:
            ctx.add_page("Template:w1", 10, C08_TEMPLATES["w1"])
        out = ex(call)
        res["raw"] = out
        m = out[out.find("<<") + 2:out.rfind(">>")] if "<<" in out else None
        if m is not None and "|" in m:
            t, d = m.split("|", 1)
            res["parent_title"] = undump("sx=" + t)[0][1]         # the title is %-quoted like every dumped value
            res["parent_args"] = undump(d)
        got = []
        ex(call, template_fn=lambda n, ht: got.append([n, [[k, ctx._finalize_expand(v)] for k, v in ht.items()]]) and None)
        res["tfn"] = got
    elif kind == "twice":
        # the same template several times on one page: every use sees its own arguments
        calls = ["{{%s|%s}}" % (case["tpl"], a) for a in case["vals"]]
        res["lua"] = ex(" ".join(calls))
        res["direct"] = " ".join(ex(c) for c in calls)
    elif kind == "reenter":
        a1, a2, how = case["a1"], case["a2"], case["how"]
        res["lua"] = ex("{{re|go|how=%s|a1=%s|a2=%s}}" % (how, a1, a2))
        inner = "{{rewrap|%s|w=%s}}" % (a1, a2) if how == "pp" else "{{re|%s|k=%s}}" % (a1, a2)
        res["outer_alone"] = ex("{{re|go|how=none|a1=%s|a2=%s}}" % (a1, a2)).replace("how=none", "how=" + how)
        res["direct"] = ex(inner)
    elif kind == "preprocess":
        _c08_n += 1
        name = "frag%dx%d" % (os.getpid(), _c08_n)
        lua_str = "[==[" + case["frag"] + "]==]"
        ctx.add_page("Module:" + name, 828,
                     "local e = {}\nfunction e.main(frame) return '<<' .. frame:preprocess(" + lua_str + ") .. '>>' end\nreturn e",
                     model="Scribunto")
        out = ex("{{#invoke:%s|main}}" % name)
        res["raw"] = out
        res["lua"] = echo(out)
        res["direct"] = ex(case["frag"])
    elif kind == "expandtemplate":
        _c08_n += 1
        name = "et%dx%d" % (os.getpid(), _c08_n)
        items = ", ".join(("[%d]" % k if isinstance(k, int) else "[%r]" % k).replace("'", '"') + " = [==[" + v + "]==]"
                          for k, v in case["targs"])
        ctx.add_page("Module:" + name, 828,
                     "local e = {}\nfunction e.main(frame) return '<<' .. frame:expandTemplate{title = %s, args = {%s}} .. '>>' end\nreturn e"
                     % (json_str(case["ttitle"]), items), model="Scribunto")
        out = ex("{{#invoke:%s|main}}" % name)
        res["raw"] = out
        res["lua"] = echo(out)
        res["named_form"] = ex("{{" + case["ttitle"] + "".join("|%s=%s" % (k, v) for k, v in case["targs"]) + "}}")
        ints = sorted(k for k, _ in case["targs"] if isinstance(k, int))
        if ints == list(range(1, len(ints) + 1)):
            d = dict((k, v) for k, v in case["targs"])
            res["positional_form"] = ex("{{" + case["ttitle"] + "".join("|" + d[i] for i in ints)
                                        + "".join("|%s=%s" % (k, v) for k, v in case["targs"] if not isinstance(k, int)) + "}}")
    elif kind == "callpf":
        _c08_n += 1
        name = "pf%dx%d" % (os.getpid(), _c08_n)
        items = ", ".join("[==[" + v + "]==]" for v in case["pargs"])
        ctx.add_page("Module:" + name, 828,
                     "local e = {}\nfunction e.main(frame) return '<<' .. frame:callParserFunction{name = %s, args = {%s}} .. '>>' end\nreturn e"
                     % (json_str(case["pname"]), items), model="Scribunto")
        out = ex("{{#invoke:%s|main}}" % name)
        res["raw"] = out
        res["lua"] = echo(out)
        res["direct"] = ex("{{" + case["pname"] + ":" + "|".join(case["pargs"]) + "}}")
    res["stack"] = list(ctx.expand_stack)
    return res


def json_str(s):
    import json as _j
    return _j.dumps(s)


# ---------------------------------------------------------------- parse (C02/C03/C19/C01)
_parse_ctx = None


def parse_ctx(scratch):
    global _parse_ctx
    if _parse_ctx is None:
        ctx = new_ctx(scratch)
        ctx.add_page("Template:a", 10, "A[{{{1|}}}]")
        ctx.add_page("Template:hd", 10, "== Generated ==")
        ctx.add_page("Module:ustring:ustring", 828, USTRING_STUB, model="Scribunto")   # the Scribunto submodule is absent offline
        ctx.db_conn.commit()
        _parse_ctx = ctx
    return _parse_ctx


_ext_ctx = None


def ext_ctx(scratch, extension_tags):
    """a context created with extension tags (the permitted-parent table is derived from them at construction)"""
    global _ext_ctx
    if _ext_ctx is None:
        from wikitextprocessor import Wtp
        _ext_ctx = Wtp(db_path=os.path.join(scratch, "ext.db"), extension_tags=extension_tags)
    return _ext_ctx


def impl_parse_many(case, scratch):
    """case: texts -> canonical trees (one context, start_page per text)"""
    ctx = ext_ctx(scratch, case["extension_tags"]) if case.get("extension_tags") else parse_ctx(scratch)
    outs = []
    for t in case["texts"]:
        ctx.start_page(case.get("title", "Tt"))
        try:
            tree = ctx.parse(t, **case.get("kw", {}))
            outs.append({"tree": _tree(tree), "pstack": len(ctx.parser_stack),
                         "debugs": len(ctx.debugs), "errors": [e["msg"][:80] for e in ctx.errors]})
        except BaseException as e:  # noqa
            import traceback
            tb = traceback.extract_tb(e.__traceback__)
            outs.append({"raised": type(e).__name__, "where": tb[-1].name if tb else "", "msg": str(e)[:200]})
            ctx.parser_stack = []
    return {"outcome": "ok", "outs": outs}


def impl_detect_loop(case, scratch):
    from wikitextprocessor.core import detect_expand_template_loop
    return {"outcome": "ok", "outs": [bool(detect_expand_template_loop(list(s))) for s in case["stacks"]]}


# ---------------------------------------------------------------- C01
def impl_merge(case, scratch):
    """_parser_merge_str_children on constructed child lists: strings and placeholder nodes"""
    from wikitextprocessor import parser as P
    ctx = parse_ctx(scratch)
    ctx.start_page("Tt")
    outs = []
    for lst in case["lists"]:
        root = P.WikiNode(P.NodeKind.ROOT, 0)
        kids = []
        for x in lst:
            if isinstance(x, str):
                kids.append(x)
            else:
                n = P.WikiNode(P.NodeKind.BOLD, 0)
                n.sarg = str(x)
                kids.append(n)
        root.children = kids
        ctx.parser_stack = [root]
        P._parser_merge_str_children(ctx)
        outs.append([c if isinstance(c, str) else int(c.sarg) for c in root.children])
        ctx.parser_stack = []
    return {"outcome": "ok", "outs": outs}


def extract_test_pages():
    """String literals passed to parse()/expand() in the repository's own tests (mutation seeds)."""
    import ast
    from pathlib import Path
    out = []
    for f in ("tests/test_parser.py", "tests/test_node_expand.py"):
        p = Path(os.environ.get("VERIF_REPO", "/repo")) / f
        if not p.exists():
            continue
        for n in ast.walk(ast.parse(p.read_text())):
            if isinstance(n, ast.Call) and isinstance(n.func, ast.Attribute) and n.func.attr in ("parse", "expand", "run") \
                    and n.args and isinstance(n.args[-1], ast.Constant) and isinstance(n.args[-1].value, str):
                out.append(n.args[-1].value)
            if isinstance(n, ast.Call) and n.args and isinstance(n.args[0], ast.Constant) and isinstance(n.args[0].value, str) \
                    and len(n.args[0].value) > 3 and isinstance(n.func, ast.Attribute) and n.func.attr == "parse":
                out.append(n.args[0].value)
    return sorted(set(out))


def impl_test_pages(case, scratch):
    return {"outcome": "ok", "pages": extract_test_pages()}


# ---------------------------------------------------------------- C04/C12: includable part of a template page
def impl_template_body(case, scratch):
    from wikitextprocessor import Wtp
    ctx = Wtp(db_path=os.path.join(scratch, "tb.db"))
    try:
        return {"outcome": "ok", "outs": [ctx._template_to_body("T", t) for t in case["texts"]]}
    finally:
        close_ctx(ctx)


# ---------------------------------------------------------------- C03
def impl_parse_attrs(case, scratch):
    from wikitextprocessor import parser as P
    outs = []
    for s in case["strings"]:
        n = P.WikiNode(P.NodeKind.HTML, 0)
        P.parse_attrs(n, s)
        outs.append([[k, v] for k, v in n.attrs.items()])
    return {"outcome": "ok", "outs": outs}


def impl_paired_tags(case, scratch):
    from wikitextprocessor.wikihtml import ALLOWED_HTML_TAGS
    return {"outcome": "ok", "tags": sorted(k for k, v in ALLOWED_HTML_TAGS.items() if not v.get("no-end-tag")),
            "all": {k: {kk: (sorted(vv) if isinstance(vv, (set, list, tuple)) else vv) for kk, vv in v.items()}
                    for k, v in ALLOWED_HTML_TAGS.items()}}


# ---------------------------------------------------------------- C19
def impl_roundtrip(case, scratch):
    ctx = parse_ctx(scratch)
    outs = []
    for t in case["texts"]:
        try:
            ctx.start_page("Tt")
            t1 = ctx.parse(t)
            w1 = ctx.node_to_wikitext(t1)
            ctx.start_page("Tt")
            t2 = ctx.parse(w1)
            w2 = ctx.node_to_wikitext(t2)
            ctx.start_page("Tt")
            t3 = ctx.parse(w2)
            parts = ctx.node_to_wikitext(list(t1.children))
            each = "".join(ctx.node_to_wikitext(c) for c in t1.children)
            outs.append({"t1": _tree(t1), "w1": w1, "t2": _tree(t2), "w2": w2, "t3": _tree(t3),
                         "list_ok": parts == w1, "each_same": each == w1})
        except BaseException as e:  # noqa
            import traceback
            tb = traceback.extract_tb(e.__traceback__)
            outs.append({"raised": type(e).__name__, "where": tb[-1].name if tb else ""})
            ctx.parser_stack = []
    return {"outcome": "ok", "outs": outs}


def impl_brackets(case, scratch):
    """Text nodes holding literal double brackets must survive to_wikitext + parse as text."""
    from wikitextprocessor import parser as P
    ctx = parse_ctx(scratch)
    outs = []
    for s in case["strings"]:
        ctx.start_page("Tt")
        root = ctx.parse("x")
        root.children = [s]
        w = ctx.node_to_wikitext(root)
        ctx.start_page("Tt")
        t2 = ctx.parse(w)
        outs.append({"w": w, "tree": _tree(t2)})
    return {"outcome": "ok", "outs": outs}


# ---------------------------------------------------------------- C12
def _xml_escape(s):
    return s.replace("&", "&amp;").replace("<", "&lt;").replace(">", "&gt;")


def write_dump(path, pages):
    import bz2
    out = ['<mediawiki xmlns="http://www.mediawiki.org/xml/export-0.10/" version="0.10" xml:lang="en">\n<siteinfo><sitename>T</sitename></siteinfo>\n']
    for i, p in enumerate(pages):
        out.append("<page>\n<title>%s</title>\n<ns>%d</ns>\n<id>%d</id>\n" % (_xml_escape(p["title"]), p["ns"], i + 1))
        if p.get("redirect") is not None:
            out.append('<redirect title="%s" />\n' % _xml_escape(p["redirect"]).replace('"', "&quot;"))
        out.append("<revision><id>%d</id><model>%s</model><format>text/x-wiki</format>" % (i + 100, p["model"]))
        out.append('<text bytes="%d" xml:space="preserve">%s</text></revision>\n</page>\n' % (len(p["text"]), _xml_escape(p["text"])))
    out.append("</mediawiki>\n")
    with bz2.open(path, "wt", encoding="utf-8", newline="") as f:
        f.write("".join(out))


def impl_c12(case, scratch):
    from wikitextprocessor.dumpparser import parse_dump_xml, add_default_templates
    ctx = new_ctx(scratch, lang_code=case.get("lang", "en"))
    try:
        path = os.path.join(scratch, "dump%d_%d.xml.bz2" % (os.getpid(), next(_counter)))
        write_dump(path, case["pages"])
        parse_dump_xml(ctx, path, set(case["nsset"]))
        add_default_templates(ctx)
        os.unlink(path)
        rows = [[p.title, p.namespace_id, p.redirect_to, p.body, p.model] for p in ctx.get_all_pages()]
        return {"outcome": "ok", "rows": rows}
    finally:
        close_ctx(ctx)


# ---------------------------------------------------------------- C09
C09_MODULES = {
    "counter": "local n = 0\nlocal e = {}\nfunction e.main(frame) n = n + 1 return 'n=' .. n end\nreturn e",
    "glob": "local e = {}\nfunction e.main(frame) G_COUNT = (G_COUNT or 0) + 1 return 'g=' .. G_COUNT end\nreturn e",
    "strlib": "local e = {}\nfunction e.main(frame) string.zz = (string.zz or 0) + 1 return 's=' .. string.zz end\nreturn e",
    "strmeta": "local e = {}\nfunction e.main(frame) local mt = getmetatable('') if mt and mt.__index then "
               "local ok = pcall(function() mt.__index.zq = (mt.__index.zq or 0) + 1 end) return 'm=' .. tostring(('').zq) end return 'm=nil' end\nreturn e",
    "tbllib": "local e = {}\nfunction e.main(frame) table.zz = (table.zz or 0) + 1 return 't=' .. table.zz end\nreturn e",
    "mwlib": "local e = {}\nfunction e.main(frame) mw.zz = (mw.zz or 0) + 1 return 'w=' .. mw.zz end\nreturn e",
    "mwtext": "local e = {}\nfunction e.main(frame) mw.text.zz = (mw.text.zz or 0) + 1 return 'x=' .. mw.text.zz end\nreturn e",
    "lib": "local n = 0\nlocal e = {}\nfunction e.inc() n = n + 1 return n end\nreturn e",
    "uselib": "local e = {}\nfunction e.main(frame) return 'l=' .. require('Module:lib').inc() end\nreturn e",
    "data": "return {n = 0, t = {1, 2}}",
    "usedata": "local e = {}\nfunction e.main(frame) local d = mw.loadData('Module:data') local ok = pcall(function() d.n = d.n + 1 end) "
               "local ok2 = pcall(rawset, d, 'q', 1) return 'd=' .. tostring(d.n) .. ',' .. tostring(rawget(d, 'q')) end\nreturn e",
    "args": "local e = {}\nfunction e.main(frame) local a = frame.args a.extra = 'x' return 'a=' .. tostring(frame.args[1]) .. tostring(frame.args.extra2) end\nreturn e",
    "osdate": "local e = {}\nfunction e.main(frame) os.zz = (os.zz or 0) + 1 return 'o=' .. os.zz end\nreturn e",
    "mathlib": "local e = {}\nfunction e.main(frame) math.zz = (math.zz or 0) + 1 return 'h=' .. math.zz end\nreturn e",
    "pkg": "local e = {}\nfunction e.main(frame) local p = package and package.loaded if p then p.zz = (p.zz or 0) + 1 return 'p=' .. p.zz end return 'p=nil' end\nreturn e",
}
C09_MODULES.update({
    # a module that patches library tables when it is loaded, required after nested invocations of an already loaded module
    "polyfill": "string.trim2 = (string.trim2 or 0) + 1\ntable.size2 = (table.size2 or 0) + 1\nmw.compat_loaded = (mw.compat_loaded or 0) + 1\nreturn {}",
    "nestb": "local e = {}\nfunction e.main(frame) return 'b' end\nreturn e",
    "nesta": "local e = {}\nfunction e.main(frame) local x = frame:preprocess('{{#invoke:nestb|main}}') .. frame:preprocess('{{#invoke:nestb|main}}') "
             "require('Module:polyfill') return 'A' .. x .. tostring(string.trim2) end\nreturn e",
    "nesta2": "local e = {}\nfunction e.main(frame) local x = frame:expandTemplate{title='cnt'} .. frame:expandTemplate{title='cnt'} "
              "require('Module:polyfill') return 'A2' .. tostring(table.size2) end\nreturn e",
    "boom": "local e = {}\nfunction e.main(frame) BOOM_G = 1 error('boom') end\nreturn e",
    "boomload": "BOOML_G = 1\nerror('boom while loading')",
    # results that cannot be decoded as UTF-8 / are not strings
    "badutf": "local e = {}\nfunction e.main(frame) BADUTF_G = 1 return string.char(255) .. string.char(200) end\n"
              "function e.half(frame) return string.sub('\\195\\169cole', 1, 1) end\nfunction e.tbl(frame) return {1, 2} end\n"
              "function e.num(frame) return 12.5 end\nfunction e.fn(frame) return function() end end\nreturn e",
    "probe2": "local e = {}\nfunction e.main(frame) return 'p2=' .. tostring(string.trim2) .. tostring(table.size2) .. tostring(mw.compat_loaded) end\nreturn e",
})
C09_MODULES.update({
    # JSON data loaded with mw.loadJsonData and written to by the module (the returned table is writable)
    "usejson": "local e = {}\nfunction e.main(frame) local d = mw.loadJsonData('Module:jdata.json') local ok = pcall(function() "
               "d.n = (d.n or 0) + 1 d.list[#d.list + 1] = 'x' end) return 'j=' .. tostring(d.n) .. ',' .. tostring(#d.list) end\nreturn e",
})
C09_TEMPLATES = dict(STD_TEMPLATES, **{"cnt": "{{#invoke:counter|main}}/{{#invoke:counter|main}}"})


def c09_db(scratch):
    path = os.path.join(scratch, "c09_%d.db" % os.getpid())
    if not os.path.exists(path):
        ctx = Wtp(db_path=path, quiet=True, quiet_output=True)
        ctx.add_page("Module:ustring:ustring", 828, USTRING_STUB, model="Scribunto")
        ctx.add_page("Module:echo", 828, ECHO_MODULE, model="Scribunto")
        for k, v in C09_MODULES.items():
            ctx.add_page("Module:" + k, 828, v, model="Scribunto")
        for k, v in STD_MODULES.items():
            ctx.add_page("Module:" + k, 828, v, model="Scribunto")
        for k, v in C09_TEMPLATES.items():
            ctx.add_page("Template:" + k, 10, v)
        ctx.add_page("Module:jdata.json", 828, '{"n": 0, "list": ["a"]}', model="json")
        ctx.db_conn.commit()
        ctx.db_conn.close()
    return path


def c09_run_page(ctx, page):
    ctx.start_page(page["title"])
    out = {}
    try:
        for step in page["steps"]:
            if step[0] == "expand":
                out.setdefault("expand", []).append(ctx.expand(page["text"], **step[1]))
            else:
                out.setdefault("parse", []).append(_tree(ctx.parse(page["text"], **step[1])))
    except BaseException as e:  # noqa
        out["raised"] = type(e).__name__
        ctx.expand_stack = [page["title"]]
        ctx.parser_stack = []
    out["msgs"] = {k: [[m["msg"][:60], m["title"], m["section"], list(m["path"])] for m in v] for k, v in ctx.to_return().items() if v}
    return out


def impl_c09(case, scratch):
    """case: pages: [{title, text, steps}], history: [indices], pre_ctx: bool"""
    path = c09_db(scratch)
    import shutil
    outs = {}
    if case.get("pre_ctx"):
        # another context created earlier in this process with different options
        other = Wtp(db_path=os.path.join(scratch, "other_%d.db" % os.getpid()), quiet=True, quiet_output=True,
                    extension_tags={"foo": {"parents": ["phrasing"], "content": ["phrasing"]}})
        other.start_page("O")
        other.parse("<foo>x</foo>")
        other.db_conn.close()
    copy = os.path.join(scratch, "c09h_%d_%d.db" % (os.getpid(), next(_counter)))
    shutil.copy(path, copy)
    ctx = Wtp(db_path=copy, quiet=True, quiet_output=True)
    results = []
    try:
        for i in case["history"]:
            results.append(c09_run_page(ctx, case["pages"][i]))
    finally:
        ctx.db_conn.close()
        os.unlink(copy)
    return {"outcome": "ok", "results": results}


# ---------------------------------------------------------------- C11
def _c11_make_db(dirpath, n, big):
    import sqlite3
    p = os.path.join(dirpath, "w.db")
    ctx = Wtp(db_path=p, quiet=True, quiet_output=True)
    for i in range(n):
        ctx.add_page("Page %d" % i, 0, ("orig %d " % i) + ("x" * 3000 if big else ""))
    ctx.db_conn.commit()
    ctx.db_conn.close()
    return p


def _c11_read(p):
    import sqlite3
    try:
        ctx = Wtp(db_path=p, quiet=True, quiet_output=True)
    except BaseException as e:  # noqa
        return {"open": "raised:" + type(e).__name__ + ":" + str(e)[:80]}
    try:
        integ = [r[0] for r in ctx.db_conn.execute("PRAGMA integrity_check")]
        rows = sorted((pg.title, (pg.body or "")[:12]) for pg in ctx.get_all_pages())
        return {"open": "ok", "integrity": integ, "rows": rows}
    except BaseException as e:  # noqa
        return {"open": "ok", "read": "raised:" + type(e).__name__ + ":" + str(e)[:80]}
    finally:
        try:
            ctx.db_conn.close()
        except Exception:
            pass


def _c11_obs(p, orig_rows):
    """What is on disk after the (killed) flow, file by file, read from copies so that nothing is changed: the database file
    alone, the database with its write-ahead log, the backup and the backup's temporary name.  Each is 'absent', 'orig'
    (the original pages), 'new' (a valid pages table with other content) or 'partial' (anything else)."""
    import shutil
    import sqlite3
    import tempfile

    def classify(files, main):
        if not os.path.exists(main):
            return "absent"
        d = tempfile.mkdtemp(prefix="c11obs_")
        try:
            for f in files:
                if os.path.exists(f):
                    shutil.copy(f, os.path.join(d, os.path.basename(f)))
            try:
                conn = sqlite3.connect(os.path.join(d, os.path.basename(main)))
                rows = sorted((t, (b or "")[:12]) for t, b in conn.execute("SELECT title, body FROM pages"))
                ok = [r[0] for r in conn.execute("PRAGMA integrity_check")] == ["ok"]
                conn.close()
            except Exception:  # noqa
                return "partial"
            if not ok:
                return "partial"
            return "orig" if rows == orig_rows else "new"
        finally:
            shutil.rmtree(d, ignore_errors=True)

    stem, ext = os.path.splitext(p)
    bak = stem + "_backup" + ext
    return {"db": classify([p], p), "vis": classify([p, p + "-wal", p + "-shm"], p), "bak": classify([bak], bak),
            "tmp": classify([bak + ".tmp"], bak + ".tmp")}


def _c11_child(flow, p, k, extra):
    import subprocess
    import sys as _sys
    env = dict(os.environ)
    r = subprocess.run([_sys.executable, os.path.join(os.path.dirname(os.path.abspath(__file__)), "crash_child.py"), flow, p, str(k),
                        json.dumps(extra)], capture_output=True, text=True, env=env, timeout=120)
    lines = None
    for l in r.stdout.splitlines():
        if l.startswith("LINES="):
            lines = int(l[6:])
    return r.returncode, lines, r.stderr[-300:]


import json  # noqa: E402


def impl_c11(case, scratch):
    """case: scenario, n pages, big, kill (k or None = dry run), second_kill (for the reopen after the crash)"""
    import shutil
    d = os.path.join(scratch, "c11_%d_%d" % (os.getpid(), next(_counter)))
    os.makedirs(d)
    try:
        n = case["n"]
        p = _c11_make_db(d, n, case.get("big", False))
        jpath = os.path.join(d, "over.json")
        over = {("Page %d" % i): {"namespace_id": 0, "body": "new %d" % i} for i in range(0, n, 2)}
        over["Added page"] = {"namespace_id": 0, "body": "new added"}
        with open(jpath, "w") as f:
            json.dump(over, f)
        extra = {"json": jpath, "close": case.get("close", True), "pages": [["Page %d" % i, "new %d" % i] for i in range(n)],
                 "mid": [["Page %d" % i, "mid %d" % i] for i in range(n)]}
        shape = case.get("shape")
        if shape:
            # several override paths: which of them contribute pages, in which format, and whether a template is among them
            def mk(name, content=None, files=None):
                q = os.path.join(d, name)
                if files is not None:
                    os.makedirs(q)
                    for fn, body in files.items():
                        with open(os.path.join(q, fn), "w") as f:
                            f.write(body)
                elif content is not None:
                    with open(q, "w") as f:
                        f.write(content)
                return q
            tmpl = json.dumps({"Template:T": {"namespace_id": 10, "body": "new tmpl"}, "Page 1": {"namespace_id": 0, "body": "new 1"}})
            parts = {
                "json": jpath, "missing": os.path.join(d, "nope"), "emptydir": mk("ed", files={}) if "emptydir" in shape else None,
                "dotdir": mk("dd", files={".gitkeep": "", "x.json": "{}"}) if "dotdir" in shape else None,
                "emptyjson": mk("e.json", "{}") if "emptyjson" in shape else None,
                "textfile": mk("notes.txt", "TITLE: Page 3\nnew 3") if "textfile" in shape else None,
                "dir": mk("od", files={"p1": "TITLE: Page 1\nnew 1", "p5": "TITLE: Page 5\nnew 5"}) if "dir" in shape.split("+") else None,
                "tmpl": mk("t.json", tmpl) if "tmpl" in shape else None,
            }
            extra["paths"] = [parts[x] for x in shape.split("+")]
        sc = case["scenario"]
        pre = []
        if sc in ("restore", "restore-dirty"):
            # first a complete override flow, cleanly (restore) or without closing (restore-dirty: -wal left behind)
            ex2 = dict(extra, close=(sc == "restore"))
            pre.append(_c11_child("override", p, 10 ** 9, ex2)[0])
            flow = "reopen"
        elif sc == "override":
            flow = "override"
        elif sc == "overwrite-only":
            flow = "overwrite-only"
        else:
            flow = "backup-only"       # also the first step of "rebackup"
        k = case.get("kill") or 10 ** 9
        rc, lines, err = _c11_child(flow, p, k, extra)
        if sc == "rebackup" and case.get("kill"):
            # after the killed backup: new content, then a complete backup + overwrite + close
            pre.append(_c11_child("mid-override", p, 10 ** 9, extra)[0])
        files = sorted(os.listdir(d))
        pad = "x" * 3000 if case.get("big") else ""
        obs = _c11_obs(p, sorted(("Page %d" % i, (("orig %d " % i) + pad)[:12]) for i in range(n)))
        rc2 = None
        if case.get("second_kill"):
            rc2, _, _ = _c11_child("reopen", p, case["second_kill"], extra)
        res = _c11_read(p)
        res.update({"outcome": "ok", "rc": rc, "lines": lines, "files": files, "rc2": rc2, "pre": pre, "err": err if rc not in (0, 9) else "", "obs": obs})
        return res
    finally:
        shutil.rmtree(d, ignore_errors=True)


# ---------------------------------------------------------------- C20
def _c20_make(d, with_backup, with_bootstrap):
    p = os.path.join(d, "w.db")
    ctx = Wtp(db_path=p, quiet=True, quiet_output=True)
    ctx.add_page("Module:ustring:ustring", 828, USTRING_STUB, model="Scribunto")
    ctx.add_page("Module:echo", 828, ECHO_MODULE, model="Scribunto")
    for k, v in STD_TEMPLATES.items():
        ctx.add_page("Template:" + k, 10, v)
    for i in range(30):
        ctx.add_page("Page %d" % i, 0, "body %d {{a|%d}}" % (i, i))
    if with_bootstrap:
        from wikitextprocessor.luaexec import add_empty_sandbox_lua_module  # noqa
        try:
            ctx.add_page("Module:_sandbox_phase1", 828, "", model="Scribunto")
        except Exception:
            pass
    ctx.db_conn.commit()
    if with_backup:
        ctx.backup_db()
        ctx.add_page("Page 0", 0, "post-backup version")
        ctx.db_conn.commit()
    ctx.db_conn.close()
    return p


def _c20_pages_table(p):
    import sqlite3
    con = sqlite3.connect(p)
    try:
        return sorted((t, n, (b or "")[:30]) for t, n, b in con.execute("SELECT title, namespace_id, body FROM pages"))
    finally:
        con.close()


C20_TEXTS = ["{{a|x}}", "{{#invoke:echo|main|a|b=c}}", "{{b|p|x=q}} {{missing}}", "{{#if:x|y}} {{lc:AB}}", "{{inv|q}}", "{{deep|w}}"]


def impl_c20(case, scratch):
    import shutil
    import subprocess
    import sys as _sys
    d = os.path.join(scratch, "c20_%d_%d" % (os.getpid(), next(_counter)))
    os.makedirs(d)
    here = os.path.dirname(os.path.abspath(__file__))
    try:
        p = _c20_make(d, case["backup"], case["bootstrap"])
        # reference: what the database holds for readers (after a restore if a backup is present) and single-process outputs
        ref_db = os.path.join(d, "ref.db")
        shutil.copy(p, ref_db)
        if case["backup"]:
            shutil.copy(os.path.join(d, "w_backup.db"), os.path.join(d, "ref_backup.db"))
        rctx = Wtp(db_path=ref_db, quiet=True, quiet_output=True)
        ref_out = {}
        for t in C20_TEXTS:
            rctx.start_page("W")
            ref_out[t] = rctx.expand(t)
        rctx.db_conn.commit()
        rctx.db_conn.close()
        before = [r for r in _c20_pages_table(ref_db) if r[0] != "Module:_sandbox_phase1"]
        procs, outs = [], []
        barrier = os.path.join(d, "go")
        for w, spec in enumerate(case["workers"]):
            out = os.path.join(d, "out%d.json" % w)
            outs.append(out)
            s = dict(spec, out=out, barrier=barrier, pages=[C20_TEXTS[i % len(C20_TEXTS)] for i in spec["pages"]])
            if s.get("gate"):
                s["gate"] = dict(s["gate"], reached=os.path.join(d, "reached%d" % w), release=os.path.join(d, "release%d" % w))
                if "release_on" in s["gate"]:
                    # this worker goes on as soon as worker <release_on> has reached its own gate
                    s["gate"]["release"] = os.path.join(d, "reached%d" % s["gate"]["release_on"])
            procs.append((subprocess.Popen([_sys.executable, os.path.join(here, "worker_child.py"), p, json.dumps(s)],
                                           stdout=subprocess.PIPE, stderr=subprocess.PIPE, text=True), s))
        open(barrier, "w").write("go")
        import time
        # gated schedule: wait until the gated worker reached its line, let the others finish, then release it
        gated = [(pr, s) for pr, s in procs if s.get("gate") and "release_on" not in s["gate"]]
        if gated:
            t0 = time.time()
            while not all(os.path.exists(s["gate"]["reached"]) or pr.poll() is not None for pr, s in gated) and time.time() - t0 < 30:
                time.sleep(0.01)
            for pr, s in procs:
                if not s.get("gate") or "release_on" in s["gate"]:
                    try:
                        pr.wait(timeout=60)
                    except subprocess.TimeoutExpired:
                        pr.kill()
            for pr, s in gated:
                open(s["gate"]["release"], "w").write("x")
        results = []
        for (pr, s), out in zip(procs, outs):
            try:
                pr.wait(timeout=90)
            except subprocess.TimeoutExpired:
                pr.kill()
            if os.path.exists(out):
                r = json.loads(open(out).read())
            else:
                r = {"outs": [], "error": ["no-result", (pr.stderr.read() or "")[-200:], ""], "lines": 0}
            r["want"] = [ref_out[t] for t in s["pages"]]
            results.append(r)
        try:
            after = [r for r in _c20_pages_table(p) if r[0] != "Module:_sandbox_phase1"]
        except Exception as e:  # noqa
            after = ["unreadable: %s" % type(e).__name__]
        return {"outcome": "ok", "results": results, "before": before, "after": after, "files": sorted(os.listdir(d))}
    finally:
        shutil.rmtree(d, ignore_errors=True)


# ---------------------------------------------------------------- C07
def impl_c07(case, scratch):
    """case: body (Lua source of function main), timeout, followups: list of wikitext"""
    import time
    ctx = new_ctx(scratch)
    try:
        ctx.add_page("Module:ustring:ustring", 828, USTRING_STUB, model="Scribunto")
        ctx.add_page("Module:echo", 828, ECHO_MODULE, model="Scribunto")
        ctx.add_page("Module:hang", 828, case.get("module_src") or
                     ("local e = {}\nfunction e.main(frame)\n" + case["body"] + "\nend\nreturn e"), model="Scribunto")
        for nm, src in (case.get("extra") or {}).items():
            ctx.add_page("Module:" + nm, 828, src, model="Scribunto")
        ctx.add_page("Template:a", 10, "A[{{{1|}}}]")
        ctx.add_page("Module:syn", 828, "local e = {}\nfunction e.main(frame) return 'x' .. end\nreturn e", model="Scribunto")
        ctx.add_page("Module:work", 828, "local e = {}\nfunction e.main(frame) local s = 0 for i = 1, 400000 do s = s + i % 7 end return 'work' .. s end\nreturn e", model="Scribunto")
        ctx.db_conn.commit()
        ctx.start_page("Tt")
        warm = ctx.expand("{{#invoke:echo|main|w}}")            # Lua start-up is not part of the measured time
        t0 = time.time()
        out = ctx.expand(case.get("first", "{{#invoke:hang|main}}"), timeout=case["timeout"])
        dt = time.time() - t0
        if case.get("wait"):
            time.sleep(case["wait"])
        follow = []
        for t in case.get("followups", []):
            ctx.start_page("Tt")
            follow.append(ctx.expand(t, timeout=case["timeout"]))
        return {"outcome": "ok", "out": out[:200], "dt": round(dt, 2), "follow": follow, "stack": list(ctx.expand_stack),
                "env": len(ctx.lua_env_stack), "warm": warm}
    finally:
        close_ctx(ctx)


# ---------------------------------------------------------------- C06
def impl_c06_probes(case, scratch):
    import c06_probes
    ctx = new_ctx(scratch)
    try:
        ctx.add_page("Module:ustring:ustring", 828, USTRING_STUB, model="Scribunto")
        ctx.add_page("Module:echo", 828, ECHO_MODULE, model="Scribunto")
        names = case.get("names") or sorted(c06_probes.PROBES, reverse=bool(case.get("reverse")))
        for n in names:
            ctx.add_page("Module:probe " + n, 828,
                         c06_probes.HELP + "local e = {}\nfunction e.main(frame)\n" + c06_probes.PROBES[n] + "\nend\nreturn e", model="Scribunto")
        ctx.db_conn.commit()
        secret = os.path.join(scratch, "secret_%d.txt" % os.getpid())
        open(secret, "w").write("TOPSECRET")
        target = os.path.join(scratch, "written_%d.txt" % os.getpid())
        touched = os.path.join(scratch, "touched_%d" % os.getpid())
        outs = {}
        secret_lua = os.path.join(scratch, "secretmod_%d" % os.getpid())
        open(secret_lua + ".lua", "w").write("return {leak = 'TOPSECRETLUA'}")
        for n in names:
            arg = {"confirm-file-read": secret, "confirm-file-write": target, "confirm-command": touched,
                   "confirm-require-abs-lua": secret_lua, "confirm-require-rel-lua": secret_lua}.get(n, "x")
            ctx.start_page("Tt")
            try:
                outs[n] = ctx.expand("{{#invoke:probe %s|main|%s}}" % (n, arg), timeout=5)[:200]
            except BaseException as e:  # noqa
                outs[n] = "RAISED:" + type(e).__name__
                ctx.expand_stack = ["Tt"]
        effects = {"file-written": os.path.exists(target), "command-ran": os.path.exists(touched),
                   "db-injected": ctx.get_page("Injected page", 0) is not None if True else False}
        ctx.get_page.cache_clear()
        effects["db-injected"] = any(p.title == "Injected page" for p in ctx.get_all_pages([0]))
        return {"outcome": "ok", "outs": outs, "effects": effects}
    finally:
        close_ctx(ctx)


# ---------------------------------------------------------------- C06 graph
LUA_WALKER = r"""
function(roots, py_probe)
  -- host-side: full debug library, real _G
  local ids, n = {}, 0
  local nodes, edges = {}, {}
  local G = _G
  local known = {}
  local function note(obj, name) if (type(obj) == 'table' or type(obj) == 'function' or type(obj) == 'userdata') and known[obj] == nil then known[obj] = name end end
  note(G, '_G')
  for k, v in pairs(G) do
    if type(k) == 'string' then
      note(v, k)
      if type(v) == 'table' and v ~= G then for k2, v2 in pairs(v) do if type(k2) == 'string' then note(v2, k .. '.' .. k2) end end end
    end
  end
  for k, v in pairs(package.loaded) do if type(k) == 'string' then note(v, 'package.loaded.' .. k)
    if type(v) == 'table' and v ~= G then for k2, v2 in pairs(v) do if type(k2) == 'string' then note(v2, k .. '.' .. k2) end end end end end
  local queue = {}
  local function id_of(obj)
    local t = type(obj)
    if t ~= 'table' and t ~= 'function' and t ~= 'userdata' and t ~= 'thread' then return nil end
    if ids[obj] == nil then
      n = n + 1
      ids[obj] = n
      local what = t
      if t == 'function' then local info = debug.getinfo(obj, 'S') what = (info.what == 'C') and 'cfunction' or 'lfunction' end
      nodes[n] = {n, what, known[obj] or ''}
      queue[#queue + 1] = obj
    end
    return ids[obj]
  end
  local function edge(src, kind, key, dst) local d = id_of(dst) if d then edges[#edges + 1] = {ids[src], kind, tostring(key), d} end end
  for i, r in ipairs(roots) do id_of(r) end
  local qi = 1
  while qi <= #queue do
    local obj = queue[qi]; qi = qi + 1
    local t = type(obj)
    if t == 'table' then
      for k, v in next, obj do edge(obj, 'field', k, v) edge(obj, 'field', 'key:' .. tostring(k), k) end
      local mt = debug.getmetatable(obj)
      if mt ~= nil then
        -- what getmetatable() in the sandbox returns
        if rawget(mt, '__metatable') ~= nil then edge(obj, 'metatable', '__metatable', rawget(mt, '__metatable')) else edge(obj, 'metatable', '', mt) end
      end
    elseif t == 'function' then
      local i = 1
      while true do local name, v = debug.getupvalue(obj, i) if name == nil then break end edge(obj, 'upvalue', name, v) i = i + 1 end
      local ok, env = pcall(debug.getfenv, obj)
      if ok and env ~= nil then edge(obj, 'fenv', '', env) end
    elseif t == 'userdata' then
      local mt = debug.getmetatable(obj)
      local names = py_probe(obj)
      if names ~= nil then
        for _, name in python.iter(names) do
          local ok, v = pcall(function(o, k) return o[k] end, obj, name)
          if ok then edge(obj, 'pyattr', name, v) end
        end
      end
    end
  end
  -- the string metatable is reachable from any string value
  local smt = debug.getmetatable('')
  return nodes, edges, (smt and id_of(smt)) or 0, ids
end
"""


def impl_c06_graph(case, scratch):
    from collections import deque
    ctx = new_ctx(scratch)
    try:
        ctx.add_page("Module:ustring:ustring", 828, USTRING_STUB, model="Scribunto")
        ctx.add_page("Module:echo", 828, ECHO_MODULE, model="Scribunto")
        ctx.add_page("Template:w1", 10, "{{#invoke:echo|parent}}")
        ctx.db_conn.commit()
        seen_env, seen_frame = [], []

        class Rec(deque):
            def __init__(self, sink):
                super().__init__()
                self.sink = sink

            def append(self, x):
                self.sink.append(x)
                super().append(x)
        ctx.lua_env_stack = Rec(seen_env)
        ctx.lua_frame_stack = Rec(seen_frame)
        ctx.start_page("Tt")
        out = ctx.expand("{{w1|a|k=v}}")
        if not seen_env or not seen_frame:
            return {"outcome": "ok", "error": "could not capture the module environment/frame: %r" % out}
        lua = ctx.lua
        walker = lua.eval(LUA_WALKER)
        pyobjs = {}

        def py_probe(obj):
            # candidate attribute names of a Python object as lupa would expose them (the real attribute_filter decides later)
            names = [a for a in dir(obj) if not a.startswith("_")]
            if isinstance(obj, (tuple, list)):
                names += list(range(len(obj)))
            return names
        nodes, edges, smt, ids = walker(lua.table_from([seen_env[-1], seen_frame[-1]]), py_probe)
        N = [[int(v[1]), str(v[2]), str(v[3])] for v in nodes.values()]
        E = [[int(v[1]), str(v[2]), str(v[3]), int(v[4])] for v in edges.values()]
        # Python objects: describe them from the Python side
        import lupa
        py_desc = {}
        for obj, i in ids.items():
            if type(obj).__module__.startswith("lupa") or isinstance(obj, (str, int, float, bool)):
                continue
            py_desc[int(i)] = [type(obj).__module__ + "." + type(obj).__name__, bool(callable(obj)),
                               isinstance(obj, (tuple, frozenset, bytes, str, int, float, bool, type(None))),
                               getattr(obj, "__name__", "") or repr(obj)[:60]]
        # call-result edges of the sandbox's require machinery, obtained by really calling the exposed functions
        env = seen_env[-1]
        call_edges = []
        host_loaded = list(lua.eval("(function() local t = {} for k, v in pairs(package.loaded) do if type(k) == 'string' then t[#t + 1] = k end end return t end)()").values())
        names = sorted(set(host_loaded) | {"io", "os", "package", "debug", "python", "_G", "coroutine", "string", "table", "math", "mw"})
        caller = lua.eval("""function(env, ids, fname, nm, known_names)
            local fn = env[fname]
            if fn == nil then return nil end
            local ok, r = pcall(fn, nm)
            if not ok or r == nil then return nil end
            local t = type(r)
            if t ~= 'table' and t ~= 'function' and t ~= 'userdata' then return nil end
            local host = ''
            for k, v in pairs(package.loaded) do if v == r then host = 'package.loaded.' .. tostring(k) end end
            if r == _G then host = '_G' end
            return ids[fn] or 0, ids[r] or -1, host
        end""")
        # every name also in the spellings a loader might normalise (blanks, case, namespace prefix, path forms)
        spellings = []
        for nm in names:
            for v in (nm, " " + nm, nm + " ", "\t" + nm, nm + "\n", " " + nm + " ", nm.upper(), nm.capitalize(), "Module:" + nm,
                      "module:" + nm, nm + ".lua", "./" + nm, nm + "/", nm.replace("_", " "), nm + "\0", "\0" + nm):
                if v not in spellings:
                    spellings.append(v)
        for fname in ("require", "_cached_mod"):
            for nm in spellings:
                res = caller(env, ids, fname, nm, None)
                if res is not None and res[0] is not None:
                    call_edges.append([int(res[0]), fname + "(" + nm + ")", int(res[1]), str(res[2])])
        return {"outcome": "ok", "nodes": N, "edges": E, "string_mt": int(smt), "py": py_desc, "roots": [1, 2],
                "call_edges": call_edges}
    finally:
        close_ctx(ctx)


# ---------------------------------------------------------------- C01: primitive stack operations of every parse_encoded() call
def impl_parse_trace(case, scratch):
    """case: texts -> for each text the recordings (operations + returned tree) of all parse_encoded() calls made by parse()"""
    import stacktrace
    from wikitextprocessor import parser as P
    ctx = parse_ctx(scratch)
    outs = []
    for t in case["texts"]:
        ctx.start_page(case.get("title", "Tt"))
        tr = stacktrace.Tracer(ctx, P)
        try:
            tr.run(lambda: ctx.parse(t))
        except BaseException as e:  # noqa
            outs.append({"raised": type(e).__name__})
            ctx.parser_stack = []
            continue
        recs = []
        for rec in tr.finished:
            chars = set()
            for op in rec.ops:
                if op[0] in ("text", "trail"):
                    chars.update(ch for ch in op[1] if ord(ch) >= 0x10203D)
            table = {ch: ctx._finalize_expand(ch) for ch in chars}
            recs.append({"ops": rec.ops, "unknown": rec.unknown, "table": table,
                         "tree": None if rec.result is None else stacktrace.model_tree(rec.result)})
        outs.append({"recs": recs, "title": ctx.title})
    return {"outcome": "ok", "outs": outs}
