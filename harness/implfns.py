"""impl_<kind>(case, scratch) functions: drive the real wikitextprocessor."""
import os
import itertools
from pathlib import Path

from wikitextprocessor import Wtp, Page  # noqa

_counter = itertools.count()


def new_ctx(scratch, **kw):
    p = Path(scratch) / f"db{next(_counter)}_{os.getpid()}.db"
    kw.setdefault("quiet", True)
    kw.setdefault("quiet_output", True)
    return Wtp(db_path=p, **kw)


def close_ctx(ctx):
    try:
        ctx.db_conn.close()
    except Exception:
        pass
    for suf in ("", "-wal", "-shm"):
        try:
            os.unlink(str(ctx.db_path) + suf)
        except OSError:
            pass


# ---------------------------------------------------------------- C17
def impl_c17(case, scratch):
    """case: names[i], flagged[i], uses[i] (indices), redirect[i] (index or None)"""
    names = case["names"]
    ctx = new_ctx(scratch)
    try:
        for i, nm in enumerate(names):
            red = case["redirect"][i]
            if red is not None:
                ctx.add_page("Template:" + nm, 10, body=None,
                             redirect_to="Template:" + names[red])
            else:
                ctx.add_page("Template:" + nm, 10, body="body of " + nm)
        ctx.db_conn.commit()
        title_to_i = {"Template:" + nm: i for i, nm in enumerate(names)}
        calls = []

        def classify(c, page):
            i = title_to_i[page.title]
            calls.append(i)
            return set(names[j] for j in case["uses"][i]), bool(case["flagged"][i])

        ctx.analyze_templates(classify)
        marked = sorted(title_to_i[p.title] for p in ctx.get_all_pages([10])
                        if p.need_pre_expand)
        return {"outcome": "ok", "marked": marked, "classified": sorted(calls)}
    finally:
        close_ctx(ctx)
