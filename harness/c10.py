"""C10 — the page store returns the latest version under every spelling."""
import json
import itertools
import lib
from lib import cstr, cZ, cbool, clist, copt

NS = json.loads((lib.REPO / "src/wikitextprocessor/data/en/namespaces.json").read_text())
NS_BY_ID = {v["id"]: (k, v) for k, v in NS.items()}
USED_NS = [0, 10, 828, 100, 4]
BASES = ["Foo", "foo", "Foo bar", "Bar/x", "Xü y", "q", "R:Webster", "a:b c"]
# both case variants of titles whose first letter is outside ASCII - among them letters whose upper-case form has the
# GREATER code point (ÿ/Ÿ, ɐ/Ɐ, ƿ/Ƿ, µ/Μ), the smaller one (é/É, я/Я) and a title-case digraph; the model's case mapping is
# ASCII only, so these sequences are decided by the oracle alone
BASES_NA = ["\u00ffx", "\u0178x", "\u0250 b", "\u2c6f b", "\u01bfa", "\u01f7a", "\u00b5m", "\u039cm", "\u00e9t", "\u00c9t",
            "\u044fz", "\u042fz", "\u01c6a", "\u01c4a", "Foo", "foo"]


def ns_table_coq():
    rows = []
    for k, v in NS.items():
        pref = [v["name"].lower() + ":"] + [a.lower() + ":" for a in v["aliases"]]
        if k != v["name"]:
            pref.append(k.lower() + ":")
        rows.append("(%s, mkns %s %s)" % (cZ(v["id"]), cstr(v["name"]), clist(pref, cstr, "str")))
    return "Definition nstbl : nstable := [\n" + ";\n".join(rows) + "].\n"


def prefixes(ns):
    k, v = NS_BY_ID[ns]
    out = [v["name"]] + v["aliases"]
    if k != v["name"]:
        out.append(k)
    return out


def spell(rng, base, ns, variant):
    """A spelling of page (base, ns).  Returns (title, ns_arg)."""
    name = NS_BY_ID[ns][1]["name"]
    if ns == 0 and variant != "lcfirst":
        t = base if variant != "main" else "Main:" + base
    elif variant == "plain":
        t = base
    elif variant == "prefixed":
        t = name + ":" + base
    elif variant == "lowerprefix":
        t = name.lower() + ":" + base
    elif variant == "alias":
        p = rng.choice(prefixes(ns))
        p = rng.choice([p, p.lower(), p.upper()])
        t = p + ":" + base
    elif variant == "lcfirst":
        t = base[:1].lower() + base[1:]
    else:
        t = base
    if variant == "underscore" or rng.random() < 0.2:
        t = t.replace(" ", "_")
    return t


VARIANTS = ["plain", "prefixed", "lowerprefix", "alias", "underscore", "lcfirst", "main"]


class Oracle:
    """Independent expectation, by construction of the case (identity of the page
    each spelling denotes is known to the generator)."""

    def __init__(self):
        self.rows = {}

    def canon(self, base, ns):
        return base if ns == 0 else NS_BY_ID[ns][1]["name"] + ":" + base

    def add(self, base, ns, body, red, model):
        self.rows[(base, ns)] = [self.canon(base, ns), ns, red, body, model]

    def get(self, base, ns, variant, no_redirect=False):
        sp = base[:1].lower() + base[1:] if variant == "lcfirst" else base
        cands = [(sp, ns)]
        up = sp[:1].upper() + sp[1:]
        if ns != 0 and up != sp:
            cands.append((up, ns))
        for c in cands:
            r = self.rows.get(c)
            if r is not None and not (no_redirect and r[2] is not None):
                return r
        return None


def gen_case(rng, length, BASES=BASES, NSS=None, weights=None):
    ops, expect, meta = [], [], []
    orc = Oracle()
    nbody = itertools.count()
    for _ in range(length):
        base = rng.choice(BASES)
        ns = rng.choice(NSS or USED_NS)
        variant = rng.choice(VARIANTS)
        if variant == "main" and ns != 0:
            variant = "plain"
        k = rng.choices(["add", "radd", "get", "exists", "body", "resolve", "commit", "reopen", "visit"],
                        weights or [5, 1.5, 5, 2, 2, 2, 0.5, 0.7, 0.4])[0]
        if k == "add":
            v = rng.choice(["plain", "prefixed"]) if ns != 0 else rng.choice(["plain", "main"])
            title = spell(rng, base, ns, v).replace("_", " ")
            body = "v%d of %s" % (next(nbody), base)
            model = rng.choice(["wikitext", "wikitext", "Scribunto"])
            ops.append(["add", title, ns, body, None, model])
            orc.add(base, ns, body, None, model)
            expect.append(None)
        elif k == "radd":
            tgt = rng.choice(BASES)
            title = spell(rng, base, ns, "plain").replace("_", " ")
            red = orc.canon(tgt, ns)
            ops.append(["add", title, ns, None, red, "wikitext"])
            orc.add(base, ns, None, red, "wikitext")
            expect.append(None)
        elif k in ("get", "exists", "body", "resolve"):
            title = spell(rng, base, ns, variant)
            ns_arg = ns
            nr = k == "get" and rng.random() < 0.2
            r = orc.get(base, ns, variant, nr)
            if k == "get":
                ops.append(["get", title, ns_arg, nr])
                expect.append(r)
            elif k == "exists":
                ops.append(["exists", title, ns_arg])
                expect.append(r is not None)
            else:
                if r is not None and r[2] is not None:
                    # one hop: the target is stored canonically; look it up by identity
                    tb = r[2] if ns == 0 else r[2].split(":", 1)[1]
                    r = orc.get(tb, ns, "plain", True)
                if k == "body":
                    ops.append(["body", title, ns_arg])
                    expect.append(None if r is None else r[3])
                else:
                    ops.append(["resolve", title, ns_arg])
                    expect.append(r)
        else:
            ops.append([k])
            expect.append(None)
        meta.append([k, base, ns, variant])
    return {"ops": ops, "expect": expect, "meta": meta}


def coq_op(op):
    k = op[0]
    os_ = lambda s: copt(s, cstr, "str")
    if k == "add":
        return "SAdd %s %s %s %s %s" % (cstr(op[1]), cZ(op[2]), os_(op[3]), os_(op[4]), cstr(op[5]))
    if k == "get":
        return "SGet %s (Some %s) %s" % (cstr(op[1]), cZ(op[2]), cbool(op[3]))
    if k == "exists":
        return "SExists %s (Some %s)" % (cstr(op[1]), cZ(op[2]))
    if k == "body":
        return "SBody %s (Some %s)" % (cstr(op[1]), cZ(op[2]))
    if k == "resolve":
        return "SResolve %s (Some %s)" % (cstr(op[1]), cZ(op[2]))
    # "visit": commit, then another context opens the file, reads and is closed with close_db_conn(): nothing changes
    return "SCommit" if k in ("commit", "visit") else "SReopen"


def coq_out(op, out):
    k = op[0]
    os_ = lambda s: copt(s, cstr, "str")
    if k in ("get", "resolve"):
        if out is None:
            return "ORow None"
        return "ORow (Some (%s, %s, %s, %s, %s))" % (cstr(out[0]), cZ(out[1]), os_(out[2]), os_(out[3]), cstr(out[4]))
    if k == "exists":
        return "OBool " + cbool(out)
    if k == "body":
        return "OStr " + os_(out)
    return "OUnit"


def classify(case, i, got, want):
    k, base, ns, variant = case["meta"][i]
    prior = [m[0] for m in case["meta"][:i]]
    if got is not None and got is not False and want != got:
        return "stale-or-wrong-row:%s:%s" % (k, variant)
    return "missing:%s:%s" % (k, variant)


def run(run):
    run.rule = ("operation sequences over {add, overwrite, redirect-add, get (with/without no_redirect), exists, body, "
                "resolve, commit, reopen} on 6 base titles x 5 namespaces x 7 spelling variants; length 1-40 random, "
                "plus short sequences (length<=4) sampled densely; plus sequences over 16 titles whose first letter is outside ASCII in both "
                "cases (decided by the oracle only); non-trivial = contains an add followed by a lookup "
                "of the same base title; distinct by JSON hash")
    run.trusted = [
        "Coq 8.16.1 kernel; vm_compute to evaluate Model.Store on the operation sequences",
        "axioms: none",
        "model coq/Model/Store.v tied to core.py add_page/get_page/page_exists/get_page_resolve_redirect/get_page_body "
        "by comparing every operation's result; namespace table regenerated from data/en/namespaces.json each run",
        "SQLite (upsert, UNION ALL .. LIMIT 1 evaluation order, commit visibility) exercised, not modelled",
        "ASCII case mapping only (str.upper/lower on other scripts not modelled)",
    ]
    run.assumptions = ["titles are stored canonically (spaces, not underscores), as dumps provide them"]
    run.prove()
    n = 2500 if run.tier == "quick" else 20000
    cases = []
    for i in range(n):
        ln = run.rng.randint(1, 4) if i % 3 == 0 else run.rng.randint(5, 40)
        cases.append(gen_case(run.rng, ln))
    # dense small worlds: two case variants of one title and one other page in one or two namespaces, many redirects and
    # redirect-resolving reads (a redirect next to a real page that differs only in the case of the first letter, ...)
    for i in range(max(200, n // 4)):
        cases.append(gen_case(run.rng, run.rng.randint(4, 16), ["Foo", "foo", "Bar/x"], run.rng.choice([[10], [10, 828], [100], [0, 10]]),
                              [4, 4, 3, 1, 4, 4, 0.3, 0.4, 0.2]))
    nmodel = len(cases)
    for i in range(max(150, n // 5)):
        cases.append(gen_case(run.rng, run.rng.randint(2, 25), BASES_NA))
    res = lib.run_impl("c10", [{"ops": c["ops"]} for c in cases])
    coq_cases, idx = [], []
    for i, (c, r) in enumerate(zip(cases, res)):
        kinds = [m[0] for m in c["meta"]]
        nontriv = any(m[0] in ("add", "radd") and any(
            m2[0] in ("get", "exists", "body", "resolve") and m2[1] == m[1] for m2 in c["meta"][j + 1:])
            for j, m in enumerate(c["meta"]))
        run.count(c["ops"], nontriv, "len<=4" if len(kinds) <= 4 else "len>4")
        for kk in kinds:
            run.histogram["op:" + kk] = run.histogram.get("op:" + kk, 0) + 1
        if r.get("outcome") != "ok":
            run.property_failure("store:%s:%s:%s" % (r.get("outcome"), r.get("exc", ""), r.get("where", "")),
                                 "store operation did not return normally: %r" % (r,), c["ops"])
            continue
        for j, (got, want) in enumerate(zip(r["outs"], c["expect"])):
            if got != want:
                run.property_failure(classify(c, j, got, want),
                                     "op %d %r returned %r, latest version is %r" % (j, c["ops"][j], got, want),
                                     {"ops": c["ops"][:j + 1]})
                break
        if i >= nmodel:
            continue          # first letters outside ASCII: outside the model's case mapping
        coq_cases.append("(%s, %s)" % (clist(c["ops"], coq_op, "sop"),
                                       clist(zip(c["ops"], r["outs"]), lambda p: coq_out(*p), "sout")))
        idx.append(i)
    bad, errs = lib.coq_eval_failing(
        "c10", ["Base.Str", "Model.Store"], "list sop * list sout", coq_cases,
        "fun '(ops, outs) => souts_eqb (run_ops nstbl 10%Z (fun b => b) [] ops) outs",
        extra_defs="Open Scope N_scope.\n" + ns_table_coq(), chunk=150)
    for e in errs:
        run.correspondence_break("model evaluation failed", None, error=e)
    for b in bad:
        run.correspondence_break("Model.Store.run_ops disagrees with the page store", cases[idx[b]]["ops"],
                                 impl=res[idx[b]])
    run.extra["traces_validated_against_impl"] = len(coq_cases)


def replay(data):
    case = data.get("case") or data["breaks"][0]["case"]
    ops = case["ops"] if isinstance(case, dict) else case
    print(lib.run_impl("c10", [{"ops": ops}])[0])
    return 0
