"""C14 — all three views of a template call's arguments agree."""
import itertools
import lib
from lib import cstr, cN, clist

NAMES = ["a", "b c", "N", "é", "1", "2", "3", "07", "x-y", "\u00b2", "\u2460"]
VALUES = ["x", "y z", "v=w", "Zz", "0", "ü"]
LEAD = ["", " ", "\n", " \n ", "\t"]
TRAIL_POS = ["", " ", "  "]          # positional: no trailing newline (quantifier: leading/inner newlines)
TRAIL_NAMED = ["", " ", "\n", " \n"]
INNER = ["", "\n", " "]


def key_of(name):
    return int(name) if name.isascii() and name.isdigit() and int(name) > 0 else name


def gen_args(rng, n, distinct=True):
    args, expect = [], []
    used = set()
    pos = 0
    for _ in range(n):
        if rng.random() < 0.5:
            v = rng.choice(LEAD) + rng.choice([x for x in VALUES if "=" not in x]) + rng.choice(INNER) + \
                rng.choice(["", "w"]) + rng.choice(TRAIL_POS)
            if v.endswith("\n"):
                v += "w"
            if distinct and (pos + 1) in used:
                continue
            pos += 1
            used.add(pos)
            args.append(v)
            expect.append([pos, v])
        else:
            nm = rng.choice(NAMES)
            k = key_of(nm)
            if distinct and (k in used or (isinstance(k, int) and k > pos and rng.random() < 0.0)):
                continue
            val = rng.choice(VALUES) + rng.choice(INNER) + rng.choice(["", "w"])
            a = rng.choice(LEAD) + nm + rng.choice(LEAD) + "=" + rng.choice(LEAD) + val + rng.choice(TRAIL_NAMED)
            used.add(k)
            args.append(a)
            expect.append([k, val.strip()])
    # positional numbering must not collide with a later numeric name either
    keys = [e[0] for e in expect]
    if distinct and len(set(map(str, keys))) != len(keys):
        return None
    return {"args": args, "expect": expect}


def exhaustive(maxlen):
    atoms = ["x", " y", "\nz", "a=1", " b c = 2 ", "1=p", "2= q", "3=r\n", "N=\nv", "07=s", "w w", "é=ü", "t=u=v"]
    for n in range(1, maxlen + 1):
        for combo in itertools.product(atoms, repeat=n):
            exp, pos, ok = [], 0, True
            for a in combo:
                if "=" in a:
                    nm, val = a.split("=", 1)
                    exp.append([key_of(nm.strip()), val.strip()])
                else:
                    pos += 1
                    exp.append([pos, a])
            ks = [str(e[0]) for e in exp]
            if len(set(ks)) == len(ks):
                yield {"args": list(combo), "expect": exp}


def tok_text(s):
    """token_iter drops every line of an argument that consists only of spaces/tabs."""
    import re
    return "".join(l for l in re.split(r"(\n+)", s) if l.strip(" \t"))


def norm(view):
    if view is None:
        return None
    return sorted(([k, v] for k, v in view), key=lambda kv: (isinstance(kv[0], str), kv[0]))


def coq_view(view):
    def kv(p):
        k, v = p
        kk = "KInt %s" % cN(k) if isinstance(k, int) else "KStr %s" % cstr(k)
        return "(%s, %s)" % (kk, cstr(v))
    return clist(view, kv, "key * str")


PRED = """fun '(args, pv, ev, lv) =>
  view_same (view_parser args 0) pv && view_same (view_expander args 1) ev && view_same (view_lua args 1) lv"""
DEFS = """Open Scope N_scope.
Definition opt_eqb (x y : option str) : bool :=
  match x, y with Some a, Some b => str_eqb a b | None, None => true | _, _ => false end.
(* equality of the two association lists as dicts (the last binding of a key wins) *)
Definition view_sub (a b : list (key * str)) : bool :=
  forallb (fun kv => opt_eqb (assoc_last (fst kv) a None) (assoc_last (fst kv) b None)) a.
Definition view_same (a b : list (key * str)) : bool := view_sub a b && view_sub b a.
"""


def run(run):
    run.rule = ("argument lists mixing positional, named and numeric-named plain-text arguments with surrounding blanks and "
                "leading/inner newlines, distinct keys, non-blank values; exhaustive to length 2 (quick) / 3 (thorough) over a "
                "13-atom alphabet plus random to length 6; non-trivial = at least 2 arguments with at least one named; "
                "distinct by JSON hash")
    run.trusted = [
        "Coq 8.16.1 kernel; vm_compute to evaluate Model.ArgViews on the argument lists",
        "axioms: none",
        "model coq/Model/ArgViews.v tied to parser.py:template_parameters, core.py:expand (ht map seen by template_fn) and "
        "luaexec.py:make_frame + _sandbox_phase2.lua:frame_args_index by comparing all three real views with the model",
        "regex engine (named-argument regexes), lupa bridge and the Lua VM exercised, not modelled; mw.ustring stubbed",
    ]
    run.assumptions = ["arguments are plain text (no markup), so expansion of a value is the identity",
                       "ASCII blanks (space, tab, newline): Python and Lua whitespace classes agree there"]
    run.prove()
    cases = list(exhaustive(2 if run.tier == "quick" else 3))
    nrand = 2000 if run.tier == "quick" else 12000
    while nrand > 0:
        c = gen_args(run.rng, run.rng.randint(1, 6))
        if c is not None and c["args"]:
            cases.append(c)
            nrand -= 1
    for k, c in enumerate(cases):
        c["in_body"] = k % 3 == 0
    res = lib.run_impl("c14", [{"args": c["args"], "in_body": c["in_body"]} for c in cases], shards=lib.NCPU)
    coq_cases, idx = [], []
    for i, (c, r) in enumerate(zip(cases, res)):
        named = sum(1 for a in c["args"] if "=" in a)
        run.count(c["args"], len(c["args"]) >= 2 and named >= 1, "len=%d" % len(c["args"]))
        if r.get("outcome") != "ok":
            run.property_failure("views:%s:%s" % (r.get("outcome"), r.get("exc", "")),
                                 "a view raised: %r" % (r,), c["args"])
            continue
        want = norm(c["expect"])
        want_tok = norm([[k, (v if "=" in a else tok_text(v))] for (k, v), a in zip(c["expect"], c["args"])])
        for which in ("parser", "expander", "lua"):
            got = norm(r[which])
            if which == "parser" and want_tok != want:
                run.property_failure("view-differs:parser:blank-only-line-of-positional",
                                     "parser view drops a blanks-only line segment of a positional value", c["args"])
                if got == want_tok:
                    continue
            if got != want:
                numeric_before_pos = any(isinstance(k, int) and "=" in a for (k, _), a in zip(c["expect"], c["args"]))
                run.property_failure("view-differs:%s:%s" % (which, "numeric-named" if numeric_before_pos else "plain"),
                                     "%s view %r differs from the call's arguments %r" % (which, got, want), c["args"])
        if c.get("in_body"):
            # the views of the same call written in the body of another template
            for which in ("body_expander", "body_lua"):
                got = norm(r.get(which))
                if got != want:
                    run.property_failure("view-differs:%s" % which.replace("_", "-"),
                                         "%s view %r of the call inside a template body differs from the call's arguments %r"
                                         % (which, got, want), c["args"])
        if r["stack"] != ["Tt"]:
            run.correspondence_break("expand_stack not restored", c["args"], stack=r["stack"])
        if None in (r["parser"], r["expander"], r["lua"]):
            continue
        coq_cases.append("(%s, %s, %s, %s)" % (clist(c["args"], cstr, "str"), coq_view(r["parser"]),
                                               coq_view(r["expander"]), coq_view(r["lua"])))
        idx.append(i)
    bad, errs = lib.coq_eval_failing(
        "c14", ["Base.Str", "Model.ArgViews"],
        "list str * list (key*str) * list (key*str) * list (key*str)", coq_cases, PRED, extra_defs=DEFS)
    for e in errs:
        run.correspondence_break("model evaluation failed", None, error=e)
    for b in bad:
        run.correspondence_break("Model.ArgViews disagrees with the implementation's views",
                                 cases[idx[b]]["args"], impl=res[idx[b]])
    run.extra["traces_validated_against_impl"] = len(coq_cases)


def replay(data):
    case = data.get("case") or data["breaks"][0]["case"]
    print(lib.run_impl("c14", [{"args": case}])[0])
    return 0
