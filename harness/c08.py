"""C08 — the Lua frame API is equivalent to the corresponding wikitext."""
import lib
from lib import cstr, cN, clist
import c14

VALS = ["x", " y ", "a b", "{{a|q}}", " {{a|r}} ", "{{sp}}", "p{{sp}}q", "{{#if:1|t|f}}", "[[l|t]]", "\nz", "{{star}}", "0", "é", "a<nowiki/>b", "<nowiki>''x''</nowiki>", "<nowiki/>"]
NAMES = ["k", "K two", "z", "1", "2", "3", "x"]
FRAGS = ["text", "{{a|x}}", "{{a|{{a|y}}}}", "{{{1}}}", "{{{1|d}}}", "{{nosuch|q}}", "{{#if:x|y|z}}", "{{#switch:b|a=1|b=2}}",
         "<nowiki>{{a}}</nowiki>", "[[link|{{a|z}}]]", "{{b|p|x=q}}", "{{lc:ABC}}", "{{PAGENAME}}", "a {{sp}} b", "{{star}}",
         "{{s|1|2|k=3}}", "{{#expr:1+2}}", "{{s| m |k= n }}", "''i'' {{a|'''b'''}}", "{{a|x=y}}",
         # parser functions with calls in their branches (c08_preprocess_of_if_ifeq_switch_is_expansion_on_the_page)
         "{{#if:x| {{a|p}} |{{b|q}}}}", "{{#if: |{{a|p}}|{{b|q}} {{a|r}}}}", "{{#ifeq:1|01|{{a|y}}|n}}", "{{#switch:b|a={{a|1}}|b= {{a|2}} }}"]
PFS = [("#if", [["x", "t", "f"], ["", "t", "f"], [" ", "a"]]), ("lc", [["ABC"], [" Ab "]]), ("uc", [["abc"]]),
       ("#expr", [["1+2"], ["2*(3+4)"]]), ("padleft", [["x", "5"], ["x", "6", "ab"]]), ("#len", [["hello"]]),
       ("#switch", [["b", "a=1", "b=2"], ["q", "a=1", "#default=d"]]), ("ucfirst", [["abc"]]), ("#ifeq", [["a", "a", "y", "n"]]),
       ("urlencode", [["a b"]]), ("#titleparts", [["a/b/c", "2"]]), ("plural", [["1", "one", "many"], ["3", "one", "many"]])]


def gen_args(rng):
    args = []
    for _ in range(rng.randint(0, 4)):
        if rng.random() < 0.55:
            args.append(rng.choice(VALS))
        else:
            args.append(rng.choice(["", " "]) + rng.choice(NAMES) + rng.choice(["", " "]) + "=" + rng.choice(VALS))
    return args


def expected_args(args, each):
    """From the property text: positional numbered from 1 and untrimmed, named trimmed; later duplicates win."""
    out = {}
    num = 1
    for a, e in zip(args, each):
        if "=" in a.split("{{")[0].split("[[")[0]:
            name = a.split("=", 1)[0].strip()
            k = int(name) if name.isdigit() and int(name) > 0 else name
            # the value is what follows the first '=' of the expanded argument
            out[k] = e.split("=", 1)[1].strip()
        else:
            out[num] = e
            num += 1
    return out


def norm(view):
    return sorted(([k, v] for k, v in view), key=lambda kv: (isinstance(kv[0], str), kv[0])) if view is not None else None


def run(run):
    run.rule = ("(a) #invoke argument vectors (positional/named/numeric names, blanks, nested calls, parser functions, links as "
                "values) read through frame.args; (b) the same through wrapper templates of depth 1-2 read through "
                "frame:getParent(); (c) 20 fragments through frame:preprocess vs direct expansion on 3 page titles; (d) "
                "frame:expandTemplate with positional/named tables vs the equivalent call; (e) frame:callParserFunction for 12 "
                "functions vs {{name:args}}; non-trivial = contains a nested call or a named argument; distinct by JSON hash")
    run.trusted = [
        "Coq 8.16.1 kernel; vm_compute to evaluate Model.ArgViews.view_lua on the expanded argument texts",
        "axioms: none",
        "metamorphic oracle: the wikitext side of every equation is computed by the same real expander on the same context",
        "lupa bridge, Lua VM and the sandbox files are exercised, not modelled; mw.ustring is a stub",
    ]
    run.prove()
    rng = run.rng
    n = 400 if run.tier == "quick" else 5000
    cases = []
    for _ in range(n):
        cases.append({"kind": "args", "args": gen_args(rng)})
        cases.append({"kind": "parent", "wrapper": rng.choice(["w1", "w2", " w1 "]), "args": gen_args(rng)[:3],
                      "mutate_first": rng.random() < 0.5})
        cases.append({"kind": "preprocess", "frag": rng.choice(FRAGS) + rng.choice(["", " ", rng.choice(FRAGS)]),
                      "title": rng.choice(["Tt", "Talk:P q", "Foo/bar"])})
        # expandTemplate does not preprocess its arguments: plain-text values only
        plain = ["x", " y ", "a b", "\nz", "0", "é", "q "]
        targs = []
        for i in range(rng.randint(0, 3)):
            targs.append([i + 1, rng.choice(plain)])
        if rng.random() < 0.5:
            targs.append([rng.choice(["k", "x"]), rng.choice(plain)])
        cases.append({"kind": "expandtemplate", "ttitle": rng.choice(["s", "b", "a", "nosuch"]), "targs": targs})
        if rng.random() < 0.3:
            cases.append({"kind": "twice", "tpl": rng.choice(["ppp", "viaarg", "viaet", "w1", "w2"]),
                          "vals": [rng.choice(["a", "b", "c d", "7"]) for _ in range(rng.randint(2, 4))]})
        if rng.random() < 0.3:
            cases.append({"kind": "reenter", "how": rng.choice(["et", "pp", "pp1", "pet"]), "a1": rng.choice(["in", "x y", "7", "go2"]),
                          "a2": rng.choice(["v", "", "w w"])})
        pn, vecs = rng.choice(PFS)
        cases.append({"kind": "callpf", "pname": pn, "pargs": rng.choice(vecs)})
    res = lib.run_impl("c08", cases, shards=lib.NCPU)
    coq_cases = []
    for c, r in zip(cases, res):
        nontriv = "{{" in str(c) or "=" in str(c.get("args", ""))
        run.count(c, nontriv, c["kind"])
        if r.get("outcome") != "ok":
            run.property_failure("c08:%s:%s:%s" % (c["kind"], r.get("outcome"), r.get("exc", "")), "did not return: %r" % (r,), c)
            continue
        if r["stack"] != [c.get("title", "Tt")]:
            run.correspondence_break("expand_stack not restored", c, stack=r["stack"])
        if c["kind"] == "args":
            want = norm(list(expected_args(c["args"], r["each"]).items()))
            got = norm(r["lua"])
            if got != want:
                run.property_failure("c08:args-differ", "frame.args %r, call's expanded arguments %r" % (got, want), c)
            if r["tfn"] is not None and norm(r["tfn"]) != got:
                run.property_failure("c08:args-differ-from-template-view", "frame.args %r, template_fn sees %r" % (got, norm(r["tfn"])), c)
            if r["lua"] is not None and all("=" not in e.split("=", 1)[-1] or True for e in r["each"]):
                coq_cases.append("(%s, %s)" % (clist(r["each"], cstr, "str"), c14.coq_view(r["lua"])))
        elif c["kind"] == "parent":
            tf = r["tfn"]
            outer = [t for t in tf if t[0] == c["wrapper"].strip()]
            inner = [t for t in tf if t[0] == "w1"]
            if not inner or "parent_args" not in r:
                run.property_failure("c08:parent-missing", "no parent frame seen: %r" % (r.get("raw"),), c)
                continue
            if r["parent_title"] != "Template:w1":
                run.property_failure("c08:parent-title", "parent title %r" % r["parent_title"], c)
            if norm(r["parent_args"]) != norm(inner[-1][1]):
                run.property_failure("c08:parent-args", "parent args %r, enclosing template's arguments %r"
                                     % (norm(r["parent_args"]), norm(inner[-1][1])), c)
        elif c["kind"] == "reenter":
            # the inner call of the same template sees its own arguments: outer part + what the inner call gives on its own
            head = r["outer_alone"][:r["outer_alone"].find(">>") + 2]
            if r["lua"] != head + r["direct"]:
                run.property_failure("c08:reenter-differs:" + c["how"], "a template re-entered from its own module gives %r, "
                                     "the outer part %r followed by the plain inner call gives %r" % (r["lua"], head, r["direct"]), c)
        elif c["kind"] == "twice":
            if r["lua"] != r["direct"]:
                run.property_failure("c08:repeated-use-differs:" + c["tpl"], "%s used with %r on one page gives %r, one use per page "
                                     "gives %r" % (c["tpl"], c["vals"], r["lua"], r["direct"]), c)
        elif c["kind"] in ("preprocess", "callpf"):
            if r["lua"] != r["direct"]:
                run.property_failure("c08:%s-differs" % c["kind"], "Lua gives %r, wikitext gives %r" % (r["lua"], r["direct"]), c)
        elif c["kind"] == "expandtemplate":
            want = r.get("positional_form", r["named_form"])
            if r["lua"] != want:
                if r["lua"] == r["named_form"]:
                    run.property_failure("c08:expandTemplate-positional-values-trimmed",
                                         "expandTemplate gives %r, the positional call gives %r" % (r["lua"], want), c)
                else:
                    run.property_failure("c08:expandTemplate-differs", "expandTemplate gives %r, the call gives %r (named form %r)"
                                         % (r["lua"], want, r["named_form"]), c)
    bad, errs = lib.coq_eval_failing(
        "c08", ["Base.Str", "Model.ArgViews"], "list str * list (key*str)", coq_cases,
        "fun '(args, lv) => view_same (view_lua args 1) lv", extra_defs=c14.DEFS)
    for e in errs:
        run.correspondence_break("model evaluation failed", None, error=e)
    for b in bad:
        run.correspondence_break("Model.ArgViews.view_lua disagrees with frame.args on the expanded arguments", coq_cases[b][:400])
    run.extra["traces_validated_against_impl"] = len(coq_cases)


def replay(data):
    case = data.get("case") or data["breaks"][0]["case"]
    print(lib.run_impl("c08", [case])[0])
    return 0
