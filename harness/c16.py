"""C16 — the expansion path and message lists are consistent after every call."""
import lib
import sys
from pathlib import Path
sys.path.insert(0, str(lib.VERIF / "harness"))
import regen

FRAGMENTS = [
    "text", "{{a|x}}", "{{b|p|x=q}}", "{{missing|y}}", "{{loop}}", "{{m1}}", "{{deep|w}}",
    "{{#if:x|y|z}}", "{{#if:|y|{{a|n}}}}", "{{#expr: 1 +}}", "{{#expr: 1/0}}", "{{#expr: 2*3}}",
    "{{#invoke:echo|main|a|b=c}}", "{{#invoke:bad|main}}", "{{#invoke:nomod|f}}", "{{#invoke:echo|nofn}}",
    "{{#invoke:syn|main}}", "{{#invoke:retnil|main}}", "{{#invoke:pp|main|k}}", "{{#invoke:nest|main|v}}",
    "{{inv|q}}", "{{badinv}}", "{{{1|d}}}", "{{{u}}}", "[[link|{{a|z}}]]", "[http://x.y {{a}}]",
    "<nowiki>{{a}}</nowiki>", "{{#switch:a|a=1|b=2}}", "{{lc:ABC}}", "{{#titleparts:a/b|1}}",
    "{{PAGENAME}}", "{{#ifeq:a|a|{{loop}}|n}}", "{{a|{{#invoke:bad|main}}}}", "{{list}}", "{{#unknownfn:x}}",
    "{{a|{{m1}}}}", "{{subst:a|s}}", "{{#invoke:ppraw|main|boom}}", "{{#invoke:ppcall|main|boom}}",
    "{{#invoke:etcall|main|boom}}", "{{#invoke:ppraw|main|a{{!}}x}}", "{{#invoke:ppcall|main|inv{{!}}boom}}", "{{#tag:ref|x}}", "\n== H ==\n", "\n* li {{a|i}}\n",
    # computed argument names (expanding to a positive integer, to zero, to a word, to nothing)
    "{{a|{{#expr:1}}=x}}", "{{a|{{{n|1}}}=x}}", "{{b|{{lc:X}}=q|{{#expr:1+1}}=r}}", "{{a|{{#if:x|2}}=v|{{#if:|2}}=w}}",
    "{{a|{{#expr:0}}=z}}", "{{a|{{m1}}=v}}", "{{a|0{{#expr:1}}=v}}", "{{#invoke:echo|main|{{#expr:1}}=x|{{lc:K}}=y}}",
    "{{a|{{a|1}}=x}}", "{{b|{{{1|3}}}=p}}",
    # Lua errors that are recognised by their text and ignored
    "{{#invoke:ign1|main}}", "{{#invoke:ign2|main}}", "{{a|{{#invoke:ign1|main}}}}",
]
FLAT_SAFE = ["{{#invoke:ppraw|main|boom}}", "{{#invoke:ppcall|main|boom}}", "{{#invoke:etcall|main|boom}}", "{{a|x}}", "{{b|p|x=q}}", "{{#if:x|y|z}}", "{{#invoke:echo|main|a}}", "{{lc:ABC}}", "{{missing}}",
             "{{#invoke:bad|main}}", "{{inv|q}}", "{{a|{{#expr:1}}=x}}", "{{b|{{lc:X}}=q}}", "{{a|{{{n|1}}}=x}}",
             # cut-off template loops are flat too: each costs a bounded depth and must leave nothing behind
             "{{loop}}", "{{m1}}", "{{#if:x|{{loop}}}}", "{{a|{{loop}}}}", "{{#invoke:ign1|main}}", "{{#invoke:ign2|main}}"]


def gen_case(rng, heavy=False):
    flat = rng.random() < 0.25
    pool = FLAT_SAFE if flat else FRAGMENTS
    k = rng.randint(1, 6) if not flat else rng.randint(20, 60)
    text = " ".join(rng.choice(pool) for _ in range(k))
    return {
        "title": rng.choice(["Tt", "Page two", "Talk:X"]), "section": rng.choice([None, "Sec"]),
        "text": text, "flat": flat,
        "api": "parse" if rng.random() < 0.2 else "expand",
        "pre_expand": rng.random() < 0.3, "parserfns": rng.random() < 0.75, "invoke": rng.random() < 0.7,
        "tfn": rng.choice([None, None, "none", "marker"]), "pfn": rng.choice([None, None, "none", "marker"]),
        "sel": rng.choice([None, None, ["a"], ["a", "inv", "m1"]]),
        "repeat": rng.choice([1, 1, 2, 3]) if not heavy else rng.choice([100, 300]),
        "_timeout": 120,
    }


def run(run):
    run.rule = ("pages built from a 55-fragment catalogue (templates, computed argument names, missing templates, loops, #invoke of good/raising/"
                "syntactically broken/absent modules, frame:preprocess and expandTemplate re-entry, bad parser-function input, "
                "links, nowiki, headings) x option sets (pre_expand, expand_parserfns, expand_invoke, hooks, selection) x repeat "
                "counts (1-3; 100/300 for a subset) without start_page; non-trivial = page contains at least one call; "
                "distinct by JSON hash")
    run.trusted = [
        "Coq 8.16.1 kernel; vm_compute for check_all on the regenerated skeleton",
        "axioms: none",
        "translator translate/skeleton.py (fail-closed Python-ast walk of Wtp.expand and its nested functions): "
        "append/pop on expand_stack, calls to nested functions (also as callbacks and inside comprehensions), "
        "if/for/while/return/continue/break/raise; external callees (call_lua_sandbox, call_parser_function, hooks) are "
        "assumed balanced and are exercised by the dynamic oracle",
        "dynamic oracle harness/implfns.py:impl_c16 on the real context",
    ]
    run.assumptions = ["exceptions propagating out of expand() are outside the property (it speaks of calls that return)"]
    errs = regen.regen(["GenSkeleton"])
    for k, v in errs.items():
        run.correspondence_break("translator %s failed (fail-closed)" % k, None, error=v)
    run.prove()
    n = 800 if run.tier == "quick" else 5000
    cases = [gen_case(run.rng) for _ in range(n)]
    cases += [gen_case(run.rng, heavy=True) for _ in range(12 if run.tier == "quick" else 120)]
    res = lib.run_impl("c16", cases, shards=lib.NCPU)
    for c, r in zip(cases, res):
        run.count({k: v for k, v in c.items() if k != "_timeout"}, "{{" in c["text"],
                  "%s/rep%d" % (c["api"], c["repeat"]))
        if r.get("outcome") == "raised":
            # an exception is not a C16 matter unless it is the stack check itself; record for information
            run.histogram["raised:" + r.get("exc", "")] = run.histogram.get("raised:" + r.get("exc", ""), 0) + 1
            continue
        if r.get("outcome") != "ok":
            run.histogram["outcome:" + r.get("outcome", "?")] = run.histogram.get("outcome:" + r.get("outcome", "?"), 0) + 1
            continue
        for p in r["problems"]:
            opts = "invoke_off" if not c["invoke"] and "#invoke" in c["text"] else "other"
            run.property_failure("c16:%s:%s" % (p[0], opts), "after the call: %r" % (p,), c)
    if run.proof.get("errors") and not run.violations:
        # search harder for a concrete imbalance before reporting no-failing-input-found
        extra = [gen_case(run.rng) for _ in range(3000)]
        for c, r in zip(extra, lib.run_impl("c16", extra, shards=lib.NCPU)):
            run.count({k: v for k, v in c.items() if k != "_timeout"}, True, "extended-search")
            for p in (r.get("problems") or []):
                run.property_failure("c16:%s:search" % p[0], "after the call: %r" % (p,), c)


def replay(data):
    case = data.get("case") or data["breaks"][0]["case"]
    print(lib.run_impl("c16", [case])[0])
    return 0
