"""C12 — dump ingestion stores exactly the selected pages, byte for byte."""
import json
import lib
import c10
from lib import cstr, cZ, clist, copt

TITLES = ["Foo", "foo", "Foo bar", "A/B", "A/documentation", "B/testcases/x", "C/testcases", "Ünï cödé", "a:b", "Q & A",
          "x<y", "Dash–dash", "名前", "T/doc", "Main Page", "Colon: space", "quote\"s", "Sub/documentation/more", "Main:Foo"]
BODIES = ["", "plain", " leading and trailing ", "line1\nline2\n", "tab\tsep", "a & b < c > d", "]]> cdata end", "\"quoted\" 'single'",
          "  \n\n  ", "{{t|x}} [[l]]", "é名", "&amp; entity text", "<b>tag</b>", "\n* list\n"]
TPL_SEGS = [("plain", "BODY%d", "BODY%d"), ("noinc", "<noinclude>doc%d</noinclude>", ""), ("inconly", "<includeonly>IO%d</includeonly>", "IO%d"),
            ("comment", "<!-- c%d -->", ""), ("text", " t%d ", " t%d ")]
MODELS = ["wikitext", "Scribunto", "json", "css", "javascript", "sanitized-css", "wikitext", "wikitext"]
NSIDS = [0, 10, 828, 100, 4, 14, 1, 11, 2]


def canon_title(base, ns):
    return base if ns == 0 else c10.NS_BY_ID[ns][1]["name"] + ":" + base


def gen_dump(rng):
    pages = []
    seg_id = [0]
    for _ in range(rng.randint(1, 10)):
        ns = rng.choice(NSIDS)
        base = rng.choice(TITLES)
        if rng.random() < 0.12:
            # the titles add_default_templates supplies when the dump lacks them
            ns, base = 10, rng.choice(["!", "=", "((", "))"])
        if ns != 0 and rng.random() < 0.2:
            # a page name that itself begins with a spelling of its own namespace (alias, English key, local name, lower case)
            key, nsd = c10.NS_BY_ID[ns]
            sp = rng.choice(list(nsd.get("aliases", [])) + [key, nsd["name"], nsd["name"].lower(), key.lower()])
            base = sp + ":" + base
        title = canon_title(base, ns)
        red = None
        model = rng.choice(MODELS)
        if ns == 10 and rng.random() < 0.7:
            want = []
            text = []
            onlyinc = rng.random() < 0.2
            upper = rng.random() < 0.35           # tags are matched case-insensitively
            for _ in range(rng.randint(1, 4)):
                k, src, inc = rng.choice(TPL_SEGS)
                if upper and k != "comment":
                    src = src.replace("noinclude", rng.choice(["NOINCLUDE", "NoInclude"])).replace(
                        "includeonly", rng.choice(["INCLUDEONLY", "IncludeOnly"]))
                elif upper:
                    continue
                seg_id[0] += 1
                text.append(src % seg_id[0] if "%d" in src else src)
                want.append(inc % seg_id[0] if "%d" in inc else inc)
            body, includable = "".join(text), "".join(want)
            if onlyinc:
                seg_id[0] += 1
                oi = rng.choice(["OnlyInclude", "ONLYINCLUDE"]) if upper else "onlyinclude"
                body = body + "<%s>ONLY%d</%s>" % (oi, seg_id[0], oi) + "tail"
                includable = "ONLY%d" % seg_id[0]
        else:
            body = rng.choice(BODIES)
            includable = body
        if rng.random() < (0.5 if base in ("!", "=", "((", "))") else 0.15):
            # mostly within the namespace (existing, dangling or itself a redirect), sometimes into another namespace
            red = canon_title(rng.choice(TITLES), ns if rng.random() < 0.75 else rng.choice(NSIDS))
        pages.append({"title": title, "ns": ns, "model": model, "redirect": red, "text": body, "includable": includable})
    nsset = sorted(set(rng.sample(NSIDS, rng.randint(1, len(NSIDS)))))
    return {"pages": pages, "nsset": nsset}


def expected(case):
    rows = {}
    for p in case["pages"]:
        if p["ns"] not in case["nsset"] or p["title"].endswith("/documentation") or "/testcases" in p["title"]:
            continue
        if p["redirect"] is None and p["model"] not in ("wikitext", "Scribunto", "json"):
            continue
        body = None if p["redirect"] is not None else (p["includable"] if p["ns"] == 10 else p["text"])
        rows[(p["title"], p["ns"])] = [p["title"], p["ns"], p["redirect"], body, p["model"]]
    for t, b in (("!", "|"), ("=", "="), ("((", "&lbrace;&lbrace;"), ("))", "&rbrace;&rbrace;")):
        if ("Template:" + t, 10) not in rows:
            rows[("Template:" + t, 10)] = ["Template:" + t, 10, None, b, "wikitext"]
    return sorted(rows.values(), key=lambda r: (r[1], r[0]))


def coq_case(case, rows):
    os_ = lambda s: copt(s, cstr, "str")
    dp = lambda p: "mkdp %s %s %s %s %s" % (cstr(p["title"]), cZ(p["ns"]), cstr(p["model"]), os_(p["redirect"]), cstr(p["text"]))
    row = lambda r: "mkrow %s %s %s false %s %s" % (cstr(r[0]), cZ(r[1]), os_(r[2]), os_(r[3]), cstr(r[4]))
    return "(%s, %s, %s)" % (clist(case["nsset"], cZ, "Z"), clist(case["pages"], dp, "dpage"), clist(rows, row, "row"))


def run(run):
    run.rule = ("dumps of 1-10 pages over 9 namespaces x 18 titles (prefixes, colons, slashes, /documentation and /testcases "
                "placements, Unicode, XML-special characters) x 14 bodies (XML-special characters, significant whitespace, empty) "
                "x 6 content models, redirects, duplicate titles, template bodies built from include/noinclude/comment segments; "
                "random namespace selections; written as real .xml.bz2 and read by parse_dump_xml + add_default_templates; "
                "non-trivial = at least 2 selected pages; distinct by JSON hash")
    run.trusted = [
        "Coq 8.16.1 kernel; vm_compute evaluates Model.Dump.ingest (on Model.Store) on the dump's page list",
        "axioms: none",
        "model coq/Model/Dump.v (with Model/Body.template_to_body for template bodies) tied to dumpparser.py by comparing the stored rows; lxml/bz2 are glue under "
        "the diff (the oracle knows the includable part of a template body by construction; the model computes it)",
        "namespace table regenerated from data/en/namespaces.json",
    ]
    run.prove()
    rc, out = lib.coq_make(["Model/Body.vo", "Model/Dump.vo"])
    if rc != 0:
        run.correspondence_break("Model/Body.v or Model/Dump.v does not build", None, error=out[-1500:])
    n = 400 if run.tier == "quick" else 6000
    cases = [gen_dump(run.rng) for _ in range(n)]
    res = lib.run_impl("c12", [{"pages": c["pages"], "nsset": c["nsset"]} for c in cases], shards=lib.NCPU)
    coq_cases, idx = [], []
    for i, (c, r) in enumerate(zip(cases, res)):
        want = expected(c)
        run.count({"pages": [[p["title"], p["ns"], p["model"], p["redirect"], p["text"]] for p in c["pages"]], "ns": c["nsset"]},
                  len(want) >= 6, "dump")
        if r.get("outcome") != "ok":
            run.property_failure("c12:%s:%s:%s" % (r.get("outcome"), r.get("exc", ""), r.get("where", "")),
                                 "ingestion did not finish: %r" % (r,), c)
            continue
        got = sorted(r["rows"], key=lambda x: (x[1], x[0]))
        if got != want:
            gk, wk = {(x[0], x[1]) for x in got}, {(x[0], x[1]) for x in want}
            kind = "page-set" if gk != wk else "content"
            if kind == "page-set" and any(t.startswith("Main:") for t, n_ in (wk - gk)):
                kind = "main-prefix-merged"
            run.property_failure("c12:%s" % kind, "stored rows %s differ from the selected pages %s"
                                 % (json.dumps(got, ensure_ascii=False)[:600], json.dumps(want, ensure_ascii=False)[:600]), c)
        # model: the raw page texts; the template bodies are reduced by Model.Body.template_to_body inside the model
        coq_cases.append(coq_case(c, r["rows"]))
        idx.append(i)
    bad, errs = lib.coq_eval_failing(
        "c12", ["Base.Str", "Model.Store", "Model.Dump", "Model.Body"], "list Z * list dpage * list row", coq_cases,
        "fun '(ns, dump, rows) => rows_same (ingest nstbl 10%Z template_to_body ns dump) rows",
        extra_defs="Open Scope N_scope.\n" + c10.ns_table_coq(), chunk=60)
    for e in errs:
        run.correspondence_break("model evaluation failed", None, error=e)
    for b in bad:
        run.correspondence_break("Model.Dump.ingest disagrees with parse_dump_xml + add_default_templates", cases[idx[b]],
                                 impl=res[idx[b]])
    run.extra["traces_validated_against_impl"] = len(coq_cases)


def replay(data):
    case = data.get("case") or data["breaks"][0]["case"]
    print(lib.run_impl("c12", [{"pages": case["pages"], "nsset": case["nsset"]}])[0])
    return 0
