"""C11 — restoring the page database from its backup is crash-safe."""
import json
import lib
from lib import cbool

SHAPES = ["json+missing", "json+emptydir", "tmpl+missing", "json+dotdir", "dir+json+emptyjson", "emptyjson+json", "dir+textfile",
          "tmpl+json+emptydir", "missing+dir", "json+tmpl", "dir", "dir+emptyjson"]
SCENARIOS = ["override", "restore", "restore-dirty", "overwrite-only", "backup-only", "rebackup"]


def expected_ok(case, r):
    """The property, evaluated on what a new context sees after the crash."""
    n = case["n"]
    pad = "x" * 3000 if case.get("big") else ""
    orig = [["Page %d" % i, (("orig %d " % i) + pad)[:12]] for i in range(n)]
    new_all = sorted([["Page %d" % i, ("new %d" % i)[:12]] for i in range(n)])
    if r.get("open") != "ok" or "read" in r:
        return False, "cannot-open"
    if r.get("integrity") != ["ok"]:
        return False, "integrity"
    rows = [list(x) for x in r["rows"]]
    if case["scenario"] == "rebackup" and case.get("kill"):
        # the second, completed backup was taken of the "mid" content: that is what the next context must see
        mid = sorted([["Page %d" % i, ("mid %d" % i)[:12]] for i in range(n)])
        if r.get("pre") and r["pre"][-1] != 0:
            return False, "second-flow-failed"
        return rows == mid, ("first-backup-content-restored" if rows == sorted(orig) else "other-content")
    if case["scenario"] == "overwrite-only":
        # no backup was ever taken: the last committed content, old or new, never a mixture
        return (rows == sorted(orig) or rows == new_all), "mixed-or-lost-content"
    # a backup of the original content was completed (or never started): the original content must be visible
    if rows == sorted(orig):
        return True, ""
    titles = {t for t, _ in rows}
    if len(rows) < n and titles <= {t for t, _ in orig}:
        return False, "pages-lost"
    if any(b.startswith("new") for _, b in rows):
        return False, "post-backup-version-survives"
    return False, "other-content"


def run(run):
    run.rule = ("every executed source line of backup_db, create_db, close_db_conn, overwrite_pages, overwrite_single_page, "
                "analyze_and_overwrite_pages, add_page and init_wikidata_cache as a kill point (os._exit without cleanup) in five "
                "flows: override (backup, overwrite, close), restore after a clean override, restore after an override that left "
                "a write-ahead log behind, overwrite without backup, backup only, and a killed backup followed by new content and a "
                "complete backup+overwrite+close (the restore must bring back the second backup's content); the override and restore "
                "flows also with lists of several override paths (JSON files, directories of TITLE files, missing paths, empty "
                "directories, dotfile-only directories, empty JSON, with and without a template among the pages); two database sizes (the larger one makes the "
                "backup several pages long); a sample of kill points is followed by a second kill during the next reopen; "
                "non-trivial = kill point inside the flow; distinct by (scenario, size, kill point)")
    run.trusted = [
        "Coq 8.16.1 kernel; the protocol model's crash-safety is proved by invariant over all crash points and any number of "
        "interrupted reopen attempts",
        "axioms: none",
        "SQLite's atomic commit, WAL recovery and backup API, the OS rename/unlink atomicity, and fsync/power loss are assumed "
        "(only process death is injected); the model's steps are tied to the code by killing the real process at every executed "
        "line and checking the visible content a new context sees",
    ]
    run.prove()
    quick = run.tier == "quick"
    sizes = [(6, False)] + ([(40, True)] if not quick else [(25, True)])
    probes = [{"scenario": sc, "n": n, "big": big} for sc in SCENARIOS for n, big in sizes]
    # override path lists of several kinds (which path contributes pages, in which format, with or without a template)
    # (the lists whose pages all come from directories of TITLE files are always among them: the two formats are read by
    # different branches of overwrite_pages)
    shapes = SHAPES if not quick else ["dir+textfile", "missing+dir", "dir+emptyjson"] + \
        [SHAPES[(run.seed + j) % len(SHAPES)] for j in range(3)] + SHAPES[:1]
    probes += [{"scenario": sc, "n": 6, "big": False, "shape": sh} for sh in dict.fromkeys(shapes) for sc in ("override", "restore")]
    pres = lib.run_impl("c11", probes, shards=len(probes))
    cases = []
    for pc, pr in zip(probes, pres):
        if pr.get("outcome") != "ok" or not pr.get("lines"):
            run.correspondence_break("dry run of flow %s failed" % pc["scenario"], pc, result=pr)
            continue
        total = pr["lines"]
        ok, why = expected_ok(pc, pr)
        run.count([pc["scenario"], pc["n"], pc.get("shape"), "no-kill"], False, "no-kill")
        if not ok:
            run.property_failure("c11:%s:no-kill:%s" % (pc["scenario"], why), "flow %s without any crash: %r" % (pc["scenario"], pr), pc)
        step = (2 if quick else 1) if not pc["big"] else max(1, total // (25 if quick else 120))
        if pc.get("shape"):
            step = 5 if quick else 2
        for k in range(1, total + 1, step):
            c = dict(pc, kill=k)
            if k % 7 == 0 and pc["scenario"] in ("override", "restore", "restore-dirty"):
                c["second_kill"] = (k % 17) + 1
            cases.append(c)
    res = lib.run_impl("c11", [dict(c, _timeout=200) for c in cases], shards=lib.NCPU)
    run.extra["kill_points"] = len(cases)
    model_tie(run, cases, res)
    for c, r in zip(cases, res):
        run.count([c["scenario"], c["n"], c["kill"], c.get("second_kill"), c.get("shape")], True, c["scenario"])
        if r.get("outcome") != "ok":
            run.property_failure("c11:%s:harness:%s:%s" % (c["scenario"], r.get("outcome"), r.get("exc", "")),
                                 "trial did not complete: %r" % (r,), c)
            continue
        if r["rc"] not in (0, 9):
            run.property_failure("c11:%s:child-failed" % c["scenario"], "the flow raised before the kill point: %r" % (r.get("err"),), c)
            continue
        ok, why = expected_ok(c, r)
        if not ok:
            run.property_failure("c11:%s:%s" % (c["scenario"], why),
                                 "killed at line event %d (%s): a new context sees %s; files %r"
                                 % (c["kill"], "then reopen killed at %s" % c.get("second_kill") if c.get("second_kill") else "single kill",
                                    json.dumps(r.get("rows", r))[:300], r.get("files")), c)


def model_tie(run, cases, res):
    """Model/FsDb.v against the files: what is on disk after each killed flow must be a crash state of the model's flow, and
    the model's reopen of it must show what the real reopen showed (coq/Model/FsDbObs.v)."""
    lab = {"absent": "None", "orig": "(Some Orig)", "new": "(Some New)", "partial": "None"}
    flab = {"absent": "Absent", "orig": "(Complete Orig)", "new": "(Complete New)", "partial": "Partial"}
    scn = {"override": "ScOverride", "overwrite-only": "ScOverwriteOnly", "backup-only": "ScBackupOnly", "restore": "ScRestore"}
    coq_cases, refs = [], []
    for c, r in zip(cases, res):
        if r.get("outcome") != "ok" or r.get("rc") not in (0, 9) or "obs" not in r:
            continue
        o = r["obs"]
        if o["db"] == "partial" or o["vis"] == "partial":
            run.correspondence_break("after the killed flow the database file itself is not a readable database", c, obs=o)
            continue
        n = c["n"]
        pad = "x" * 3000 if c.get("big") else ""
        orig = sorted(["Page %d" % i, (("orig %d " % i) + pad)[:12]] for i in range(n))
        rows = sorted(list(x) for x in r.get("rows") or [])
        if r.get("open") != "ok" or r.get("integrity") != ["ok"] or "rows" not in r:
            seen = "None"
        else:
            seen = "(Some Orig)" if rows == orig else "(Some New)"
        coq_cases.append("(%s, (%s, %s, %s, %s), %s, %s)" % (scn.get(c["scenario"], "ScOther"), lab[o["db"]], lab[o["vis"]],
                                                             flab[o["bak"]], flab[o["tmp"]], cbool(bool(c.get("second_kill"))), seen))
        refs.append((c, o))
    bad, errs = lib.coq_eval_failing("c11o", ["Model.FsDb", "Model.FsDbObs"], "scenario * obs_t * bool * option content", coq_cases,
                                     "fun '(sc, o, k2, seen) => Nat.eqb (check_obs sc o k2 seen) 0", chunk=400)
    for e in errs:
        run.correspondence_break("model evaluation failed (file observations)", None, error=e)
    for b in bad:
        c, o = refs[b]
        out = lib.coq_eval_term(["Model.FsDb", "Model.FsDbObs"], "(fun '(sc, o, k2, seen) => check_obs sc o k2 seen) (%s)" % coq_cases[b])
        why = "the files after the kill are no crash state of the model's flow" if "= 1" in out else \
            "the model's reopen of these files shows something else than the real reopen"
        run.correspondence_break("Model.FsDb disagrees with the code: %s (files: %r)" % (why, o), c)
    run.extra["file_observations_checked_against_the_model"] = len(coq_cases)
    dist = {}
    for _, o in refs:
        key = "%s/%s/%s/%s" % (o["db"], o["vis"], o["bak"], o["tmp"])
        dist[key] = dist.get(key, 0) + 1
    run.extra["file_observations"] = dist


def replay(data):
    case = data.get("case") or data["breaks"][0]["case"]
    print(lib.run_impl("c11", [case])[0])
    return 0
