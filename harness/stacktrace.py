"""Records, for every parse_encoded() call of the real parser, the sequence of primitive stack operations it performs
(Model/Stack.v: op) and the tree it returns, by watching ctx.parser_stack at every line of parser.py (sys.settrace).

The recogniser looks at state differences only - which object was added to / removed from the open-node stack or the
node on top of it - plus the NAME of the function whose statement made the change (the three primitives
_parser_push / _parser_pop / _parser_merge_str_children fold their own statements into one operation).  It is an
untrusted helper: Coq replays the operations on the model and compares the result with the tree the parser returned,
so a wrong guess shows up as a disagreement, never as a pass.  A change it cannot name is recorded as "?"."""
import sys

PRIMS = ("_parser_push", "_parser_pop")
MERGE = "_parser_merge_str_children"


class Recording:
    def __init__(self, ctx, root):
        self.ctx = ctx
        self.root = root
        self.ops = []
        self.unknown = []
        self.kinds = {id(root): "ROOT"}       # kind of each open node as the model sees it
        self.pending_add = None
        self.pending_unpush = None
        self.pending_largs = False
        self.pending_head = False
        self.pending_tofn = False
        self.pop_dropped = None
        self.prev = self.snap()
        self.fp = self.fingerprint()
        self.result = None
        self.done = False

    # ------------------------------------------------------------------ state
    def fingerprint(self):
        st = self.ctx.parser_stack
        n = len(st)
        if n == 0:
            return None
        top = st[-1]
        ch = top.children
        last = ch[-1] if ch else None
        return (n, id(top), top.kind, id(ch), len(ch), len(top.largs), id(top.temp_head), id(getattr(top, "definition", None)),
                -1 if (last is None or isinstance(last, str)) else len(last.children))

    def snap(self):
        st = self.ctx.parser_stack
        top = st[-1]
        ch = top.children
        last = ch[-1] if ch else None
        return {"stack": list(st), "top": top, "kind": top.kind.name, "ch": ch, "chl": list(ch), "nl": len(top.largs),
                "head": top.temp_head, "defn": getattr(top, "definition", None),
                "last": last, "lastch": None if (last is None or isinstance(last, str)) else list(last.children)}

    # ------------------------------------------------------------------ events
    def emit(self, *op):
        self.ops.append(list(op))

    def what(self, why, who):
        self.ops.append(["?", why, who])
        self.unknown.append("%s (in %s)" % (why, who))

    def observe(self, who, caller, mutator_frame):
        st = self.ctx.parser_stack
        if not st or st[0] is not self.root:
            return
        fp = self.fingerprint()
        if fp == self.fp:
            return
        self.fp = fp
        p, c = self.prev, self.snap()
        self.prev = c
        in_pop = who == "_parser_pop"
        ps, cs = p["stack"], c["stack"]
        if len(cs) == len(ps) + 1 and all(a is b for a, b in zip(cs, ps)):
            x = cs[-1]
            if self.pending_add is not x:
                self.what("pushed a node that is not the last child of the previous top", who)
            self.pending_add = None
            self.kinds[id(x)] = x.kind.name
            self.emit("push", x.kind.name)
            return
        if len(cs) == len(ps) - 1 and all(a is b for a, b in zip(cs, ps)):
            x = ps[-1]
            if in_pop:
                warn = bool(mutator_frame.f_locals.get("warn_unclosed")) if mutator_frame is not None else False
                semi = x.kind.name == "LIST_ITEM" and str(getattr(x, "sarg", "")).endswith(";")
                tofn = x.kind.name == "PARSER_FN" and self.kinds.get(id(x)) == "TEMPLATE"
                self.emit("pop", warn, semi, tofn)
                self.pop_dropped = x
            else:
                self.pending_unpush = x
            return
        if len(cs) != len(ps) or any(a is not b for a, b in zip(cs, ps)):
            self.what("stack changed by more than one node", who)
            return
        # same stack, same top
        if c["kind"] != p["kind"]:
            if not in_pop:
                if p["kind"] == "TEMPLATE" and c["kind"] == "PARSER_FN":
                    self.pending_tofn = True
                else:
                    self.what("kind changed %s -> %s" % (p["kind"], c["kind"]), who)
        if c["ch"] is p["ch"]:
            a, b = p["chl"], c["chl"]
            if len(b) == len(a) + 1 and all(x is y for x, y in zip(a, b)):
                x = b[-1]
                if isinstance(x, str):
                    self.emit("text", x)
                else:
                    self.pending_add = x
            elif len(b) == len(a) - 1 and all(x is y for x, y in zip(a, b)):
                x = a[-1]
                if isinstance(x, str):
                    if b:
                        self.what("a string child was removed", who)
                    else:
                        self.emit("clear")
                elif in_pop and self.pop_dropped is x:
                    self.pop_dropped = None       # second half of the pop that takes the node back
                elif self.pending_unpush is x:
                    self.pending_unpush = None
                    self.emit("unpush")
                else:
                    self.what("a node child was removed", who)
            elif len(a) == 1 and not b:
                self.emit("clear")
            elif len(a) != len(b) or any(x is not y for x, y in zip(a, b)):
                self.what("children changed in place", who)
        else:
            if who == MERGE:
                if caller not in PRIMS:
                    self.emit("merge")
            elif in_pop:
                pass                              # children -> largs / head swap inside the pop
            elif not c["chl"]:
                if self.pending_largs:
                    self.pending_largs = False
                    self.emit("tolargs", self.pending_tofn)
                    if self.pending_tofn:
                        self.kinds[id(c["top"])] = "PARSER_FN"
                    self.pending_tofn = False
                elif self.pending_head:
                    self.pending_head = False
                    self.emit("tohead")
                else:
                    self.emit("clear")
            else:
                self.what("children replaced by a non-empty list", who)
        if c["nl"] != p["nl"]:
            if in_pop:
                pass
            elif c["nl"] == p["nl"] + 1 and c["top"].largs[-1] is p["ch"]:
                self.pending_largs = True
            else:
                self.what("largs changed", who)
        if c["head"] is not p["head"]:
            if in_pop:
                pass
            elif c["head"] is p["ch"]:
                self.pending_head = True
            else:
                self.what("temp_head changed", who)
        if c["defn"] is not p["defn"] and not in_pop:
            self.what("definition changed", who)
        if c["ch"] is p["ch"] and c["last"] is p["last"] and c["lastch"] is not None and p["lastch"] is not None \
                and len(c["lastch"]) != len(p["lastch"]):
            if not p["lastch"] and len(c["lastch"]) == 1 and isinstance(c["lastch"][0], str) and c["last"].kind.name == "LINK":
                self.emit("trail", c["lastch"][0])
            else:
                self.what("children of a closed node changed", who)


class Tracer:
    def __init__(self, ctx, parser_module):
        self.ctx = ctx
        self.P = parser_module
        self.file = parser_module.__file__
        self.recs = []          # active recordings (innermost last)
        self.finished = []
        self.prev_name = None
        self.prev_caller = None
        self.prev_frame = None

    def _observe(self, frame):
        st = self.ctx.parser_stack
        if st:
            root = st[0]
            if not self.recs or self.recs[-1].root is not root:
                if root.kind.name == "ROOT" and len(st) == 1 and not root.children:
                    self.recs.append(Recording(self.ctx, root))
            if self.recs and self.recs[-1].root is root:
                self.recs[-1].observe(self.prev_name, self.prev_caller, self.prev_frame)

    def _local(self, frame, event, arg):
        if event == "line":
            self._observe(frame)
            self._set_prev(frame)
        elif event == "return":
            self._observe(frame)
            if frame.f_code.co_name == "parse_encoded" and self.recs:
                rec = self.recs.pop()
                rec.result = arg
                rec.done = True
                self.finished.append(rec)
            back = frame.f_back
            if back is not None:
                self._set_prev(back)
        return self._local

    def _set_prev(self, frame):
        self.prev_frame = frame
        self.prev_name = frame.f_code.co_name
        self.prev_caller = frame.f_back.f_code.co_name if frame.f_back is not None else None

    def _global(self, frame, event, arg):
        if frame.f_code.co_filename != self.file:
            return None
        self._observe(frame)
        self._set_prev(frame)
        return self._local

    def run(self, fn):
        old = sys.gettrace()
        sys.settrace(self._global)
        try:
            return fn()
        finally:
            sys.settrace(old)


def model_tree(node):
    """the returned tree in the shape of Model/Stack.v: node"""
    if isinstance(node, str):
        return node
    return {"k": node.kind.name,
            "a": [[model_tree(x) for x in l] for l in node.largs],
            "c": [model_tree(x) for x in node.children],
            "h": None if node.temp_head is None else [model_tree(x) for x in node.temp_head],
            "d": None if getattr(node, "definition", None) is None else [model_tree(x) for x in node.definition]}
