"""Regenerate coq/Gen/*.v from /repo's working tree (translators in /verif/translate)."""
import importlib
import sys
from pathlib import Path

sys.path.insert(0, str(Path(__file__).resolve().parent))
sys.path.insert(0, str(Path(__file__).resolve().parent.parent / "translate"))
import lib  # noqa

TRANSLATORS: dict[str, str] = {
    # Gen file stem -> translator module (translate/<module>.py with generate() -> str)
    "GenSkeleton": "skeleton",
    "GenLadder": "ladder",
    "GenData": "data",
    "GenFields": "fields",
    "GenGraph": "graph",
    "GenLocales": "locales",
    "GenBody": "body",
    "GenPre": "preproc",
    "GenPins": "pins",
}


def regen(names=None) -> dict[str, str]:
    """Returns {gen name: error text} for translators that failed (fail-closed)."""
    errs = {}
    for stem, modname in TRANSLATORS.items():
        if names and stem not in names:
            continue
        try:
            mod = importlib.import_module(modname)
            text = mod.generate()
        except Exception as e:  # fail-closed: emit a file that cannot satisfy the theorems
            errs[stem] = "%s: %s" % (type(e).__name__, e)
            text = mod.fallback(str(e)) if hasattr(mod, "fallback") else None
            if text is None:
                continue
        lib.write_if_changed(lib.COQ / "Gen" / f"{stem}.v", text)
    return errs


if __name__ == "__main__":
    e = regen(None if sys.argv[1:] in ([], ["all"]) else sys.argv[1:])
    for k, v in e.items():
        print("translator failed:", k, v)
