"""C01 — parse() is total and always returns a well-formed tree."""
import json
import lib
import c02
from lib import cbool, clist

ATOMS = ["{{", "}}", "{{{", "}}}", "[[", "]]", "[", "]", "|", "||", "!", "!!", "{|", "|}", "|-", "|+", "\n", "\n\n", " ", "\n ",
         "* ", "# ", ": ", "; ", "*# ", "*: ", "==", "===", "=", "----", "''", "'''", "'''''", "<b>", "</b>", "<i>", "<br>",
         "<br/>", "</br>", "<div class=\"x\">", "</div>", "<span>", "</span>", "<ref>", "</ref>", "<ref name=a/>", "<pre>", "</pre>",
         "<nowiki>", "</nowiki>", "<nowiki/>", "<!--", "-->", "<li>", "<ul>", "</ul>", "<table>", "<tr>", "<td>", "</table>",
         "<math>", "</math>", "<section begin=a/>", "<noinclude/>", "<includeonly>", "http://x.y", "[http://x.y t]", "https://",
         "__TOC__", "__NOTOC__", "&amp;", "&lt;", "&#91;", "text", "word ", "A", "é", "名", ":", ";", "#REDIRECT", "~~~~",
         "{{a|x}}", "{{#if:x|y}}", "{{PAGENAME}}", "[[a|b]]", "[[File:x.png|thumb|c]]", "{{{1|d}}}", "<", ">", "/", "\t", "-{", "}-",
         "<nowiki></nowiki>", "<nowiki></nowiki>", "<!-- c -->", "== H ==\n", "a=b", "style=\"c\"", "\"", "'",
         # blanks other than the ASCII ones, alone and inside tags (the tokenizer and the tag handler must agree on them)
         "\u00a0", "\u2003", "\u3000", "\x85", "\x1c", "\u2028", "<div\u00a0class=\"x\">", "</span\u00a0>", "<br\u2003/>", "<b\u3000>",
         "<span class\u00a0=\u2003\"c\">", "</div\x85>", "<ref\u00a0name=a/>", "<li\x1c>", "<DIV>", "</Div >", "<BR/>",
         # constructs whose saved arguments hold a bracket or nowiki placeholder of their own
         # addresses with other spellings of the scheme
         "HTTP://x.y", "Https://a.b/c ", "[HTTPS://a.com x]", "hTTp://q.r", "[HTTP://x.y]", "HTTP://", "ftp://x.y", "[ftp://x.y z]", "//x.y",
         "{{a|[b]}}", "[[l|x<nowiki/>y]]", "{{{1|[d]}}}", "<span title=\"{{a|[y]}}\">", "[x y]", "{{a|<nowiki/>}}", "[[a|[b]]]"]
MAGIC = "\U00102041"


def placeholder_outside_strings(node):
    if isinstance(node, str):
        return None
    magic = lambda x: any(0x10203D <= ord(ch) <= 0x10FFF0 for ch in str(x))
    for k, v in (node.get("at") or {}).items():
        if magic(k) or magic(v):
            return ("attrs", node.get("k"))
    if magic(node.get("s", "")):
        return ("sarg", node.get("k"))
    for key in ("c", "d"):
        for x in node.get(key, []) or []:
            r = placeholder_outside_strings(x)
            if r:
                return r
    for l in node.get("a", []) or []:
        for x in l:
            r = placeholder_outside_strings(x)
            if r:
                return r
    return None


def soup(rng, n):
    return "".join(rng.choice(ATOMS) for _ in range(n))


def mutate(rng, page):
    if not page:
        return page
    ops = rng.randint(1, 3)
    s = page
    for _ in range(ops):
        i = rng.randrange(len(s) + 1)
        j = min(len(s), i + rng.randint(1, 12))
        r = rng.random()
        if r < 0.3:
            s = s[:i] + s[j:]
        elif r < 0.55:
            s = s[:i] + s[i:j] + s[i:j] + s[j:]
        elif r < 0.8:
            s = s[:i] + rng.choice(ATOMS) + s[i:]
        else:
            k = rng.randrange(len(s) + 1)
            s = s[:k] + s[i:j] + s[k:]
    return s


def ladders():
    out = []
    for d in (1, 5, 20, 50, 99, 100):
        out += ["{{a|" * d + "x" + "}}" * d, "[[a|" * d + "x" + "]]" * d, "<div>" * d + "x" + "</div>" * d,
                "''" * d + "x", "\n".join("*" * k + " i" for k in range(1, d + 1)), "{|\n|" * d + "x" + "\n|}" * d,
                "<b><i>" * d + "x", "{{{" * d + "1" + "}}}" * d, "=" * min(d, 6) + " h " + "=" * min(d, 6) + "\n" + "'''" * d]
    return out


KINDS = None


def coq_child(c):
    if isinstance(c, str):
        magic = any(0x10203D <= ord(ch) <= 0x10FFF0 for ch in c)
        return "Str %s %s" % (cbool(c == ""), cbool(magic))
    return "Sub (%s)" % coq_node(c)


def coq_node(n):
    sarg = n.get("s", "")
    return "Node %s %s %s %s %s %s %s %s" % (
        n["k"], cbool(bool(sarg)), cbool(sarg.endswith(";")),
        clist(n.get("a", []), lambda l: clist(l, coq_child, "child"), "list child"),
        cbool(bool(n.get("at"))), clist(n.get("c", []), coq_child, "child"),
        ("(Some %s)" % clist(n["d"], coq_child, "child")) if "d" in n else "None",
        cbool(bool(n.get("th"))))


def tree_size(n):
    if isinstance(n, str):
        return 1
    return 1 + sum(tree_size(c) for c in n.get("c", [])) + sum(tree_size(c) for l in n.get("a", []) for c in l) + \
        sum(tree_size(c) for c in n.get("d", []))


CLAUSES = {0: "tree too deep for the checker", 1: "strings", 2: "root", 3: "list", 4: "table", 5: "args", 6: "level", 7: "sarg",
           8: "plain", 9: "attrs", 10: "definition"}


def run(run):
    run.rule = ("(a) token soups over a 110-atom wikitext alphabet (length 1-40); (b) grammar documents (sections, lists, rules, "
                "fillers); (c) 1-3 random span mutations (delete/duplicate/insert/transplant) of the page strings used in the "
                "repository's own parser tests; (d) nesting ladders to depth 100 for nine nestable constructs; (e) inputs "
                "containing a placeholder character; (f) definition-list, link-trail and bracket shapes; (g) argument-bearing constructs closed by force while their first argument holds a node; each with and without pre_expand/expand_all; non-trivial = input has at "
                "least 3 markup atoms; distinct by JSON hash")
    run.trusted = [
        "Coq 8.16.1 kernel; vm_compute evaluates Model.Tree.wf (the well-formedness predicate) on every returned tree",
        "axioms: none",
        "the tree serialiser harness/implfns.py:_tree and the string abstraction (empty / contains placeholder)",
        "of the parser's handlers, _parser_merge_str_children and the table handlers have models (Model/Tree.v, Model/Tables.v; "
        "the latter tied to the parser by C03's check); the other handlers and the regex tokenizer are exercised, not modelled",
        "Model/Stack.v (the primitive operations on the open-node stack) is tied to parser.py by harness/stacktrace.py: a sys.settrace "
        "recorder that names each change of ctx.parser_stack / its top node as one of the model's operations (untrusted: Coq replays "
        "the operations and compares the result with the returned tree; a change it cannot name is a reported break); "
        "_finalize_expand enters the replay as the table of the placeholder characters that occur with their expansions",
    ]
    run.prove()
    rng = run.rng
    quick = run.tier == "quick"
    pages = lib.run_impl("test_pages", [{}], shards=1)[0].get("pages", [])
    texts, klass = [], []
    for _ in range(1500 if quick else 60000):
        texts.append(soup(rng, rng.randint(1, 40))); klass.append("soup")
    for _ in range(300 if quick else 5000):
        texts.append(c02.render(c02.gen_doc(rng, rng.randint(1, 10)), rng)); klass.append("doc")
    for _ in range(500 if quick else 30000):
        if pages:
            texts.append(mutate(rng, rng.choice(pages))); klass.append("mutant")
    for t in ladders():
        texts.append(t); klass.append("ladder")
    # mostly-valid structured constructs: calls with empty / numeric-named / repeated arguments, links and external links with
    # inline markup in their target, the same inside table cells and list items
    import c19

    def messy(rng):
        # a closed link / external link / call whose inside mixes inline openers with cell separators
        inner = "".join(rng.choice(["t", " ", "''", "'''", "||", "|", "!!", "{{a}}", "[[l]]", "''i''", " ''", "'' "])
                        for _ in range(rng.randint(1, 4)))
        k = rng.random()
        if k < 0.5:
            return "[http://x.y/" + rng.choice(["p", "''i''", "'''b'''", "p|{{a}}", "{{a}}", ""]) + rng.choice([" ", ""]) + inner + "]"
        if k < 0.75:
            return "[[Target|" + inner + "]]"
        return "{{a|" + inner + "}}"

    for _ in range(1500 if quick else 30000):
        parts = [messy(rng) if rng.random() < 0.35 else c19.gen_call(rng) for _ in range(rng.randint(1, 3))]
        if rng.random() < 0.4:
            opener = rng.choice(["[http://x.y/''i'' ''", "[http://x.y/{{a}} '''", "[http://x.y ''t", "[[a|''", "{{a|''", "''", "'''",
                                 "[http://x.y/'''b''' ''", "[http://x.y/p|{{a}} ''", "[http://x.y/''i''", "<b>", "[[a|'''b''' ''"])
            parts.insert(len(parts) if rng.random() < 0.6 else rng.randrange(len(parts) + 1), opener)
        body = " ".join(parts)
        shape = rng.random()
        if shape < 0.3:
            t = "{|\n| " + body + rng.choice([" || c", "|| c", "||c", "\n| c", "|c", "!!c"]) + "\n|}"
        elif shape < 0.45:
            t = "{|\n! " + body + rng.choice(["\n| d ", "!! d ", "!!d", " !! d"]) + rng.choice(["||", "|"]) + " e\n|}"
        elif shape < 0.6:
            t = "* " + body + "\n** x"
        else:
            t = body
        texts.append(t); klass.append("calls")
    for t in ["{{#switch:|1=z}}", "{{#if:|1=z}}", "{{tpl||1=z}}", "{|\n| [http://x.y/''x'' ''|| c]\n|}"]:
        texts.append(t); klass.append("corpus")
    for t in ["==<pre>x==\n", "== a <pre> b ==\ntext", "==<pre>==\n</pre>", "=== x<pre>y</pre> ===\n", "==<nowiki>x</nowiki>==\n",
              "== {{a|x}} ==\n", "==[[a]]==\n* i", "==\n", "== ==\n", "=====\n", "== {{\nfoo}} ==", "== [[a|\nb]] ==\n",
              "<math>\n=</math>=", "<div>\n== a </div> ==\n", "<b>x\n=== t</b> ===\n",
              "{{PAGENAME|\u00b2=x}}", "{{lc:A|\u2460=y}}", "{{a|\u00b2=x}}",
              "HTTP://Example.com", "see Https://a.b/c now", "[HTTPS://a.com x]", "* HTTP://x.y\n", "== hTTp://q.r ==\n", "''HTTP://x.y''",
              "<pre>{{foo|[bar]}}</pre>", "<pre>[[a|b<nowiki/>c]]</pre>", "{{foo|<span title=\"{{x|[y]}}\">z</span>}}",
              "<pre>{{{1|[d]}}} [x y]</pre>", "<nowiki>{{a|[b]}}</nowiki>", "<math>{{a|[b]}}</math>", "<ref>[[l|x<nowiki/>y]]</ref>"]:
        texts.append(t); klass.append("corpus")
    # shapes that make the rarer primitive operations run: definition lists (temp_head), link trails, brackets taken back
    SHAPES = ["; term : def\n", "; t\n: d\n", ";a:b\n", "* x\n*; h : d\n", "; ''t'' : [[l]]s\n", ";\n: d\n", "; t : d : e\n",
              "[[link]]trail ", "[[a|b]]s, ", "[[a]]'s ", "[[a]]<nowiki/>s ", "[nourl] ", "[ x", "[", "[]", "[http://x.y]", "[//x.y z]",
              "[mailto:a@b c]", "{{a|[}}", "{{a|[http://x.y}}", "<b>[</b>", "''[''", "* [\n", "{|\n| [\n|}\n", "''''' ", "'''' ",
              "''a'''b''c''' ", "{{lc:X}}", "{{PAGENAME}}", "{{#if:a|[[b]]c}}", "{{{1|[[b]]c}}}", "== [[h]]s ==\n", "text "]
    for _ in range(200 if quick else 3000):
        texts.append("".join(rng.choice(SHAPES) for _ in range(rng.randint(1, 5)))); klass.append("shapes")
    # an argument-bearing construct that is closed by force (an end tag of an enclosing element or a rule inside it) while its
    # first argument holds a node
    for _ in range(250 if quick else 4000):
        tag = rng.choice(["b", "i", "div", "span", "small", "center"])
        op, cl = rng.choice([("[[", "]]"), ("{{", "}}"), ("{{{", "}}}"), ("[[File:", "]]"), ("[http://x.y/", "]")])
        first = rng.choice(["", "a", "foo"]) + rng.choice(["{{x}}", "''b''", "{{{1}}}", "'''c'''", "<i>k</i>", "[[l]]", "{{x|y}}"]) + rng.choice(["", "z", ".png"])
        more = rng.choice(["", "|y", "|thumb|<b>cap", "|k=v", " t"])
        breaker = rng.choice(["</%s>" % tag, "\n----\n", "</%s>z" % tag, "\n== h ==\n", "\n|}\n", "</div>"])
        texts.append(rng.choice(["", "* ", "x "]) + "<%s>" % tag + rng.choice(["", "t "]) + op + first + more + breaker + rng.choice(["", "w"]) + cl)
        klass.append("forced")
    for t in ["a" + MAGIC + "b", "{{X" + MAGIC + "}}", "[[" + MAGIC + "]]", "<b>" + MAGIC, "* " + MAGIC + "\n"]:
        texts.append(t); klass.append("placeholder")
    jobs, owner = [], []
    for kw in ({}, {"pre_expand": True}, {"expand_all": True}):
        sel = list(range(len(texts))) if not kw else [i for i in range(len(texts)) if i % 4 == 0 and klass[i] != "placeholder"]
        if kw:
            # inputs holding a placeholder character: each in a job of its own with a short limit (one of them does not return)
            for i in range(len(texts)):
                if klass[i] == "placeholder":
                    jobs.append({"texts": [texts[i]], "kw": kw, "_timeout": 8})
                    owner.append(([i], kw))
        for k in range(0, len(sel), 120):
            part = sel[k:k + 120]
            jobs.append({"texts": [texts[i] for i in part], "kw": kw, "_timeout": 300})
            owner.append((part, kw))
    res = lib.run_impl("parse_many", jobs, shards=lib.NCPU)
    coq_cases, refs = [], []
    for (part, kw), r in zip(owner, res):
        if r.get("outcome") != "ok" and len(part) == 1 and klass[part[0]] == "placeholder":
            run.count([klass[part[0]], texts[part[0]], kw], False, "placeholder+opts")
            run.property_failure("c01:does-not-return:placeholder-in-input", "parse(%r, %r) did not return within 8 s (%s)"
                                 % (texts[part[0]], kw, r.get("outcome")), {"text": texts[part[0]], "kw": kw})
            continue
        if r.get("outcome") != "ok":
            run.property_failure("c01:batch:%s" % r.get("outcome"), "parse batch did not finish (%r): first text %r"
                                 % (r.get("outcome"), texts[part[0]][:200]), {"text": texts[part[0]], "kw": kw})
            continue
        for i, o in zip(part, r["outs"]):
            t = texts[i]
            natoms = sum(t.count(a) for a in ("{{", "[[", "<", "|", "''", "\n*", "=="))
            run.count([klass[i], t, kw], natoms >= 3, klass[i] + ("+opts" if kw else ""))
            has_magic = any(0x10203D <= ord(ch) <= 0x10FFF0 for ch in t)
            if "raised" in o:
                sig = "c01:raised:%s:%s" % (o["raised"], "placeholder-in-input" if has_magic else o["where"])
                if has_magic and o["raised"] == "CaseTimeout":
                    sig = "c01:does-not-return:placeholder-in-input"
                run.property_failure(sig, "parse(%r, %r) raised %s in %s" % (t[:300], kw, o["raised"], o["where"]), {"text": t, "kw": kw})
                continue
            if o["pstack"] != 0:
                run.property_failure("c01:open-node-state-left", "parser_stack has %d nodes after parse(%r)" % (o["pstack"], t[:300]),
                                     {"text": t, "kw": kw})
            if not has_magic:
                # "no internal placeholder character appears anywhere in the tree": attribute names and values and the sarg
                # field too (strings in child lists and arguments are clause 1 of Model.Tree.wf)
                where = placeholder_outside_strings(o["tree"])
                if where:
                    run.property_failure("c01:not-well-formed:placeholder-in-%s" % where[0],
                                         "parse(%r, %r): an internal placeholder character is left in %s of a %s node"
                                         % (t[:300], kw, where[0], where[1]), {"text": t, "kw": kw})
            if tree_size(o["tree"]) > 3000:
                continue
            coq_cases.append(coq_node(o["tree"]))
            refs.append((i, kw, has_magic))
    bad, errs = lib.coq_eval_failing("c01", ["Model.Tree"], "node", coq_cases,
                                     "fun n => match wf n with [] => true | _ => false end", chunk=150)
    for e in errs:
        run.correspondence_break("model evaluation failed", None, error=e)
    for b in bad:
        i, kw, has_magic = refs[b]
        out = lib.coq_eval_term(["Model.Tree"], "wf (%s)" % coq_cases[b])
        import re
        m = re.search(r"=\s*\[(.*?)\]", out, flags=re.S)
        clauses = sorted(set(int(x) for x in re.findall(r"\d+", m.group(1)))) if m else []
        names = ",".join(CLAUSES.get(c, str(c)) for c in clauses)
        extra = ":placeholder-in-input" if has_magic else (":heading-line-with-pre" if "level" in names and "<pre" in texts[i].lower() else "")
        if not extra and "level" in names and (re.search(r"^=+[^\n]*=[^\S\n]+=+[^\S\n]*$", texts[i], flags=re.M)
                                               or re.search(r"^=+[^\S\n]+=[^\n]*=[^\S\n]*$", texts[i], flags=re.M)):
            # (any blank that is not a line break: the tokenizer's \s takes U+0085, U+00A0, U+2003 ... as well)
            extra = ":heading-closing-equals-separated-by-blank"
        if not extra and "level" in names and any(
                ln.lstrip().startswith("=") and (ln.count("{{") > ln.count("}}") or ln.count("[[") > ln.count("]]"))
                for ln in texts[i].split("\n")):
            extra = ":heading-title-spans-lines"
        if not extra and "level" in names:
            # a heading inside an HTML element whose end tag stands in the heading's title
            pos = 0
            for ln in texts[i].split("\n"):
                if ln.lstrip().startswith("="):
                    for tag in re.findall(r"</([a-zA-Z0-9]+)", ln):
                        if re.search(r"<" + tag + r"\b", texts[i][:pos], flags=re.I):
                            extra = ":heading-title-holds-end-tag-of-enclosing-element"
                pos += len(ln) + 1
        run.property_failure("c01:not-well-formed:%s%s" % (names, extra),
                             "parse(%r, %r) returned a tree violating clause(s) %s" % (texts[i][:300], kw, names),
                             {"text": texts[i], "kw": kw})
    # ---- the primitive stack operations of real runs, replayed on Model/Stack.v
    stack_traces(run, texts, klass, quick)
    # ---- model correspondence for _parser_merge_str_children
    lists = []
    for _ in range(400 if quick else 5000):
        l = []
        nid = 0
        for _ in range(rng.randint(0, 8)):
            if rng.random() < 0.6:
                l.append(rng.choice(["", "a", "b ", "\n", "", "xy"]))
            else:
                nid += 1
                l.append(nid)
        lists.append(l)
    mres = lib.run_impl("merge", [{"lists": lists}], shards=1)[0]
    if mres.get("outcome") != "ok":
        run.correspondence_break("_parser_merge_str_children could not be driven", None, error=str(mres))
    else:
        from lib import cstr, cnat
        mc = lambda x: ("MStr nat str %s" % cstr(x)) if isinstance(x, str) else ("MNode nat str %s" % cnat(x))
        mcases = ["(%s, %s)" % (clist(l, mc, "mchild nat str"), clist(o, mc, "mchild nat str")) for l, o in zip(lists, mres["outs"])]
        defs = ("From WTP Require Import Base.Str.\nOpen Scope N_scope.\n"
                "Definition mc_eqb (a b : mchild nat str) : bool := match a, b with MStr _ _ x, MStr _ _ y => str_eqb x y "
                "| MNode _ _ x, MNode _ _ y => Nat.eqb x y | _, _ => false end.\n"
                "Fixpoint mcs_eqb (a b : list (mchild nat str)) : bool := match a, b with [], [] => true | x :: a', y :: b' => "
                "mc_eqb x y && mcs_eqb a' b' | _, _ => false end.\n"
                "Definition is_nil (s : str) : bool := match s with [] => true | _ => false end.\n")
        bad, errs = lib.coq_eval_failing("c01m", ["Model.Tree"], "list (mchild nat str) * list (mchild nat str)", mcases,
                                         "fun '(l, o) => mcs_eqb (merge_str_children nat str (@app N) is_nil (fun s => s) l) o",
                                         extra_defs=defs)
        for e in errs:
            run.correspondence_break("model evaluation failed (merge)", None, error=e)
        for b in bad:
            run.correspondence_break("Model.Tree.merge_str_children disagrees with _parser_merge_str_children",
                                     {"children": lists[b], "impl": mres["outs"][b]})
        for l in lists:
            run.count(["merge", l], len(l) >= 3, "merge")
    run.extra["traces_validated_against_impl"] = len(coq_cases)
    run.extra["test_pages_used_for_mutation"] = len(pages)


def trace_item(x):
    from lib import cstr
    return ("IStr %s" % cstr(x)) if isinstance(x, str) else ("INode (%s)" % trace_node(x))


def trace_node(n):
    from lib import copt
    il = lambda l: clist(l, trace_item, "item")
    return "Nd %s %s %s %s %s" % (n["k"], clist(n["a"], il, "list item"), il(n["c"]),
                                  "None" if n["h"] is None else "(Some %s)" % il(n["h"]),
                                  "None" if n["d"] is None else "(Some %s)" % il(n["d"]))


def trace_op(op):
    from lib import cstr
    k = op[0]
    if k == "push":
        return "OPush %s" % op[1]
    if k == "pop":
        return "OPop %s %s %s" % (cbool(op[1]), cbool(op[2]), cbool(op[3]))
    if k == "text":
        return "OText %s" % cstr(op[1])
    if k == "trail":
        return "OTrail %s" % cstr(op[1])
    if k == "tolargs":
        return "OToLargs %s" % cbool(op[1])
    return {"merge": "OMerge", "tohead": "OToHead", "clear": "OClear", "unpush": "OUnpush"}[k]


TRACE_RESULT = {4: "an operation puts a list or table node where it must not be, or text into a LIST", 1: "an operation the model's primitives cannot perform in that state", 2: "the run does not end with only the root open",
                3: "the replayed tree differs from the returned tree"}


def stack_traces(run, texts, klass, quick):
    """Every parse_encoded() call of parse() on the selected inputs is recorded as a sequence of primitive stack operations
    (harness/stacktrace.py); Coq replays the sequence on Model/Stack.v and compares the result with the returned tree."""
    from lib import cstr
    rng = run.rng
    cand = [i for i in range(len(texts)) if klass[i] != "placeholder" and len(texts[i]) <= 400
            and not any(0x10203D <= ord(ch) for ch in texts[i])]
    keep = [i for i in cand if klass[i] in ("corpus", "ladder", "shapes", "forced") and len(texts[i]) <= 200]
    rest = [i for i in cand if i not in set(keep)]
    rng.shuffle(rest)
    sel = keep + rest[:(900 if quick else 20000)]
    jobs, owner = [], []
    for k in range(0, len(sel), 60):
        part = sel[k:k + 60]
        jobs.append({"texts": [texts[i] for i in part], "_timeout": 600})
        owner.append(part)
    res = lib.run_impl("parse_trace", jobs, shards=lib.NCPU)
    cases, refs, nops, kinds_seen = [], [], 0, {}
    for part, r in zip(owner, res):
        if r.get("outcome") != "ok":
            run.correspondence_break("the primitive operations of parse() could not be recorded (%r)" % r.get("outcome"),
                                     {"text": texts[part[0]]})
            continue
        for i, o in zip(part, r["outs"]):
            if "raised" in o:
                continue          # reported by the totality part above
            for rec in o["recs"]:
                if rec["tree"] is None:
                    continue
                if rec["unknown"]:
                    run.correspondence_break("parse() changed the open-node stack in a way that is none of the modelled primitive "
                                             "operations: %s" % "; ".join(rec["unknown"][:3]), {"text": texts[i]})
                    continue
                if len(rec["ops"]) > 1500:
                    continue
                for op in rec["ops"]:
                    kinds_seen[op[0]] = kinds_seen.get(op[0], 0) + 1
                nops += len(rec["ops"])
                table = clist(sorted(rec["table"].items()), lambda kv: "(%d%%N, %s)" % (ord(kv[0]), cstr(kv[1])), "N * text")
                cases.append("(%s, %s, %s, %s)" % (table, cstr(o["title"]), clist(rec["ops"], trace_op, "op"), trace_node(rec["tree"])))
                refs.append(i)
                run.count(["trace", texts[i], len(cases)], len(rec["ops"]) >= 8, "stack-trace")
    defs = "Open Scope N_scope.\n"
    bad, errs = lib.coq_eval_failing("c01s", ["Model.Tree", "Model.Stack"], "list (N * text) * text * list op * node", cases,
                                     "fun '(tb, ti, ops, t) => Nat.eqb (check_trace tb ti ops t) 0", chunk=100, extra_defs=defs)
    for e in errs:
        run.correspondence_break("model evaluation failed (stack traces)", None, error=e)
    for b in bad:
        out = lib.coq_eval_term(["Model.Tree", "Model.Stack"], "(fun '(tb, ti, ops, t) => check_trace tb ti ops t) (%s)" % cases[b],
                                extra_defs=defs)
        import re
        m = re.search(r"=\s*(\d+)", out)
        why = TRACE_RESULT.get(int(m.group(1)) if m else -1, "?")
        run.correspondence_break("Model.Stack (the primitive operations _parser_push/_parser_pop/_parser_merge_str_children and the "
                                 "handlers' direct changes) does not reproduce parse(): %s" % why, {"text": texts[refs[b]]})
    run.extra["stack_traces_replayed"] = len(cases)
    run.extra["stack_operations_replayed"] = nops
    run.extra["stack_operation_kinds"] = kinds_seen


def replay(data):
    case = data.get("case") or data["breaks"][0]["case"]
    print(json.dumps(lib.run_impl("parse_many", [{"texts": [case["text"]], "kw": case.get("kw", {})}])[0])[:3000])
    return 0
