"""C02 — section, list and rule structure follows the nesting model."""
import itertools
import json
import re
import lib
from lib import cnat, clist

FILLERS = ["plain words", "''italic'' and '''bold'''", "a [[link|text]] here", "{{a|x}} call", "<b>html</b> inline",
           "[http://x.y ext] link", "text with : colon and ; semi", "'''''both'''''", "a <span class=\"c\">s</span> b",
           "{{a|{{a|n}}}}", "[[Category:X]]", "word<!-- c -->word", "<nowiki>*#</nowiki> nw", "1 * 2 # 3", "x == y",
           "e.g. -- dashes", "tail&amp;entity",
           # heading-shaped text inside a call or link (it is an argument, never a heading)
           "{{a|==x==}}", "{{a|===x===}}", "[[l|==x==]]", "[[l|====x====]]", "{{a|=x=}} tail", "{{a|k===v==}}", "{{a|\n==x==\n}}"]


LINE_OPENERS = ["<nowiki>*x</nowiki> ", "<nowiki>y</nowiki>", "<nowiki/>", "''i'' ", "'''b''' ", "[[l]] ", "{{a|x}} ", "<b>h</b> ",
                "&amp; ", "<span>s</span> ", "[http://x.y e] ", "{{{1|d}}} ", "-{}-", "~ "]


# (a comment at the start of a line is not in this list: by C15 it is deleted together with the line break before it,
#  which joins the two lines)
TITLE_DECOR = [("''", "''"), ("'''", "'''"), ("[[l|", "]]"), ("", " {{a|x}}"), ("<span class=\"c\">", "</span>"), ("", " <nowiki>=</nowiki>"),
               ("x ", " y"), ("", " [http://x.y e]"), ("{{a}} ", ""), ("", " &amp;"), ("", " (1=2)"), ("<b>", "</b>")]


def render(doc, rng, extras=True):
    """extras=False: every paragraph starts with plain text and ends in a blank line (the grammar of C19)"""
    out = []
    for b in doc:
        if b[0] == "H":
            eq = "=" * b[1]
            # the title may carry inline markup, may touch the '=' runs, and the line may end in blanks
            pre, post = rng.choice(TITLE_DECOR) if rng.random() < 0.35 else ("", "")
            sp = rng.choice([" ", " ", "", "  "])
            out.append("%s%s%sH%d%s%s%s%s\n" % (eq, sp, pre, b[2], post, sp, eq, rng.choice(["", "", " ", "\t"])))
        elif b[0] == "T":
            # the paragraph may begin with any inline construct (every one of them has to close the open lists)
            opener = rng.choice(LINE_OPENERS) if extras and rng.random() < 0.4 else ""
            if extras and not opener and rng.random() < 0.15:
                opener = " "                      # an indented (preformatted) line
            # most paragraphs end in a blank line, some are directly followed by the next block
            out.append("%sP%d %s%s" % (opener, b[1], rng.choice(FILLERS), "\n\n" if not extras or rng.random() < 0.7 else "\n"))
        elif b[0] == "HR":
            out.append("----\n")
        elif b[2] == 0:
            out.append("%s%s\n" % (b[1], rng.choice(["", " ", "  "])))     # a marker alone on its line: an empty item
        else:
            out.append("%s L%d %s\n" % (b[1], b[2], rng.choice(FILLERS)))
    return "".join(out)


# ------------------------------------------------------------ specification (from the property text)
def spec(doc):
    """Right-to-left: a section absorbs what follows until a heading of the same or lower level;
    a rule is absorbed only by sections of level <= 2; list lines form lists by the prefix rule."""
    forest = []
    i = len(doc)
    # group list lines into runs first (left to right), then fold right over blocks
    blocks = []
    j = 0
    while j < len(doc):
        if doc[j][0] == "LI":
            k = j
            while k < len(doc) and doc[k][0] == "LI":
                k += 1
            blocks.append(("LISTS", lists_of([(d[1], d[2]) for d in doc[j:k]])))
            j = k
        else:
            blocks.append(doc[j])
            j += 1
    for b in reversed(blocks):
        if b[0] == "T":
            forest = [["T", b[1]]] + forest
        elif b[0] == "HR":
            forest = [["HR"]] + forest
        elif b[0] == "LISTS":
            forest = b[1] + forest
        else:
            l = b[1]
            n = 0
            while n < len(forest) and absorbs(l, forest[n]):
                n += 1
            forest = [["S", l, b[2], forest[:n]]] + forest[n:]
    return forest


def absorbs(l, it):
    if it[0] == "S":
        return l < it[1]
    if it[0] == "HR":
        return l <= 2
    return True


def lists_of(lines):
    """lines: [(marker, id)] -> forest of ["LIST", marker, [["ITEM", marker, id, [sublists]]]]"""
    top = []                # lists at this level
    path = []               # open items: (marker, item, list)
    for m, i in lines:
        while path and not (m.startswith(path[-1][0]) and True):
            path.pop()
        # now path[-1].marker is a prefix of m (proper or equal) or path is empty
        item = ["ITEM", m, i, []]
        if path and path[-1][0] == m:
            path[-1][2][2].append(item)          # equal markers continue the same list
            lst = path[-1][2]
            path.pop()
            path.append((m, item, lst))
        else:
            lst = ["LIST", m, [item]]
            (path[-1][1][3] if path else top).append(lst)
            path.append((m, item, lst))
    return top


# ------------------------------------------------------------ abstraction of the real tree
def ids(text, prefix):
    return [int(x) for x in re.findall(prefix + r"(\d+)\b", text)]


def flat_text(node):
    if isinstance(node, str):
        return node
    out = []
    for l in node.get("a", []):
        for x in l:
            out.append(flat_text(x))
    for x in node.get("c", []):
        out.append(flat_text(x))
    return "".join(out)


def abstract(children):
    out = []
    for c in children:
        if isinstance(c, str):
            out += [["T", i] for i in ids(c, "P")]
            continue
        k = c["k"]
        if k.startswith("LEVEL"):
            title = flat_text({"a": c.get("a", [])})
            hid = ids(title, "H")
            out.append(["S", int(k[5:]), hid[0] if hid else -1, abstract(c.get("c", []))])
        elif k == "HLINE":
            out.append(["HR"])
        elif k == "LIST":
            out.append(["LIST", c.get("s", ""), [abs_item(x) for x in c.get("c", []) if not isinstance(x, str) or x.strip()]])
        else:
            # inline nodes (bold, links, templates, html): paragraphs inside them still count
            out += [["T", i] for i in ids(flat_text(c), "P")]
    return out


def abs_item(it):
    if isinstance(it, str):
        return ["STRAY", it[:20]]
    if it["k"] != "LIST_ITEM":
        return ["NOTITEM", it["k"]]
    own = "".join(x if isinstance(x, str) else (flat_text(x) if x["k"] != "LIST" else "") for x in it.get("c", []))
    lid = ids(own, "L")
    subs = [x for x in it.get("c", []) if not isinstance(x, str) and x["k"] == "LIST"]
    return ["ITEM", it.get("s", ""), lid[0] if lid else (0 if not own.strip() else -1),
            [["LIST", s.get("s", ""), [abs_item(y) for y in s.get("c", []) if not isinstance(y, str) or y.strip()]] for s in subs]]


# ------------------------------------------------------------ generators
def gen_doc(rng, n, with_lists=True, empties=False):
    doc = []
    hid = pid = lid = 0
    for _ in range(n):
        r = rng.random()
        if r < 0.35:
            hid += 1
            doc.append(["H", rng.randint(1, 6), hid])
        elif r < 0.55:
            pid += 1
            doc.append(["T", pid])
        elif r < 0.65:
            doc.append(["HR"])
        elif with_lists:
            for _ in range(rng.randint(1, 4)):
                lid += 1
                depth = rng.randint(1, 4)
                doc.append(["LI", "".join(rng.choice("*#") for _ in range(depth)), lid])
                if empties and rng.random() < 0.15:
                    doc[-1][2] = 0          # an empty item (id 0): nothing but the marker on the line
        else:
            pid += 1
            doc.append(["T", pid])
    return doc


def marker_walk(rng, n):
    """A run of list lines whose markers wander: same, one level deeper, skipping a level, back to a prefix, other bullet."""
    m = "".join(rng.choice("*#") for _ in range(rng.randint(1, 2)))
    out = [m]
    for _ in range(n - 1):
        r = rng.random()
        prev = out[-1]
        if r < 0.2:
            m = prev
        elif r < 0.4 and len(prev) < 4:
            m = prev + rng.choice("*#")
        elif r < 0.55 and len(prev) < 3:
            m = prev + rng.choice("*#") + rng.choice("*#")
        elif r < 0.85:
            # back to a marker used earlier in this run (typically a prefix)
            m = rng.choice(out)
        elif len(prev) > 1:
            m = prev[:rng.randint(1, len(prev) - 1)]
        else:
            m = rng.choice("*#")
        out.append(m[:4])
    return out


def walk_doc(rng):
    doc = [["H", rng.randint(2, 4), 1]]
    lid = 0
    for m in marker_walk(rng, rng.randint(3, 8)):
        lid += 1
        doc.append(["LI", m, lid if rng.random() > 0.1 else 0])
        if rng.random() < 0.1:
            doc.append(["T", 100 + lid])    # a plain paragraph line directly after a list line
    return doc


def exhaustive_headings(maxlen):
    for n in range(1, maxlen + 1):
        for levels in itertools.product(range(1, 7), repeat=n):
            doc = []
            for i, l in enumerate(levels):
                doc.append(["H", l, i + 1])
                doc.append(["T", i + 1])
            yield doc


def exhaustive_lists(maxlines, maxdepth=3):
    markers = ["".join(m) for d in range(1, maxdepth + 1) for m in itertools.product("*#", repeat=d)]
    for n in range(1, maxlines + 1):
        for ms in itertools.product(markers, repeat=n):
            yield [["H", 2, 1]] + [["LI", m, i + 1] for i, m in enumerate(ms)]


def coq_blk(b, hrid):
    if b[0] == "H":
        return "H %s %s" % (cnat(b[1]), cnat(b[2]))
    if b[0] == "T":
        return "T (PText %s)" % cnat(b[1])
    return "HR %s" % cnat(hrid)


def coq_cblk(b, hrid):
    """a page line for Model/Blocks.v"""
    if b[0] == "H":
        return "BH %s %s" % (cnat(b[1]), cnat(b[2]))
    if b[0] == "T":
        return "BT %s" % cnat(b[1])
    if b[0] == "LI":
        return "BLI %s %s" % (coq_marker(b[1]), cnat(b[2]))
    return "BHR %s" % cnat(hrid)


def coq_items(forest, counter):
    parts = []
    for it in forest:
        if it[0] == "T":
            parts.append("IT (PText %s)" % cnat(it[1]))
        elif it[0] == "LIST":
            parts.append("IT (PList (%s))" % coq_lnode(it))
        elif it[0] == "HR":
            counter[0] += 1
            parts.append("IHR %s" % cnat(counter[0]))
        elif it[0] == "S":
            parts.append("ISec %s %s %s" % (cnat(it[1]), cnat(max(it[2], 0)), coq_items(it[3], counter)))
    return clist(parts, lambda x: x, "item")


def coq_marker(m):
    return clist([cnat(ord(ch)) for ch in m], lambda x: x, "nat")


def coq_lnode(n):
    if n[0] == "LIST":
        return "LL %s %s" % (coq_marker(n[1]), clist([coq_lnode(x) for x in n[2]], lambda x: x, "lnode"))
    return "LI %s %s %s" % (coq_marker(n[1]), cnat(max(n[2], 0)), clist([coq_lnode(x) for x in n[3]], lambda x: x, "lnode"))


def coq_forest(f):
    return clist([coq_lnode(x) for x in f], lambda x: x, "lnode")


def well_shaped(n):
    if n[0] == "LIST":
        return all(x[0] == "ITEM" and well_shaped(x) for x in n[2])
    if n[0] == "ITEM":
        return all(x[0] == "LIST" and well_shaped(x) for x in n[3])
    return False


def collect_lists(forest):
    """all LIST nodes of the abstract tree in document order (they are siblings when the list lines form one block)"""
    out = []
    for it in forest:
        if it[0] == "LIST":
            if not well_shaped(it):
                return None
            out.append(it)
        elif it[0] == "S":
            sub = collect_lists(it[3])
            if sub is None:
                return None
            out += sub
    return out


def collect_all_lists(forest):
    out = []
    for it in forest:
        if it[0] == "LIST":
            out.append(it)
        elif it[0] == "S":
            out += collect_all_lists(it[3])
    return out


def has_lists(forest):
    return any(it[0] == "LIST" or (it[0] == "S" and has_lists(it[3])) for it in forest)


def run(run):
    run.rule = ("documents of headings (levels 1-6), paragraphs with filler from a 17-entry balanced-markup catalogue, horizontal "
                "rules and runs of */# list lines (depth<=4); exhaustive heading-level sequences to length 3 (quick) / 4 "
                "(thorough), exhaustive list-marker sequences (depth<=3) to 2 / 3 lines, random documents to 12 blocks; "
                "non-trivial = at least two headings or two list lines; distinct by JSON hash")
    run.trusted = [
        "Coq 8.16.1 kernel; vm_compute to evaluate Model.Nest.parse and Model.Lists.parse on the block sequences",
        "axioms: none",
        "model coq/Model/Nest.v (stack machine shaped like subtitle_start_fn/hline_fn) tied to parser.py by comparing the "
        "section/rule/paragraph structure of real parse trees with the model's tree; the tokenizer and the inline handlers are "
        "glue under the diff",
        "model coq/Model/Lists.v (machine shaped like list_fn + pop_until_nth_list) tied to parser.py by comparing the list forest "
        "of real parse trees with the model's forest for every document whose list lines form one block",
        "model coq/Model/Blocks.v (list machine on top of the section machine, every other block closes the open lists) tied to "
        "parser.py by comparing the whole real tree of every generated page that has lists with Blocks.parse inside Coq; "
        "definition lists and text continuing a list item are decided by the reference in harness/c02.py",
    ]
    run.prove()
    rng = run.rng
    quick = run.tier == "quick"
    docs = list(exhaustive_headings(3 if quick else 4)) + list(exhaustive_lists(2 if quick else 3))
    for _ in range(1000 if quick else 8000):
        docs.append(gen_doc(rng, rng.randint(1, 12), empties=True))
    for _ in range(200 if quick else 3000):
        docs.append(gen_doc(rng, rng.randint(1, 10), with_lists=False))
    for _ in range(1000 if quick else 10000):
        docs.append(walk_doc(rng))
    texts = [render(d, rng) for d in docs]
    chunks = [texts[i:i + 200] for i in range(0, len(texts), 200)]
    res = lib.run_impl("parse_many", [{"texts": c} for c in chunks], shards=lib.NCPU)
    outs = [o for r in res for o in r["outs"]]
    coq_cases, idx = [], []
    for i, (d, t, o) in enumerate(zip(docs, texts, outs)):
        nh = sum(1 for b in d if b[0] == "H")
        nl = sum(1 for b in d if b[0] == "LI")
        run.count(d, nh >= 2 or nl >= 2, "lists" if nl else "sections")
        if "raised" in o:
            run.property_failure("c02:parse-raised:%s" % o["raised"], "parse raised on %r: %r" % (t, o), t)
            continue
        got = abstract(o["tree"].get("c", []))
        want = spec(d)
        if got != want:
            kind = "lists" if (has_lists(want) or has_lists(got)) and strip_lists(got) == strip_lists(want) else "sections"
            run.property_failure("c02:structure-differs:%s" % kind,
                                 "parse structure %s differs from the nesting model %s" % (json.dumps(got)[:600], json.dumps(want)[:600]), t)
        if nl == 0:
            hr = [0]
            blks = []
            for b in d:
                if b[0] == "HR":
                    hr[0] += 1
                blks.append(coq_blk(b, hr[0]))
            coq_cases.append("(%s, %s)" % (clist(blks, lambda x: x, "blk"), coq_items(got, [0])))
            idx.append(i)
    # the page machine (Model/Blocks.v: list machine on top of the section machine) against the whole real tree
    pcases, pidx = [], []
    for i, (d, t, o) in enumerate(zip(docs, texts, outs)):
        if "raised" in o or not any(b[0] == "LI" for b in d):
            continue
        got = abstract(o["tree"].get("c", []))
        if not all(well_shaped(x) for x in collect_all_lists(got)):
            continue            # stray content inside the lists: reported by the oracle above
        hr = [0]
        blks = []
        for b in d:
            if b[0] == "HR":
                hr[0] += 1
            blks.append(coq_cblk(b, hr[0]))
        pcases.append("(%s, %s)" % (clist(blks, lambda x: x, "cblk"), coq_items(got, [0])))
        pidx.append(i)
    bad, errs = lib.coq_eval_failing("c02p", ["Model.Lists", "Model.Nest", "Model.Blocks"], "list cblk * list item", pcases,
                                     "fun '(d, t) => items_eqb 50 (Blocks.parse d) t", chunk=300)
    for e in errs:
        run.correspondence_break("model evaluation failed (pages)", None, error=e)
    for b in bad:
        run.correspondence_break("Model.Blocks.parse disagrees with the parser's structure of a page with lists", texts[pidx[b]])
    run.extra["pages_with_lists_validated_against_impl"] = len(pcases)
    # list machine (Model/Lists.v) against the real list forest, for documents whose list lines form one block
    lcases, lidx = [], []
    for i, (d, t, o) in enumerate(zip(docs, texts, outs)):
        pos = [k for k, b in enumerate(d) if b[0] == "LI"]
        if not pos or pos[-1] - pos[0] + 1 != len(pos) or "raised" in o:
            continue
        got = collect_lists(abstract(o["tree"].get("c", [])))
        if got is None:
            continue            # stray content inside the lists: reported by the oracle above
        lines = [b for b in d if b[0] == "LI"]
        lcases.append("(%s, %s)" % (clist(["(%s, %s)" % (coq_marker(b[1]), cnat(b[2])) for b in lines], lambda x: x, "marker * nat"),
                                    coq_forest(got)))
        lidx.append(i)
    bad, errs = lib.coq_eval_failing("c02l", ["Model.Lists"], "list (marker * nat) * list lnode", lcases,
                                     "fun '(d, t) => forest_eqb 50 (parse d) t", chunk=300)
    for e in errs:
        run.correspondence_break("model evaluation failed (lists)", None, error=e)
    for b in bad:
        run.correspondence_break("Model.Lists.parse disagrees with the parser's list structure", texts[lidx[b]])
    run.extra["list_blocks_validated_against_impl"] = len(lcases)
    bad, errs = lib.coq_eval_failing("c02", ["Model.Nest"], "list blk * list item", coq_cases,
                                     "fun '(d, t) => items_eqb 50 (parse d) t")
    for e in errs:
        run.correspondence_break("model evaluation failed", None, error=e)
    for b in bad:
        run.correspondence_break("Model.Nest.parse disagrees with the parser's section structure", texts[idx[b]])
    run.extra["traces_validated_against_impl"] = len(coq_cases)


def strip_lists(forest):
    out = []
    for it in forest:
        if it[0] == "LIST":
            continue
        if it[0] == "S":
            out.append(["S", it[1], it[2], strip_lists(it[3])])
        else:
            out.append(it)
    return out


def replay(data):
    case = data.get("case") or data["breaks"][0]["case"]
    print(json.dumps(lib.run_impl("parse_many", [{"texts": [case]}])[0])[:3000])
    return 0
