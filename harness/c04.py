"""C04 — template expansion agrees with the reference transclusion semantics."""
import json
import re
import lib
import regen
import gen_wt as G
from lib import cstr, cbool, clist

FUEL = "N.to_nat 6000"
PRED = ("fun '(l, o, pre, page, out) => match expand_page parser_functions nowiki_map l o pre (%s) page with "
        "Some s => str_eqb s out | None => true end" % FUEL)
CASE_TY = "list tpl * options * bool * enc * str"
IMPORTS = ["Base.Str", "Model.ArgViews", "Model.Expand", "Gen.GenData"]

INCLUDE_WRAPS = [
    ("%s", "{b}"),
    ("<noinclude>doc</noinclude>%s", "{b}"),
    ("%s<noinclude>\n[[Category:X]]</noinclude>", "{b}"),
    ("<includeonly>%s</includeonly>", "{b}"),
    ("junk<onlyinclude>%s</onlyinclude>more junk", "{b}"),
    ("<!-- c -->%s<!-- d\n -->", "{b}"),
    ("<noinclude>a</noinclude>%s<noinclude>unclosed", "{b}"),
    ("pre<onlyinclude>%s</onlyinclude>mid<onlyinclude>Z</onlyinclude>", "{b}Z"),
]


def nowiki_quote(s):
    from_map = json.loads((lib.BUILD / "nowiki_map.json").read_text()) if (lib.BUILD / "nowiki_map.json").exists() else None
    return s


def make_case(rng, flags=None, cyclic=False):
    lib_, names = G.gen_library(rng, cyclic=cyclic, flags=flags)
    page = G.fix_adjacent(G.gen_seq(rng, rng.randint(1, 4), False, names, 4, flags))
    wraps = []
    lib_txt = []
    for ent in lib_:
        if not cyclic and rng.random() < 0.07:
            ent[1] = []                 # a template whose includable part is empty (documentation only, or nothing at all)
    for name, body, pre in lib_:
        w = rng.choice(INCLUDE_WRAPS) if rng.random() < 0.4 else INCLUDE_WRAPS[0]
        wraps.append(w)
        lib_txt.append([name, w[0] % G.render(body), pre])
    if not cyclic and rng.random() < 0.3:
        # the same call more than once on the page: every occurrence expands on its own
        calls = [it for it in page if not isinstance(it, int) and it[0] == "T"]
        if calls:
            dup = rng.choice(calls)
            for _ in range(rng.randint(1, 2)):
                page = list(page) + G.txt(rng.choice([" ", "b", "\n", "x"])) + [dup]
    return {"lib_ast": lib_, "page_ast": page, "lib": lib_txt, "page": G.render(page), "wraps": wraps,
            "opts": {}, "title": "Tt"}


def ast_eq(a, b):
    return json.dumps(a) == json.dumps(b)


def expected_body_ast(case, i):
    """What the stored body should encode to, given the include wrapper."""
    name, body, pre = case["lib_ast"][i]
    w = case["wraps"][i]
    extra = G.txt("Z") if w[1].endswith("Z") else []
    b = list(body) + extra
    if b and isinstance(b[0], int) and chr(b[0]) in "#*;:":
        b = [10] + b
    return b


def clean_ref(s):
    return s


def unquote_marks(ref_out, impl_out):
    """The reference marks inert nowiki text as \\0N..\\0 and raw defaults as \\0RAW..\\0; turn the
    marks into what finalize prints (entity-quoted / literal)."""
    from wikitextprocessor.common import nowiki_quote as nq
    ref_out = re.sub("\0N(.*?)\0", lambda m: nq(m.group(1)) if m.group(1) else "<nowiki/>", ref_out, flags=re.S)
    ref_out = re.sub("\0RAW(.*?)\0", lambda m: m.group(1), ref_out, flags=re.S)
    return ref_out


def label_sig(label):
    return "c13" if label.startswith("sel") else "c04"


SW_SIGS = {1: "c04:switch-default-vs-trailing-bare-item", 2: "c04:switch-bare-default-skips-empty-value"}


def kl_sw_variants(include_plain=False):
    """(kludge, switch variant code, combined signature) for every combination of the known deviations of the base semantics"""
    out = []
    for kl in (False, True):
        for sw in (0, 1, 2, 3):
            if not kl and not sw and not include_plain:
                continue
            sigs = (["c04:trailing-newline-dropped"] if kl else []) + [SW_SIGS[b] for b in (1, 2) if sw & b]
            out.append((kl, sw, "+".join(sigs)))
    return sorted(out, key=lambda x: (x[2].count("+"), x[2]))


def mkref(lib_for_ref, kl, sw, opts, **kw):
    return G.Ref(lib_for_ref, kludge=kl, trim_first=False, switch_default_wins=bool(sw & 1), switch_skip_empty=bool(sw & 2),
                 opts=opts, **kw)


def run_cases(run, cases, label, use_oracle=True):
    res = lib.run_impl("expandlib", [{k: c[k] for k in ("lib", "page", "opts", "title")} for c in cases],
                       shards=lib.NCPU)
    coq_cases, idx = [], []
    for i, (c, r) in enumerate(zip(cases, res)):
        ncalls = c["page"].count("{{") + sum(b.count("{{") for _, b, _ in c["lib"])
        run.count({"lib": c["lib"], "page": c["page"], "opts": c["opts"]}, ncalls >= 2, label)
        if r.get("outcome") != "ok":
            run.property_failure("%s:%s:%s:%s" % (label, r.get("outcome"), r.get("exc", ""), r.get("where", "")),
                                 "expand() did not return normally: %r" % (r,),
                                 {k: c[k] for k in ("lib", "page", "opts", "title")})
            continue
        if not r["stack_ok"]:
            run.correspondence_break("expand_stack not restored", {"lib": c["lib"], "page": c["page"]})
        # glue check: did the implementation parse what the generator meant?
        glue_ok = ast_eq(r["page_ast"], c["page_ast"]) and all(
            ast_eq(r["lib_ast"][j][1], expected_body_ast(c, j)) for j in range(len(c["lib"])))
        run.histogram["glue-%s" % ("ok" if glue_ok else "differs")] = run.histogram.get(
            "glue-%s" % ("ok" if glue_ok else "differs"), 0) + 1
        if use_oracle and glue_ok:
            lib_for_ref = [[n, expected_body_ast(c, j)[1:] if expected_body_ast(c, j)[:1] == [10] and
                            (not c["lib_ast"][j][1] or c["lib_ast"][j][1][0] != 10) else expected_body_ast(c, j), p]
                           for j, (n, _, p) in enumerate(c["lib_ast"])]
            lib_for_ref = [[n, (case_body if True else None), p] for (n, case_body, p) in lib_for_ref]
            ref = G.Ref(lib_for_ref, kludge=False, opts=c["opts"])
            want = unquote_marks(ref.ev(c["page_ast"], None), r["out"])
            if not ref.unsupported and (c["opts"].get("tfn") or c["opts"].get("pfn")) and want == r["out"]:
                norm = lambda calls: [[x[0], x[1], sorted(([str(k), v] for k, v in x[2]))] + x[3:] for x in calls]
                uq = lambda v: unquote_marks(v, "") if isinstance(v, str) else v
                ref.log = [[x[0], x[1], [[k, uq(v)] for k, v in x[2]]] + [uq(y) for y in x[3:]] for x in ref.log]
                known_variant = False
                if norm(ref.log) != norm(r["calls"]):
                    for kl, sw, _nm in kl_sw_variants():
                        rk = mkref(lib_for_ref, kl, sw, c["opts"])
                        rk.ev(c["page_ast"], None)
                        rk.log = [[x[0], x[1], [[k, uq(v)] for k, v in x[2]]] + [uq(y) for y in x[3:]] for x in rk.log]
                        if norm(rk.log) == norm(r["calls"]):
                            known_variant = True
                            break
                late_variant = False
                if norm(ref.log) != norm(r["calls"]) and not known_variant:
                    for lk in ((True, None, False, False), (False, True, False, False), (False, False, True, False), (False, False, False, True)):
                        if lk[0] and c["opts"].get("parserfns", True):
                            continue
                        for kl, sw, _nm in kl_sw_variants(True):
                            rk = mkref(lib_for_ref, kl, sw, c["opts"], leak=lk[0], resplit=lk[1], switch_link_eq=lk[2], link_name_pos=lk[3])
                            rk.ev(c["page_ast"], None)
                            rk.log = [[x[0], x[1], [[k, uq(rk.finish(v) if isinstance(v, str) else v)] for k, v in x[2]]]
                                      + [uq(rk.finish(y) if isinstance(y, str) else y) for y in x[3:]] for x in rk.log]
                            if not rk.unsupported and norm(rk.log) == norm(r["calls"]):
                                late_variant = "c13:unexpanded-parser-function-args-expanded-late" if lk[0] else (
                                    "c04:switch-case-split-at-equals-inside-link" if lk[2] else
                                    "c04:argument-name-with-link-is-positional-in-template-bodies" if lk[3] else
                                    "c04:substituted-value-with-equals-is-resplit")
                                break
                        if late_variant:
                            break
                if late_variant and late_variant.startswith("c04:") and label.startswith("sel"):
                    # a C04 finding met while checking C13: reported by ./check C04, only counted here
                    run.histogram["c04-known-kludge-seen"] = run.histogram.get("c04-known-kludge-seen", 0) + 1
                elif late_variant:
                    run.property_failure(late_variant, "hooks were called %r, expected %r" % (r["calls"], ref.log),
                                         {k: c[k] for k in ("lib", "page", "opts", "title")})
                elif norm(ref.log) != norm(r["calls"]) and known_variant:
                    run.histogram["c04-known-kludge-seen"] = run.histogram.get("c04-known-kludge-seen", 0) + 1
                elif norm(ref.log) != norm(r["calls"]) and any(0x10203D <= ord(ch) <= 0x10FFF0 for ch in json.dumps(r["calls"], ensure_ascii=False)):
                    run.property_failure("c13:hook-args-contain-placeholder",
                                         "hook arguments contain an internal placeholder character: %r" % (r["calls"],),
                                         {k: c[k] for k in ("lib", "page", "opts", "title")})
                elif norm(ref.log) != norm(r["calls"]):
                    run.property_failure("c13:hook-calls-differ",
                                         "hooks were called %r, expected %r" % (r["calls"], ref.log),
                                         {k: c[k] for k in ("lib", "page", "opts", "title")})
            if not ref.unsupported and want != r["out"]:
                sig = None
                for kl, sw, name in kl_sw_variants():
                    r2 = mkref(lib_for_ref, kl, sw, c["opts"])
                    if unquote_marks(r2.ev(c["page_ast"], None), r["out"]) == r["out"]:
                        sig = name
                        break
                leak_sig = None
                if not sig:
                    for lk in ((True, None, False, False), (False, True, False, False), (False, False, True, False), (False, False, False, True)):
                        if lk[0] and c["opts"].get("parserfns", True):
                            continue
                        for kl, sw, _nm in kl_sw_variants(True):
                            r3 = mkref(lib_for_ref, kl, sw, c["opts"], leak=lk[0], resplit=lk[1], switch_link_eq=lk[2], link_name_pos=lk[3])
                            o3 = unquote_marks(r3.finish(r3.ev(c["page_ast"], None)), r["out"])
                            if not r3.unsupported and o3 == r["out"]:
                                leak_sig = "c13:unexpanded-parser-function-args-expanded-late" if lk[0] else (
                                    "c04:switch-case-split-at-equals-inside-link" if lk[2] else
                                    "c04:argument-name-with-link-is-positional-in-template-bodies" if lk[3] else
                                    "c04:substituted-value-with-equals-is-resplit")
                                break
                        if leak_sig:
                            break
                squash = lambda t_: re.sub(r"\s+", "", t_).lower()
                if leak_sig and leak_sig.startswith("c04:") and label.startswith("sel"):
                    run.histogram["c04-known-kludge-seen"] = run.histogram.get("c04-known-kludge-seen", 0) + 1
                    sig = "handled"
                elif leak_sig:
                    run.property_failure(leak_sig, "output %r, reference %r: known deviation (late expansion inside an unexpanded "
                                         "parser function / a substituted value with '=' re-split as a named argument)"
                                         % (r["out"], want), {k: c[k] for k in ("lib", "page", "opts", "title")})
                    sig = "handled"
                if sig == "handled":
                    pass
                elif not sig and label.startswith("sel") and not c["opts"].get("parserfns", True) and "{{#" in c["page"] + str(c["lib"]) \
                        and squash(want) == squash(r["out"]):
                    sig = "c13:identity:whitespace-in-unexpanded-parser-function"
                    run.property_failure(sig, "output %r, reference %r (differs only by blanks in an unexpanded parser function)"
                                         % (r["out"], want), {k: c[k] for k in ("lib", "page", "opts", "title")})
                elif sig and label.startswith("sel"):
                    run.histogram["c04-known-kludge-seen"] = run.histogram.get("c04-known-kludge-seen", 0) + 1
                elif sig:
                    run.property_failure(sig, "output %r, MediaWiki rules give %r" % (r["out"], want),
                                         {k: c[k] for k in ("lib", "page", "opts", "title")})
                else:
                    run.property_failure(label_sig(label) + ":output-differs", "output %r, reference semantics %r" % (r["out"], want),
                                         {k: c[k] for k in ("lib", "page", "opts", "title")})
        # model correspondence on what the implementation really parsed
        if G.has_unsupported(r["page_ast"]) or any(G.has_unsupported(t[1]) for t in r["lib_ast"]):
            run.histogram["model-unsupported-cookie"] = run.histogram.get("model-unsupported-cookie", 0) + 1
            continue
        coq_cases.append("(%s, %s, %s, %s, %s)" % (
            G.coq_lib([[t[0], t[1], t[2]] for t in r["lib_ast"]]), G.coq_opts(c["opts"]),
            cbool(c["opts"].get("pre_expand", False)), G.coq_enc(r["page_ast"]), cstr(r["out"])))
        idx.append(i)
    bad, errs = lib.coq_eval_failing("c04" + label, IMPORTS, CASE_TY, coq_cases, PRED, chunk=120,
                                     extra_defs="Open Scope N_scope.\n")
    for e in errs:
        run.correspondence_break("model evaluation failed", None, error=e)
    for b in bad:
        c = cases[idx[b]]
        run.correspondence_break("Model.Expand.expand_page disagrees with Wtp.expand",
                                 {k: c[k] for k in ("lib", "page", "opts", "title")}, impl_out=res[idx[b]]["out"])
    return res


# ---------------------------------------------------------------- _template_to_body (Model/Body.v)
BODY_ATOMS = ["<!--", "-->", "<noinclude>", "</noinclude>", "<includeonly>", "</includeonly>", "<onlyinclude>", "</onlyinclude>",
              "<onlyinclude/>", "<noinclude/>", "<includeonly/>", "<NoInclude >", "</NOINCLUDE\t>", "<IncludeOnly\n>", "< includeonly>",
              "</ includeonly >", "<includeonly />", "< / includeonly / >", "<OnlyInclude >", "</onlyinclude >", "<onlyinclude />",
              "<noinclude", "<!-", "--", ">", "<", "/", " ", "\n", "a", "b", "{{{1}}}", "{{t}}", "x<y", "-"]


def gen_body_text(rng, info=None):
    if rng.random() < 0.5:
        # mostly well-formed arrangements
        parts = []
        stray = rng.random() < 0.25       # unclosed / stray comment marks inside the elements
        if info is not None:
            info["wf"] = not stray
        for _ in range(rng.randint(1, 6)):
            k = rng.random()
            inner = "".join(rng.choice(["a", "b", " ", "\n", "{{{1}}}", "-", ">", "x"] + (["<!--", "-->", "<!-- c"] if stray else []))
                            for _ in range(rng.randint(0, 4)))
            case = lambda t: "".join(ch.upper() if rng.random() < 0.2 else ch for ch in t)
            ws = lambda: rng.choice(["", "", " ", "\n"])
            if k < 0.25:
                parts.append(inner)
            elif k < 0.4:
                parts.append("<!--" + inner + "-->")
            elif k < 0.6:
                parts.append("<" + case("noinclude") + ws() + ">" + inner + "</" + case("noinclude") + ws() + ">")
            elif k < 0.8:
                parts.append("<" + case("includeonly") + ws() + ">" + inner + "</" + case("includeonly") + ws() + ">")
            elif k < 0.95:
                parts.append("<" + case("onlyinclude") + ws() + ">" + inner + rng.choice(["", "<!--c-->", "<noinclude>n</noinclude>"])
                             + "</" + case("onlyinclude") + ws() + ">")
            else:
                parts.append(rng.choice(["<noinclude>", "<!--", "<onlyinclude>", "</noinclude>", "-->"]) + inner)
                if info is not None:
                    info["wf"] = False
        return "".join(parts)
    return "".join(rng.choice(BODY_ATOMS) for _ in range(rng.randint(1, 9)))


def check_template_body(run, rng, quick):
    infos = [{} for _ in range(1500 if quick else 40000)]
    texts = [gen_body_text(rng, info) for info in infos]
    res = lib.run_impl("template_body", [{"texts": texts[i:i + 500]} for i in range(0, len(texts), 500)], shards=lib.NCPU)
    outs = []
    for r in res:
        if r.get("outcome") != "ok":
            run.correspondence_break("_template_to_body could not be run", None, error=str(r)[:500])
            return
        outs += r["outs"]
    cases = []
    for t, o in zip(texts, outs):
        run.count(["body", t], "<" in t, "template-body")
        cases.append("(%s, %s)" % (cstr(t), cstr(o)))
    bad, errs = lib.coq_eval_failing("c04b", ["Base.Str", "Model.Body"], "str * str", cases,
                                     "fun '(t, o) => str_eqb (template_to_body t) o", chunk=300)
    for e in errs:
        run.correspondence_break("model evaluation failed (template body)", None, error=e)
    for b in bad:
        if infos[b].get("wf"):
            # inside the grammar of c04_includable_part: the model's result is the documented includable part
            run.property_failure("c04:template-body:not-the-includable-part",
                                 "_template_to_body(%r) = %r is not the includable part of a well-formed arrangement of "
                                 "comments and noinclude/includeonly/onlyinclude elements" % (texts[b], outs[b]), {"text": texts[b]})
        else:
            run.correspondence_break("Model.Body.template_to_body disagrees with Wtp._template_to_body",
                                     {"text": texts[b]}, impl_out=outs[b])


# ---------------------------------------------------------------- the flat fragment: the rule of Model/FlatCall.v against Wtp.expand
FLAT_TEXT = ["a", "b ", " c", "x\n", "\n", "*", "#", ":", ";", "=", "-", "1", " ", "it", "{|", "."]
FLAT_KEYS = ["1", "2", "3", "k", "q", "a b", " 1 ", "01", " k ", "K", "10"]
FLAT_DEFAULTS = ["", "d", " d ", "d\n", "x=y", "*"]
FLAT_ARGS = ["x", " x ", "x\n", "\nx", "a=b", " k = v ", "2=w", "k=z", "1=", "=v", "", "   ", "01=q", "k=x\n", "q= \n", "K=u",
             "a b=c", "a  b = c", "3=t\n", "*", "y", "10=ten", "0=z", "-1=m"]


def gen_flat(rng):
    name = rng.choice(["s", "b", "Tq", "x y", "zz", "s"])
    call = name if rng.random() < 0.8 else rng.choice([name[0].lower() + name[1:], name.replace(" ", "_"), " " + name + " "])
    present = rng.random() < 0.88
    parts = []
    for _ in range(rng.randint(0, 6)):
        r = rng.random()
        if r < 0.5:
            parts.append(rng.choice(FLAT_TEXT))
        elif r < 0.8:
            parts.append("{{{%s}}}" % rng.choice(FLAT_KEYS))
        else:
            parts.append("{{{%s|%s}}}" % (rng.choice(FLAT_KEYS), rng.choice(FLAT_DEFAULTS)))
    body = "".join(parts)
    def one_call():
        cl = call if rng.random() < 0.7 else rng.choice([name, "nosuch", name + "x"])
        return "{{" + "|".join([cl] + [rng.choice(FLAT_ARGS) for _ in range(rng.randint(0, 5))]) + "}}"
    page = one_call()
    if rng.random() < 0.4:
        # text and more calls around it (each call is expanded on its own, the text stays)
        page = rng.choice(["", "t ", "a\n", "* "]) + page
        for _ in range(rng.randint(1, 2)):
            page += rng.choice(["", " ", "\n", "x", "\n* ", "=", "|"]) + one_call()
        page += rng.choice(["", " z", "\n"])
    return {"lib": [[name, body, False]] if present else [], "page": page, "opts": {}, "title": "Tt"}


def flat_rule(run, quick):
    """Wtp.expand on flat calls against the fuel-free rule Model.FlatCall.result_of (which c04_flat_calls_follow_the_transclusion_rule
    proves the expander model computes)."""
    rng = run.rng
    cases = [gen_flat(rng) for _ in range(700 if quick else 15000)]
    res = lib.run_impl("expandlib", cases, shards=lib.NCPU)
    coq_cases, idx = [], []
    for i, (c, r) in enumerate(zip(cases, res)):
        run.count({"flat": c["lib"], "page": c["page"]}, c["page"].count("|") >= 2 and bool(c["lib"]), "flat")
        if r.get("outcome") != "ok":
            run.property_failure("flat:%s:%s" % (r.get("outcome"), r.get("exc", "")), "expand() did not return normally: %r" % (r,), c)
            continue
        pa = r["page_ast"]
        if any(not isinstance(x, int) and (x[0] != "T" or any(not isinstance(y, int) for y in x[1][0])) for x in pa) \
                or sum(1 for x in pa if not isinstance(x, int)) != c["page"].count("{{"):
            run.correspondence_break("a generated page of flat calls was not read as text and calls", c, page_ast=pa)
            continue
        # the names as the expander sees them: blanks around the written name are not part of it
        pa = [x if isinstance(x, int) else ["T", [[ord(ch) for ch in "".join(chr(y) for y in x[1][0]).strip()]] + x[1][1:]] for x in pa]
        coq_cases.append("(%s, %s, %s)" % (G.coq_lib([[t[0], t[1], t[2]] for t in r["lib_ast"]]), G.coq_enc(pa), cstr(r["out"])))
        idx.append(i)
    imports = IMPORTS + ["Model.FlatCall"]
    notflat, errs = lib.coq_eval_failing("c04f0", imports, "list tpl * enc * str", coq_cases,
                                         "fun '(l, pg, o) => forallb (flat_item parser_functions l) pg", chunk=350)
    for e in errs:
        run.correspondence_break("model evaluation failed (flat fragment)", None, error=e)
    for b in notflat:
        run.correspondence_break("a generated flat call is outside the fragment of Model.FlatCall.flat_ok", cases[idx[b]])
    bad, errs = lib.coq_eval_failing("c04f", imports, "list tpl * enc * str", coq_cases,
                                     "fun '(l, pg, o) => str_eqb (codes (page_result l pg)) o", chunk=350)
    for e in errs:
        run.correspondence_break("model evaluation failed (flat rule)", None, error=e)
    for b in bad:
        if b in notflat:
            continue
        c = cases[idx[b]]
        want = lib.coq_eval_term(imports, "(fun '(l, pg, o) => codes (page_result l pg)) (%s)" % coq_cases[b])
        run.property_failure("c04:flat-call-differs-from-the-transclusion-rule",
                             "expand(%r) with templates %r gave %r; the transclusion rule (Model.FlatCall.page_result) gives code points %s"
                             % (c["page"], c["lib"], res[idx[b]]["out"], " ".join(want.split())[:300]), c)
    run.extra["flat_calls_checked_against_the_rule"] = len(coq_cases)


def if_rule(run, quick):
    """{{#if: cond | a | b}} with plain arguments against Model.FlatCall.if_result (c04_if_with_plain_arguments)."""
    rng = run.rng
    CONDS = ["", " ", "x", " x ", "\n", "\n y \n", "0", "a=b", "  \t"]
    VALS = ["", "a", " a ", "\na\n", "*li", " #n", ":d", ";t", "{|", "x=y", "b c", "\n*z\n", " "]
    cases = []
    for _ in range(250 if quick else 4000):
        cond = rng.choice(CONDS)
        more = [rng.choice(VALS) for _ in range(rng.randint(0, 3))]
        cases.append({"lib": [], "page": "{{#if:" + "|".join([cond] + more) + "}}", "opts": {}, "title": "Tt", "_cond": cond, "_more": more})
    res = lib.run_impl("expandlib", [{k: c[k] for k in ("lib", "page", "opts", "title")} for c in cases], shards=lib.NCPU)
    coq_cases, idx = [], []
    for i, (c, r) in enumerate(zip(cases, res)):
        run.count({"if": c["page"]}, len(c["_more"]) >= 2, "if-plain")
        if r.get("outcome") != "ok":
            run.property_failure("if:%s:%s" % (r.get("outcome"), r.get("exc", "")), "expand() did not return normally: %r" % (r,), {"lib": [], "page": c["page"], "opts": {}, "title": "Tt"})
            continue
        pa = r["page_ast"]
        if len(pa) != 1 or isinstance(pa[0], int) or pa[0][0] != "T" or any(not isinstance(y, int) for a in pa[0][1] for y in a):
            run.correspondence_break("a generated #if call was not read as one call with plain arguments", {"lib": [], "page": c["page"], "opts": {}, "title": "Tt"}, page_ast=pa)
            continue
        first = pa[0][1][0]
        if first[:4] != [35, 105, 102, 58]:
            run.correspondence_break("a generated #if call does not start with the function name", {"lib": [], "page": c["page"], "opts": {}, "title": "Tt"}, page_ast=pa)
            continue
        coq_cases.append("(%s, %s, %s)" % (G.coq_enc(first[4:]), clist(pa[0][1][1:], G.coq_enc, "enc"), cstr(r["out"])))
        idx.append(i)
    bad, errs = lib.coq_eval_failing("c04i", IMPORTS + ["Model.FlatCall"], "enc * list enc * str", coq_cases,
                                     "fun '(c, m, o) => str_eqb (codes (if_result c m)) o", chunk=350)
    for e in errs:
        run.correspondence_break("model evaluation failed (#if rule)", None, error=e)
    for b in bad:
        c = cases[idx[b]]
        run.property_failure("c04:if-differs-from-its-rule", "expand(%r) gave %r; Model.FlatCall.if_result says otherwise"
                             % (c["page"], res[idx[b]]["out"]), {"lib": [], "page": c["page"], "opts": {}, "title": "Tt"})
    run.extra["if_calls_checked_against_the_rule"] = len(coq_cases)
    # ---- #ifeq
    XS = ["", "a", " a ", "A", "1", "01", "1.0", "a b", "a  b", "\na", "x=y"]
    cases = []
    for _ in range(250 if quick else 4000):
        x = rng.choice(XS)
        more = [rng.choice(XS if k == 0 else VALS) for k in range(rng.randint(0, 4))]
        if more and rng.random() < 0.4:
            more[0] = rng.choice([x, " " + x + " ", x.strip()])
        cases.append({"lib": [], "page": "{{#ifeq:" + "|".join([x] + more) + "}}", "opts": {}, "title": "Tt"})
    res = lib.run_impl("expandlib", cases, shards=lib.NCPU)
    coq_cases, idx = [], []
    for i, (c, r) in enumerate(zip(cases, res)):
        run.count({"ifeq": c["page"]}, c["page"].count("|") >= 3, "ifeq-plain")
        if r.get("outcome") != "ok":
            run.property_failure("ifeq:%s:%s" % (r.get("outcome"), r.get("exc", "")), "expand() did not return normally: %r" % (r,), {"lib": [], "page": c["page"], "opts": {}, "title": "Tt"})
            continue
        pa = r["page_ast"]
        if len(pa) != 1 or isinstance(pa[0], int) or pa[0][0] != "T" or any(not isinstance(y, int) for a in pa[0][1] for y in a) \
                or pa[0][1][0][:6] != [35, 105, 102, 101, 113, 58]:
            run.correspondence_break("a generated #ifeq call was not read as one call with plain arguments", {"lib": [], "page": c["page"], "opts": {}, "title": "Tt"}, page_ast=pa)
            continue
        coq_cases.append("(%s, %s, %s)" % (G.coq_enc(pa[0][1][0][6:]), clist(pa[0][1][1:], G.coq_enc, "enc"), cstr(r["out"])))
        idx.append(i)
    bad, errs = lib.coq_eval_failing("c04j", IMPORTS + ["Model.FlatCall"], "enc * list enc * str", coq_cases,
                                     "fun '(c, m, o) => str_eqb (codes (ifeq_result c m)) o", chunk=350)
    for e in errs:
        run.correspondence_break("model evaluation failed (#ifeq rule)", None, error=e)
    for b in bad:
        c = cases[idx[b]]
        run.property_failure("c04:ifeq-differs-from-its-rule", "expand(%r) gave %r; Model.FlatCall.ifeq_result says otherwise"
                             % (c["page"], res[idx[b]]["out"]), {"lib": [], "page": c["page"], "opts": {}, "title": "Tt"})
    run.extra["ifeq_calls_checked_against_the_rule"] = len(coq_cases)
    # ---- #switch with keyed cases
    KEYS = ["a", " a ", "b", "A", "1", "01", "+1", "1.0", "2", "a b", "#default", " #default ", "#DEFAULT", "", "c"]
    cases = []
    for _ in range(250 if quick else 4000):
        x = rng.choice(["a", " a", "b", "1", "01", "2.0", "zz", "", "A", "a b"])
        kvs = [(rng.choice(KEYS), rng.choice([v for v in VALS if "|" not in v])) for _ in range(rng.randint(0, 5))]
        cases.append({"lib": [], "page": "{{#switch:" + "|".join([x] + [k + "=" + v for k, v in kvs]) + "}}", "opts": {}, "title": "Tt"})
    res = lib.run_impl("expandlib", cases, shards=lib.NCPU)
    coq_cases, idx = [], []
    for i, (c, r) in enumerate(zip(cases, res)):
        run.count({"switch": c["page"]}, c["page"].count("|") >= 2, "switch-keyed")
        if r.get("outcome") != "ok":
            run.property_failure("switch:%s:%s" % (r.get("outcome"), r.get("exc", "")), "expand() did not return normally: %r" % (r,), {"lib": [], "page": c["page"], "opts": {}, "title": "Tt"})
            continue
        pa = r["page_ast"]
        if len(pa) != 1 or isinstance(pa[0], int) or pa[0][0] != "T" or any(not isinstance(y, int) for a in pa[0][1] for y in a) \
                or pa[0][1][0][:8] != [35, 115, 119, 105, 116, 99, 104, 58] or any(61 not in a for a in pa[0][1][1:]):
            run.correspondence_break("a generated #switch call was not read as one call with plain keyed cases", {"lib": [], "page": c["page"], "opts": {}, "title": "Tt"}, page_ast=pa)
            continue
        kv = lambda a: "(%s, %s)" % (G.coq_enc(a[:a.index(61)]), G.coq_enc(a[a.index(61) + 1:]))
        coq_cases.append("(%s, %s, %s)" % (G.coq_enc(pa[0][1][0][8:]), clist(pa[0][1][1:], kv, "enc * enc"), cstr(r["out"])))
        idx.append(i)
    bad, errs = lib.coq_eval_failing("c04k", IMPORTS + ["Model.FlatCall"], "enc * list (enc * enc) * str", coq_cases,
                                     "fun '(x, cs, o) => forallb case_ok cs && str_eqb (codes (add_newline (switch_result (strip_i x) cs None))) o",
                                     chunk=350)
    for e in errs:
        run.correspondence_break("model evaluation failed (#switch rule)", None, error=e)
    for b in bad:
        c = cases[idx[b]]
        run.property_failure("c04:switch-differs-from-its-rule", "expand(%r) gave %r; Model.FlatCall.switch_result says otherwise"
                             % (c["page"], res[idx[b]]["out"]), {"lib": [], "page": c["page"], "opts": {}, "title": "Tt"})
    run.extra["switch_calls_checked_against_the_rule"] = len(coq_cases)
    # ---- #switch with keyed cases and a final item without "=" (the default, whatever "#default=" said: fix 4429042)
    cases = []
    LASTS = ["d", " d ", "", "\nd\n", "#default", "a", "*li", "1", " "]
    for _ in range(250 if quick else 4000):
        x = rng.choice(["a", " a", "b", "1", "01", "2.0", "zz", "", "A", "a b"])
        kvs = [(rng.choice(KEYS), rng.choice([v for v in VALS if "|" not in v])) for _ in range(rng.randint(0, 4))]
        cases.append({"lib": [], "page": "{{#switch:" + "|".join([x] + [k + "=" + v for k, v in kvs] + [rng.choice(LASTS)]) + "}}", "opts": {}, "title": "Tt"})
    res = lib.run_impl("expandlib", cases, shards=lib.NCPU)
    coq_cases, idx = [], []
    for i, (c, r) in enumerate(zip(cases, res)):
        run.count({"switch": c["page"]}, "#default" in c["page"].lower(), "switch-trailing-default")
        if r.get("outcome") != "ok":
            run.property_failure("switch:%s:%s" % (r.get("outcome"), r.get("exc", "")), "expand() did not return normally: %r" % (r,), {"lib": [], "page": c["page"], "opts": {}, "title": "Tt"})
            continue
        pa = r["page_ast"]
        if len(pa) != 1 or isinstance(pa[0], int) or pa[0][0] != "T" or any(not isinstance(y, int) for a in pa[0][1] for y in a) \
                or pa[0][1][0][:8] != [35, 115, 119, 105, 116, 99, 104, 58] or len(pa[0][1]) < 2 or any(61 not in a for a in pa[0][1][1:-1]):
            run.correspondence_break("a generated #switch call was not read as one call with plain keyed cases and a final item", {"lib": [], "page": c["page"], "opts": {}, "title": "Tt"}, page_ast=pa)
            continue
        coq_cases.append("(%s, %s, %s, %s)" % (G.coq_enc(pa[0][1][0][8:]), clist(pa[0][1][1:-1], kv, "enc * enc"), G.coq_enc(pa[0][1][-1]), cstr(r["out"])))
        idx.append(i)
    bad, errs = lib.coq_eval_failing("c04w", IMPORTS + ["Model.FlatCall"], "enc * list (enc * enc) * enc * str", coq_cases,
                                     "fun '(x, cs, l, o) => forallb case_ok cs && bare_ok l && str_eqb (codes (add_newline (switch_trailing_result (strip_i x) cs l))) o",
                                     chunk=350)
    for e in errs:
        run.correspondence_break("model evaluation failed (#switch trailing-default rule)", None, error=e)
    for b in bad:
        c = cases[idx[b]]
        run.property_failure("c04:switch-differs-from-its-rule", "expand(%r) gave %r; Model.FlatCall.switch_trailing_result says otherwise"
                             % (c["page"], res[idx[b]]["out"]), {"lib": [], "page": c["page"], "opts": {}, "title": "Tt"})
    run.extra["switch_calls_with_a_trailing_default_checked_against_the_rule"] = len(coq_cases)


def nested_rule(run, quick):
    """a call whose arguments hold flat calls to other templates against Model.FlatCall.nested_result
    (c04_calls_in_arguments_are_expanded_in_the_callers_frame)."""
    rng = run.rng
    cases = []
    for _ in range(400 if quick else 8000):
        def body():
            parts = []
            for _ in range(rng.randint(0, 5)):
                r = rng.random()
                parts.append(rng.choice(FLAT_TEXT) if r < 0.5 else
                             ("{{{%s}}}" % rng.choice(FLAT_KEYS) if r < 0.8 else "{{{%s|%s}}}" % (rng.choice(FLAT_KEYS), rng.choice(FLAT_DEFAULTS))))
            return "".join(parts)
        def obody():
            # half of the outer bodies also hold calls (plain names and arguments) to the other templates
            if rng.random() < 0.5:
                return body()
            parts = []
            for _ in range(rng.randint(1, 4)):
                r = rng.random()
                parts.append(rng.choice(FLAT_TEXT) if r < 0.35 else ("{{{%s}}}" % rng.choice(FLAT_KEYS) if r < 0.6 else
                             "{{" + "|".join([rng.choice(["i", "j", "nosuch"])] + [rng.choice(FLAT_ARGS) for _ in range(rng.randint(0, 2))]) + "}}"))
            return "".join(parts)
        libn = [["O", obody(), False]] + [[nm, body(), False] for nm in ("I", "J") if rng.random() < 0.85]

        def inner():
            nm = rng.choice(["i", "j", "I", "nosuch"])
            return "{{" + "|".join([nm] + [rng.choice(FLAT_ARGS) for _ in range(rng.randint(0, 3))]) + "}}"

        def arg():
            r = rng.random()
            if r < 0.3:
                return rng.choice(FLAT_ARGS)
            pieces = [rng.choice(["", " ", "x", "\n", "a b", "*"])]
            for _ in range(rng.randint(1, 2)):
                pieces += [inner(), rng.choice(["", " ", "y", "\n"])]
            v = "".join(pieces)
            if r < 0.55:
                return rng.choice(["k", " k ", "2", "a b", "q"]) + rng.choice(["=", " = "]) + v
            return v
        page = "{{" + "|".join(["o"] + [arg() for _ in range(rng.randint(1, 4))]) + "}}"
        cases.append({"lib": libn, "page": page, "opts": {}, "title": "Tt"})
    res = lib.run_impl("expandlib", cases, shards=lib.NCPU)
    coq_cases, idx = [], []
    for i, (c, r) in enumerate(zip(cases, res)):
        run.count({"nested": c["lib"], "page": c["page"]}, c["page"].count("{{") >= 3, "nested")
        if r.get("outcome") != "ok":
            run.property_failure("nested:%s:%s" % (r.get("outcome"), r.get("exc", "")), "expand() did not return normally: %r" % (r,), c)
            continue
        pa = r["page_ast"]
        if len(pa) != 1 or isinstance(pa[0], int) or pa[0][0] != "T" or any(not isinstance(y, int) for y in pa[0][1][0]):
            run.correspondence_break("a generated nested call was not read as one call", c, page_ast=pa)
            continue
        # names as the expander sees them (blanks around a written name are not part of it)
        def norm(seq):
            return [x if isinstance(x, int) else ["T", [[ord(ch) for ch in "".join(chr(y) for y in x[1][0]).strip()]] + x[1][1:]]
                    if x[0] == "T" and all(isinstance(y, int) for y in x[1][0]) else x for x in seq]
        args = [norm(a) for a in pa[0][1][1:]]
        coq_cases.append("(%s, %s, %s)" % (G.coq_lib([[t[0], t[1], t[2]] for t in r["lib_ast"]]), clist(args, G.coq_enc, "enc"), cstr(r["out"])))
        idx.append(i)
    imports = IMPORTS + ["Model.FlatCall"]
    ty = "list tpl * list enc * str"
    outside, errs = lib.coq_eval_failing("c04n0", imports, ty, coq_cases, "fun '(l, a, o) => two_level_ok parser_functions l [111] a", chunk=300)
    for e in errs:
        run.correspondence_break("model evaluation failed (nested calls)", None, error=e)
    for b in outside:
        run.correspondence_break("a generated nested call is outside the fragment of Model.FlatCall.two_level_ok", cases[idx[b]])
    bad, errs = lib.coq_eval_failing("c04n", imports, ty, coq_cases, "fun '(l, a, o) => str_eqb (codes (two_level_result l [111] a)) o", chunk=300)
    for e in errs:
        run.correspondence_break("model evaluation failed (nested rule)", None, error=e)
    for b in bad:
        if b in outside:
            continue
        c = cases[idx[b]]
        want = lib.coq_eval_term(imports, "(fun '(l, a, o) => codes (two_level_result l [111] a)) (%s)" % coq_cases[b])
        run.property_failure("c04:nested-call-differs-from-the-transclusion-rule",
                             "expand(%r) with templates %r gave %r; the rule (Model.FlatCall.two_level_result) gives code points %s"
                             % (c["page"], c["lib"], res[idx[b]]["out"], " ".join(want.split())[:300]), c)
    run.extra["nested_calls_checked_against_the_rule"] = len(coq_cases)


def if_calls_rule(run, quick):
    """{{#if: cond | a | b}} whose branches hold text and flat calls against Model.FlatCall.if_calls_result
    (c04_if_with_calls_in_its_branches)."""
    rng = run.rng
    cases = []
    for _ in range(300 if quick else 6000):
        def body():
            parts = []
            for _ in range(rng.randint(0, 5)):
                r = rng.random()
                parts.append(rng.choice(FLAT_TEXT) if r < 0.5 else
                             ("{{{%s}}}" % rng.choice(FLAT_KEYS) if r < 0.8 else "{{{%s|%s}}}" % (rng.choice(FLAT_KEYS), rng.choice(FLAT_DEFAULTS))))
            return "".join(parts)
        libn = [[nm, body(), False] for nm in ("I", "J") if rng.random() < 0.85]

        def inner():
            nm = rng.choice(["i", "j", "I", "nosuch", " j "])
            return "{{" + "|".join([nm] + [rng.choice(FLAT_ARGS) for _ in range(rng.randint(0, 3))]) + "}}"

        def branch():
            r = rng.random()
            if r < 0.2:
                return rng.choice(["", "a", " a ", "\na\n", "*li", "x=y", " "])
            pieces = [rng.choice(["", " ", "x", "\n", "a b", "*", "="])]
            for _ in range(rng.randint(1, 2)):
                pieces += [inner(), rng.choice(["", " ", "y", "\n", " z "])]
            return "".join(pieces)
        cond = rng.choice(["", " ", "x", " x ", "\n", "0", "a=b", "  \t"])
        if rng.random() < 0.4:
            # the condition holds calls as well (c04_if_with_calls_in_its_condition); a template with an empty body makes it blank
            cond = rng.choice(["", " ", "\n"]) + inner() + rng.choice(["", " ", inner()])
        page = "{{#if:" + "|".join([cond] + [branch() for _ in range(rng.randint(0, 3))]) + "}}"
        cases.append({"lib": libn, "page": page, "opts": {}, "title": "Tt"})
    res = lib.run_impl("expandlib", cases, shards=lib.NCPU)
    coq_cases, idx = [], []
    for i, (c, r) in enumerate(zip(cases, res)):
        run.count({"ifcalls": c["lib"], "page": c["page"]}, c["page"].count("{{") >= 3, "if-with-calls")
        if r.get("outcome") != "ok":
            run.property_failure("ifcalls:%s:%s" % (r.get("outcome"), r.get("exc", "")), "expand() did not return normally: %r" % (r,), c)
            continue
        pa = r["page_ast"]
        if len(pa) != 1 or isinstance(pa[0], int) or pa[0][0] != "T" or pa[0][1][0][:4] != [35, 105, 102, 58]:
            run.correspondence_break("a generated #if call was not read as one call", c, page_ast=pa)
            continue
        def norm(seq):
            return [x if isinstance(x, int) else ["T", [[ord(ch) for ch in "".join(chr(y) for y in x[1][0]).strip()]] + x[1][1:]]
                    if x[0] == "T" and all(isinstance(y, int) for y in x[1][0]) else x for x in seq]
        more = [norm(a) for a in pa[0][1][1:]]
        coq_cases.append("(%s, %s, %s, %s)" % (G.coq_lib([[t[0], t[1], t[2]] for t in r["lib_ast"]]), G.coq_enc(norm(pa[0][1][0][4:])),
                                               clist(more, G.coq_enc, "enc"), cstr(r["out"])))
        idx.append(i)
    imports = IMPORTS + ["Model.FlatCall"]
    ty = "list tpl * enc * list enc * str"
    # (if_cond_calls_result is if_calls_result when the condition is plain: page_result_of_plain)
    outside, errs = lib.coq_eval_failing("c04v0", imports, ty, coq_cases, "fun '(l, c, m, o) => if_cond_calls_ok parser_functions l c m", chunk=300)
    for e in errs:
        run.correspondence_break("model evaluation failed (#if with calls)", None, error=e)
    for b in outside:
        run.correspondence_break("a generated #if call is outside the fragment of Model.FlatCall.if_calls_ok", cases[idx[b]])
    bad, errs = lib.coq_eval_failing("c04v", imports, ty, coq_cases, "fun '(l, c, m, o) => str_eqb (codes (if_cond_calls_result l c m)) o", chunk=300)
    for e in errs:
        run.correspondence_break("model evaluation failed (#if with calls rule)", None, error=e)
    for b in bad:
        if b in outside:
            continue
        c = cases[idx[b]]
        want = lib.coq_eval_term(imports, "(fun '(l, c, m, o) => codes (if_cond_calls_result l c m)) (%s)" % coq_cases[b])
        run.property_failure("c04:if-with-calls-differs-from-its-rule",
                             "expand(%r) with templates %r gave %r; the rule (Model.FlatCall.if_calls_result) gives code points %s"
                             % (c["page"], c["lib"], res[idx[b]]["out"], " ".join(want.split())[:300]), c)
    run.extra["if_calls_with_calls_in_branches_checked_against_the_rule"] = len(coq_cases)
    # ---- #ifeq and #switch with calls in their branches / case values
    XS = ["", "a", " a ", "A", "1", "01", "1.0", "a b"]
    KEYS = ["a", " a ", "b", "A", "1", "01", "+1", "1.0", "2", "a b", "#default", " #default ", "#DEFAULT", "c"]
    for kind in ("ifeq", "switch"):
        cases = []
        for _ in range(250 if quick else 5000):
            libn = [[nm, body(), False] for nm in ("I", "J") if rng.random() < 0.85]
            x = rng.choice(XS)
            if kind == "ifeq":
                y = rng.choice([x, " " + x + " ", x.strip()]) if rng.random() < 0.4 else rng.choice(XS)
                if rng.random() < 0.35:
                    # calls in the operands (c04_ifeq_with_calls_in_its_operands): compared after expansion
                    x = rng.choice(["", " "]) + inner() + rng.choice(["", " "])
                    y = rng.choice([x, inner(), rng.choice(XS)])
                page = "{{#ifeq:" + "|".join([x, y] + [branch() for _ in range(rng.randint(0, 3))]) + "}}"
            else:
                if rng.random() < 0.3:
                    # calls in the subject (c04_switch_with_calls_in_its_subject): compared after expansion
                    x = rng.choice(["", " "]) + inner() + rng.choice(["", " "])
                page = "{{#switch:" + "|".join([x] + [rng.choice(KEYS) + "=" + branch() for _ in range(rng.randint(0, 4))]) + "}}"
            cases.append({"lib": libn, "page": page, "opts": {}, "title": "Tt"})
        res = lib.run_impl("expandlib", cases, shards=lib.NCPU)
        head = [35, 105, 102, 101, 113, 58] if kind == "ifeq" else [35, 115, 119, 105, 116, 99, 104, 58]
        coq_cases, idx = [], []
        for i, (c, r) in enumerate(zip(cases, res)):
            run.count({kind + "calls": c["lib"], "page": c["page"]}, c["page"].count("{{") >= 3, kind + "-with-calls")
            if r.get("outcome") != "ok":
                run.property_failure("%scalls:%s:%s" % (kind, r.get("outcome"), r.get("exc", "")), "expand() did not return normally: %r" % (r,), c)
                continue
            pa = r["page_ast"]
            if len(pa) != 1 or isinstance(pa[0], int) or pa[0][0] != "T" \
                    or pa[0][1][0][:len(head)] != head or (kind == "switch" and any(61 not in a for a in pa[0][1][1:])):
                run.correspondence_break("a generated #%s call was not read as one call (with keyed cases)" % kind, c, page_ast=pa)
                continue
            more = [norm(a) for a in pa[0][1][1:]]
            if kind == "ifeq":
                second = clist(more, G.coq_enc, "enc")
            else:
                second = clist(more, lambda a: "(%s, %s)" % (G.coq_enc(a[:a.index(61)]), G.coq_enc(a[a.index(61) + 1:])), "enc * enc")
            coq_cases.append("(%s, %s, %s, %s)" % (G.coq_lib([[t[0], t[1], t[2]] for t in r["lib_ast"]]), G.coq_enc(norm(pa[0][1][0][len(head):])),
                                                   second, cstr(r["out"])))
            idx.append(i)
        if kind == "ifeq":
            ty, okfn, resfn = "list tpl * enc * list enc * str", "ifeq_full_ok parser_functions l c m", "ifeq_full_result l c m"
        else:
            ty, okfn = "list tpl * enc * list (enc * enc) * str", "forallb (flat_item parser_functions l) c && forallb (case_calls_ok parser_functions l) m"
            resfn = "add_newline (switch_calls_result l (strip_i (page_result l c)) m None)"
        outside, errs = lib.coq_eval_failing("c04u0" + kind[0], imports, ty, coq_cases, "fun '(l, c, m, o) => %s" % okfn, chunk=300)
        for e in errs:
            run.correspondence_break("model evaluation failed (#%s with calls)" % kind, None, error=e)
        for b in outside:
            run.correspondence_break("a generated #%s call is outside the fragment of its rule in Model.FlatCall" % kind, cases[idx[b]])
        bad, errs = lib.coq_eval_failing("c04u" + kind[0], imports, ty, coq_cases, "fun '(l, c, m, o) => str_eqb (codes (%s)) o" % resfn, chunk=300)
        for e in errs:
            run.correspondence_break("model evaluation failed (#%s with calls rule)" % kind, None, error=e)
        for b in bad:
            if b in outside:
                continue
            c = cases[idx[b]]
            want = lib.coq_eval_term(imports, "(fun '(l, c, m, o) => codes (%s)) (%s)" % (resfn, coq_cases[b]))
            run.property_failure("c04:%s-with-calls-differs-from-its-rule" % kind,
                                 "expand(%r) with templates %r gave %r; the rule (Model.FlatCall.%s_calls_result) gives code points %s"
                                 % (c["page"], c["lib"], res[idx[b]]["out"], kind, " ".join(want.split())[:300]), c)
        run.extra["%s_calls_with_calls_inside_checked_against_the_rule" % kind] = len(coq_cases)


def body_calls_rule(run, quick):
    """a call to a template whose body holds calls (plain names and arguments) to other templates against
    Model.FlatCall.body_calls_result (c04_calls_in_a_template_body_are_expanded_after_substitution)."""
    rng = run.rng
    cases = []
    for _ in range(400 if quick else 8000):
        def flatbody():
            parts = []
            for _ in range(rng.randint(0, 4)):
                r = rng.random()
                parts.append(rng.choice(FLAT_TEXT) if r < 0.5 else
                             ("{{{%s}}}" % rng.choice(FLAT_KEYS) if r < 0.8 else "{{{%s|%s}}}" % (rng.choice(FLAT_KEYS), rng.choice(FLAT_DEFAULTS))))
            return "".join(parts)

        def obody():
            parts = []
            for _ in range(rng.randint(1, 5)):
                r = rng.random()
                if r < 0.35:
                    parts.append(rng.choice(FLAT_TEXT))
                elif r < 0.6:
                    parts.append("{{{%s}}}" % rng.choice(FLAT_KEYS) if rng.random() < 0.7 else "{{{%s|%s}}}" % (rng.choice(FLAT_KEYS), rng.choice(FLAT_DEFAULTS)))
                else:
                    nm = rng.choice(["i", "j", "I", "nosuch"])

                    def carg():
                        # an argument of a call in the body: text and parameter references (with and without defaults, named)
                        if rng.random() < 0.45:
                            return rng.choice(FLAT_ARGS)
                        pieces = []
                        for _ in range(rng.randint(1, 3)):
                            q = rng.random()
                            pieces.append(rng.choice(["", "x", " ", "k=", "2=", "a b"]) if q < 0.35 else
                                          ("{{{%s}}}" % rng.choice(FLAT_KEYS) if q < 0.75 else
                                           "{{{%s|%s}}}" % (rng.choice(FLAT_KEYS), rng.choice(FLAT_DEFAULTS))))
                        return "".join(pieces)
                    parts.append("{{" + "|".join([nm] + [carg() for _ in range(rng.randint(0, 3))]) + "}}")
            return "".join(parts)
        libn = [["O", obody(), False]] + [[nm, flatbody(), False] for nm in ("I", "J") if rng.random() < 0.85]
        page = "{{" + "|".join(["o"] + [rng.choice(FLAT_ARGS + ["a=b", "1=p=q", "k= u=v "]) for _ in range(rng.randint(0, 3))]) + "}}"
        cases.append({"lib": libn, "page": page, "opts": {}, "title": "Tt"})
    res = lib.run_impl("expandlib", cases, shards=lib.NCPU)
    coq_cases, idx = [], []
    for i, (c, r) in enumerate(zip(cases, res)):
        run.count({"bodycalls": c["lib"], "page": c["page"]}, c["lib"][0][1].count("{{") >= 2, "body-calls")
        if r.get("outcome") != "ok":
            run.property_failure("bodycalls:%s:%s" % (r.get("outcome"), r.get("exc", "")), "expand() did not return normally: %r" % (r,), c)
            continue
        pa = r["page_ast"]
        if len(pa) != 1 or isinstance(pa[0], int) or pa[0][0] != "T" or any(not isinstance(y, int) for a in pa[0][1] for y in a):
            run.correspondence_break("a generated call was not read as one call with plain arguments", c, page_ast=pa)
            continue
        coq_cases.append("(%s, %s, %s)" % (G.coq_lib([[t[0], t[1], t[2]] for t in r["lib_ast"]]), clist(pa[0][1][1:], G.coq_enc, "enc"), cstr(r["out"])))
        idx.append(i)
    imports = IMPORTS + ["Model.FlatCall"]
    ty = "list tpl * list enc * str"
    outside, errs = lib.coq_eval_failing("c04b0", imports, ty, coq_cases, "fun '(l, a, o) => body_params_call_ok parser_functions l [111] a", chunk=300)
    for e in errs:
        run.correspondence_break("model evaluation failed (calls in bodies)", None, error=e)
    run.extra["body_call_cases_outside_the_fragment"] = len(outside)     # e.g. a body call whose written name carries blanks
    bad, errs = lib.coq_eval_failing("c04b", imports, ty, coq_cases, "fun '(l, a, o) => str_eqb (codes (body_params_result l [111] a)) o", chunk=300)
    for e in errs:
        run.correspondence_break("model evaluation failed (body-calls rule)", None, error=e)
    for b in bad:
        if b in outside:
            continue
        c = cases[idx[b]]
        want = lib.coq_eval_term(imports, "(fun '(l, a, o) => codes (body_params_result l [111] a)) (%s)" % coq_cases[b])
        run.property_failure("c04:body-calls-differ-from-the-transclusion-rule",
                             "expand(%r) with templates %r gave %r; the rule (Model.FlatCall.body_params_result) gives code points %s"
                             % (c["page"], c["lib"], res[idx[b]]["out"], " ".join(want.split())[:300]), c)
    run.extra["body_call_cases_checked_against_the_rule"] = len(coq_cases) - len(outside)


def repeat_case(rng):
    """one template used several times from the same place (page, template body, parser-function argument) with different
    arguments, its body falling back to defaults that mention other parameters or calls: every use sees its own arguments"""
    T, A, txt = G.T, G.A, G.txt
    dflt = rng.choice([[A([txt("b")])], [A([txt("b"), txt("nb")])], txt("<") + [A([txt("2")])] + txt(">"),
                       [T([txt("t1"), [A([txt("b")])]])], txt("p") + [A([txt("1"), [A([txt("b")])]])]])
    body = txt(rng.choice(["", "[", "x "])) + [A([txt(rng.choice(["a", "1", "q"])), dflt])] + txt(rng.choice(["", "]", "."]))
    lib_ = [["T0", body, False], ["t1", txt("(") + [A([txt("1"), txt("-")])] + txt(")"), False]]
    vals = ["X", "Y", "Z z", "7", ""]

    def call():
        args = [txt("t0")]
        for k in rng.sample(["b", "2", "a", "1"], rng.randint(0, 2)):
            args.append(txt(k + "=" + rng.choice(vals)))
        return T(args)
    calls = [call() for _ in range(rng.randint(2, 4))]
    where = rng.random()
    if where < 0.5:
        page = []
        for c in calls:
            page += [c] + txt(rng.choice([" ", "", "\n", "/"]))
    elif where < 0.75:
        lib_.append(["T2", sum(([c, 32] for c in calls), []), False])
        page = [T([txt("T2")])] + txt(" ") + [calls[0]]
    else:
        page = [T([txt("#if:x"), sum(([c, 32] for c in calls), [])])]
    page = G.fix_adjacent(page)
    return {"lib_ast": lib_, "page_ast": page, "lib": [[n, G.render(b), p] for n, b, p in lib_], "page": G.render(page),
            "wraps": [INCLUDE_WRAPS[0]] * len(lib_), "opts": {}, "title": "Tt"}


def run(run):
    run.rule = ("acyclic template libraries (<=5 templates, bodies from the expansion grammar: text atoms with interior/"
                "leading/trailing blanks and newlines, {{{n}}}, {{{n|default}}}, positional/named/numeric-named/duplicate "
                "arguments, nested calls, missing templates, #if/#ifeq/#switch incl. fall-through and #default, links) x pages "
                "of nesting depth <=4; bodies wrapped in noinclude/onlyinclude/includeonly/comment arrangements; "
                "non-trivial = at least two calls; distinct by JSON hash; plus flat calls (plain name and arguments - positional, "
                "named, numeric, repeated, blank-padded, ending in line breaks - to a template of text and parameter references "
                "with and without defaults, present or missing) compared with the fuel-free rule Model.FlatCall.result_of")
    run.trusted = [
        "Coq 8.16.1 kernel; vm_compute to evaluate Model.Expand on the encoded pages the implementation parsed",
        "axioms: none",
        "model coq/Model/Expand.v tied to core.py:Wtp.expand by output comparison; the text->cookie step (_encode, "
        "preprocess_text, _template_to_body) is glue: the ASTs the implementation really built are read back from its "
        "cookie table and compared with the generator's intent (histogram glue-ok/glue-differs)",
        "reference semantics harness/gen_wt.py:Ref written from the property text decides property failures",
        "Gen/GenData.v (parser function names, nowiki map) regenerated from the live modules; Gen/GenBody.v (the regex passes of "
        "_template_to_body) regenerated by translate/body.py (Python ast, refuses any other statement: fail-closed)",
    ]
    errs = regen.regen(["GenData", "GenBody"])
    for k, v in errs.items():
        run.correspondence_break("translator %s failed" % k, None, error=v)
    run.prove()
    rc, out = lib.coq_make(["Gen/GenData.vo", "Model/Expand.vo", "Model/Body.vo", "Model/FlatCall.vo"])
    if rc != 0:
        run.correspondence_break("Gen/GenData.v, Model/Expand.v or Model/Body.v does not build", None, error=out[-1500:])
    check_template_body(run, run.rng, run.tier == "quick")
    n = 1200 if run.tier == "quick" else 20000
    cases = [make_case(run.rng) for _ in range(n)] + [repeat_case(run.rng) for _ in range(n // 8)]
    run_cases(run, cases, "acyclic")
    flat_rule(run, run.tier == "quick")
    if_rule(run, run.tier == "quick")
    nested_rule(run, run.tier == "quick")
    if_calls_rule(run, run.tier == "quick")
    body_calls_rule(run, run.tier == "quick")
    run.extra["traces_validated_against_impl"] = run.evaluations


def replay(data):
    case = data.get("case") or data["breaks"][0]["case"]
    print(lib.run_impl("expandlib", [case])[0])
    return 0
