"""C18 — parser functions compute their documented values."""
import itertools
import json
import lib
import regen
from lib import cstr, clist, cN

# ---------------------------------------------------------------- #expr
BOPS = {  # name -> (coq ctor, level, spellings)
    "or": ("BOr", 1, ["or"]), "and": ("BAnd", 2, ["and"]),
    "=": ("BEq", 3, ["="]), "!=": ("BNe", 3, ["!=", "<>"]), "<": ("BLt", 3, ["<"]), ">": ("BGt", 3, [">"]),
    "<=": ("BLe", 3, ["<="]), ">=": ("BGe", 3, [">="]),
    "round": ("BRound", 4, ["round"]), "+": ("BAdd", 5, ["+"]), "-": ("BSub", 5, ["-"]),
    "*": ("BMul", 6, ["*"]), "/": ("BDiv", 6, ["/", "div"]), "mod": ("BMod", 6, ["mod"]), "^": ("BPow", 7, ["^"]),
}
UOPS = {"-": "UNeg", "+": "UPos", "not": "UNot", "abs": "UAbs", "ceil": "UCeil", "floor": "UFloor", "trunc": "UTrunc"}
PREFIX_LEVEL = 8


def gen_ast(rng, depth):
    if depth == 0 or rng.random() < 0.25:
        return ("num", rng.randint(0, 12))
    if rng.random() < 0.25:
        op = rng.choice(list(UOPS))
        return ("un", op, gen_ast(rng, depth - 1))
    op = rng.choice(list(BOPS))
    if op == "round":
        return ("bin", op, gen_ast(rng, depth - 1), ("num", 0))
    if op == "^":
        return ("bin", op, ("num", rng.randint(0, 3)), ("num", rng.randint(0, 2)))
    return ("bin", op, gen_ast(rng, depth - 1), gen_ast(rng, depth - 1))


def level(a):
    if a[0] == "num":
        return 11
    if a[0] == "un":
        return PREFIX_LEVEL
    return BOPS[a[1]][1]


def render(rng, a, full, need=0):
    def word(w):
        if w.isalpha():
            return "".join(c.upper() if rng.random() < 0.3 else c for c in w)
        return w
    sp = lambda: rng.choice(["", " ", "  "])
    if a[0] == "num":
        s = str(a[1])
    elif a[0] == "un":
        inner = render(rng, a[2], full, 11 if a[1] == "+" else PREFIX_LEVEL)
        s = word(a[1]) + (" " if a[1].isalpha() else sp()) + inner
    else:
        lv = BOPS[a[1]][1]
        l = render(rng, a[2], full, lv)
        r = render(rng, a[3], full, lv + 1)
        opw = word(rng.choice(BOPS[a[1]][2]))
        pad = " " if opw.isalpha() else sp()
        s = l + (pad or (" " if opw.isalpha() else "")) + opw + (pad or "") + r
        if opw.isalpha():
            s = l + " " + opw + " " + r
    if full and a[0] != "num" or level(a) < need:
        s = "(" + sp() + s + sp() + ")"
    return s


def coq_ast(a):
    if a[0] == "num":
        return "(Num %s)" % cN(a[1])
    if a[0] == "un":
        return "(Un %s %s)" % (UOPS[a[1]], coq_ast(a[2]))
    return "(Bin %s %s %s)" % (BOPS[a[1]][0], coq_ast(a[2]), coq_ast(a[3]))


# ---------------------------------------------------------------- #expr parser model (Model/ExprParse.v)
# ladder indexes as in Gen/GenLadder.v: binary levels 0..6, prefix level 7, binary "e" 8, atoms 9
LV = {n: v[1] - 1 for n, v in BOPS.items()}
PRE_LV = 7
ALL_PREFIX = ["-", "+", "not", "ceil", "trunc", "floor", "abs", "sqrt", "exp", "ln", "sin", "cos", "tan", "acos", "asin", "atan"]


def lvl_g(a):
    return 9 if a[0] == "num" else PRE_LV if a[0] == "un" else LV[a[1]]


def toks_min(a, ctx=0):
    """minimal parenthesisation for the documented ladder, as a token list"""
    if a[0] == "num":
        t = [a[1]]
    elif a[0] == "un":
        t = [a[1]] + toks_min(a[2], PRE_LV)
    else:
        i = LV[a[1]]
        t = toks_min(a[2], i) + [a[1]] + toks_min(a[3], i + 1)
    return ["("] + t + [")"] if lvl_g(a) < ctx else t


def coq_tok(t):
    return "TNum %s" % cN(t) if isinstance(t, int) else "TLp" if t == "(" else "TRp" if t == ")" else 'TOp "%s"' % t


def coq_gast(a):
    if a[0] == "num":
        return "(GNum %s)" % cN(a[1])
    if a[0] == "un":
        return '(GUn "%s" %s)' % (a[1], coq_gast(a[2]))
    return '(GBin "%s" %s %s)' % (a[1], coq_gast(a[2]), coq_gast(a[3]))


SOUP = [0, 1, 2, 3, 7, 10, "(", ")", "(", ")", "-", "+", "-", "+", "*", "/", "div", "mod", "^", "round", "=", "!=", "<>", "<", ">",
        "<=", ">=", "and", "or", "not", "abs", "ceil", "floor", "trunc", "sqrt", "ln"]
# ("e" is left out of the random soups: where an operand is expected it is the constant e, which the machine has no token for)
# sign runs after every kind of operator (the operand parsers below the ladder handle the signs themselves)
SIGN_CORPUS = [[2, "e", "-", "-", 1], [2, "e", "-", "+", 1], [3, "e", "-", "-", 2, "*", 2], [1, "e", "+", "-", "+", 1], [2, "e", "-", "-", "-", 1],
               [2, "^", "-", "-", 1], [3, "-", "-", "-", 1], [2, "*", "-", "+", "-", 3], ["-", "-", 2, "e", "-", 1], ["not", "-", "-", 0],
               [5, "e", "+", 1], [5, "e", "+", "+", 1], ["-", 2, "e", 2], [2, "e", "(", "-", "(", "-", 1, ")", ")"], [1, "e", "-", "not", 0]]
EXPR_DEFS = ("Open Scope string_scope.\nFrom WTP Require Import Gen.GenLadder.\n"
             "Definition conv (l : list (level_kind * list string)) : list level :=\n"
             "  map (fun x => (match fst x with BinaryLeft => LBin | PrefixFns => LPre end, snd x)) l.\n"
             "Definition L := conv ladder.\n")


def check_expr_parser(run, asts, rng, quick):
    """Model/ExprParse.parse (the ladder machine the theorem is about) against expr_fn: (1) on the token lists of the
    generated trees -- Coq's own printer must give the same tokens, the model must read the tree back, and the value
    must be the implementation's; (2) on token soups -- the model and the implementation must agree on error/value."""
    tok_cases = [toks_min(a) for a in asts]
    soups = []
    for _ in range(1500 if quick else 30000):
        soups.append([rng.choice(SOUP) for _ in range(rng.randint(1, 9))])
    soups = SIGN_CORPUS + soups
    # documented values of some of the sign runs (every "-" of a run negates; redundant parentheses change nothing)
    sign_values = {"2 e - - 1": "20", "3 e - - 2 * 2": "600", "2 e - - - 1": "0.2", "2 ^ - - 1": "2", "3 - - - 1": "2",
                   "- - 2 e - 1": "0.2", "2 e ( - ( - 1 ) )": "20", "5 e + 1": "50", "- 2 e 2": "-200", "not - - 0": "1"}
    texts = ["{{#expr: " + " ".join(map(str, t)) + "}}" for t in tok_cases + soups]
    chunks = [texts[i:i + 250] for i in range(0, len(texts), 250)]
    res = lib.run_impl("expand_many", [{"texts": c} for c in chunks], shards=lib.NCPU)
    outs = [o for r in res for o in (r.get("outs") or [["harness", r.get("outcome")]] * 250)]
    a_cases, a_idx, s_cases, s_idx = [], [], [], []
    for i, t in enumerate(tok_cases + soups):
        key = " ".join(map(str, t))
        if i >= len(tok_cases) and key in sign_values:
            o_ = outs[i] if i < len(outs) else None
            if o_ is not None and (o_[0] != "ok" or o_[1] != sign_values[key]):
                run.property_failure("expr:value-differs-from-reference:sign-run",
                                     "{{#expr: %s}} -> %r, documented value %s" % (key, o_, sign_values[key]), {"texts": [texts[i]]})
        o = outs[i]
        run.count(["expr-tokens", texts[i]], len(t) >= 4, "expr-tree-tokens" if i < len(tok_cases) else "expr-token-soup")
        if o[0] != "ok":
            run.histogram["expr-raised"] = run.histogram.get("expr-raised", 0) + 1      # C05's business
            continue
        iserr = 'class="error"' in o[1] or "Divide by zero" in o[1] or "sqrt of negative" in o[1]
        if i < len(tok_cases):
            a_cases.append("(%s, %s, %s, %s)" % (coq_gast(asts[i]), clist(t, coq_tok, "tok"), cstr(o[1]), lib.cbool(iserr)))
            a_idx.append(i)
        else:
            s_cases.append("(%s, %s, %s)" % (clist(t, coq_tok, "tok"), cstr(o[1]), lib.cbool(iserr)))
            s_idx.append(i)
    value = ("match to_ast g with Some a => match eval a with Some z => negb iserr && str_eqb (show_Z z) o | None => true end "
             "| None => true end")
    bad, cerrs = lib.coq_eval_failing(
        "c18p", ["Base.Str", "Model.ParserFns", "Model.ExprParse"], "gast * list tok * str * bool", a_cases,
        "fun '(g, ts, o, iserr) => toks_eqb (pr L g) ts && match ExprParse.parse L 400 L ts with "
        "Some (g', []) => gast_eqb g g' | _ => false end && " + value, chunk=300, extra_defs=EXPR_DEFS)
    for e in cerrs:
        run.correspondence_break("model evaluation failed (expr parser, trees)", None, error=e)
    for b in bad:
        run.correspondence_break("Model.ExprParse (printer, ladder parser, value) disagrees with expr_fn on a generated tree",
                                 {"texts": [texts[a_idx[b]]]}, impl=outs[a_idx[b]])
    bad, cerrs = lib.coq_eval_failing(
        "c18s", ["Base.Str", "Model.ParserFns", "Model.ExprParse"], "list tok * str * bool", s_cases,
        "fun '(ts, o, iserr) => match ExprParse.parse L 400 L ts with None => iserr | Some (g, _) => " + value + " end",
        chunk=300, extra_defs=EXPR_DEFS)
    for e in cerrs:
        run.correspondence_break("model evaluation failed (expr parser, soups)", None, error=e)
    for b in bad:
        run.correspondence_break("Model.ExprParse.parse disagrees with expr_fn on a token sequence (accept/reject or value)",
                                 {"texts": [texts[s_idx[b]]]}, impl=outs[s_idx[b]])


# ---------------------------------------------------------------- string functions
FN_IDS = {"#len": "FLen", "#pos": "FPos", "#rpos": "FRpos", "#sub": "FSub", "#replace": "FReplace",
          "#explode": "FExplode", "padleft": "FPadleft", "padright": "FPadright", "lc": "FLc", "uc": "FUc",
          "lcfirst": "FLcfirst", "ucfirst": "FUcfirst", "plural": "FPlural"}
ALPHA = "ab c"


def rand_str(rng, maxlen=8, alpha=ALPHA):
    return "".join(rng.choice(alpha) for _ in range(rng.randint(0, maxlen)))


def gen_call(rng):
    fn = rng.choice(list(FN_IDS))
    s = rand_str(rng).strip()           # name:arg0 is stripped as a whole by the expander, so arg0 arrives stripped
    off = str(rng.randint(-10, 10))
    if fn == "#len":
        args = [s]
    elif fn in ("#pos", "#rpos"):
        args = [s, rand_str(rng, 2)] + ([str(rng.randint(0, 10))] if rng.random() < 0.6 else [])
    elif fn == "#sub":
        args = [s, off] + ([str(rng.randint(-10, 10))] if rng.random() < 0.7 else [])
    elif fn == "#replace":
        args = [s, rand_str(rng, 2), rand_str(rng, 2)]
    elif fn == "#explode":
        if rng.random() < 0.6:
            # many pieces, a delimiter that occurs, positions from both ends, limits below/at/above the piece count
            pieces = [rand_str(rng, 2, "abc") for _ in range(rng.randint(1, 6))]
            delim = rng.choice(["/", " ", "--", "b"])
            s = delim.join(pieces).strip()
            args = [s, delim, str(rng.randint(-7, 7))] + ([str(rng.randint(-1, 7))] if rng.random() < 0.7 else [])
        else:
            args = [s, rand_str(rng, 2), off] + ([str(rng.randint(0, 4))] if rng.random() < 0.5 else [])
    elif fn in ("padleft", "padright"):
        args = [s, str(rng.choice([rng.randint(0, 14)] * 9 + [499, 500, 501, 1000]))] + ([rand_str(rng, 3, "ab0")] if rng.random() < 0.8 else [])
    elif fn == "plural":
        args = [rng.choice(["0", "1", "1", "2", "5", "11", "21", "01", "001", "00", "010", "02", " 1 ", "1 "]), "one", "many"]
    else:
        args = [rand_str(rng, 8, "aB cZ").strip()]
    return fn, args


def ref_fn(fn, args):
    """Independent reference written from the MediaWiki documentation (None = no reference)."""
    a = lambda i: args[i] if i < len(args) else ""
    ival = lambda x: int(x) if x.strip().lstrip("+-").isdigit() else 0
    s = a(0).strip()
    if fn == "#len":
        return str(len(s))
    if fn in ("#pos", "#rpos"):
        needle = a(1) or " "
        off = int(a(2)) if a(2).strip().isdigit() else 0
        hits = [i for i in range(off, len(s) - len(needle) + 1) if s[i:i + len(needle)] == needle]
        if fn == "#pos":
            return str(hits[0]) if hits else ""
        return str(hits[-1]) if hits else "-1"
    if fn == "#sub":
        st, ln = ival(a(1)), ival(a(2))
        if st < 0:
            st = max(0, len(s) + st)
        st = min(st, len(s))
        end = len(s) if ln == 0 else (max(st, len(s) + ln) if ln < 0 else st + ln)
        return s[st:end]
    if fn == "#replace":
        old = a(1) or " "
        out, i = [], 0
        while i < len(s):
            if s[i:i + len(old)] == old:
                out.append(a(2))
                i += len(old)
            else:
                out.append(s[i])
                i += 1
        return "".join(out)
    if fn == "#explode":
        parts = s.split(a(1) or " ")
        pos, lim = ival(a(2)), ival(a(3))
        if lim > 0 and len(parts) > lim:
            parts = parts[:lim - 1] + [(a(1) or " ").join(parts[lim - 1:])]
        if pos < 0:
            pos += len(parts)
        return parts[pos] if 0 <= pos < len(parts) else ""
    if fn in ("padleft", "padright"):
        v = a(0)
        cnt = min(int(a(1)), 500) if a(1).strip().isdigit() else 0      # MediaWiki limits the padded length to 500
        pad = args[2] if len(args) > 2 else "0"
        need = max(0, cnt - len(v))
        fill = "".join(pad[i % len(pad)] for i in range(need)) if pad else ""
        return fill + v if fn == "padleft" else v + fill
    if fn == "lc":
        return s.lower()
    if fn == "uc":
        return s.upper()
    if fn == "lcfirst":
        return s[:1].lower() + s[1:]
    if fn == "ucfirst":
        return s[:1].upper() + s[1:]
    if fn == "plural":
        return (a(1) if int(a(0)) == 1 else a(2)).strip()
    return None


def call_text(fn, args):
    return "{{" + fn + ":" + "|".join(args) + "}}"


LADDER_DOC = """
From Coq Require Import List String Bool.
Import ListNotations.
From WTP Require Import Gen.GenLadder.
"""


def run(run):
    run.rule = ("(a) random integer #expr ASTs (depth<=5, all operators incl. word operators in random case, random spacing) "
                "rendered with minimal and with full parenthesisation; (a2) the same trees as token lists (Coq's printer must print the same "
                "tokens, Model.ExprParse must read the tree back, value = implementation) and token soups of 1-9 tokens over numbers, "
                "all operators and parentheses (accept/reject and value must agree); (b) string-function calls over alphabet {a,b,c,space} "
                "length<=8, offsets in [-10,10]; (c) numerals (<=12 integer digits, optional fraction) x every shipped locale "
                "through formatnum and formatnum|R; (d) pairs of number-like texts (signs, leading zeros, fractions, exponents, malformed) "
                "through #ifeq; non-trivial: (a) AST has >=2 operators, (b) non-empty first argument, "
                "(c) >=4 integer digits; distinct by JSON hash")
    run.trusted = [
        "Coq 8.16.1 kernel; vm_compute for evaluating the models and for the ladder comparison",
        "axioms: none",
        "translators translate/ladder.py (precedence ladder of expr_fn, by Python ast, fail-closed) and translate/locales.py",
        "models coq/Model/ParserFns.v and coq/Model/ExprParse.v tied to parserfns.py by comparing Wtp.expand('{{fn:...}}') with the model on every case",
        "float arithmetic, urllib quoting and non-ASCII case mapping are not modelled (compared against Python reference only)",
    ]
    errs = regen.regen(["GenLadder", "GenLocales"])
    for k, v in errs.items():
        run.correspondence_break("translator %s failed (fail-closed)" % k, None, error=v)
    run.prove()
    rc, out = lib.coq_make(["Gen/GenLocales.vo"])
    if rc != 0:
        run.correspondence_break("Gen/GenLocales.v does not build", None, error=out[-1500:])
    rng = run.rng
    quick = run.tier == "quick"

    # ---- (a) #expr
    n_expr = 1500 if quick else 20000
    asts = [gen_ast(rng, rng.randint(1, 5)) for _ in range(n_expr)]
    texts = []
    for a in asts:
        texts.append("{{#expr: " + render(rng, a, False) + "}}")
        texts.append("{{#expr: " + render(rng, a, True) + "}}")
    chunks = [texts[i:i + 200] for i in range(0, len(texts), 200)]
    res = lib.run_impl("expand_many", [{"texts": c} for c in chunks], shards=lib.NCPU)
    outs = [o for r in res for o in (r.get("outs") or [["harness", r.get("outcome")]] * 200)]
    coq_cases, idx = [], []
    for i, a in enumerate(asts):
        o_min, o_full = outs[2 * i], outs[2 * i + 1]
        nops = json.dumps(a).count('"bin"') + json.dumps(a).count('"un"')
        run.count(["expr", texts[2 * i], texts[2 * i + 1]], nops >= 2, "expr")
        if o_min[0] != "ok" or o_full[0] != "ok":
            run.histogram["expr-raised"] = run.histogram.get("expr-raised", 0) + 1   # C05's business
            continue
        import re as _re
        numeric = lambda t: _re.fullmatch(r"-?\d+(\.\d+)?(e[+-]?\d+)?", t) is not None
        if not (numeric(o_min[1]) and numeric(o_full[1])):
            run.histogram["expr-error-result"] = run.histogram.get("expr-error-result", 0) + 1
            continue
        if o_min[1] != o_full[1]:
            run.property_failure("expr:parenthesisation-changes-value",
                                 "%r -> %r but %r -> %r" % (texts[2 * i], o_min[1], texts[2 * i + 1], o_full[1]),
                                 {"texts": texts[2 * i:2 * i + 2]})
        coq_cases.append("(%s, %s)" % (coq_ast(a), cstr(o_min[1])))
        idx.append(i)
    bad, cerrs = lib.coq_eval_failing(
        "c18e", ["Base.Str", "Model.ParserFns"], "ast * str", coq_cases,
        "fun '(a, o) => match eval a with Some z => str_eqb (show_Z z) o | None => true end")
    for e in cerrs:
        run.correspondence_break("model evaluation failed (expr)", None, error=e)
    for b in bad:
        i = idx[b]
        opsused = sorted(set(x for x in ["mod", "/", "div", "^", "round"] if x in texts[2 * i].lower()))
        run.property_failure("expr:value-differs-from-reference:" + ",".join(opsused),
                             "%r -> %r, reference evaluator (Coq eval) disagrees" % (texts[2 * i], outs[2 * i][1]),
                             {"texts": [texts[2 * i]]})

    check_expr_parser(run, asts, rng, quick)

    # ---- (b) string functions
    n_fn = 2500 if quick else 40000
    calls = [gen_call(rng) for _ in range(n_fn)]
    ctexts = [call_text(f, a) for f, a in calls]
    chunks = [ctexts[i:i + 250] for i in range(0, len(ctexts), 250)]
    res = lib.run_impl("expand_many", [{"texts": c} for c in chunks], shards=lib.NCPU)
    outs = [o for r in res for o in r["outs"]]
    coq_cases, idx = [], []
    for i, ((fn, args), o) in enumerate(zip(calls, outs)):
        run.count(["fn", ctexts[i]], bool(args[0].strip()), "fn:" + fn)
        if o[0] != "ok":
            run.property_failure("fn-raised:%s:%s" % (fn, o[1]), "%r raised %r" % (ctexts[i], o), {"texts": [ctexts[i]]})
            continue
        want = ref_fn(fn, args)
        if want is not None and o[1] != want:
            run.property_failure("fn-differs:%s" % fn, "%r -> %r, reference %r" % (ctexts[i], o[1], want),
                                 {"texts": [ctexts[i]]})
        margs = args
        if fn == "plural":
            # the model's plural_fn takes the result string of #expr: for an integer numeral that is its canonical form
            # (the #expr evaluator itself is tied to Coq's eval in part (a))
            margs = [str(int(args[0]))] + args[1:]
        coq_cases.append("(%s, %s, %s)" % (FN_IDS[fn], clist(margs, cstr, "str"), cstr(o[1])))
        idx.append(i)
    bad, cerrs = lib.coq_eval_failing(
        "c18f", ["Base.Str", "Model.ParserFns"], "fnid * list str * str", coq_cases,
        "fun '(f, args, o) => str_eqb (call_fn f args) o")
    for e in cerrs:
        run.correspondence_break("model evaluation failed (string functions)", None, error=e)
    for b in bad:
        run.correspondence_break("Model.ParserFns.call_fn disagrees with the parser function",
                                 {"texts": [ctexts[idx[b]]]}, impl=outs[idx[b]])

    # ---- (c) formatnum over every locale
    langs = sorted(p.name for p in (lib.REPO / "src/wikitextprocessor/data").iterdir() if p.is_dir())
    per = 12 if quick else 150
    fcases = []
    for li, lang in enumerate(langs):
        nums = []
        for _ in range(per):
            ip = str(rng.randint(0, 10 ** rng.randint(1, 12)))
            if rng.random() < 0.2:
                ip = "0" * rng.randint(1, 3) + ip
            nums.append(ip + ("." + "".join(rng.choice("0123456789") for _ in range(rng.randint(0, 4)))
                              if rng.random() < 0.5 else ""))
        fcases.append({"lang": lang, "nums": nums, "li": li})
    res = lib.run_impl("expand_many", [{"lang": c["lang"], "texts": ["{{formatnum:%s}}" % n for n in c["nums"]]}
                                       for c in fcases], shards=lib.NCPU)
    res2_in = []
    for c, r in zip(fcases, res):
        c["fmt"] = [o[1] if o[0] == "ok" else None for o in (r.get("outs") or [])]
        res2_in.append({"lang": c["lang"], "texts": ["{{formatnum:%s|R}}" % f for f in c["fmt"] if f is not None]})
    res2 = lib.run_impl("expand_many", res2_in, shards=lib.NCPU)
    coq_cases, idx = [], []
    for c, r2 in zip(fcases, res2):
        if not c["fmt"] or r2.get("outcome") != "ok":
            run.property_failure("formatnum:context-failed:" + c["lang"], "could not run formatnum for locale %s: %r" % (c["lang"], r2), c["lang"])
            continue
        rs = iter(r2["outs"])
        for n, f in zip(c["nums"], c["fmt"]):
            run.count(["formatnum", c["lang"], n], len(n.split(".")[0]) >= 4, "formatnum")
            if f is None:
                run.property_failure("formatnum:raised", "formatnum %s raised in %s" % (n, c["lang"]), [c["lang"], n])
                continue
            back = next(rs)
            if back[0] != "ok" or back[1] != n:
                run.property_failure("formatnum:roundtrip:%s" % ("decimal" if "." in n else "integer"),
                                     "locale %s: %s -> %r -> %r" % (c["lang"], n, f, back), [c["lang"], n])
            coq_cases.append("(%d%%nat, %s, %s, %s)" % (c["li"], cstr(n), cstr(f), cstr(back[1] if back[0] == "ok" else "")))
            idx.append((c["lang"], n))
    bad, cerrs = lib.coq_eval_failing(
        "c18n", ["Base.Str", "Model.ParserFns", "Gen.GenLocales"], "nat * str * str * str", coq_cases,
        "fun '(li, n, f, b) => let loc := nth li locales (mkloc [] [] []) in "
        "str_eqb (formatnum loc n) f && str_eqb (formatnum_reverse loc f) b")
    for e in cerrs:
        run.correspondence_break("model evaluation failed (formatnum)", None, error=e)
    for b in bad:
        run.correspondence_break("Model.ParserFns.formatnum/formatnum_reverse disagree with the implementation",
                                 list(idx[b]))
    run.extra["traces_validated_against_impl"] = len(coq_cases)
    run.extra["locales"] = len(langs)

    # ---- (d) the comparison of #ifeq / #switch (parserfns.mw_equal) against Model.ParserFns.mw_equal, whose meaning
    #      c18_ifeq_comparison_is_same_text_or_same_value states (same text, or both numbers of the same value)
    FIXED = ["", "0", "-0", "+0", "1", "01", "1.0", "1.", ".5", "0.5", "-.5", "+1", "1e0", "1E2", "100", "10e1", "1e-1", "0.10", ".1",
             "1e", "e1", "1a", ".", "-", "+", "--1", "1.0.0", "0x10", "a", "A", "1 0", "1e+2", "1e1.0", "00", "0.0e5", "-0.0"]

    def numlike():
        if rng.random() < 0.45:
            return rng.choice(FIXED)
        t = rng.choice(["", "", "-", "+"]) + "".join(rng.choice("0012359") for _ in range(rng.randint(0, 3)))
        if rng.random() < 0.5:
            t += "." + "".join(rng.choice("0015") for _ in range(rng.randint(0, 3)))
        if rng.random() < 0.35:
            t += rng.choice("eE") + rng.choice(["", "", "-", "+"]) + "".join(rng.choice("012") for _ in range(rng.randint(0, 2)))
        return t
    pairs = []
    for _ in range(1200 if quick else 20000):
        a = numlike()
        b = numlike() if rng.random() < 0.6 else rng.choice([a, "0" + a, a + "0", a + ".0", a + "e0", "+" + a, a.lstrip("+")])
        pairs.append((a, b))
    texts = ["{{#ifeq:%s|%s|Y|N}}" % ab for ab in pairs]
    chunks = [texts[i:i + 200] for i in range(0, len(texts), 200)]
    res = lib.run_impl("expand_many", [{"texts": c} for c in chunks], shards=lib.NCPU)
    outs = [o for r in res for o in (r.get("outs") or [["harness", r.get("outcome")]] * 200)]
    coq_cases, idx = [], []
    for i, ((a, b), o) in enumerate(zip(pairs, outs)):
        run.count(["ifeq-compare", a, b], a != b and a != "" and b != "", "ifeq-compare")
        if o[0] != "ok" or o[1] not in ("Y", "N"):
            run.property_failure("ifeq-compare:unexpected-result", "%r -> %r" % (texts[i], o), {"texts": [texts[i]]})
            continue
        coq_cases.append("(%s, %s, %s)" % (cstr(a.strip()), cstr(b.strip()), "true" if o[1] == "Y" else "false"))
        idx.append(i)
    bad, cerrs = lib.coq_eval_failing("c18q", ["Base.Str", "Model.ParserFns"], "str * str * bool", coq_cases,
                                      "fun '(a, b, o) => Bool.eqb (mw_equal a b) o")
    for e in cerrs:
        run.correspondence_break("model evaluation failed (#ifeq comparison)", None, error=e)
    for b in bad:
        i = idx[b]
        run.property_failure("ifeq-compare:differs-from-same-text-or-same-value",
                             "%r -> %r; Model.ParserFns.mw_equal (same text, or both numbers of the same value) says otherwise"
                             % (texts[i], outs[i][1]), {"texts": [texts[i]]})
    run.extra["ifeq_comparisons_checked_against_the_model"] = len(coq_cases)


def replay(data):
    case = data.get("case") or data["breaks"][0]["case"]
    if isinstance(case, dict):
        print(lib.run_impl("expand_many", [case])[0])
    else:
        print(lib.run_impl("expand_many", [{"lang": case[0], "texts": ["{{formatnum:%s}}" % case[1]]}])[0])
    return 0
