"""Runs the real implementation (imported from /repo/src via PYTHONPATH) on
JSON cases read from stdin; prints one JSON list of results.  Executed in a
child interpreter by lib.run_impl."""
import json
import os
import signal
import sys
import tempfile
import shutil
import logging
from pathlib import Path

sys.path.insert(0, str(Path(__file__).resolve().parent))
logging.disable(logging.CRITICAL)


class CaseTimeout(Exception):
    pass


def _alarm(signum, frame):
    raise CaseTimeout()


def with_timeout(fn, secs):
    signal.signal(signal.SIGALRM, _alarm)
    signal.setitimer(signal.ITIMER_REAL, secs)
    try:
        return fn()
    finally:
        signal.setitimer(signal.ITIMER_REAL, 0)


def main():
    kind = sys.argv[1]
    cases = json.loads(sys.stdin.read())
    # a runaway computation in C code (which no signal handler interrupts) must end in MemoryError, not in the OOM killer
    try:
        import resource
        lim = int(os.environ.get("WTPVERIF_AS_LIMIT_GB", "12")) << 30
        resource.setrlimit(resource.RLIMIT_AS, (lim, lim))
    except Exception:  # noqa
        pass
    import implfns
    fn = getattr(implfns, "impl_" + kind)
    scratch = tempfile.mkdtemp(prefix="wtpverif_")
    os.environ["WTPVERIF_SCRATCH"] = scratch
    out = []
    devnull = open(os.devnull, "w")
    real_stdout = sys.stdout
    sys.stdout = devnull  # the implementation prints diagnostics
    try:
        for c in cases:
            try:
                r = with_timeout(lambda: fn(c, scratch), c.get("_timeout", 20) if isinstance(c, dict) else 20)
            except CaseTimeout:
                r = {"outcome": "timeout"}
            except BaseException as e:  # noqa
                import traceback
                tb = traceback.extract_tb(e.__traceback__)
                last = tb[-1] if tb else None
                r = {"outcome": "raised", "exc": type(e).__name__, "msg": str(e)[:300],
                     "where": f"{Path(last.filename).name}:{last.name}" if last else ""}
            out.append(r)
    finally:
        sys.stdout = real_stdout
        shutil.rmtree(scratch, ignore_errors=True)
    print("@@RESULT@@" + json.dumps(out))


if __name__ == "__main__":
    main()
