"""Child process for C11/C20: performs one flow on a database and is killed (os._exit) at the k-th executed
line of the traced functions.  argv: flow db_path k [extra json]"""
import json
import os
import sys
import logging
logging.disable(logging.CRITICAL)

flow, db_path, k = sys.argv[1], sys.argv[2], int(sys.argv[3])
extra = json.loads(sys.argv[4]) if len(sys.argv) > 4 else {}
TRACED = {"backup_db", "create_db", "close_db_conn", "overwrite_pages", "overwrite_single_page", "analyze_and_overwrite_pages",
          "add_page", "init_wikidata_cache"}
count = [0]


active = [0]


def tracer(frame, event, arg):
    """Line events count in the traced functions and in every package function running on their behalf (a helper the
    flow was refactored into is covered without being named here)."""
    code = frame.f_code
    if "wikitextprocessor" not in code.co_filename or (code.co_name not in TRACED and active[0] == 0):
        return None
    active[0] += 1

    def local(frame, event, arg):
        if event == "line":
            count[0] += 1
            if count[0] == k:
                os._exit(9)
        elif event == "return":
            active[0] -= 1
        return local
    return local


from wikitextprocessor import Wtp  # noqa: E402
from wikitextprocessor.dumpparser import analyze_and_overwrite_pages  # noqa: E402
from pathlib import Path  # noqa: E402


def over_paths():
    return [Path(x) for x in extra["paths"]] if extra.get("paths") else [Path(extra["json"])]


sys.settrace(tracer)

if flow == "override":
    ctx = Wtp(db_path=db_path, quiet=True, quiet_output=True)
    analyze_and_overwrite_pages(ctx, over_paths(), True, None)
    if extra.get("close", True):
        ctx.close_db_conn()
elif flow == "reopen":
    ctx = Wtp(db_path=db_path, quiet=True, quiet_output=True)
    n = sum(1 for _ in ctx.get_all_pages())
    ctx.db_conn.close()
elif flow == "overwrite-only":
    ctx = Wtp(db_path=db_path, quiet=True, quiet_output=True)
    for t, b in extra["pages"]:
        ctx.add_page(t, 0, b)
    ctx.db_conn.commit()
    if extra.get("close", True):
        ctx.close_db_conn()
elif flow == "mid-override":
    # new content is committed, then a complete override flow (backup of that content, overwrite, close)
    ctx = Wtp(db_path=db_path, quiet=True, quiet_output=True)
    for t, b in extra["mid"]:
        ctx.add_page(t, 0, b)
    ctx.db_conn.commit()
    analyze_and_overwrite_pages(ctx, over_paths(), True, None)
    ctx.close_db_conn()
elif flow == "backup-only":
    ctx = Wtp(db_path=db_path, quiet=True, quiet_output=True)
    ctx.backup_db()
    ctx.close_db_conn()
sys.settrace(None)
print("LINES=%d" % count[0])
os._exit(0)
