"""C15 — nowiki content and comments are inert and recoverable."""
import html
import json
import re
import lib
import regen
from lib import cstr

TOKENS = ["{{a|x}}", "{{a", "}}", "{{{1}}}", "[[link]]", "[[", "]]", "[http://x.y z]", "{|", "|}", "|-", "||", "!!", "|", "!",
          "\n* ", "\n# ", "\n: ", "\n; ", "\n== H ==\n", "==", "----", "''", "'''", "<b>", "</b>", "<br/>", "<ref>", "</ref>",
          "<pre>", "<nowiki>", "__TOC__", " ", "\n", "\n ", "text", "A", "é", "=", ":", "*", "#", "_", "\"", "'", "{", "}",
          "[", "]", "<", ">", "~~~~", "#REDIRECT [[x]]", "{{#if:1|y}}", "{{PAGENAME}}", "-{", "}-"]
CONTEXTS = {
    "top": "%s",
    "after-text": "before %s after",
    "template-arg": "{{echo|%s}}",
    "template-arg2": "{{two|q|%s}}",
    "named-arg": "{{echo|1=%s}}",
    "link-text": "[[target|%s]]",
    "list-item": "* item %s\n",
    "table-cell": "{|\n| %s\n|}",
    "bold": "'''%s'''",
    # constructs broken by <nowiki/> are re-emitted as text; what is nested in them is finalised late
    "broken-template": "{{<nowiki/>a|%s}}",
    "broken-nested": "{{<nowiki/>a|{{<nowiki/>b|%s}}}}",
    "broken-link-nested": "[[<nowiki/>a|{{<nowiki/>b|%s}}]]",
    "broken-arg-nested": "{{{<nowiki/>a|{{<nowiki/>b|%s}}}}}",
    "if-broken": "{{#if:x|{{<nowiki/>a|%s}}}}",
}
# contexts whose surroundings are taken from the expansion of the same context around a plain word
BY_MARKER = ("broken-template", "broken-nested", "broken-link-nested", "broken-arg-nested", "if-broken")
MARKUP = set("=<>*:!|[]{}\"'_")


def gen_c(rng):
    while True:
        c = "".join(rng.choice(TOKENS) for _ in range(rng.randint(0, 12)))
        if "</nowiki" not in c.lower() and "&" not in c and "<!--" not in c:
            return c


def gen_comment(rng):
    body = "".join(rng.choice(TOKENS + ["\n", " c ", "<nowiki>", "</nowiki>", "{{", "--", "->", "<!-"]) for _ in range(rng.randint(0, 5)))
    body = body.replace("-->", "--")
    return "<!--" + body + "-->"


def gen_doc(rng):
    """Text with markup but neither nowiki nor comments."""
    parts = ["Some text", "{{a|x}}", "[[l|t]]", "\n* li", "\n== H ==\n", "''i''", "{{two|p|q}}", " ", "\n", "word", "{{echo|z}}",
             "\n{|\n| c\n|}\n", "<b>b</b>", ":", "é"]
    return [rng.choice(parts) for _ in range(rng.randint(1, 8))]


def texts_in(tree):
    if isinstance(tree, str):
        return [tree]
    out = []
    for k in ("c", "d"):
        for x in tree.get(k, []):
            out += texts_in(x)
    for l in tree.get("a", []):
        for x in l:
            out += texts_in(x)
    return out


PRE_ATOMS = ["<nowiki>", "</nowiki>", "<nowiki/>", "<nowiki />", "<NoWiki >", "</NOWIKI\t>", "<nowiki\n/>", "<!--", "-->", "\n", "\n\n", " ",
             "a", "b", "{{t}}", "[[l]]", "<", ">", "/", "-", "--", "<b>", "<!-", "<nowiki", "</nowiki", "''", "x<y"]


def gen_pre_text(rng):
    if rng.random() < 0.5:
        parts = []
        for _ in range(rng.randint(1, 6)):
            k = rng.random()
            inner = "".join(rng.choice(["a", " ", "\n", "{{t}}", "-", "''", "|", "="]) for _ in range(rng.randint(0, 4)))
            if k < 0.35:
                parts.append(inner)
            elif k < 0.6:
                parts.append(rng.choice(["", "\n", "\n\n", " "]) + "<!--" + inner + rng.choice(["", "<nowiki>", "-"]) + "-->")
            elif k < 0.85:
                parts.append("<nowiki>" + inner + rng.choice(["", "<!-- c -->", "<b>"]) + "</nowiki>")
            else:
                parts.append(rng.choice(["<nowiki/>", "<nowiki />", "<!--", "<nowiki>", "\n<!--"]))
        return "".join(parts)
    return "".join(rng.choice(PRE_ATOMS) for _ in range(rng.randint(1, 10)))


def coq_pitem(it):
    if isinstance(it, int):
        return "PCh %s" % lib.cN(it)
    if it[0] == "nw":
        return "PNw %s" % lib.cstr(it[1])
    return "PNwEmpty"


def check_preprocess(run, rng, quick):
    """Model/Preprocess.v against Wtp.preprocess_text on tag soups and arrangements"""
    texts = [gen_pre_text(rng) for _ in range(1200 if quick else 30000)]
    res = lib.run_impl("preprocess", [{"texts": texts[i:i + 400]} for i in range(0, len(texts), 400)], shards=lib.NCPU)
    outs = []
    for r in res:
        if r.get("outcome") != "ok":
            run.correspondence_break("preprocess_text could not be run", None, error=str(r)[:400])
            return
        outs += r["outs"]
    cases = []
    for t, o in zip(texts, outs):
        run.count(["pre", t], "<" in t, "preprocess")
        if any(isinstance(it, list) and it[0] == "cookie" for it in o):
            run.correspondence_break("preprocess_text produced a non-nowiki cookie", {"text": t})
            continue
        cases.append("(%s, %s)" % (lib.cstr(t), lib.clist([coq_pitem(it) for it in o], lambda x: x, "pitem")))
    bad, errs = lib.coq_eval_failing("c15p", ["Base.Str", "Model.Preprocess"], "str * list pitem", cases,
                                     "fun '(t, o) => pitems_eqb (preprocess t) o", chunk=300)
    for e in errs:
        run.correspondence_break("model evaluation failed (preprocess)", None, error=e)
    for b in bad:
        run.correspondence_break("Model.Preprocess.preprocess disagrees with Wtp.preprocess_text", {"text": texts[b]}, impl=outs[b])


def check_end_to_end(run, rng, quick):
    """The chained models of c15_text_comments_and_nowiki_end_to_end (preprocess, expander, finalize) against expand() on pages
    of markup-free text, closed comments, nowiki elements and <nowiki/> tags."""
    plain = ["word", " ", "\n", "a b", "x", "é", "1.", "-", "q,r", "\n\n"]
    texts = []
    for _ in range(300 if quick else 5000):
        parts = []
        for _ in range(rng.randint(1, 7)):
            r = rng.random()
            if r < 0.4:
                parts.append(rng.choice(plain))
            elif r < 0.6:
                parts.append("<!--" + rng.choice([" c ", "", "{{x}}", "a\nb", "<nowiki>", "-- "]) + "-->")
            elif r < 0.9:
                parts.append("<nowiki>" + gen_c(rng) + "</nowiki>")
            else:
                parts.append(rng.choice(["<nowiki/>", "<nowiki />"]))
        texts.append("".join(parts))
    res = lib.run_impl("c15", [{"texts": texts[i:i + 150]} for i in range(0, len(texts), 150)], shards=lib.NCPU)
    outs = [o for r in res for o in (r.get("outs") or [])]
    cases, idx = [], []
    for i, (t, o) in enumerate(zip(texts, outs)):
        run.count(["end-to-end", t], "<nowiki>" in t, "end-to-end")
        if isinstance(o["expand"], str):
            cases.append("(%s, %s)" % (cstr(t), cstr(o["expand"].replace("<nowiki />", "<nowiki/>"))))
            idx.append(i)
    bad, errs = lib.coq_eval_failing(
        "c15e", ["Base.Str", "Model.Preprocess", "Model.Expand", "Gen.GenData", "Proofs.NowikiEndProofs"], "str * str", cases,
        "fun '(t, e) => match expand_page [] nowiki_map [] (mkopts true (mksel None None) false [] []) false 4000 "
        "(encode_plain (preprocess t)) with Some o => str_eqb o e | None => false end", chunk=150)
    for e in errs:
        run.correspondence_break("model evaluation failed (end to end)", None, error=e)
    for b in bad:
        run.correspondence_break("the chained models (preprocess, expand, finalize) disagree with expand() on a page of text, "
                                 "comments and nowiki", texts[idx[b]], impl=outs[idx[b]]["expand"][:300])
    run.extra["end_to_end_pages_validated_against_impl"] = len(cases)


def run(run):
    run.rule = ("(a) nowiki bodies c = 0-12 tokens from a 58-token wikitext alphabet (templates, links, tables, list markers, "
                "headings, HTML, magic words, single markup characters; no '&', no closing tag) in 9 embedding contexts; "
                "(b) documents with closed comments (containing markup, newlines, nowiki tags) inserted between parts, compared "
                "with the comment-free document; non-trivial: (a) c contains a markup character, (b) comment adjacent to a line "
                "break or containing markup; distinct by JSON hash")
    run.trusted = [
        "Coq 8.16.1 kernel; the roundtrip/inertness theorems are proved for the _nowiki_map regenerated from common.py each run",
        "axioms: none",
        "translators translate/data.py (reads the live module) and translate/preproc.py (the pattern and replacement function of "
        "preprocess_text by Python ast; any other statement is refused: fail-closed)",
        "model coq/Model/Preprocess.v tied to core.py:preprocess_text by comparing its item list on generated tag soups; _encode and "
        "the tokenizer are glue exercised by the oracle (expand and parse on every case), not modelled",
        "html.unescape as the decoder on the implementation side; Model.Nowiki.unescape as the decoder in the theorem",
    ]
    errs = regen.regen(["GenData", "GenPre"])
    for k, v in errs.items():
        run.correspondence_break("translator %s failed" % k, None, error=v)
    run.prove()
    rng = run.rng
    rc, out = lib.coq_make(["Model/Preprocess.vo"])
    if rc != 0:
        run.correspondence_break("Model/Preprocess.v does not build", None, error=out[-1500:])
    check_preprocess(run, rng, run.tier == "quick")
    check_end_to_end(run, rng, run.tier == "quick")
    n = 800 if run.tier == "quick" else 12000
    # ---- (a) nowiki
    cases_a = []
    for _ in range(n):
        c = gen_c(rng)
        ctxn = rng.choice(list(CONTEXTS))
        cases_a.append((c, ctxn, CONTEXTS[ctxn] % ("<nowiki>" + c + "</nowiki>")))
    # ---- (b) comments
    cases_b = []
    for _ in range(n):
        parts = gen_doc(rng)
        with_c, without = [], []
        adj = False
        for p in parts:
            if rng.random() < 0.5:
                cm = gen_comment(rng)
                lead = rng.choice(["", "\n", " "])
                with_c.append(lead + cm)
                without.append(lead if lead != "\n" else "")     # the line break directly before the comment goes too
                adj = adj or lead == "\n" or any(ch in cm[4:-3] for ch in "{[<|")
            with_c.append(p)
            without.append(p)
        wc = "".join(with_c)
        # reference from the property text: each comment and the line break directly before it deleted
        cases_b.append((wc, re.sub(r"(?s)\n?<!--.*?-->", "", wc), adj))
    # ---- (c) templates whose body holds nowiki content, transcluded on many pages of one context, after other constructs
    LIT = "L&#91;&#91;x&#93;&#93; &#123;&#123;y&#124;z&#125;&#125; &#39;&#39;q&#39;&#39;R"
    cases_c = []
    for _ in range(60 if run.tier == "quick" else 1500):
        pre = "".join(rng.choice(["[[l|t]] ", "{{a|x}} ", "{{echo|p}} ", "word ", "[[zz]] ", "{{two|1|2}} ", ""]) for _ in range(rng.randint(0, 4)))
        k = rng.choice(["lit", "lit", "lit2", "both"])
        cases_c.append((pre + {"lit": "{{lit}}", "lit2": "{{lit2|v}}", "both": "{{lit}} {{lit2|v}} {{lit}}"}[k], k))
    texts = [t for _, _, t in cases_a] + [x for a, b, _ in cases_b for x in (a, b)] + [CONTEXTS[k] % "MARKERX" for k in BY_MARKER]
    res_c = lib.run_impl("c15", [{"texts": [t for t, _ in cases_c]}], shards=1)[0]
    for (t, k), o in zip(cases_c, res_c.get("outs", []) if res_c.get("outcome") == "ok" else []):
        run.count(["nowiki-in-template-body", t], True, "nowiki:template-body")
        e = o["expand"]
        import html as _html
        ok = isinstance(e, str)
        if ok and k in ("lit", "both"):
            ok = "L[[x]] {{y|z}} ''q''R" in _html.unescape(e) and "[[x]]" not in e and "{{y" not in e
        if ok and k in ("lit2", "both"):
            ok = "* {{{1}}} <b>v" in _html.unescape(e) and "{{{1}}}" not in e
        if not ok:
            run.property_failure("c15:nowiki:not-inert:template-body", "%r expanded to %r" % (t, e), t)
    if res_c.get("outcome") != "ok":
        run.correspondence_break("template-body nowiki pages could not be run", None, result=str(res_c)[:300])
    chunks = [texts[i:i + 150] for i in range(0, len(texts), 150)]
    res = lib.run_impl("c15", [{"texts": ch} for ch in chunks], shards=lib.NCPU)
    outs = []
    for r, ch in zip(res, chunks):
        outs += r["outs"] if r.get("outcome") == "ok" else [{"expand": ["harness", r.get("outcome")], "tree": None, "calls": []}] * len(ch)
    coq_cases = []
    marker_out = {k: o["expand"] for k, o in zip(BY_MARKER, outs[len(outs) - len(BY_MARKER):])}
    for k, e in marker_out.items():
        if not (isinstance(e, str) and e.count("MARKERX") == 1):
            run.correspondence_break("context %s does not show its content once" % k, CONTEXTS[k], out=e)
    for (c, ctxn, text), o in zip(cases_a, outs[:len(cases_a)]):
        run.count(["nowiki", ctxn, c], any(ch in MARKUP for ch in c), "nowiki:" + ctxn)
        e = o["expand"]
        if not isinstance(e, str):
            run.property_failure("c15:nowiki:expand-raised:%s" % (e[1] if len(e) > 1 else e), "expand raised on %r" % text, text)
            continue
        pre, post = CONTEXTS[ctxn].split("%s")
        # where does the quoted content appear? the template contexts echo their argument
        if ctxn in ("template-arg", "named-arg"):
            pre, post = "", ""
        elif ctxn == "template-arg2":
            pre, post = "q-", ""
        elif ctxn in BY_MARKER:
            if not (isinstance(marker_out[ctxn], str) and marker_out[ctxn].count("MARKERX") == 1):
                continue
            pre, post = marker_out[ctxn].split("MARKERX")
        if ctxn == "named-arg":
            inner_ok = lambda q: html.unescape(q) == c.strip() or html.unescape(q) == c
        else:
            inner_ok = lambda q: html.unescape(q) == c
        if not (e.startswith(pre) and e.endswith(post)):
            run.property_failure("c15:nowiki:context-changed:" + ctxn, "%r expanded to %r" % (text, e), text)
            continue
        q = e[len(pre):len(e) - len(post)] if post else e[len(pre):]
        if c == "":
            ok = q in ("<nowiki/>", "<nowiki />", "")
        else:
            ok = inner_ok(q) and not (set(q) & MARKUP)
        if not ok:
            run.property_failure("c15:nowiki:not-inert:" + ctxn, "%r expanded to %r (content %r)" % (text, e, c), text)
        if [x for x in o["calls"] if x not in ("echo", "two")]:
            run.property_failure("c15:nowiki:content-expanded", "template_fn was called for %r inside nowiki: %r" % (o["calls"], text), text)
        if ctxn == "top" and c != "":
            t = o["tree"]
            ch = t.get("c", []) if isinstance(t, dict) else None
            if not (isinstance(ch, list) and len(ch) == 1 and isinstance(ch[0], str) and html.unescape(ch[0]) == c):
                run.property_failure("c15:nowiki:parse-not-single-text", "parse(%r) gave %r" % (text, t), text)
        if ctxn == "top" and c != "" and isinstance(e, str):
            coq_cases.append("(%s, %s)" % (cstr(c), cstr(e)))
    nb = len(outs) - len(BY_MARKER)
    for (a, b, adj), oa, ob in zip(cases_b, outs[len(cases_a):nb:2], outs[len(cases_a) + 1:nb:2]):
        run.count(["comment", a], adj, "comments")
        if oa["expand"] != ob["expand"]:
            run.property_failure("c15:comment:expand-differs", "%r -> %r but without comments %r -> %r"
                                 % (a, oa["expand"], b, ob["expand"]), a)
        elif oa["tree"] != ob["tree"]:
            run.property_failure("c15:comment:parse-differs", "parse trees differ for %r vs %r" % (a, b), a)
    # model correspondence: expand('<nowiki>c</nowiki>') == nowiki_quote (regenerated map) c
    bad, cerrs = lib.coq_eval_failing("c15", ["Base.Str", "Model.Expand", "Gen.GenData"], "str * str", coq_cases,
                                      "fun '(c, e) => str_eqb (nowiki_quote nowiki_map c) e",
                                      extra_defs="Open Scope N_scope.\n")
    for e in cerrs:
        run.correspondence_break("model evaluation failed", None, error=e)
    for b in bad:
        run.correspondence_break("nowiki_quote model disagrees with expand()", coq_cases[b][:300])
    run.extra["traces_validated_against_impl"] = len(coq_cases)


def replay(data):
    case = data.get("case") or data["breaks"][0]["case"]
    print(lib.run_impl("c15", [{"texts": [case]}])[0])
    return 0
