"""C09 — processing a page does not depend on what the context processed before."""
import itertools
import json
import lib
import regen
import c01

LUA_PAGES = ["{{#invoke:counter|main}}", "{{#invoke:glob|main}} {{#invoke:glob|main}}", "{{#invoke:strlib|main}}",
             "{{#invoke:strmeta|main}}", "{{#invoke:tbllib|main}}", "{{#invoke:mwlib|main}}", "{{#invoke:mwtext|main}}",
             "{{#invoke:uselib|main}}{{#invoke:uselib|main}}", "{{#invoke:usedata|main}}", "{{#invoke:args|main|q}}",
             "{{#invoke:osdate|main}}", "{{#invoke:mathlib|main}}", "{{#invoke:pkg|main}}", "{{cnt}}",
             "{{#invoke:bad|main}} then {{#invoke:counter|main}}", "{{#invoke:echo|main|a|b=c}}", "{{#invoke:pp|main|k}}",
             "{{#invoke:usejson|main}}", "{{#invoke:usejson|main}} {{#invoke:usedata|main}} {{#invoke:usejson|main}}",
             "{{#invoke:nesta|main}}", "{{#invoke:nesta2|main}}", "{{#invoke:probe2|main}}", "{{#invoke:probe2|main}} {{#invoke:nesta|main}}",
             # invocations that fail at different points, followed by invocations that must still be isolated from one another
             "{{#invoke:echo|nofn}} {{#invoke:counter|main}} {{#invoke:counter|main}}",
             "{{#invoke:nomodule|main}} {{#invoke:glob|main}} {{#invoke:glob|main}}",
             "{{#invoke:bad|main}} {{#invoke:counter|main}} {{#invoke:strlib|main}} {{#invoke:counter|main}} {{#invoke:strlib|main}}",
             "{{#invoke:boom|main}} {{#invoke:tbllib|main}} {{#invoke:tbllib|main}} {{#invoke:counter|main}}{{#invoke:counter|main}}",
             "{{#invoke:boomload|main}} {{#invoke:glob|main}} {{#invoke:counter|main}} {{#invoke:counter|main}}",
             "{{#invoke:counter|main}} {{#invoke:echo}} {{#invoke:counter|main}} {{#invoke:mathlib|main}} {{#invoke:mathlib|main}}",
             # invocations whose result is not a decodable string
             "{{#invoke:badutf|main}} {{#invoke:counter|main}} {{#invoke:counter|main}} {{#invoke:glob|main}}{{#invoke:glob|main}}",
             "{{#invoke:badutf|half}} {{#invoke:strlib|main}} {{#invoke:strlib|main}} {{#invoke:counter|main}}{{#invoke:counter|main}}",
             "{{#invoke:badutf|tbl}}{{#invoke:badutf|num}}{{#invoke:badutf|fn}} {{#invoke:counter|main}} {{#invoke:counter|main}}"]
TPL_PAGES = ["{{a|x}} {{b|p|x=q}}", "{{deep|w}} {{missing|y}}", "{{loop}} after", "{{m1}}", "<nowiki>{{a}}</nowiki> {{a|<nowiki>n</nowiki>}}",
             "{{#if:x|{{a|1}}|{{a|2}}}}", "== H ==\n* {{a|i}}\n{{list}}", "<foo>x</foo> <b>y</b>", "{{{1|d}}} [[l|{{a|z}}]]",
             "{{inv|q}}", "{{#expr: 1 +}} {{#expr:2*3}}", "{|\n| {{a|c}}\n|}", "''x'' '''y''' <ref>r</ref>"]
OPTS = [("expand", {}), ("expand", {"pre_expand": True}), ("parse", {}), ("parse", {"pre_expand": True}), ("parse", {"expand_all": True}),
        ("expand", {"expand_invoke": False}), ("expand", {"expand_parserfns": False})]


def gen_pages(rng, n):
    pages = []
    for i in range(n):
        r = rng.random()
        if r < 0.45:
            text = rng.choice(LUA_PAGES)
        elif r < 0.8:
            text = rng.choice(TPL_PAGES)
        else:
            text = c01.soup(rng, rng.randint(3, 15))
        if rng.random() < 0.3:
            text = text + " " + rng.choice(LUA_PAGES + TPL_PAGES)
        steps = [rng.choice(OPTS) for _ in range(rng.randint(1, 2))]
        pages.append({"title": rng.choice(["P%d" % i, "Talk:P%d" % i]), "text": text, "steps": steps})
    return pages


LETTERS = {"n": "counter", "g": "glob", "s": "strlib", "t": "tbllib", "w": "mwlib", "x": "mwtext", "o": "osdate", "h": "mathlib"}


def isolation_oracle(run, got, page, case):
    """Every invocation of one of the counting modules starts from pristine state, so it can only ever print 1 — also for
    the second invocation on the same page, and whatever happened (failed invocations included) before it."""
    import re as _re
    seen = set()
    src = page["text"]
    invoked = {l for l, m in LETTERS.items() if "#invoke:%s|" % m in src} | ({"n"} if "{{cnt}}" in src else set())
    literal = {l for l, v in _re.findall(r"\b([ngstwxoh])=(\d+)", src)}
    for text in got.get("expand", []):
        for letter, val in _re.findall(r"\b([ngstwxoh])=(\d+)", text):
            if val != "1" and letter in invoked and letter not in literal:
                seen.add(letter)
    if seen:
        run.property_failure("+".join("c09:lua-state-persists:%s" % LETTERS[l] for l in sorted(seen, key=lambda l: LETTERS[l])),
                             "page %r printed %s: an invocation saw state left by an earlier invocation"
                             % (page["text"][:100], json.dumps(got.get("expand"))[:300]), case)


def run(run):
    run.rule = ("corpora of 4-8 pages (17 pages invoking state-mutating Lua modules: globals, module-level counters, required "
                "module state, string/table/math/os/mw/mw.text/package tables, string metatable, mw.loadData tables, frame.args; "
                "13 template-heavy pages; token soups) each with 1-2 parse/expand steps under 7 option sets; histories: all "
                "orders and repetitions to length 3 over 3 pages for some corpora (exhaustive), random to length 12; half of the "
                "runs create another context with extension_tags first; each page's result is compared with the single-page "
                "history on a fresh context; non-trivial = history length >= 2 containing a Lua page; distinct by JSON hash")
    run.trusted = [
        "Coq 8.16.1 kernel; vm_compute for the field bookkeeping over the regenerated field sets",
        "axioms: none",
        "translator translate/fields.py (Python-ast: writes to context fields, start_page and parse-prologue resets; fail-closed "
        "on setattr/__dict__); the footprint hypotheses of the generic theorem (processing is a function of the context fields "
        "and does not read the justified leaky fields) are assumptions, exercised by the history oracle",
        "Lua-side sharing (cloned environment per invocation, retained package.loaded entries) is exercised, not modelled",
    ]
    errs = regen.regen(["GenFields"])
    for k, v in errs.items():
        run.correspondence_break("translator %s failed (fail-closed)" % k, None, error=v)
    run.prove()
    rng = run.rng
    quick = run.tier == "quick"
    cases = []
    for _ in range(40 if quick else 600):
        pages = gen_pages(rng, rng.randint(4, 8))
        base = [{"pages": pages, "history": [i], "pre_ctx": False} for i in range(len(pages))]
        hists = []
        if rng.random() < 0.3:
            for L in (2, 3):
                for h in itertools.product(range(3), repeat=L):
                    hists.append(list(h))
            rng.shuffle(hists)
            hists = hists[:12 if quick else 36]
        for _ in range(4 if quick else 12):
            hists.append([rng.randrange(len(pages)) for _ in range(rng.randint(2, 12))])
        cases.append((pages, base, [{"pages": pages, "history": h, "pre_ctx": rng.random() < 0.5} for h in hists]))
    # the single-page references run first, in processes that never created a context with other options
    flat_base = [c for _, base, hs in cases for c in base]
    flat_hist = [c for _, base, hs in cases for c in hs]
    res_base = lib.run_impl("c09", [dict(c, _timeout=120) for c in flat_base], shards=lib.NCPU)
    res_hist = lib.run_impl("c09", [dict(c, _timeout=120) for c in flat_hist], shards=lib.NCPU)
    kb = kh = 0
    for pages, base, hs in cases:
        ref = {}
        for c in base:
            r = res_base[kb]; kb += 1
            if r.get("outcome") == "ok":
                ref[c["history"][0]] = r["results"][0]
                isolation_oracle(run, r["results"][0], pages[c["history"][0]], c)
        for c in hs:
            r = res_hist[kh]; kh += 1
            lua = any("#invoke" in pages[i]["text"] or "{{cnt}}" in pages[i]["text"] for i in c["history"])
            run.count({"pages": [[p["title"], p["text"], p["steps"]] for p in pages], "history": c["history"], "pre": c["pre_ctx"]},
                      len(c["history"]) >= 2 and lua, "history")
            if r.get("outcome") != "ok":
                run.property_failure("c09:%s:%s" % (r.get("outcome"), r.get("exc", "")), "history run failed: %r" % (r,), c)
                continue
            for pos, (i, got) in enumerate(zip(c["history"], r["results"])):
                isolation_oracle(run, got, pages[i], c)
                want = ref.get(i)
                if want is None or got == want:
                    continue
                text = pages[i]["text"]
                which = [key for key in set(got) | set(want) if got.get(key) != want.get(key)]
                import re as _re
                letters = {"n": "counter", "g": "glob", "s": "strlib", "m": "strmeta", "t": "tbllib", "w": "mwlib", "x": "mwtext",
                           "l": "uselib", "d": "usedata", "a": "args", "o": "osdate", "h": "mathlib", "p": "pkg"}
                gj, wj = json.dumps(got), json.dumps(want)
                gv, wv = _re.findall(r"\b([a-z])=([\w,]+)", gj), _re.findall(r"\b([a-z])=([\w,]+)", wj)
                mods = sorted({letters[a] for (a, b), (c_, d_) in zip(gv, wv) if a == c_ and b != d_ and a in letters}) \
                    if len(gv) == len(wv) else []
                if mods:
                    sig = "+".join("c09:lua-state-persists:%s" % m for m in mods)
                else:
                    sig = "c09:history-dependent:%s%s" % (",".join(sorted(which)),
                                                         ":after-extension-tags-context" if c["pre_ctx"] and "<foo>" in text else "")
                run.property_failure(sig, "page %d (%r) at position %d of history %r gave %s, on a fresh context %s"
                                     % (i, text[:80], pos, c["history"], json.dumps(got)[:300], json.dumps(want)[:300]), c)
                break


def replay(data):
    case = data.get("case") or data["breaks"][0]["case"]
    print(json.dumps(lib.run_impl("c09", [case])[0])[:4000])
    return 0
