"""C06 — Lua code from pages is confined to the sandbox."""
import json
import re
import lib
import regen


def reach_paths():
    """Recompute the closure outside Coq to name a path to each forbidden node (for the replay file)."""
    src = (lib.COQ / "Gen" / "GenGraph.v").read_text()
    nums = lambda name: [int(x) for x in re.findall(r"\d+", re.search(r"Definition %s : [^=]*:= \[(.*?)\]\." % name, src, re.S).group(1))]
    roots, forb = nums("roots"), set(nums("forbidden"))
    e = nums("edges")
    edges = list(zip(e[0::2], e[1::2]))
    labels = dict((int(a), b.strip()) for a, b in re.findall(r"^\s+(\d+): (.*)$", src, re.M))
    adj = {}
    for u, t in edges:
        adj.setdefault(u, []).append(t)
    prev = {r: None for r in roots}
    q = list(roots)
    while q:
        u = q.pop(0)
        for t in adj.get(u, []):
            if t not in prev:
                prev[t] = u
                q.append(t)
    out = []
    for f in sorted(forb & set(prev)):
        path = [f]
        while prev[path[-1]] is not None:
            path.append(prev[path[-1]])
        out.append({"node": f, "label": labels.get(f, "?"), "path_from_root": path[::-1]})
    return out


def run(run):
    run.rule = ("(a) the live object graph of the environment and frame a module receives (about 440 nodes: table fields, "
                "metatables, the string metatable, attributes lupa exposes on every reachable Python object, results of require() "
                "and _cached_mod() for every host package name), regenerated from a fresh runtime; (b) an attack corpus of about "
                "50 probe modules executed through #invoke, including probes that really read a file, write a file, run a "
                "command, read the environment and write to the page database; non-trivial = every probe/graph node; distinct by "
                "name")
    run.trusted = [
        "Coq 8.16.1 kernel; vm_compute computes the closure of the regenerated graph (worklist of Model/Analyze.v, proved exact)",
        "axioms: none",
        "translate/graph.py and the host-side Lua walker (uses debug.getmetatable/getupvalue/getfenv, which stay available to the "
        "host): which edges exist is established by performing the accesses in the live runtime; standard C functions and Lua "
        "closures other than require/_cached_mod are treated as returning nothing new (covered only by the attack corpus)",
        "lupa's attribute semantics and the Lua 5.1 VM are exercised, not modelled; mw.ustring is a stub",
    ]
    errs = regen.regen(["GenGraph"])
    for k, v in errs.items():
        run.correspondence_break("translator %s failed (fail-closed)" % k, None, error=v)
    run.prove()
    src = (lib.COQ / "Gen" / "GenGraph.v").read_text()
    m = re.search(r"Definition n : nat := (\d+)\.", src)
    run.extra["graph_nodes"] = int(m.group(1)) if m else 0
    run.extra["graph_edges"] = src.count("(") - 2
    for i in range(run.extra["graph_nodes"]):
        run.count(["node", i], True, "graph-node")
    if run.proof.get("errors"):
        try:
            for p in reach_paths():
                run.property_failure("c06:reachable:%s" % p["label"], "forbidden object reachable from a module's environment/frame: %r" % (p,), p)
        except Exception as e:  # noqa
            run.correspondence_break("could not analyse the regenerated graph", None, error=repr(e))
    res = lib.run_impl("c06_probes", [{"_timeout": 300}], shards=1, timeout=400)[0]
    if res.get("outcome") != "ok":
        run.correspondence_break("attack corpus could not be executed", None, result=res)
        return
    # order-sensitive probes again, each in a runtime of its own (nothing else has been looked at before them), and the whole
    # corpus once more in reverse order
    solo = lib.run_impl("c06_probes", [{"names": [n], "_timeout": 120} for n in ("filter-order", "python-builtins", "confirm-db-write")],
                        shards=3, timeout=400)
    for n, r in zip(("filter-order", "python-builtins", "confirm-db-write"), solo):
        if r.get("outcome") == "ok":
            res["outs"][n + "@fresh-runtime"] = r["outs"].get(n, "ok")
            for k, v in r["effects"].items():
                res["effects"][k] = res["effects"].get(k) or v
    pair = lib.run_impl("c06_probes", [{"names": ["seq1-plant-placeholders", "seq2-check-placeholders"], "_timeout": 120}], shards=1, timeout=200)[0]
    if pair.get("outcome") == "ok":
        res["outs"]["seq2-check-placeholders@fresh-runtime"] = pair["outs"].get("seq2-check-placeholders", "ok")
    rev = lib.run_impl("c06_probes", [{"_timeout": 300, "reverse": True}], shards=1, timeout=400)[0]
    if rev.get("outcome") == "ok":
        for n, o in rev["outs"].items():
            res["outs"][n + "@reverse-order"] = o
        for k, v in rev["effects"].items():
            res["effects"][k] = res["effects"].get(k) or v
    for name, out in sorted(res["outs"].items()):
        run.count(["probe", name], True, "probe")
        if out.startswith("ESCAPE:"):
            what = out.split(":")[1]
            run.property_failure("c06:escape:%s:%s" % (what, name), "probe %s obtained a forbidden capability: %s" % (name, out[:120]),
                                 {"probe": name})
        elif out.startswith("INFO:"):
            run.histogram["exposed-internal:" + out[5:40]] = 1
        elif 'class="error"' in out or "Lua execution error" in out:
            # a probe that does not run decides nothing (a syntax error in it would silently pass otherwise)
            run.correspondence_break("attack probe %s did not run to completion" % name, {"probe": name}, out=out[:200])
        elif out.startswith("RAISED:"):
            run.property_failure("c06:probe-raised:%s" % name, "probe %s made expand() raise %s" % (name, out), {"probe": name})
    for k, v in res["effects"].items():
        if v:
            run.property_failure("c06:effect:%s" % k, "a probe module had an effect outside the sandbox: %s" % k, {"effect": k})
    run.extra["traces_validated_against_impl"] = len(res["outs"])


def replay(data):
    case = data.get("case") or data["breaks"][0]["case"]
    if "probe" in case:
        print(lib.run_impl("c06_probes", [{"names": [case["probe"]]}], shards=1)[0])
    else:
        print(case)
    return 0
