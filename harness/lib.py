"""Shared machinery for the per-property checks (see DESIGN.md section 1).

Everything here is deliberately boring: build the Coq development, compile the
property file and read the `Print Assumptions` output, evaluate model functions
inside Coq on generated cases (`Eval vm_compute`), run the implementation in a
child interpreter on the same cases, classify failures against
known_findings.json, write evidence and replay files, print the verdict.
"""
from __future__ import annotations

import fcntl
import hashlib
import json
import os
import random
import re
import subprocess
import sys
import time
from pathlib import Path

VERIF = Path(__file__).resolve().parent.parent
REPO = Path(os.environ.get("VERIF_REPO", "/repo"))
COQ = VERIF / "coq"
BUILD = VERIF / "build"
PY = "/venv/bin/python"
GUARD = "WIKITEXTPROCESSOR_VERIF"
NCPU = min(16, os.cpu_count() or 4)

ALLOWED_AXIOMS: set[str] = set()  # the development targets none

HYGIENE_RE = re.compile(
    r"\b(Admitted|admit|Axiom|Parameter|Conjecture|Hypothesis|Variable|"
    r"Unset Guard|bypass_check|Admit Obligations|type-in-type|native_compute)\b"
)


def impl_env() -> dict:
    env = dict(os.environ)
    env["PYTHONPATH"] = str(REPO / "src")
    env["PYTHONHASHSEED"] = "0"
    env[GUARD] = "1"
    env["PYTHONDONTWRITEBYTECODE"] = "1"
    return env


# --------------------------------------------------------------------------
# Coq term printers (strings are `list N` of code points)
# --------------------------------------------------------------------------
def cN(n: int) -> str:
    return f"{n}%N"


def cZ(n: int) -> str:
    return f"({n})%Z"


def cnat(n: int) -> str:
    assert 0 <= n < 5000
    return f"{n}%nat"


def cbool(b: bool) -> str:
    return "true" if b else "false"


def cstr(s: str) -> str:
    if not s:
        return "(@nil N)"
    return "[" + ";".join(str(ord(c)) for c in s) + "]%N"


def clist(xs, f=lambda x: x, ty: str | None = None) -> str:
    xs = list(xs)
    if not xs:
        return f"(@nil ({ty}))" if ty else "[]"
    return "[" + "; ".join(f(x) for x in xs) + "]"


def copt(x, f=lambda x: x, ty: str | None = None) -> str:
    if x is None:
        return f"(@None ({ty}))" if ty else "None"
    return f"(Some {f(x)})"


def cpair(a: str, b: str) -> str:
    return f"({a}, {b})"


# --------------------------------------------------------------------------
# Coq build / evaluation
# --------------------------------------------------------------------------
class BuildLock:
    def __enter__(self):
        BUILD.mkdir(exist_ok=True)
        self.f = open(BUILD / ".lock", "w")
        fcntl.flock(self.f, fcntl.LOCK_EX)
        return self

    def __exit__(self, *a):
        fcntl.flock(self.f, fcntl.LOCK_UN)
        self.f.close()


def write_if_changed(path: Path, content: str) -> bool:
    path.parent.mkdir(parents=True, exist_ok=True)
    if path.exists() and path.read_text() == content:
        return False
    path.write_text(content)
    return True


def coq_project() -> None:
    """(Re)generate _CoqProject and the Makefile when the file set changes."""
    files = sorted(
        str(p.relative_to(COQ)) for p in COQ.rglob("*.v") if "cases" not in p.parts
    )
    content = "-Q . WTP\n" + "\n".join(files) + "\n"
    changed = write_if_changed(COQ / "_CoqProject", content)
    if changed or not (COQ / "Makefile").exists():
        subprocess.run(
            ["coq_makefile", "-f", "_CoqProject", "-o", "Makefile"],
            cwd=COQ, check=True, stdout=subprocess.DEVNULL,
        )


def coq_make(targets: list[str] | None = None, timeout: int = 1500):
    """Full .vo build (never -vos) of the given targets (all if None)."""
    with BuildLock():
        coq_project()
        cmd = ["timeout", str(timeout), "make", f"-j{NCPU}"]
        if targets:
            cmd += targets
        p = subprocess.run(cmd, cwd=COQ, capture_output=True, text=True)
        return p.returncode, p.stdout + p.stderr


def coqc_file(path: Path, timeout: int = 600):
    p = subprocess.run(
        ["timeout", str(timeout), "coqc", "-Q", str(COQ), "WTP", str(path)],
        capture_output=True, text=True, cwd=path.parent,
    )
    return p.returncode, p.stdout, p.stderr


def hygiene(files: list[Path]) -> list[str]:
    bad = []
    for f in files:
        txt = f.read_text()
        # strip comments (non-nested is enough for our own files)
        txt2 = re.sub(r"\(\*.*?\*\)", "", txt, flags=re.S)
        for i, line in enumerate(txt2.splitlines(), 1):
            m = HYGIENE_RE.search(line)
            if m:
                # Variables/Hypotheses are allowed inside a Section only
                if m.group(1) in ("Variable", "Hypothesis") and re.search(
                    r"^\s*Section\b", txt2, flags=re.M
                ):
                    continue
                bad.append(f"{f.relative_to(VERIF)}:{i}: {line.strip()}")
    return bad


def deps_of(vfile: Path) -> list[Path]:
    """Transitive WTP.* dependencies of a .v file (by Require lines)."""
    seen: dict[Path, None] = {}
    todo = [vfile]
    while todo:
        f = todo.pop()
        if f in seen or not f.exists():
            continue
        seen[f] = None
        for m in re.finditer(r"WTP\.([A-Za-z0-9_.]+)", f.read_text()):
            todo.append(COQ / (m.group(1).replace(".", "/") + ".v"))
        for m in re.finditer(
            r"From\s+WTP\s+Require\s+(?:Import|Export)\s+([^.]*(?:\.[A-Za-z][^.\s]*)*)\.",
            f.read_text(),
        ):
            for name in m.group(1).split():
                todo.append(COQ / (name.replace(".", "/") + ".v"))
    return list(seen)


def check_property_file(pid: str) -> dict:
    """Build Properties/<pid>.v and everything below it; parse assumptions."""
    vfile = COQ / "Properties" / f"{pid}.v"
    res = {
        "file": str(vfile.relative_to(VERIF)), "obligations": 0, "discharged": 0,
        "theorems": [], "axioms": {}, "errors": [], "hygiene": [],
    }
    src = vfile.read_text()
    src_nc = re.sub(r"\(\*.*?\*\)", "", src, flags=re.S)
    thms = re.findall(r"^\s*Theorem\s+([A-Za-z0-9_']+)", src_nc, flags=re.M)
    res["theorems"] = thms
    res["obligations"] = len(thms)
    for t in thms:
        if not re.search(r"Print Assumptions\s+" + re.escape(t) + r"\s*\.", src_nc):
            res["errors"].append(f"no Print Assumptions for {t}")
    res["hygiene"] = hygiene(deps_of(vfile))
    rc, out = coq_make([f"Properties/{pid}.vo"])
    if rc != 0:
        res["errors"].append("make failed: " + out[-3000:])
        return res
    with BuildLock():
        rc, out, err = coqc_file(vfile)
    if rc != 0:
        res["errors"].append("coqc failed: " + (out + err)[-3000:])
        return res
    # one block per Print Assumptions, in order
    blocks = re.split(r"(?=Closed under the global context|Axioms:)", out)
    blocks = [b for b in blocks if b.startswith(("Closed", "Axioms:"))]
    if len(blocks) != len(thms):
        res["errors"].append(
            f"expected {len(thms)} assumption reports, got {len(blocks)}"
        )
        return res
    for t, b in zip(thms, blocks):
        if b.startswith("Closed"):
            res["discharged"] += 1
            res["axioms"][t] = []
        else:
            names = re.findall(r"^([A-Za-z0-9_.']+)\s*:", b, flags=re.M)
            res["axioms"][t] = names
            if all(n in ALLOWED_AXIOMS for n in names):
                res["discharged"] += 1
            else:
                res["errors"].append(f"{t} depends on axioms {names}")
    if res["hygiene"]:
        res["errors"].append("hygiene: " + "; ".join(res["hygiene"][:5]))
    return res


def coq_eval_failing(
    name: str, imports: list[str], case_ty: str, cases: list[str], pred: str,
    chunk: int = 400, extra_defs: str = "",
) -> tuple[list[int], list[str]]:
    """Evaluate `pred : case_ty -> bool` on every case inside Coq; return the
    indices where it is false, plus error texts of chunks that failed to
    compile.  `cases` are Coq terms of type `case_ty`."""
    d = BUILD / "cases"
    d.mkdir(parents=True, exist_ok=True)
    files = []
    for k in range(0, len(cases), chunk):
        part = cases[k:k + chunk]
        f = d / f"{name}_{k // chunk}.v"
        body = (
            "From Coq Require Import List NArith ZArith Bool String.\nImport ListNotations.\n"
            + "".join(f"From WTP Require Import {i}.\n" for i in imports)
            + extra_defs + "\n"
            + f"Definition cases : list ({case_ty}) := [\n"
            + ";\n".join(part) + "\n].\n"
            + "Fixpoint bad_idx {A} (p : A -> bool) (i : nat) (l : list A) : list nat :=\n"
            + "  match l with [] => [] | x :: r => if p x then bad_idx p (S i) r else i :: bad_idx p (S i) r end.\n"
            + f"Eval vm_compute in (bad_idx ({pred}) 0 cases).\n"
        )
        f.write_text(body)
        files.append((k, f))
    bad: list[int] = []
    errs: list[str] = []
    procs = []
    it = iter(files)
    running: list = []

    def start(k, f):
        return (k, f, subprocess.Popen(
            ["timeout", "900", "coqc", "-Q", str(COQ), "WTP", str(f)],
            stdout=subprocess.PIPE, stderr=subprocess.PIPE, text=True, cwd=d,
        ))

    pending = list(files)
    while pending or running:
        while pending and len(running) < NCPU:
            running.append(start(*pending.pop(0)))
        k, f, p = running.pop(0)
        out, err = p.communicate()
        if p.returncode != 0:
            errs.append(f"{f.name}: {(out + err)[-1500:]}")
            continue
        m = re.search(r"=\s*\[(.*?)\]\s*:\s*list nat", out, flags=re.S)
        if not m:
            errs.append(f"{f.name}: unparsable output {out[-500:]}")
            continue
        for tok in re.findall(r"\d+", m.group(1)):
            bad.append(k + int(tok))
    return sorted(bad), errs


def coq_eval_term(imports: list[str], term: str, extra_defs: str = "") -> str:
    """Evaluate a single term with vm_compute and return Coq's printed text
    (used only to show the model's answer in replay files)."""
    d = BUILD / "cases"
    d.mkdir(parents=True, exist_ok=True)
    f = d / f"one_{os.getpid()}_{abs(hash(term)) % 10**8}.v"
    f.write_text(
        "From Coq Require Import List NArith ZArith Bool String.\nImport ListNotations.\n"
        + "".join(f"From WTP Require Import {i}.\n" for i in imports)
        + extra_defs + f"\nEval vm_compute in ({term}).\n"
    )
    rc, out, err = coqc_file(f)
    try:
        f.unlink()
        for ext in (".vo", ".glob", ".vok", ".vos"):
            f.with_suffix(ext).unlink(missing_ok=True)
    except OSError:
        pass
    return (out if rc == 0 else out + err).strip()[-4000:]


def decode_coq_nlist(text: str) -> str:
    """Best effort: turn a printed `[104%N; 105%N]` into a Python string."""
    try:
        return "".join(chr(int(x)) for x in re.findall(r"(\d+)%N", text))
    except Exception:
        return text


# --------------------------------------------------------------------------
# Implementation runner
# --------------------------------------------------------------------------
def run_impl(kind: str, cases: list, timeout: int = 1200, shards: int | None = None,
             extra_env: dict | None = None) -> list:
    """Run harness/impl.py <kind> on the cases (JSON in/out), sharded over
    processes.  Returns one result per case, in order."""
    if not cases:
        return []
    shards = shards or min(NCPU, max(1, len(cases) // 20))
    parts = [cases[i::shards] for i in range(shards)]
    env = impl_env()
    if extra_env:
        env.update(extra_env)
    procs = []
    for part in parts:
        p = subprocess.Popen(
            [PY, str(VERIF / "harness" / "impl.py"), kind],
            stdin=subprocess.PIPE, stdout=subprocess.PIPE, stderr=subprocess.PIPE,
            text=True, env=env, cwd="/",
        )
        procs.append((p, part))
    outs = []
    import threading

    results: list = [None] * len(procs)

    def work(i, p, part):
        try:
            out, err = p.communicate(json.dumps(part), timeout=timeout)
        except subprocess.TimeoutExpired:
            p.kill()
            out, err = p.communicate()
            results[i] = [{"outcome": "harness-timeout"}] * len(part)
            return
        try:
            line = [l for l in out.splitlines() if l.startswith("@@RESULT@@")][-1]
            results[i] = json.loads(line[len("@@RESULT@@"):])
        except Exception:
            results[i] = [{"outcome": "harness-crash", "stderr": err[-2000:],
                           "rc": p.returncode}] * len(part)

    ths = [threading.Thread(target=work, args=(i, p, part))
           for i, (p, part) in enumerate(procs)]
    for t in ths:
        t.start()
    for t in ths:
        t.join()
    merged: list = [None] * len(cases)
    for s, res in enumerate(results):
        for j, r in enumerate(res):
            merged[s + j * shards] = r
    return merged


# --------------------------------------------------------------------------
# Run context: verdicts, known findings, evidence, replays
# --------------------------------------------------------------------------
class Run:
    def __init__(self, pid: str, tier: str, seed: int):
        self.pid = pid
        self.tier = tier
        self.seed = seed
        self.rng = random.Random(f"{pid}-{seed}")
        self.t0 = time.time()
        self.proof: dict = {}
        self.violations: list[dict] = []       # property fails on impl
        self.known_hits: dict[str, dict] = {}   # signature -> example
        self.corr_breaks: list[dict] = []       # model != impl, or proof broke
        self.evaluations = 0
        self.distinct: set[str] = set()
        self.samples: list = []
        self.histogram: dict[str, int] = {}
        self.extra: dict = {}
        self.rule = ""
        self.trusted: list[str] = []
        self.assumptions: list[str] = []
        kf = json.loads((VERIF / "known_findings.json").read_text())
        self.known = {
            e["signature"]: e for e in kf.get("findings", [])
            if e.get("property") == pid
        }

    # -- bookkeeping ------------------------------------------------------
    def count(self, case, nontrivial: bool = True, kind: str | None = None):
        self.evaluations += 1
        if nontrivial:
            h = hashlib.sha1(
                json.dumps(case, sort_keys=True, default=str).encode()
            ).hexdigest()
            self.distinct.add(h)
        if kind:
            self.histogram[kind] = self.histogram.get(kind, 0) + 1
        if len(self.samples) < 6 and self.rng.random() < 0.3:
            self.samples.append(case)

    def prove(self):
        import regen
        for k, v in regen.regen(["GenPins"]).items():
            self.corr_breaks.append({"what": "translator %s failed (fail-closed)" % k, "case": None, "error": v})
        self.proof = check_property_file(self.pid)
        if self.proof["errors"]:
            self.corr_breaks.append({
                "what": "proof obligation does not check",
                "file": self.proof["file"], "errors": self.proof["errors"],
            })
        return self.proof

    def property_failure(self, signature: str, what: str, case):
        """The property fails on the implementation for `case`."""
        parts = signature.split("+")
        if all(p in self.known for p in parts):
            for p in parts:
                self.known_hits.setdefault(p, {"what": what, "case": case})
        else:
            self.violations.append({"signature": signature, "what": what, "case": case})

    def correspondence_break(self, what: str, case, **kw):
        self.corr_breaks.append({"what": what, "case": case, **kw})

    # -- verdict ----------------------------------------------------------
    def finish(self) -> int:
        wall = time.time() - self.t0
        rc = 0
        rp = VERIF / "replays" / self.pid
        rp.mkdir(parents=True, exist_ok=True)
        for old in rp.glob("*.json"):
            old.unlink()
        for sig in sorted(self.known):
            seen = "observed in this run" if sig in self.known_hits else "listed; not hit by this run's sample"
            print(f"KNOWN-FINDING: property={self.pid} {self.known[sig]['what']} [{sig}; {seen}]")
        seen_sig = set()
        for v in self.violations:
            if v["signature"] in seen_sig:
                continue
            seen_sig.add(v["signature"])
            h = hashlib.sha1(json.dumps(v, sort_keys=True, default=str).encode()).hexdigest()[:12]
            path = VERIF / "replays" / self.pid / f"{h}.json"
            path.write_text(json.dumps({"property": self.pid, "kind": "property-failure",
                                        "seed": self.seed, **v}, indent=1, default=str))
            print(f"VIOLATION property={self.pid} replay={path}")
            rc = 1
        if rc == 0 and self.corr_breaks:
            v = {"property": self.pid, "kind": "broken-proof-or-correspondence",
                 "seed": self.seed, "breaks": self.corr_breaks[:10],
                 "note": "the search over the generated cases found no input on which "
                         "the property itself fails on the implementation"}
            h = hashlib.sha1(json.dumps(v, sort_keys=True, default=str).encode()).hexdigest()[:12]
            path = VERIF / "replays" / self.pid / f"{h}.json"
            path.write_text(json.dumps(v, indent=1, default=str))
            print(f"VIOLATION property={self.pid} replay={path} no-failing-input-found")
            rc = 1
        nviol = len(seen_sig) + (1 if (rc == 1 and not seen_sig) else 0)
        if not self.samples:
            self.samples = ["(no cases)"]
        ev = {
            "property_id": self.pid, "tier": self.tier, "seed": self.seed,
            "level": "proof",
            "coverage": {
                "obligations": max(1, self.proof.get("obligations", 0)),
                "discharged": self.proof.get("discharged", 0),
                "checker_cmd": f"cd /verif/coq && make Properties/{self.pid}.vo && coqc -Q . WTP Properties/{self.pid}.v",
                "trusted_base": self.trusted or ["Coq 8.16.1 kernel"],
                "theorems": self.proof.get("theorems", []),
                "axioms": self.proof.get("axioms", {}),
                "proof_errors": self.proof.get("errors", []),
                "evaluations": self.evaluations,
                "distinct_nontrivial": len(self.distinct),
                "rule": self.rule,
                "samples": self.samples[:6],
                "input_distribution": self.histogram,
                "known_findings_hit": sorted(self.known_hits),
                "correspondence_breaks": len(self.corr_breaks),
                **self.extra,
            },
            "assumptions": self.assumptions,
            "wall_s": round(wall, 2),
            "violations": nviol,
        }
        (VERIF / "evidence").mkdir(exist_ok=True)
        (VERIF / "evidence" / f"{self.pid}.json").write_text(
            json.dumps(ev, indent=1, default=str) + "\n")
        print(f"[{self.pid}] tier={self.tier} seed={self.seed} evaluations={self.evaluations} "
              f"distinct={len(self.distinct)} proofs={self.proof.get('discharged', 0)}/"
              f"{self.proof.get('obligations', 0)} known={len(self.known_hits)} "
              f"violations={nviol} wall={wall:.1f}s")
        return rc
