"""Generator of expansion ASTs (the grammar of C04/C05/C13/C15), their
rendering to wikitext, Coq printers, and a reference semantics written from the
property text (MediaWiki transclusion rules)."""
import re
from lib import cstr, cN, clist, cbool, copt

TEXT_ATOMS = ["x", "y", "Zq", " ", "  ", "\n", "a b", "w ", " v", "0", "12", "é", "\nfoo", "bar\n", "-", ".", "*s", ":i", "#n", "m;", "q=r"]
NAMES = ["t0", "t1", "T2", "t3", "t 4"]
STORED = {"t0": "T0", "t1": "t1", "T2": "T2", "t3": "T3", "t 4": "T 4"}     # how each is stored (first letter cases)
PARAM_KEYS = ["1", "2", "3", "k", "Key two", "07"]


def T(args): return ["T", args]
def A(args): return ["A", args]
def L(args): return ["L", args]
def N_(c): return ["N", c]
def txt(s): return [ord(c) for c in s]


def gen_text(rng):
    return txt(rng.choice(TEXT_ATOMS))


def gen_seq(rng, depth, in_body, callable_names, maxlen=4, flags=None):
    flags = flags or {}
    out = []
    for _ in range(rng.randint(1, maxlen)):
        r = rng.random()
        if depth <= 0 or r < 0.45:
            out += gen_text(rng)
        elif r < 0.62 and in_body:
            out.append(gen_param(rng, depth - 1, in_body, callable_names, flags))
        elif r < 0.9:
            out.append(gen_call(rng, depth - 1, in_body, callable_names, flags))
        elif r < 0.95 and flags.get("links", True):
            largs = [gen_seq(rng, depth - 1, in_body, callable_names, 2, flags) for _ in range(rng.randint(1, 2))]
            largs[0] = txt("p") + largs[0]            # a link needs a non-blank target
            out.append(L(largs))
        elif flags.get("nowiki"):
            out.append(N_(rng.choice(["{{t0|z}}", "[[a]]", "* x", "{{{1}}}", "a=b|c", ""])))
        else:
            out += gen_text(rng)
    return out


def gen_param(rng, depth, in_body, names, flags):
    key = txt(rng.choice(["", " "]) + rng.choice(PARAM_KEYS) + rng.choice(["", " "]))
    args = [key]
    if rng.random() < 0.5:
        args.append(gen_seq(rng, depth, in_body, names, 2, flags) if rng.random() < 0.8 else [])
    return A(args)


def gen_call(rng, depth, in_body, names, flags):
    r = rng.random()
    if r < 0.22 and flags.get("pfs", True):
        return gen_pf(rng, depth, in_body, names, flags)
    if r < 0.3:
        name = "nosuch"
    elif names:
        name = rng.choice(names)
    else:
        name = "nosuch"
    nm = rng.choice(["", " ", "\n"]) + name + rng.choice(["", " "])
    args = [txt(nm)]
    if flags.get("pfs", True) and flags.get("computed_names", True) and rng.random() < 0.07:
        # the name itself is the result of a call (expanded in the caller's frame before the template is looked up)
        inner = T([txt("#if:" + rng.choice(["x", ""])), txt(name), txt(name)]) if rng.random() < 0.7 else \
            T([txt("#switch:a"), txt("a=" + name)])
        args = [txt(rng.choice(["", " "])) + [inner] + txt(rng.choice(["", " "]))]
    used = set()
    for _ in range(rng.randint(0, 3)):
        if rng.random() < 0.55:
            v = gen_seq(rng, depth, in_body, names, 2, flags)
            if v and isinstance(v[0], list) and v[0][0] in ("T", "A"):
                v = txt(" ") + v        # keep {{ and {{{ apart
            args.append(v)
        else:
            k = rng.choice(PARAM_KEYS)
            v = gen_seq(rng, depth, in_body, names, 2, flags)
            args.append(txt(rng.choice(["", " ", "\n"]) + k + rng.choice(["", " "]) + "=" + rng.choice(["", " "])) + v
                        + txt(rng.choice(["", " ", "\n"])))
    return T(args)


def gen_pf(rng, depth, in_body, names, flags):
    s = lambda: gen_seq(rng, depth, in_body, names, 2, flags)
    maybe_empty = lambda: s() if rng.random() < 0.7 else txt(rng.choice(["", " "]))
    which = rng.choice(["if", "ifeq", "switch"])
    if which == "if":
        return T([txt("#if:") + maybe_empty(), s()] + ([s()] if rng.random() < 0.7 else []))
    if which == "ifeq":
        a = s()
        b = a if rng.random() < 0.4 else s()
        if rng.random() < 0.25:
            # two spellings of one number, or of two different ones: compared numerically (01 = 1 = 1.0 = 1e0, 0 = -0)
            NUMS = ["1", "01", "1.0", "+1", "1e0", "10", "1e1", "010", "0", "-0", "0.0", "12", "12.", "1.20e1", ".5", "0.50", "2", "-2"]
            a, b = txt(rng.choice(["", " "]) + rng.choice(NUMS)), txt(rng.choice(NUMS) + rng.choice(["", " ", "\n"]))
        return T([txt("#ifeq:") + a, b, s()] + ([s()] if rng.random() < 0.7 else []))
    val = txt(rng.choice(["a", "b", "c", "d", "zz"]))
    if rng.random() < 0.2:
        # numeric labels: the value and a case that is another spelling of the same number
        val = txt(rng.choice(["1", "01", "2", "1.0", "10", "1e1"]))
        cases = []
        for _ in range(rng.randint(1, 4)):
            k = rng.choice(["1", "+1", "01", "2", "02", "1e1", "10", "a", "#default"])
            cases.append(txt(k + "=") + s() if rng.random() < 0.8 else txt(k))
        if rng.random() < 0.3:
            cases.append(s())
        return T([txt("#switch:") + val] + cases)
    cases = []
    for _ in range(rng.randint(1, 4)):
        k = rng.choice(["a", "b", "c", "d", "#default"])
        r = rng.random()
        if r < 0.2:
            cases.append(txt(k))                      # fall-through
        elif r < 0.4:
            # a fall-through group: several labels share the next keyed result
            for kk in rng.sample(["a", "b", "c", "d", "e"], rng.randint(2, 3)):
                cases.append(txt(kk))
            # (the group may end in "#default=": a matching label before it still takes that value - seed C04q)
            cases.append(txt(rng.choice(["a", "e", "zz", "#default", "#default"]) + "=") + s())
        else:
            cases.append(txt(k + "=") + s())
    if rng.random() < 0.3:
        cases.append(s())                             # trailing default without key
    return T([txt("#switch:") + (val if rng.random() < 0.7 else s())] + cases)


def fix_adjacent(seq):
    """Keep brace runs unambiguous: a cookie at the very start/end of an argument
    of an enclosing brace construct gets a space in between."""
    out = []
    for it in seq:
        if isinstance(it, list) and it[0] in ("T", "A", "L"):
            args = []
            for a in it[1]:
                a = fix_adjacent(a)
                if a and isinstance(a[0], list) and a[0][0] in ("T", "A"):
                    a = [32] + a
                if a and isinstance(a[-1], list) and a[-1][0] in ("T", "A"):
                    a = a + [32]
                args.append(a)
            out.append([it[0], args])
        else:
            out.append(it)
    return out


def render(seq):
    out = []
    for it in seq:
        if isinstance(it, int):
            out.append(chr(it))
        elif it[0] == "N":
            out.append("<nowiki>" + it[1] + "</nowiki>")
        else:
            o, c = {"T": ("{{", "}}"), "A": ("{{{", "}}}"), "L": ("[[", "]]")}[it[0]]
            out.append(o + "|".join(render(a) for a in it[1]) + c)
    return "".join(out)


def gen_library(rng, cyclic=False, flags=None):
    """Templates NAMES[i]; acyclic: body of i may only call j > i."""
    lib = []
    n = rng.randint(1, 5)
    names = NAMES[:n]
    for i, nm in enumerate(names):
        callable_ = names if cyclic else names[i + 1:]
        body = fix_adjacent(gen_seq(rng, rng.randint(1, 3), True, callable_, 4, flags))
        lib.append([STORED[nm], body, False])
    return lib, names


# ---------------------------------------------------------------- Coq printers
def coq_enc(seq):
    parts = []
    for it in seq:
        if isinstance(it, int):
            parts.append("Ch %d" % it)
        elif it[0] == "N":
            parts.append("Nw %s" % cstr(it[1]))
        elif it[0] in ("T", "A", "L"):
            parts.append("%s %s" % (it[0], clist(it[1], coq_enc, "list item")))
        else:
            raise ValueError("unsupported cookie kind %r" % (it[0],))
    return clist(parts, lambda x: x, "item")


def coq_lib(lib_ast):
    return clist(lib_ast, lambda t: "mktpl %s %s %s" % (cstr(t[0]), coq_enc(t[1]), cbool(t[2])), "tpl")


def coq_opts(o):
    names = lambda l: copt(l, lambda x: clist(x, cstr, "str"), "list str")
    hook = lambda on, d: clist(sorted((d or {}).items()) if on else [], lambda kv: "(%s, %s)" % (cstr(kv[0]), cstr(kv[1])),
                               "str * str")
    return "mkopts %s (mksel %s %s) false %s %s" % (
        cbool(o.get("parserfns", True)), names(o.get("expand_names")), names(o.get("not_expand_names")),
        hook(o.get("tfn"), o.get("tfn_ret")), hook(o.get("pfn"), o.get("pfn_ret")))


def has_unsupported(seq):
    for it in seq:
        if isinstance(it, list):
            if it[0] not in ("T", "A", "L", "N"):
                return True
            if it[0] != "N" and any(has_unsupported(a) for a in it[1]):
                return True
    return False


# ---------------------------------------------------------------- reference semantics (MediaWiki rules, from the property text)
WS = " \t\n\r\x0b\x0c"


def canon_key(k):
    k = k.strip()
    if k.isdigit() and int(k) > 0:
        return int(k)
    return re.sub(r"\s+", " ", k).strip()


class Ref:
    """Environment-based evaluation; `kludge` reproduces the known trailing-newline deviation (finding C04/#22)."""

    def __init__(self, lib, kludge=False, depth_limit=40, trim_first=None, switch_default_wins=False,
                 opts=None, leak=False, resplit=None, switch_link_eq=False, switch_skip_empty=False, link_name_pos=False):
        # leak: variant describing a known deviation -- the calls inside the arguments of an unexpanded parser
        # function stay placeholders; when such an argument value is substituted into a template body they are
        # expanded there (late), otherwise they are printed as written
        self.leak = leak
        # resplit: variant describing a known deviation -- a parameter value is substituted into the arguments of the
        # calls of a template body BEFORE they are split at '=', so a value containing '=' turns a positional argument
        # into a named one
        self.resplit = leak if resplit is None else resplit
        # switch_link_eq: variant describing a known deviation -- inside a template body links have already been turned into
        # text when #switch looks for '=' in its cases, so an '=' inside a link splits the case
        self.switch_link_eq = switch_link_eq
        # link_name_pos: variant describing a known deviation -- inside a template body links are text again when the
        # arguments of a call are split, so an argument whose name part holds a link is not recognised as named
        self.link_name_pos = link_name_pos
        # switch_skip_empty: variant describing a known deviation -- after a bare '#default' a case whose value is empty is not
        # taken as the default; the next case with a non-empty value is
        self.switch_skip_empty = switch_skip_empty
        self._top = None          # written name of the template whose body is being scanned at its top level
        self.deferred = []
        self.lib = {}
        for name, body, pre in lib:
            self.lib[name] = body
        self.kludge = kludge                      # one trailing newline of substituted values / nested-call args dropped
        self.trim_first = kludge if trim_first is None else trim_first   # named values trimmed before expansion
        self.depth_limit = depth_limit
        self.switch_default_wins = switch_default_wins
        self.unsupported = False
        o = opts or {}
        self.ea = not o.get("pre_expand", False)          # expand_all at the top level
        self.parserfns = o.get("parserfns", True)
        self.expand_names = o.get("expand_names")
        self.not_expand_names = o.get("not_expand_names")
        self.pre = {name: bool(pre) for name, body, pre in lib}
        self.tfn = o.get("tfn_ret", {}) if o.get("tfn") else None
        self.pfn = o.get("pfn_ret", {}) if o.get("pfn") else None
        self.log = []

    def stored_name(self, name):
        n = name.replace("_", " ")
        if n in self.lib:
            return n
        u = n[:1].upper() + n[1:]
        return u if u in self.lib else None

    def selected(self, name):
        st = self.stored_name(name)
        if st is None:
            return False
        pre = self.pre[st]
        e, ne = self.expand_names, self.not_expand_names
        if e is None and ne is not None:
            return name not in ne and pre
        if e is not None and ne is None:
            return name in e or pre
        if e is not None and ne is not None:
            return name not in ne and (name in e or pre)
        return pre

    def lookup(self, name):
        n = name.replace("_", " ")
        if n in self.lib:
            return self.lib[n]
        u = n[:1].upper() + n[1:]
        return self.lib.get(u)

    def ev(self, seq, env, depth=0, in_body=False, ea=None):
        self._ea_stack = getattr(self, "_ea_stack", [])
        if ea is None:
            ea = self._ea_stack[-1] if self._ea_stack else self.ea
        self._ea_stack.append(ea)
        try:
            return self._ev(seq, env, depth, in_body)
        finally:
            self._ea_stack.pop()

    @property
    def cur_ea(self):
        return self._ea_stack[-1]

    def _ev(self, seq, env, depth, in_body):
        out = []
        for it in seq:
            if isinstance(it, int):
                out.append(chr(it))
            elif it[0] == "N":
                out.append("\0N" + it[1] + "\0")        # inert; compared after quoting
            elif it[0] == "L":
                out.append("[[" + "|".join(self.ev(a, env, depth, in_body) for a in it[1]) + "]]")
            elif it[0] == "A":
                out.append(self.param(it[1], env, depth, in_body))
            else:
                out.append(self.call(it[1], env, depth, in_body))
        return "".join(out)

    def param(self, args, env, depth, in_body):
        if env is None:
            # page level: no parameters are defined; a default is used as written (not expanded)
            if len(args) >= 2:
                return "\0RAW" + render(args[1]) + "\0"
            return "{{{" + str(canon_key(self.ev(args[0], None, depth))) + "}}}"
        k = canon_key(self.ev(args[0], env, depth, in_body))
        if k in env:
            v = env[k]
            if self.leak and "\1" in v:
                def late(m):
                    item = self.deferred[int(m.group(1))]
                    if item[0] == "T" and self._top is not None and all(isinstance(x, int) for x in item[1][0]) \
                            and render(item[1][0]).strip() == self._top:
                        # expanded while the body of the same template is being scanned: taken for a loop
                        return '<strong class="error">Template loop detected: [[:Template:%s]]</strong>' % self._top
                    saved = self._top
                    self._top = None
                    try:
                        return self.ev([item], None, depth, False)
                    finally:
                        self._top = saved
                v = re.sub("\1(\\d+)\1", late, v)
            return v[:-1] if self.kludge and v.endswith("\n") else v
        if len(args) >= 2:
            return self.ev(args[1], env, depth, in_body)
        return "{{{" + str(k) + "}}}"

    def flatten_links(self, a):
        out = []
        for it in a:
            if not isinstance(it, int) and it[0] == "L":
                out += [91, 91]
                for j, x in enumerate(it[1]):
                    if j:
                        out.append(124)
                    out += self.flatten_links(x)
                out += [93, 93]
            else:
                out.append(it)
        return out

    def defer(self, a):
        out = []
        for it in a:
            if isinstance(it, int):
                out.append(chr(it))
            else:
                self.deferred.append(it)
                out.append("\1%d\1" % (len(self.deferred) - 1))
        return "".join(out)

    def finish(self, s):
        return re.sub("\1(\\d+)\1", lambda m: "\0RAW" + render([self.deferred[int(m.group(1))]]) + "\0", s)

    def nl(self, t):
        return "\n" + t if t.startswith(("*", ";", ":", "#", "{|")) else t

    def argtext(self, a, env, depth, in_body, keep_top=False):
        saved = self._top
        if not keep_top:
            self._top = None
        try:
            v = self.ev(a, env, depth, in_body)
        finally:
            self._top = saved
        if self.kludge and in_body and v.endswith("\n"):
            v = v[:-1]
        return v

    def call(self, args, env, depth, in_body):
        if depth > self.depth_limit:
            self.unsupported = True
            return ""
        name = self.argtext(args[0], env, depth, in_body).strip()
        if ":" in name:
            fn, first = name.split(":", 1)
            fn = re.sub(r"[\s_]+", " ", fn).lower()
            rest = [txt(first.lstrip())] + list(args[1:])
            if fn in ("#if", "#ifeq", "#switch") and not self.parserfns:
                if in_body and not self.leak:
                    self.unsupported = True      # raw arguments with substituted parameters: left to the model
                    # (the late-expansion variant prints them through defer(), as the code does)
                if self.leak:
                    return "{{" + fn + ":" + "|".join([first.lstrip()] + [self.defer(a) for a in args[1:]]) + "}}"
                return "{{" + fn + ":" + "|".join([first.lstrip()] + ["\0RAW" + render(a) + "\0" for a in args[1:]]) + "}}"
            saved = self._ea_stack[-1]
            self._ea_stack[-1] = True          # parser function arguments are always fully expanded
            try:
                return self.call_pf(fn, rest, env, depth, in_body)
            finally:
                self._ea_stack[-1] = saved
        if not self.cur_ea and not self.selected(name):
            # (a call that is left alone pushes no frame: its arguments are still at the top level of the enclosing body)
            return "{{" + "|".join(self.argtext(a, env, depth, in_body, keep_top=True) for a in args) + "}}"
        return self.call_template(name, args, env, depth, in_body)

    def call_pf(self, fn, rest, env, depth, in_body):
        # the first argument text has already been evaluated; treat as inert text
        if fn == "#if":
            return self.nl(self.pf_if(rest, env, depth, in_body))
        if fn == "#ifeq":
            return self.nl(self.pf_ifeq(rest, env, depth, in_body))
        if fn == "#switch":
            return self.nl(self.pf_switch(rest, env, depth, in_body))
        self.unsupported = True
        return ""

    def call_template(self, name, args, env, depth, in_body):
        ht = {}
        num = 1
        saved = self._ea_stack[-1]
        self._ea_stack[-1] = True              # arguments of an expanded template are fully expanded
        try:
            self.bind(args, env, depth, in_body, ht)
        finally:
            self._ea_stack[-1] = saved
        t = None
        if self.tfn is not None:
            self.log.append(["t", name, [[k, v] for k, v in ht.items()]])
            t = self.tfn.get(name)
        if t is None:
            body = self.lookup(name)
            if body is None:
                t = "[[:Template:" + name + "]]"
            else:
                saved_top = self._top
                self._top = name.strip()
                try:
                    t = self.ev(body, ht, depth + 1, True, ea=self.cur_ea)
                finally:
                    self._top = saved_top
        t = self.nl(t)
        if self.pfn is not None and t:
            self.log.append(["p", name, [[k, v] for k, v in ht.items()], t])
            t2 = self.pfn.get(name)
            if t2 is not None:
                t = t2
        return t

    def presub(self, a, env, level=0):
        """the resplit variant: what an argument text of a call in a template body looks like after the parameter values
        (and the defaults of unbound parameters, recursively) have been written into it"""
        a2 = []
        for it in a:
            if not isinstance(it, int) and it[0] == "A" and all(isinstance(x, int) for x in it[1][0]) and level < 8:
                k = canon_key(render(it[1][0]))
                val = env.get(k)
                if val is None and len(it[1]) >= 2:
                    a2 += self.presub(list(it[1][1]), env, level + 1)   # an unbound parameter's default is spliced in the same way
                    continue
                if isinstance(val, str) and "\0" not in val and "\1" not in val:
                    a2 += [ord(ch) for ch in (val[:-1] if self.kludge and val.endswith("\n") else val)]
                    continue
            a2.append(it)
        return a2

    def bind(self, args, env, depth, in_body, ht):
        num = 1
        for a in args[1:]:
            sp = self.split_named(a)
            if sp is None and self.resplit and env is not None:
                # substitute plain parameter values first, then look for '=' again
                a2 = self.presub(a, env)
                sp = self.split_named(a2)
            if sp is not None and self.link_name_pos and env is not None and self.name_has_link(sp[0], env):
                sp = None
            if sp is not None:
                k, v = sp
                kk = canon_key(self.ev(k, env, depth, in_body)) if not self.is_pos_num(k) else int(render(k).strip())
                ht[kk] = self.argtext(v, env, depth, in_body).strip() if not self.trim_first else \
                    self.ev_named_value(v, env, depth, in_body)
            else:
                ht[num] = self.argtext(a, env, depth, in_body)
                num += 1

    def name_has_link(self, k, env):
        for it in k:
            if isinstance(it, int):
                continue
            if it[0] == "L":
                return True
            if it[0] == "A" and all(isinstance(x, int) for x in it[1][0]):
                val = env.get(canon_key(render(it[1][0])))
                if val is None and len(it[1]) >= 2 and self.name_has_link(it[1][1], env):
                    return True
                if isinstance(val, str) and any(ch in val for ch in "[]&<>\"'"):
                    return True
        return False

    def ev_named_value(self, v, env, depth, in_body):
        # the code trims the argument text before expanding it
        v2 = list(v)
        if self.kludge and in_body and v2 and v2[-1] == 10:
            v2 = v2[:-1]
        while v2 and isinstance(v2[0], int) and chr(v2[0]) in WS:
            v2 = v2[1:]
        while v2 and isinstance(v2[-1], int) and chr(v2[-1]) in WS:
            v2 = v2[:-1]
        return self.ev(v2, env, depth, in_body)

    @staticmethod
    def is_pos_num(k):
        s = render(k).strip() if all(isinstance(i, int) for i in k) else ""
        return s.isdigit() and int(s) > 0

    @staticmethod
    def split_named(a):
        for i, it in enumerate(a):
            if it == 61:
                name = a[:i]
                ntxt = "".join(chr(x) if isinstance(x, int) else "\U0010ffff" for x in name)
                if not ntxt.strip() or re.search(r'[\]\[&<>="]', ntxt.strip()):
                    return None
                return name, a[i + 1:]
        return None

    def arg(self, args, i, env, depth, in_body):
        return self.argtext(args[i], env, depth, in_body).strip() if i < len(args) else ""

    def pf_if(self, args, env, depth, in_body):
        if self.arg(args, 0, env, depth, in_body):
            return self.arg(args, 1, env, depth, in_body)
        return self.arg(args, 2, env, depth, in_body)

    @staticmethod
    def mw_eq(a, b):
        """MediaWiki's comparison for #ifeq and #switch (Help:Extension:ParserFunctions): numerically when both strings are
        numbers, as case-sensitive text otherwise; written independently of the package (exact decimal arithmetic)"""
        if a == b:
            return True
        import re as _re
        from fractions import Fraction
        num = _re.compile(r"[+-]?([0-9]+\.?[0-9]*|\.[0-9]+)([eE][+-]?[0-9]+)?\Z")
        if num.match(a) and num.match(b) and "\0" not in a + b:
            val = lambda t: Fraction(t.replace("E", "e").rstrip(".") if not _re.search(r"\.[eE]", t) else t.replace(".e", "e").replace(".E", "e"))
            try:
                return val(a) == val(b)
            except (ValueError, ZeroDivisionError):
                return False
        return False

    def pf_ifeq(self, args, env, depth, in_body):
        if self.mw_eq(self.arg(args, 0, env, depth, in_body), self.arg(args, 1, env, depth, in_body)):
            return self.arg(args, 2, env, depth, in_body)
        return self.arg(args, 3, env, depth, in_body)

    def pf_switch(self, args, env, depth, in_body):
        # MediaWiki ParserFunctions::switch
        val = self.arg(args, 0, env, depth, in_body)
        found = False
        default_found = False
        default = None
        last = None
        for a in args[1:]:
            sp = None
            if self.switch_link_eq and in_body:
                a = self.flatten_links(a)
            for i, it in enumerate(a):
                if it == 60:
                    break
                if it == 61:
                    sp = (a[:i], a[i + 1:])
                    break
            if sp is None and self.resplit and in_body and env is not None:
                # (known deviation, resplit variant) the parameter values are already in the case's text when '=' is looked for
                a2 = self.presub(a, env)
                for i, it in enumerate(a2):
                    if it == 60:
                        break
                    if it == 61:
                        sp = (a2[:i], a2[i + 1:])
                        break
            if sp is None:
                last = self.argtext(a, env, depth, in_body).strip()
                if self.mw_eq(last, val):
                    found = True
                elif last.lower() == "#default":
                    default_found = True
                continue
            last = None
            if found:
                return self.argtext(sp[1], env, depth, in_body).strip()
            k = self.argtext(sp[0], env, depth, in_body).strip()
            if self.mw_eq(k, val):
                return self.argtext(sp[1], env, depth, in_body).strip()
            v_empty = len(sp[1]) == 0 or (self.kludge and in_body and list(sp[1]) == [10])
            if k.lower() == "#default":
                default = sp[1]
                if not (self.switch_skip_empty and v_empty):
                    default_found = False
            elif default_found and not (self.switch_skip_empty and v_empty):
                default = sp[1]
                default_found = False
        if last is not None and not (self.switch_default_wins and default is not None):
            return last
        if default is not None:
            return self.argtext(default, env, depth, in_body).strip()
        return ""


def normalise_out(s, nwmap=None):
    return s
