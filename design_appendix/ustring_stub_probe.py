USTRING_STUB = """
local u = {}
for k, v in pairs(string) do u[k] = v end
u.upper = string.upper
u.lower = string.lower
u.len = string.len
u.sub = string.sub
u.gsub = string.gsub
u.find = string.find
u.match = string.match
u.gmatch = string.gmatch
u.format = string.format
u.char = string.char
u.byte = string.byte
u.codepoint = string.byte
u.toNFC = function(s) return s end
u.toNFD = function(s) return s end
u.isutf8 = function(s) return true end
return u
"""
def add_stub(ctx):
    ctx.add_page("Module:ustring:ustring", 828, USTRING_STUB, model="Scribunto")
