(** Strings are lists of Unicode code points ([N]).  Case mapping is ASCII-only
    (other code points are treated as caseless: generators stay in that domain,
    see DESIGN.md trusted base). *)
From Coq Require Export List NArith Bool.
From Coq Require Import Arith Lia.
Export ListNotations.
Open Scope N_scope.

Definition str := list N.

Fixpoint str_eqb (a b : str) : bool :=
  match a, b with
  | [], [] => true
  | x :: a', y :: b' => N.eqb x y && str_eqb a' b'
  | _, _ => false
  end.

Fixpoint startswith (p s : str) : bool :=
  match p, s with
  | [], _ => true
  | x :: p', y :: s' => N.eqb x y && startswith p' s'
  | _ :: _, [] => false
  end.

Definition lower_c (c : N) : N := if (65 <=? c) && (c <=? 90) then c + 32 else c.
Definition upper_c (c : N) : N := if (97 <=? c) && (c <=? 122) then c - 32 else c.
Definition lower (s : str) : str := map lower_c s.
Definition upper (s : str) : str := map upper_c s.
Definition upper_first (s : str) : str :=
  match s with [] => [] | c :: r => upper_c c :: r end.

Definition replace_c (a b : N) (s : str) : str := map (fun c => if N.eqb c a then b else c) s.

(* Python str.isspace() for the code points our generators use (ASCII + NBSP-free):
   space, \t \n \v \f \r, \x1c-\x1f, \x85, \xa0 are whitespace for str.strip();
   the models are only ever run on the ASCII members. *)
Definition is_space (c : N) : bool :=
  (c =? 32) || ((9 <=? c) && (c <=? 13)) || ((28 <=? c) && (c <=? 31)) || (c =? 133) || (c =? 160).

Fixpoint lstrip (s : str) : str :=
  match s with
  | c :: r => if is_space c then lstrip r else s
  | [] => []
  end.
Definition rstrip (s : str) : str := rev (lstrip (rev s)).
Definition strip (s : str) : str := rstrip (lstrip s).

(* drop everything up to and including the first occurrence of c (s[s.index(c)+1:]) *)
Fixpoint after_first (c : N) (s : str) : str :=
  match s with
  | [] => []
  | x :: r => if N.eqb x c then r else after_first c r
  end.

Fixpoint skipn_str (n : nat) (s : str) : str := skipn n s.

Definition opt_str_eqb (a b : option str) : bool :=
  match a, b with
  | None, None => true
  | Some x, Some y => str_eqb x y
  | _, _ => false
  end.

Definition is_digit (c : N) : bool := (48 <=? c) && (c <=? 57).
