From Coq Require Import List NArith ZArith Bool Arith Lia.
From WTP Require Import Base.Str Proofs.StrProofs Model.ParserFns.
Import ListNotations.

(** * padleft / padright *)
Lemma rep_length pad m : length (rep pad m) = (m * length pad)%nat.
Proof. induction m; cbn [rep]; [reflexivity|]. rewrite app_length, IHm. lia. Qed.

Lemma firstn_rep_cyc k : forall pad cur m, pad <> [] ->
  (k <= length cur + m * length pad)%nat ->
  firstn k (cur ++ rep pad m) = cyc_aux k pad cur.
Proof. induction k as [|k IH]; intros pad cur m Hp Hk; [reflexivity|].
  destruct cur as [|c r].
  - destruct m as [|m]; [cbn in Hk; lia|]. destruct pad as [|c r]; [congruence|].
    cbn [rep app cyc_aux firstn]. f_equal. rewrite <- (IH (c :: r) r m Hp); [reflexivity|].
    cbn [length] in *. lia.
  - cbn [app cyc_aux firstn]. f_equal. apply IH; [exact Hp|]. cbn [length] in Hk. lia.
Qed.

Lemma cyc_aux_length k : forall pad cur, pad <> [] -> length (cyc_aux k pad cur) = k.
Proof. induction k as [|k IH]; intros pad cur Hp; [reflexivity|]. cbn [cyc_aux].
  destruct cur as [|c r]; [destruct pad as [|c r]; [congruence|]|]; cbn [length]; f_equal; apply IH; exact Hp. Qed.

Lemma pad_prefix v cnt pad : pad <> [] ->
  firstn (cnt - length v) (pad_string v cnt pad) = cyc (cnt - length v) pad.
Proof. intros Hp. unfold pad_string, cyc. set (need := (cnt - length v)%nat).
  assert (Hl : (0 < length pad)%nat) by (destruct pad; [congruence | cbn; lia]).
  destruct (Nat.ltb_spec (length pad) need) as [Hlt|Hge]; cbn [andb].
  - destruct (Nat.ltb_spec 0 (length pad)) as [_|H0]; [|lia].
    rewrite <- (firstn_rep_cyc need pad pad (need / length pad) Hp).
    + f_equal. replace (need / length pad + 1)%nat with (S (need / length pad)) by lia. reflexivity.
    + pose proof (Nat.div_mod need (length pad)) as Hd.
      pose proof (Nat.mod_upper_bound need (length pad)) as Hm.
      rewrite (Nat.mul_comm (need / length pad)). lia.
  - rewrite <- (firstn_rep_cyc need pad pad 0 Hp); [|lia]. cbn [rep]. rewrite app_nil_r. reflexivity.
Qed.

Theorem padleft_spec v cnt pad : pad <> [] ->
  padleft v cnt pad = cyc (cnt - length v) pad ++ v /\
  length (padleft v cnt pad) = Nat.max cnt (length v).
Proof. intros Hp. unfold padleft. destruct (Nat.ltb_spec (length v) cnt) as [Hlt|Hge].
  - rewrite (pad_prefix v cnt pad Hp). split; [reflexivity|].
    rewrite app_length. unfold cyc. rewrite cyc_aux_length by exact Hp. lia.
  - replace (cnt - length v)%nat with 0%nat by lia. split; [reflexivity | lia]. Qed.

Theorem padright_spec v cnt pad : pad <> [] ->
  padright v cnt pad = v ++ cyc (cnt - length v) pad /\
  length (padright v cnt pad) = Nat.max cnt (length v).
Proof. intros Hp. unfold padright. destruct (Nat.ltb_spec (length v) cnt) as [Hlt|Hge].
  - rewrite (pad_prefix v cnt pad Hp). split; [reflexivity|].
    rewrite app_length. unfold cyc. rewrite cyc_aux_length by exact Hp. lia.
  - replace (cnt - length v)%nat with 0%nat by lia. cbn [cyc cyc_aux]. rewrite app_nil_r. split; [reflexivity | lia]. Qed.

(* the i-th pad character is pad[i mod |pad|] *)
Lemma cyc_aux_nth k : forall pad cur i d, pad <> [] -> (i < k)%nat ->
  nth i (cyc_aux k pad cur) d =
  if Nat.ltb i (length cur) then nth i cur d else nth ((i - length cur) mod length pad) pad d.
Proof. induction k as [|k IH]; intros pad cur i d Hp Hi; [lia|]. cbn [cyc_aux].
  assert (Hl : (0 < length pad)%nat) by (destruct pad; [congruence | cbn; lia]).
  destruct cur as [|c r].
  - destruct pad as [|c r] eqn:E; [congruence|]. rewrite <- E in *. cbn [length]. rewrite Nat.sub_0_r.
    destruct i as [|i].
    + rewrite Nat.mod_small by lia. rewrite E. reflexivity.
    + cbn [nth]. rewrite IH by (try exact Hp; lia).
      assert (Hr : length r = (length pad - 1)%nat) by (rewrite E; cbn; lia).
      destruct (Nat.ltb_spec i (length r)) as [H1|H1].
      * rewrite Nat.mod_small by lia. rewrite E. reflexivity.
      * replace (S i) with ((i - length r) + 1 * length pad)%nat by lia.
        rewrite Nat.mod_add by lia. reflexivity.
  - destruct i as [|i]; [reflexivity|]. cbn [nth length]. rewrite IH by (try exact Hp; lia).
    destruct (Nat.ltb_spec i (length r)); destruct (Nat.ltb_spec (S i) (S (length r))); try lia; reflexivity.
Qed.

Theorem cyc_nth k pad i d : pad <> [] -> (i < k)%nat -> nth i (cyc k pad) d = nth (i mod length pad) pad d.
Proof. intros Hp Hi. unfold cyc. rewrite cyc_aux_nth by assumption.
  destruct (Nat.ltb_spec i (length pad)) as [H|H].
  - rewrite Nat.mod_small by lia. reflexivity.
  - assert (Hl : (0 < length pad)%nat) by (destruct pad; [congruence | cbn; lia]).
    replace i with ((i - length pad) + 1 * length pad)%nat at 2 by lia. rewrite Nat.mod_add by lia. reflexivity. Qed.

(** * #sub returns a contiguous piece of its argument *)
Theorem sub_fn_substring s start len :
  exists pre post, s = pre ++ sub_fn s start len ++ post.
Proof. unfold sub_fn. cbv zeta. match goal with |- context [firstn ?a (skipn ?b s)] => set (ln := a); set (st := b) end.
  exists (firstn st s), (skipn ln (skipn st s)).
  rewrite (firstn_skipn ln (skipn st s)). rewrite firstn_skipn. reflexivity. Qed.

(* start >= 0 within range and a positive length: exactly s[start : start+len] *)
Theorem sub_fn_plain s start len :
  (0 <= start <= Z.of_nat (length s))%Z -> (0 < len)%Z ->
  sub_fn s start len = firstn (Z.to_nat len) (skipn (Z.to_nat start) s).
Proof. intros Hs Hl. unfold sub_fn. cbv zeta.
  destruct (Z.ltb_spec start 0); [lia|]. rewrite Z.min_l by lia.
  destruct (Z.eqb_spec len 0); [lia|]. destruct (Z.ltb_spec len 0); [lia|]. reflexivity. Qed.

(* negative start counts from the end; length 0 runs to the end *)
Theorem sub_fn_from_end s k :
  (0 < k <= Z.of_nat (length s))%Z ->
  sub_fn s (- k) 0 = skipn (length s - Z.to_nat k) s.
Proof. intros Hk. unfold sub_fn. cbv zeta. destruct (Z.ltb_spec (- k) 0); [|lia].
  rewrite (Z.max_r 0 (Z.of_nat (length s) + - k)) by lia. rewrite Z.min_l by lia. rewrite Z.eqb_refl.
  replace (Z.to_nat (Z.of_nat (length s) + - k)) with (length s - Z.to_nat k)%nat by lia.
  apply firstn_all2. rewrite skipn_length. lia. Qed.

(** * plural *)
Theorem plural_selects r one many :
  plural_fn r one many = if str_eqb r [49%N] then one else many.
Proof. reflexivity. Qed.
