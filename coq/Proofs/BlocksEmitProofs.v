(** C19 at the level of blocks: writing a page tree back line by line (sections, paragraphs, rules and list lines in
    document order -- what to_wikitext does for LEVEL / HLINE / LIST / LIST_ITEM nodes and text) gives back the page it
    was parsed from, so parsing that again gives the same tree. *)
From Coq Require Import List Arith Bool Lia.
From WTP Require Import Model.Blocks Proofs.BlocksProofs.
From WTP Require Model.Lists Model.Nest Proofs.ListsProofs Proofs.NestProofs.
Import ListNotations.

(** * lists: the lines of a forest, in document order *)
Fixpoint lines_of (n : Lists.lnode) : list (Lists.marker * nat) :=
  match n with
  | Lists.LL _ items => (fix go (l : list Lists.lnode) := match l with [] => [] | x :: r => lines_of x ++ go r end) items
  | Lists.LI m id subs => (m, id) :: (fix go (l : list Lists.lnode) := match l with [] => [] | x :: r => lines_of x ++ go r end) subs
  end.
Definition lines_of_forest := fix go (l : list Lists.lnode) : list (Lists.marker * nat) :=
  match l with [] => [] | x :: r => lines_of x ++ go r end.
Lemma lines_LL m items : lines_of (Lists.LL m items) = lines_of_forest items.
Proof. reflexivity. Qed.
Lemma lines_LI m id subs : lines_of (Lists.LI m id subs) = (m, id) :: lines_of_forest subs.
Proof. reflexivity. Qed.
Lemma lines_app a b : lines_of_forest (a ++ b) = lines_of_forest a ++ lines_of_forest b.
Proof. induction a as [|x a IH]; [reflexivity|]. cbn [app lines_of_forest]. rewrite IH, app_assoc. reflexivity. Qed.

Lemma lists_span_app {A} (p : A -> bool) xs : let (a, b) := Lists.span p xs in xs = a ++ b.
Proof. induction xs as [|x r IH]; cbn [Lists.span]; [reflexivity|].
  destruct (p x); [|reflexivity]. destruct (Lists.span p r) as [a b]. cbn [app]. now rewrite IH. Qed.

Lemma lines_place line forest : lines_of_forest (Lists.place line forest) = line :: lines_of_forest forest.
Proof. destruct line as [m id]. unfold Lists.place.
  pose proof (lists_span_app (fun l => Lists.extends m (Lists.lmarker l)) forest) as Hs.
  destruct (Lists.span (fun l => Lists.extends m (Lists.lmarker l)) forest) as [a b]. subst forest.
  rewrite lines_app.
  destruct b as [|[m' items|m' i' s'] b'].
  - cbn [lines_of_forest]. rewrite lines_LL. cbn [lines_of_forest]. rewrite lines_LI, !app_nil_r. reflexivity.
  - destruct (Lists.marker_eqb m' m).
    + cbn [lines_of_forest]. rewrite !lines_LL. cbn [lines_of_forest]. rewrite lines_LI. cbn [app]. rewrite <- app_assoc. reflexivity.
    + cbn [lines_of_forest]. rewrite !lines_LL. cbn [lines_of_forest]. rewrite lines_LI. cbn [app]. rewrite app_nil_r. reflexivity.
  - cbn [lines_of_forest]. rewrite lines_LL. cbn [lines_of_forest]. rewrite !lines_LI. cbn [app]. rewrite app_nil_r. reflexivity. Qed.

Lemma lines_spec d : lines_of_forest (Lists.spec d) = d.
Proof. induction d as [|l d IH]; [reflexivity|]. cbn [Lists.spec fold_right]. fold (Lists.spec d). rewrite lines_place, IH. reflexivity. Qed.

(** * sections: the blocks of a tree, in document order *)
Fixpoint blocks_of (it : Nest.item) : list cblk :=
  match it with
  | Nest.IT (Nest.PText id) => [BT id]
  | Nest.IT (Nest.PList n) => map (fun l => BLI (fst l) (snd l)) (lines_of n)
  | Nest.IHR id => [BHR id]
  | Nest.ISec l id ch => BH l id :: (fix go (x : list Nest.item) := match x with [] => [] | y :: r => blocks_of y ++ go r end) ch
  end.
Definition blocks_of_forest := fix go (x : list Nest.item) : list cblk :=
  match x with [] => [] | y :: r => blocks_of y ++ go r end.
Lemma blocks_sec l id ch : blocks_of (Nest.ISec l id ch) = BH l id :: blocks_of_forest ch.
Proof. reflexivity. Qed.
Lemma blocks_app a b : blocks_of_forest (a ++ b) = blocks_of_forest a ++ blocks_of_forest b.
Proof. induction a as [|x a IH]; [reflexivity|]. cbn [app blocks_of_forest]. rewrite IH, app_assoc. reflexivity. Qed.

(* a grouped block written back *)
Definition back (b : Nest.blk) : list cblk :=
  match b with
  | Nest.H l id => [BH l id]
  | Nest.T (Nest.PText id) => [BT id]
  | Nest.T (Nest.PList n) => map (fun l => BLI (fst l) (snd l)) (lines_of n)
  | Nest.HR id => [BHR id]
  end.
Lemma blocks_place b forest : blocks_of_forest (Nest.place b forest) = back b ++ blocks_of_forest forest.
Proof. destruct b as [l id|[id|n]|id]; cbn [Nest.place back]; try reflexivity.
  pose proof (NestProofs.span_app (Nest.absorbs l) forest) as Hs.
  destruct (Nest.span (Nest.absorbs l) forest) as [a rest]. subst forest.
  cbn [blocks_of_forest]. rewrite blocks_sec, blocks_app. cbn [app]. reflexivity. Qed.
Lemma blocks_spec g : blocks_of_forest (Nest.spec g) = flat_map back g.
Proof. induction g as [|b g IH]; [reflexivity|]. cbn [Nest.spec fold_right flat_map]. fold (Nest.spec g).
  rewrite blocks_place, IH. reflexivity. Qed.

(* the grouped page written back is the page *)
Lemma back_lists pend : flat_map back (lists_as_blocks Lists.spec pend) = map (fun l => BLI (fst l) (snd l)) pend.
Proof. unfold lists_as_blocks. rewrite <- (lines_spec pend) at 2.
  induction (Lists.spec pend) as [|n f IH]; [reflexivity|].
  cbn [map flat_map back lines_of_forest]. rewrite map_app, IH. reflexivity. Qed.
Lemma back_group : forall d pend,
  flat_map back (group Lists.spec pend d) = map (fun l => BLI (fst l) (snd l)) pend ++ d.
Proof. induction d as [|b d IH]; intros pend.
  - cbn [group]. rewrite back_lists, app_nil_r. reflexivity.
  - destruct b as [l id|id|id|m id]; cbn [group];
      try (rewrite flat_map_app, back_lists; cbn [flat_map to_blk back app]; rewrite (IH []); reflexivity).
    rewrite IH, map_app, <- app_assoc. reflexivity. Qed.

Theorem written_back_is_the_page d : blocks_of_forest (spec d) = d.
Proof. unfold spec. rewrite blocks_spec, back_group. reflexivity. Qed.

Theorem blocks_round_trip d : Forall cblk_ok d -> parse (blocks_of_forest (spec d)) = spec d.
Proof. intros Hd. rewrite written_back_is_the_page. apply parse_spec. exact Hd. Qed.

Theorem blocks_round_trip_of_parsed d : Forall cblk_ok d -> parse (blocks_of_forest (parse d)) = parse d.
Proof. intros Hd. rewrite (parse_spec d Hd). apply blocks_round_trip. exact Hd. Qed.
