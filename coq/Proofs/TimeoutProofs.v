From Coq Require Import List Arith Bool Lia.
Import ListNotations.
From WTP Require Import Model.Timeout.

Definition good (s : st) (r : res) : Prop :=
  match r with
  | Ok s' => hook s' = true /\ deadline s' = deadline s /\ now s <= now s' /\ now s' <= Nat.max (now s) (deadline s)
  | Timeout s' => now s' <= Nat.max (now s) (deadline s) + 1 /\ deadline s' = deadline s
  | Hung => False
  end.

Lemma advance_good s n : hook s = true -> good s (advance s n).
Proof. intros Hh. unfold advance. rewrite Hh. cbn [andb].
  destruct (Nat.ltb_spec 0 n); cbn [andb]; [|cbn; repeat split; try assumption; lia].
  destruct (Nat.ltb_spec (deadline s) (now s + n)); cbn; repeat split; try assumption; lia. Qed.

(* soundness: whenever the model finishes within its fuel, a plain program either finished in time or was aborted
   within one tick of the deadline; it is never hung *)
Lemma plain_good fuel : forall p s r, plain p = true -> hook s = true -> exec fuel p s = Some r -> good s r.
Proof. induction fuel as [|f IH]; intros p s r Hp Hh He; [discriminate|].
  destruct p; cbn [plain] in Hp; try discriminate; cbn [exec] in He.
  - inversion He; subst. apply advance_good. exact Hh.
  - rewrite Hh in He. inversion He; subst. cbn. split; [lia | reflexivity].
  - apply andb_true_iff in Hp. destruct Hp as [Ha Hb].
    destruct (exec f p1 s) as [[s'| s'|]|] eqn:E1; try discriminate.
    + pose proof (IH _ _ _ Ha Hh E1) as (H1 & H2 & H3 & H4).
      pose proof (IH _ _ _ Hb H1 He) as G. destruct r as [s2|s2|]; cbn in *; [destruct G as (A & B & C & D) | destruct G as (A & B) |]; 
        repeat split; try congruence; try lia; try contradiction.
    + inversion He; subst. apply (IH _ _ _ Ha Hh E1).
    + inversion He; subst. apply (IH _ _ _ Ha Hh E1).
  - destruct (exec f p s) as [[s'| s'|]|] eqn:E1; try discriminate.
    + pose proof (IH _ _ _ Hp Hh E1) as (H1 & H2 & H3 & H4).
      assert (Hp' : plain (Forever p) = true) by exact Hp.
      destruct (Nat.ltb (now s) (now s')).
      * pose proof (IH _ _ _ Hp' H1 He) as G. destruct r as [s2|s2|]; cbn in *; [destruct G as (A' & B' & C' & D') | destruct G as (A' & B') |];
          repeat split; try congruence; try lia; try contradiction.
      * pose proof (advance_good s' 1 H1) as G1. destruct (advance s' 1) as [s''|s''|] eqn:Ea.
        -- destruct G1 as (A & B & C & D).
           pose proof (IH _ _ _ Hp' A He) as G. destruct r as [s2|s2|]; cbn in *; [destruct G as (A' & B' & C' & D') | destruct G as (A' & B') |];
             repeat split; try congruence; try lia; try contradiction.
        -- inversion He; subst. destruct G1 as (A & B). cbn. split; [lia | congruence].
        -- contradiction.
    + inversion He; subst. apply (IH _ _ _ Hp Hh E1).
    + inversion He; subst. apply (IH _ _ _ Hp Hh E1).
Qed.

(* progress: a plain program started before/after its deadline needs only bounded model fuel *)
Fixpoint size (p : prog) : nat :=
  match p with
  | Seq a b => S (size a + size b)
  | Forever q => S (size q)
  | Pcall q => S (size q)
  | _ => 1
  end.

Lemma plain_terminates : forall p s, plain p = true -> hook s = true ->
  exists fuel r, exec fuel p s = Some r.
Proof.
  (* measure: (deadline + 2 - now) rounds of Forever, each of bounded size *)
  induction p as [n| |a IHa b IHb|q IHq|q _|q _| |e]; intros s Hp Hh; cbn [plain] in Hp; try discriminate.
  - exists 1, (advance s n). reflexivity.
  - exists 1. eexists. reflexivity.
  - apply andb_true_iff in Hp. destruct Hp as [Ha Hb].
    destruct (IHa s Ha Hh) as (f1 & r1 & E1).
    pose proof (plain_good _ _ _ _ Ha Hh E1) as G1.
    destruct r1 as [s'|s'|]; [|exists (S f1); eexists; cbn [exec]; rewrite E1; reflexivity | contradiction].
    destruct G1 as (H1 & _). destruct (IHb s' Hb H1) as (f2 & r2 & E2).
    exists (S (f1 + f2)), r2. cbn [exec].
    assert (M : forall fuel p s r, exec fuel p s = Some r -> forall k, exec (fuel + k) p s = Some r).
    { clear. induction fuel as [|f IH]; intros p s r E k; [discriminate|]. cbn [plus exec] in *.
      destruct p; try exact E.
      - destruct (exec f p1 s) as [[s'|s'|]|] eqn:E1; try discriminate; rewrite (IH _ _ _ E1 k); try exact E. apply IH. exact E.
      - destruct (exec f p s) as [[s'|s'|]|] eqn:E1; try discriminate; rewrite (IH _ _ _ E1 k); try exact E.
        destruct (Nat.ltb (now s) (now s')); [apply IH; exact E|].
        destruct (advance s' 1); try exact E. apply IH. exact E.
      - destruct (exec f p s) as [[s'|s'|]|] eqn:E1; try discriminate; rewrite (IH _ _ _ E1 k); exact E.
      - destruct (exec f p s) as [[s'|s'|]|] eqn:E1; try discriminate; rewrite (IH _ _ _ E1 k); exact E. }
    rewrite (M _ _ _ _ E1 f2). rewrite Nat.add_comm. apply M. exact E2.
  - (* Forever: induction on the number of ticks left before the hook must fire *)
    assert (M : forall fuel p s r, exec fuel p s = Some r -> forall k, exec (fuel + k) p s = Some r).
    { clear. induction fuel as [|f IH]; intros p s r E k; [discriminate|]. cbn [plus exec] in *.
      destruct p; try exact E.
      - destruct (exec f p1 s) as [[s'|s'|]|] eqn:E1; try discriminate; rewrite (IH _ _ _ E1 k); try exact E. apply IH. exact E.
      - destruct (exec f p s) as [[s'|s'|]|] eqn:E1; try discriminate; rewrite (IH _ _ _ E1 k); try exact E.
        destruct (Nat.ltb (now s) (now s')); [apply IH; exact E|].
        destruct (advance s' 1); try exact E. apply IH. exact E.
      - destruct (exec f p s) as [[s'|s'|]|] eqn:E1; try discriminate; rewrite (IH _ _ _ E1 k); exact E.
      - destruct (exec f p s) as [[s'|s'|]|] eqn:E1; try discriminate; rewrite (IH _ _ _ E1 k); exact E. }
    remember (deadline s + 1 - now s) as left eqn:Hl.
    revert s Hh Hl. induction left as [left IHl] using lt_wf_ind. intros s Hh Hl.
    destruct (IHq s Hp Hh) as (f1 & r1 & E1).
    pose proof (plain_good _ _ _ _ Hp Hh E1) as G1.
    destruct r1 as [s'|s'|]; [|exists (S f1); eexists; cbn [exec]; rewrite E1; reflexivity | contradiction].
    destruct G1 as (H1 & H2 & H3 & H4).
    destruct (Nat.ltb_spec (now s) (now s')) as [Hadv|Hsame].
    + assert (Hlt : deadline s' + 1 - now s' < left) by lia.
      destruct (IHl _ Hlt s' H1 eq_refl) as (f2 & r2 & E2).
      exists (S (f1 + f2)), r2. cbn [exec]. rewrite (M _ _ _ _ E1 f2).
      destruct (Nat.ltb_spec (now s) (now s')); [|lia]. rewrite Nat.add_comm. apply M. exact E2.
    + pose proof (advance_good s' 1 H1) as G2.
      destruct (advance s' 1) as [s''|s''|] eqn:Ea.
      * destruct G2 as (A & B & C & D).
        assert (Hlt : deadline s'' + 1 - now s'' < left).
        { unfold advance in Ea. rewrite H1 in Ea. change (Nat.ltb 0 1) with true in Ea. cbn [andb] in Ea.
          destruct (Nat.ltb_spec (deadline s') (now s' + 1)); [discriminate|]. inversion Ea; subst. cbn. lia. }
        destruct (IHl _ Hlt s'' A eq_refl) as (f2 & r2 & E2).
        exists (S (f1 + f2)), r2. cbn [exec]. rewrite (M _ _ _ _ E1 f2).
        destruct (Nat.ltb_spec (now s) (now s')); [lia|]. rewrite Ea. rewrite Nat.add_comm. apply M. exact E2.
      * exists (S f1). eexists. cbn [exec]. rewrite E1. destruct (Nat.ltb_spec (now s) (now s')); [lia|]. rewrite Ea. reflexivity.
      * contradiction.
Qed.

(* Together: every plain program, run with the hook installed, finishes or is aborted within one tick of the deadline *)
Theorem plain_stopped p s : plain p = true -> hook s = true ->
  exists fuel r, exec fuel p s = Some r /\ good s r.
Proof. intros Hp Hh. destruct (plain_terminates p s Hp Hh) as (f & r & E). exists f, r. split; [exact E|].
  eapply plain_good; eassumption. Qed.

(* The refutations (known findings) *)
(* clearing the hook: the loop is never stopped *)
Example clear_hook_hangs : forall s, exec 5 (Seq ClearHook Loop) s = Some Hung.
Proof. intros s. reflexivity. Qed.

(* pcall swallows the timeout: the invocation "finishes normally" after its loop was aborted *)
Example pcall_swallows : forall d, exists s', exec 5 (Seq (Pcall Loop) (Finite 0)) (mkst 0 true d) = Some (Ok s').
Proof. intros d. eexists. cbn. reflexivity. Qed.

(* a loop around pcall is never stopped: the model needs more fuel than any given amount *)
Lemma forever_pcall_never_returns fuel : forall s, hook s = true ->
  exec fuel (Forever (Pcall Loop)) s = None.
Proof. induction fuel as [|f IH]; intros s Hh; [reflexivity|]. cbn [exec].
  destruct f as [|f']; [reflexivity|]. cbn [exec]. destruct f' as [|f'']; [reflexivity|]. cbn [exec]. rewrite Hh.
  cbn [now]. destruct (Nat.ltb_spec (now s) (Nat.max (now s + 1) (deadline s + 1))); [|lia].
  apply IH. reflexivity. Qed.

(* a loop around a nested invocation is never stopped either *)
Lemma forever_nested_never_returns fuel : forall s, hook s = true ->
  exec fuel (Forever (Nested Loop)) s = None.
Proof. induction fuel as [|f IH]; intros s Hh; [reflexivity|]. cbn [exec].
  destruct f as [|f']; [reflexivity|]. cbn [exec]. destruct f' as [|f'']; [reflexivity|]. cbn [exec]. rewrite Hh.
  cbn [now]. destruct (Nat.ltb_spec (now s) (Nat.max (now s + 1) (deadline s + 1))); [|lia].
  apply IH. reflexivity. Qed.
