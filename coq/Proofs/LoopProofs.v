From Coq Require Import List NArith Bool Arith Lia.
From WTP Require Import Base.Str Proofs.StrProofs Model.ArgViews Model.Expand Proofs.ExpandProofs.
Import ListNotations.

(** * The depth limit is reported in-band *)
Lemma expand_T_depth_limit pfnames lib opts f stk ea args :
  (100 <= length stk)%nat -> expand_T pfnames lib opts (S f) stk ea args = Some [ErrDeep].
Proof. intros H. cbn [expand_T]. destruct (Nat.leb_spec 100 (length stk)); [reflexivity | lia]. Qed.

(** * detect_expand_template_loop fires exactly on a repeated suffix *)
Lemma frame_eqb_eq a b : frame_eqb a b = true <-> a = b.
Proof. destruct a, b; cbn; split; intros H; try discriminate; try reflexivity;
  try (apply str_eqb_eq in H; now subst); try (inversion H; apply str_eqb_refl);
  try (apply key_eqb_eq in H; now subst); try (inversion H; apply key_eqb_refl). Qed.

Lemma frames_eqb_eq a : forall b, frames_eqb a b = true <-> a = b.
Proof. induction a as [|x a IH]; intros [|y b]; cbn; split; intros H; try discriminate; try reflexivity.
  - apply andb_true_iff in H. destruct H as [H1 H2]. apply frame_eqb_eq in H1. apply IH in H2. now subst.
  - inversion H; subst. apply andb_true_iff. split; [apply frame_eqb_eq | apply IH]; reflexivity. Qed.

(* soundness: when the detector fires, the stack ends in k >= 2 copies of a
   non-empty pattern whose first frame is not an ARGVAL frame *)
Theorem detect_loop_sound stack :
  detect_loop stack = true ->
  exists pre w k, stack = pre ++ repeat_frames w k /\ (2 <= k)%nat /\
                  match w with f :: _ => is_argval f = false | [] => False end.
Proof. unfold detect_loop. set (len := length stack).
  destruct (Nat.ltb len 2); [discriminate|].
  destruct (rev stack) as [|lastf before]; [discriminate|].
  destruct (negb (existsb (frame_eqb lastf) before)); [discriminate|].
  intros H. apply existsb_exists in H. destruct H as [ps [Hps H]].
  apply existsb_exists in H. destruct H as [i [Hi H]].
  apply in_seq in Hps. apply in_seq in Hi. unfold loop_at in H.
  destruct (Nat.eqb_spec ((len - i) mod ps) 0) as [Hmod|]; [|discriminate].
  destruct (firstn ps (skipn i stack)) as [|f pat] eqn:Ep; [discriminate|].
  destruct (is_argval f) eqn:Ea; [discriminate|].
  apply frames_eqb_eq in H.
  exists (firstn i stack), (f :: pat), ((len - i) / ps)%nat. split; [|split].
  - rewrite H. symmetry. apply firstn_skipn.
  - assert (Hd : (len - i = ps * ((len - i) / ps))%nat).
    { pose proof (Nat.div_mod (len - i) ps). lia. }
    assert (ps <= len / 2)%nat by lia.
    assert (2 * (len / 2) <= len)%nat.
    { pose proof (Nat.div_mod len 2). pose proof (Nat.mod_upper_bound len 2). lia. }
    destruct ((len - i) / ps)%nat as [|[|k]]; lia.
  - exact Ea.
Qed.

Lemma repeat_frames_length w k : length (repeat_frames w k) = (k * length w)%nat.
Proof. induction k; cbn [repeat_frames]; [reflexivity|]. rewrite app_length, IHk. lia. Qed.

(* completeness for two periods: a stack ending in w ++ w (w non-empty, not
   starting with an ARGVAL frame) is always detected *)
Theorem detect_loop_complete pre w :
  match w with f :: _ => is_argval f = false | [] => False end ->
  detect_loop (pre ++ w ++ w) = true.
Proof. intros Hw. destruct w as [|f w']; [contradiction|]. set (w := f :: w') in *.
  unfold detect_loop. set (stack := pre ++ w ++ w). set (len := length stack).
  assert (Hlen : len = (length pre + 2 * length w)%nat).
  { unfold len, stack. rewrite !app_length. lia. }
  assert (Hw1 : (1 <= length w)%nat) by (unfold w; cbn; lia).
  destruct (Nat.ltb_spec len 2) as [Hlt|_]; [lia|].
  destruct (rev stack) as [|lastf before] eqn:Er.
  { apply (f_equal (@length _)) in Er. rewrite rev_length in Er. cbn in Er. fold len in Er. lia. }
  (* the last frame occurs earlier: it is the last frame of the first copy of w *)
  assert (Hin : existsb (frame_eqb lastf) before = true).
  { unfold stack in Er. rewrite !rev_app_distr in Er.
    destruct (rev w) as [|x rw] eqn:Erw.
    { apply (f_equal (@length _)) in Erw. rewrite rev_length in Erw. cbn in Erw. lia. }
    cbn in Er. inversion Er; subst. apply existsb_exists. exists lastf. split; [|apply frame_eqb_eq; reflexivity].
    apply in_or_app. left. apply in_or_app. right. left. reflexivity. }
  rewrite Hin. cbn [negb].
  apply existsb_exists. exists (length w). split.
  - apply in_seq. split; [lia|]. assert (length w <= len / 2)%nat; [|lia].
    apply Nat.div_le_lower_bound; lia.
  - apply existsb_exists. exists (length pre). split; [apply in_seq; lia|].
    unfold loop_at. replace (len - length pre)%nat with (2 * length w)%nat by lia.
    rewrite Nat.mod_mul by lia. cbn [Nat.eqb].
    unfold stack. rewrite skipn_app, skipn_all, Nat.sub_diag. cbn [skipn app].
    rewrite firstn_app, firstn_all, Nat.sub_diag. cbn [firstn]. rewrite app_nil_r.
    unfold w at 1. cbn [is_argval]. fold w. rewrite Hw.
    rewrite Nat.div_mul by lia. cbn [repeat_frames]. rewrite app_nil_r.
    apply frames_eqb_eq. reflexivity.
Qed.
