(** Every list of written arguments comes back from vbar_split: for any non-empty list of arguments free of "|"
    and "<" (empty arguments included), cutting their "|"-joined text gives exactly that list. *)
From Coq Require Import Lia.
From WTP Require Import Base.Str Model.VbarSplit.
Open Scope N_scope.

Lemma take_arg_plain a : forall r, existsb (N.eqb bar) a = false ->
  take_arg (a ++ bar :: r) = (a, Some r) /\ take_arg a = (a, None).
Proof. induction a as [|c a IH]; intros r H; cbn [app take_arg existsb] in *.
  - rewrite N.eqb_refl. split; reflexivity.
  - apply orb_false_iff in H. destruct H as [Hc Ha]. rewrite N.eqb_sym in Hc. rewrite Hc.
    destruct (IH r Ha) as [E1 E2]. rewrite E1, E2. split; reflexivity. Qed.

Lemma plain_no_bar a : plain a = true -> existsb (N.eqb bar) a = false.
Proof. unfold plain. intros H. apply negb_true_iff in H. induction a as [|c a IH]; [reflexivity|].
  cbn [existsb] in *. apply orb_false_iff in H. destruct H as [Hc Ha]. apply orb_false_iff in Hc. destruct Hc as [Hb _].
  rewrite N.eqb_sym, Hb. cbn [orb]. apply IH. exact Ha. Qed.
Lemma plain_no_lt a : plain a = true -> existsb (N.eqb lt) a = false.
Proof. unfold plain. intros H. apply negb_true_iff in H. induction a as [|c a IH]; [reflexivity|].
  cbn [existsb] in *. apply orb_false_iff in H. destruct H as [Hc Ha]. apply orb_false_iff in Hc. destruct Hc as [_ Hl].
  rewrite N.eqb_sym, Hl. cbn [orb]. apply IH. exact Ha. Qed.

Lemma split_join : forall args fuel, args <> [] -> forallb plain args = true -> (length args <= fuel)%nat ->
  split_from fuel (join args) = args.
Proof. induction args as [|a args IH]; intros fuel Hne Hp Hf; [congruence|].
  cbn [forallb] in Hp. apply andb_true_iff in Hp. destruct Hp as [Ha Hr].
  destruct fuel as [|fuel]; [cbn in Hf; lia|]. cbn [split_from].
  destruct args as [|b args].
  - cbn [join]. rewrite (proj2 (take_arg_plain a [] (plain_no_bar a Ha))). reflexivity.
  - change (join (a :: b :: args)) with (a ++ bar :: join (b :: args)).
    rewrite (proj1 (take_arg_plain a (join (b :: args)) (plain_no_bar a Ha))).
    rewrite IH; [reflexivity | discriminate | exact Hr | cbn [length] in *; lia]. Qed.

Lemma join_length args : (length args <= S (length (join args)))%nat.
Proof. induction args as [|a [|b args] IH]; cbn [join length] in *; try lia.
  rewrite app_length. cbn [length] in *. lia. Qed.
Lemma join_no_lt args : forallb plain args = true -> existsb (N.eqb lt) (join args) = false.
Proof. induction args as [|a [|b args] IH]; intros H; [reflexivity| |].
  - cbn [join forallb] in *. apply andb_true_iff in H. apply plain_no_lt. apply H.
  - cbn [forallb] in H. apply andb_true_iff in H. destruct H as [Ha Hr].
    change (join (a :: b :: args)) with (a ++ bar :: join (b :: args)).
    rewrite existsb_app. rewrite (plain_no_lt a Ha). cbn [existsb orb]. apply (IH Hr). Qed.

Theorem vbar_split_join args : args <> [] -> forallb plain args = true -> vbar_split (join args) = Some args.
Proof. intros Hne Hp. unfold vbar_split. rewrite (join_no_lt args Hp).
  rewrite split_join; [reflexivity | exact Hne | exact Hp | apply join_length]. Qed.
