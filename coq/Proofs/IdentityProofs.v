(** C13, identity clause on the model: a page whose calls are all left alone (plain template names that are
    neither parser functions nor selected) comes back as written. *)
From Coq Require Import List NArith Bool Arith Lia.
From WTP Require Import Base.Str Model.ArgViews Model.ParserFns Model.Expand Proofs.ExpandProofs.
Import ListNotations.
Open Scope N_scope.

Section Identity.
Variable pfnames : list str.
Variable lib : list tpl.
Variable opts : options.
Variable nwmap : list (N * str).

(* the name of a call that is left alone: plain characters, no colon, not a parser function, not selected *)
Definition name_ok (a0 : enc) : bool :=
  let tc := codes (strip_i a0) in
  forallb is_ch a0 && negb (existsb (N.eqb 58) tc) &&
  match classify_pf pfnames (canon_pf pfnames tc) with PfNone => true | _ => false end &&
  negb (need_expand lib (o_sel opts) tc).

Fixpoint inert_i (i : item) : bool :=
  match i with
  | Ch _ => true
  | L args => forallb (forallb inert_i) args
  | T args => match args with
              | a0 :: more => name_ok a0 && forallb (forallb inert_i) more
              | [] => false
              end
  | _ => false
  end.
Definition inert (e : enc) : bool := forallb inert_i e.

(* the text as written *)
Fixpoint render_i (i : item) : str :=
  match i with
  | Ch c => [c]
  | T args => s_lbrace2 ++ join [124] (map (flat_map render_i) args) ++ s_rbrace2
  | L args => s_lsq2 ++ join [124] (map (flat_map render_i) args) ++ s_rsq2
  | _ => []
  end.
Definition render (e : enc) : str := flat_map render_i e.

Fixpoint isize (i : item) : nat :=
  match i with
  | T args | A args | L args => S (list_sum (map (fun a => S (list_sum (map isize a))) args))
  | _ => 1%nat
  end.
Definition esize (e : enc) : nat := list_sum (map isize e).
(* nesting depth of links (each pushes a frame) *)
Fixpoint ldepth_i (i : item) : nat :=
  match i with
  | L args => S (list_max (map (fun a => list_max (map ldepth_i a)) args))
  | T args => list_max (map (fun a => list_max (map ldepth_i a)) args)
  | _ => 0%nat
  end.
Definition ldepth (e : enc) : nat := list_max (map ldepth_i e).

(** helpers *)
Lemma chars_app a b : chars (a ++ b) = chars a ++ chars b.
Proof. unfold chars. apply map_app. Qed.
Lemma codes_chars s : codes (chars s) = s.
Proof. unfold codes, chars. rewrite map_map. cbn. apply map_id. Qed.
Lemma chars_codes e : forallb is_ch e = true -> chars (codes e) = e.
Proof. induction e as [|i e IH]; [reflexivity|]. cbn. intros H. apply andb_true_iff in H. destruct H as [Hi He].
  destruct i; try discriminate. cbn. f_equal. apply IH. exact He. Qed.
Lemma join_chars (l : list str) : join_i vbar (map chars l) = chars (join [124] l).
Proof. induction l as [|x l IH]; [reflexivity|]. destruct l as [|y l]; [reflexivity|].
  change (join_i vbar (map chars (x :: y :: l))) with (chars x ++ vbar ++ join_i vbar (map chars (y :: l))).
  change (join [124] (x :: y :: l)) with (x ++ [124] ++ join [124] (y :: l)).
  rewrite IH, !chars_app. reflexivity. Qed.
Lemma render_plain e : forallb is_ch e = true -> render e = codes e.
Proof. induction e as [|i e IH]; [reflexivity|]. cbn. intros H. apply andb_true_iff in H. destruct H as [Hi He].
  destruct i; try discriminate. cbn. f_equal. apply IH. exact He. Qed.
Lemma index_of_none c : forall s i, existsb (N.eqb c) s = false -> index_of c s i = None.
Proof. induction s as [|x s IH]; intros i H; [reflexivity|]. cbn in *. apply orb_false_iff in H. destruct H as [H1 H2].
  rewrite N.eqb_sym in H1. rewrite H1. apply IH. exact H2. Qed.

Definition Expands (stk : list frame) (e : enc) (out : enc) : Prop :=
  exists f0, forall f, (f0 <= f)%nat -> expand_recurse pfnames lib opts f stk false e = Some out.

Lemma expands_nil stk : Expands stk [] [].
Proof. exists 1%nat. intros f Hf. destruct f; [lia | reflexivity]. Qed.

Lemma expands_all stk (args : list (list item)) (outs : list (list item)) :
  Forall2 (Expands stk) args outs ->
  exists f0, forall f, (f0 <= f)%nat -> map_opt (expand_recurse pfnames lib opts f stk false) args = Some outs.
Proof. induction 1 as [|a o args outs [f1 H1] _ [f2 H2]].
  - exists 0%nat. intros; reflexivity.
  - exists (Nat.max f1 f2). intros f Hf. cbn [map_opt]. rewrite H1 by lia. rewrite H2 by lia. reflexivity. Qed.

Lemma er_cons_ch f stk ea c rest :
  expand_recurse pfnames lib opts (S f) stk ea (Ch c :: rest) =
  option_map (cons (Ch c)) (expand_recurse pfnames lib opts f stk ea rest).
Proof. cbn [expand_recurse]. destruct (expand_recurse pfnames lib opts f stk ea rest); reflexivity. Qed.
Lemma er_cons_L f stk ea args rest :
  expand_recurse pfnames lib opts (S f) stk ea (L args :: rest) =
  match expand_recurse pfnames lib opts f stk ea rest with
  | None => None
  | Some rest' => match map_opt (expand_recurse pfnames lib opts f (stk ++ [FLink]) ea) args with
                  | Some args' => Some (unexpanded_link args' ++ rest')
                  | None => None
                  end
  end.
Proof. reflexivity. Qed.
Lemma er_cons_T f stk ea args rest :
  expand_recurse pfnames lib opts (S f) stk ea (T args :: rest) =
  match expand_recurse pfnames lib opts f stk ea rest with
  | None => None
  | Some rest' => match expand_T pfnames lib opts f stk ea args with
                  | Some t => Some (t ++ rest')
                  | None => None
                  end
  end.
Proof. reflexivity. Qed.

Lemma expand_T_left_alone f stk (a0 : list item) (more : list (list item)) :
  name_ok a0 = true -> (length stk < 100)%nat -> (length a0 < f)%nat ->
  expand_T pfnames lib opts (S f) stk false (a0 :: more) =
  match map_opt (expand_recurse pfnames lib opts f stk false) (a0 :: more) with
  | Some args' => Some (unexpanded_template args')
  | None => None
  end.
Proof. intros Hn Hs Hf. unfold name_ok in Hn. cbv zeta in Hn.
  apply andb_true_iff in Hn. destruct Hn as [Hn Hsel]. apply andb_true_iff in Hn. destruct Hn as [Hn Hpf].
  apply andb_true_iff in Hn. destruct Hn as [Hch Hcolon]. apply negb_true_iff in Hcolon. apply negb_true_iff in Hsel.
  cbn [expand_T]. destruct (Nat.leb_spec 100 (length stk)) as [Hl|_]; [lia|].
  fold (expand_recurse pfnames lib opts) (expand_args pfnames lib opts) (build_args pfnames lib opts) (expand_pf pfnames lib opts).
  rewrite (expand_recurse_plain pfnames lib opts a0 Hch f (stk ++ [FTemplateName]) false Hf).
  rewrite (index_of_none 58 _ 0%nat Hcolon). cbv beta iota. rewrite Hcolon.
  destruct (classify_pf pfnames (canon_pf pfnames (codes (strip_i a0)))); try discriminate.
  rewrite Hsel. cbn [negb andb]. reflexivity. Qed.

Lemma list_sum_in (l : list nat) x : In x l -> (x <= list_sum l)%nat.
Proof. unfold list_sum. induction l as [|y l IH]; intros H; [destruct H|]. destruct H as [->|H]; cbn; [lia|]. specialize (IH H). lia. Qed.
Lemma list_max_in (l : list nat) x : In x l -> (x <= list_max l)%nat.
Proof. unfold list_max. induction l as [|y l IH]; intros H; [destruct H|]. destruct H as [->|H]; cbn; [lia|]. specialize (IH H). lia. Qed.

Lemma arg_smaller (args : list enc) a : In a args ->
  (S (esize a) <= list_sum (map (fun a => S (list_sum (map isize a))) args))%nat /\
  (ldepth a <= list_max (map (fun a => list_max (map ldepth_i a)) args))%nat.
Proof. intros H. split.
  - apply (list_sum_in _ (S (esize a))). apply (in_map (fun a => S (list_sum (map isize a))) args a H).
  - apply (list_max_in _ (ldepth a)). apply (in_map (fun a => list_max (map ldepth_i a)) args a H). Qed.

Lemma esize_cons i rest : esize (i :: rest) = (isize i + esize rest)%nat.
Proof. reflexivity. Qed.
Lemma ldepth_cons i rest : ldepth (i :: rest) = Nat.max (ldepth_i i) (ldepth rest).
Proof. reflexivity. Qed.
Lemma list_sum_cons x l : list_sum (x :: l) = (x + list_sum l)%nat.
Proof. reflexivity. Qed.
Lemma list_max_cons x l : list_max (x :: l) = Nat.max x (list_max l).
Proof. reflexivity. Qed.

Lemma main : forall n e, (esize e < n)%nat -> inert e = true -> forall stk, (length stk + ldepth e < 100)%nat ->
  Expands stk e (chars (render e)).
Proof. induction n as [|n IHn]; intros e Hsz Hin stk Hd; [lia|].
  destruct e as [|i rest]; [apply expands_nil|].
  unfold inert in Hin. cbn [forallb] in Hin. apply andb_true_iff in Hin. destruct Hin as [Hi Hrest].
  assert (Hi1 : (1 <= isize i)%nat) by (destruct i; cbn; lia).
  rewrite esize_cons in Hsz. rewrite ldepth_cons in Hd.
  assert (Hr : Expands stk rest (chars (render rest))) by (apply IHn; [lia | exact Hrest | lia]).
  (* all arguments of a nested construct *)
  assert (Hargs : forall (args : list enc) stk', forallb (forallb inert_i) args = true ->
            (list_sum (map (fun a => S (list_sum (map isize a))) args) <= n)%nat ->
            (length stk' + list_max (map (fun a => list_max (map ldepth_i a)) args) < 100)%nat ->
            Forall2 (Expands stk') args (map (fun a => chars (render a)) args)).
  { intros args stk' Hia Hsa Hda. assert (G : forall a, In a args -> Expands stk' a (chars (render a))).
    { intros a Ha. destruct (arg_smaller args a Ha) as [S1 S2]. apply IHn; [lia | | lia].
      rewrite forallb_forall in Hia. apply Hia. exact Ha. }
    clear -G. induction args as [|a args IH]; [constructor|]. cbn [map]. constructor.
    - apply G. left. reflexivity.
    - apply IH. intros b Hb. apply G. right. exact Hb. }
  destruct i as [c|args|args|args|c|]; cbn [inert_i] in Hi; try discriminate.
  - (* character *)
    destruct Hr as [f0 H]. exists (S f0). intros f Hf. destruct f as [|f]; [lia|].
    rewrite er_cons_ch, H by lia. reflexivity.
  - (* call that is left alone *)
    destruct args as [|a0 more]; [discriminate|]. apply andb_true_iff in Hi. destruct Hi as [Hn Hmore].
    cbn [isize] in Hsz. cbn [map] in Hsz. rewrite list_sum_cons in Hsz. cbn [ldepth_i map] in Hd. rewrite list_max_cons in Hd.
    assert (Hch : forallb is_ch a0 = true).
    { unfold name_ok in Hn. cbv zeta in Hn. repeat (apply andb_true_iff in Hn; destruct Hn as [Hn _]). exact Hn. }
    destruct (expands_all stk more _ (Hargs more stk Hmore ltac:(lia) ltac:(lia))) as [f1 H1].
    destruct Hr as [f0 H0]. exists (S (S (Nat.max (Nat.max f0 f1) (S (length a0))))). intros f Hf.
    destruct f as [|[|f]]; [lia | lia |].
    rewrite er_cons_T, H0 by lia. rewrite (expand_T_left_alone f stk a0 more Hn) by lia.
    cbn [map_opt]. rewrite (expand_recurse_plain pfnames lib opts a0 Hch f stk false) by lia. rewrite H1 by lia.
    f_equal. unfold unexpanded_template, render. cbn [flat_map render_i map]. fold (render rest).
    rewrite !chars_app. rewrite <- !app_assoc. f_equal.
    assert (Ea : a0 = chars (flat_map render_i a0)).
    { fold (render a0). rewrite (render_plain a0 Hch). symmetry. apply chars_codes. exact Hch. }
    rewrite Ea at 1. fold (render a0). f_equal.
    rewrite <- join_chars. f_equal. cbn [map]. rewrite map_map. reflexivity.
  - (* link *)
    cbn [isize] in Hsz. cbn [ldepth_i] in Hd.
    destruct (expands_all (stk ++ [FLink]) args _ (Hargs args (stk ++ [FLink]) Hi ltac:(lia)
                ltac:(rewrite app_length; cbn [length]; lia))) as [f1 H1].
    destruct Hr as [f0 H0]. exists (S (Nat.max f0 f1)). intros f Hf. destruct f as [|f]; [lia|].
    rewrite er_cons_L, H0 by lia. rewrite H1 by lia. f_equal.
    unfold unexpanded_link, render. cbn [flat_map render_i]. fold (render rest).
    rewrite !chars_app. rewrite <- !app_assoc. f_equal.
    f_equal. rewrite <- join_chars. f_equal. rewrite map_map. reflexivity.
Qed.

Lemma finalize_chars s fuel : (0 < fuel)%nat -> finalize fuel nwmap (chars s) = s.
Proof. apply finalize_plain. Qed.

(* the text finalize prints for the untouched page is the rendering *)
Lemma finalize_render : forall n e, (esize e < n)%nat -> inert e = true ->
  forall f, (n <= f)%nat -> finalize f nwmap e = render e.
Proof. induction n as [|n IHn]; intros e Hsz Hin f Hf; [lia|]. destruct f as [|f]; [lia|].
  cbn [finalize]. unfold render. induction e as [|i rest IHe]; [reflexivity|].
  unfold inert in Hin. cbn [forallb] in Hin. apply andb_true_iff in Hin. destruct Hin as [Hi Hrest].
  rewrite esize_cons in Hsz.
  assert (Hi1 : (1 <= isize i)%nat) by (destruct i; cbn; lia).
  cbn [flat_map]. rewrite IHe by (try exact Hrest; lia). f_equal.
  assert (Hargs : forall args : list enc, forallb (forallb inert_i) args = true ->
            (list_sum (map (fun a => S (list_sum (map isize a))) args) <= n)%nat ->
            map (finalize f nwmap) args = map (flat_map render_i) args).
  { intros args Hia Hsa. apply map_ext_in. intros a Ha. destruct (arg_smaller args a Ha) as [S1 _].
    apply (IHn a); [lia | | lia]. rewrite forallb_forall in Hia. apply Hia. exact Ha. }
  destruct i as [c|args|args|args|c|]; cbn [inert_i] in Hi; try discriminate; cbn [render_i isize] in *.
  - reflexivity.
  - destruct args as [|a0 more]; [discriminate|]. apply andb_true_iff in Hi. destruct Hi as [Hn Hmore].
    assert (Hch : forallb is_ch a0 = true).
    { unfold name_ok in Hn. cbv zeta in Hn. repeat (apply andb_true_iff in Hn; destruct Hn as [Hn _]). exact Hn. }
    cbn [map] in Hsz. rewrite list_sum_cons in Hsz. cbn [map]. rewrite (Hargs more Hmore) by lia.
    assert (E0 : finalize f nwmap a0 = flat_map render_i a0).
    { apply (IHn a0); [unfold esize; lia | | lia]. unfold inert. clear -Hch. induction a0 as [|i a IH]; [reflexivity|].
      cbn in *. apply andb_true_iff in Hch. destruct Hch as [H1 H2]. destruct i; try discriminate. cbn. apply IH. exact H2. }
    rewrite E0. reflexivity.
  - rewrite (Hargs args Hi) by lia. reflexivity.
Qed.

(* C13, identity clause: with pre_expand and no selected call on the page, expand() returns the page as written *)
Theorem identity e : inert e = true -> (ldepth e < 99)%nat ->
  exists f0, forall f, (f0 <= f)%nat ->
    expand_page pfnames nwmap lib opts true f e = Some (render e) /\ finalize f nwmap e = render e.
Proof. intros Hin Hd. destruct (main (S (esize e)) e ltac:(lia) Hin [FTitle] ltac:(cbn [length]; lia)) as [f0 H].
  exists (Nat.max (S f0) (S (esize e))). intros f Hf. split.
  - unfold expand_page. cbn [negb]. rewrite H by lia. f_equal. apply finalize_chars. lia.
  - apply (finalize_render (S (esize e)) e); [lia | exact Hin | lia]. Qed.
End Identity.
