From Coq Require Import List Arith Bool Lia.
Import ListNotations.
From WTP Require Import Model.Analyze Proofs.AnalyzeProofs.

(** Confinement over a capability graph (C06).  An edge (u, t) says that code
    holding a reference to u can obtain a reference to t (table field,
    metatable, attribute of a Python object, result of a call).  A program is
    any finite sequence of such moves; it can only ever hold references inside
    the closure of what it was given. *)
Fixpoint run_prog (edges : list (nat * nat)) (held : list nat) (prog : list (nat * nat)) : list nat :=
  match prog with
  | [] => held
  | (u, t) :: r =>
    if mem u held && existsb (fun e => Nat.eqb (fst e) u && Nat.eqb (snd e) t) edges
    then run_prog edges (t :: held) r else run_prog edges held r
  end.

Lemma edge_in edges u t :
  existsb (fun e => Nat.eqb (fst e) u && Nat.eqb (snd e) t) edges = true -> In (u, t) edges.
Proof. intros H. apply existsb_exists in H. destruct H as [[a b] [Hin He]]. cbn in He.
  apply andb_true_iff in He. destruct He as [H1 H2]. apply Nat.eqb_eq in H1. apply Nat.eqb_eq in H2. now subst. Qed.

Theorem confinement edges roots prog : forall held,
  (forall x, In x held -> Clo edges roots x) ->
  forall x, In x (run_prog edges held prog) -> Clo edges roots x.
Proof. induction prog as [|[u t] r IH]; intros held Hh x Hx; [apply Hh; exact Hx|]. cbn [run_prog] in Hx.
  destruct (mem u held && existsb (fun e => Nat.eqb (fst e) u && Nat.eqb (snd e) t) edges) eqn:E.
  - apply andb_true_iff in E. destruct E as [Hu He]. apply mem_In in Hu. apply edge_in in He.
    apply (IH (t :: held)); [|exact Hx]. intros y [<-|Hy]; [eapply Clo_step; [apply Hh; exact Hu | exact He] | apply Hh; exact Hy].
  - apply (IH held Hh). exact Hx.
Qed.

(* decidable side conditions of the closure theorem *)
Definition graph_ok (n : nat) (edges : list (nat * nat)) (roots : list nat) : bool :=
  forallb (fun e => Nat.ltb (snd e) n) edges && forallb (fun r => Nat.ltb r n) roots &&
  (fix nodup (l : list nat) : bool := match l with [] => true | x :: r => negb (mem x r) && nodup r end) roots.

Lemma graph_ok_spec n edges roots : graph_ok n edges roots = true ->
  (forall u t, In (u, t) edges -> t < n) /\ (forall f, In f roots -> f < n) /\ NoDup roots.
Proof. unfold graph_ok. intros H. apply andb_true_iff in H. destruct H as [H H3]. apply andb_true_iff in H. destruct H as [H1 H2].
  rewrite forallb_forall in H1, H2. repeat split.
  - intros u t Hin. specialize (H1 _ Hin). cbn in H1. apply Nat.ltb_lt. exact H1.
  - intros f Hf. apply Nat.ltb_lt. apply H2. exact Hf.
  - induction roots as [|x r IH]; [constructor|]. apply andb_true_iff in H3. destruct H3 as [Hx Hr].
    constructor; [apply negb_true_iff in Hx; apply mem_nIn; exact Hx|]. apply IH; [|exact Hr].
    intros y Hy. apply H2. right; exact Hy. Qed.

(* if the computed closure avoids the forbidden nodes, so does every program *)
Theorem closure_confines n edges roots forbidden :
  graph_ok n edges roots = true ->
  forallb (fun x => negb (mem x forbidden)) (fst (propagate n edges roots)) = true ->
  forall prog x, In x (run_prog edges roots prog) -> ~ In x forbidden.
Proof. intros Hok Hc prog x Hx Hf.
  destruct (graph_ok_spec _ _ _ Hok) as (H1 & H2 & H3).
  destruct (propagate_exact n edges roots H1 H2 H3) as [_ Hclo].
  assert (Clo edges roots x) as Hr.
  { eapply confinement; [|exact Hx]. intros y Hy. apply Clo_flag. exact Hy. }
  apply Hclo in Hr. rewrite forallb_forall in Hc. specialize (Hc _ Hr).
  apply negb_true_iff in Hc. apply mem_nIn in Hc. contradiction. Qed.
