From Coq Require Import List ZArith Bool Lia.
From WTP Require Import Model.Skeleton.
Import ListNotations.
Open Scope Z_scope.

(** Concrete (nondeterministic, big-step) semantics: the state is the depth of
    expand_stack.  A derivation is a finite tree, i.e. a terminating execution. *)
Inductive res := R (k : kind) (d : Z).

Section Sem.
  Variable funs : list blk.
  Definition body (f : nat) : blk := nth f funs Nil.

  Inductive exec_stmt : stmt -> Z -> res -> Prop :=
  | E_push d : exec_stmt Push d (R KNorm (d + 1))
  | E_pop d : exec_stmt Pop d (R KNorm (d - 1))
  | E_call f d k d' : (f < length funs)%nat -> exec_blk (body f) d (R k d') -> (k = KNorm \/ k = KRet) ->
                      exec_stmt (Call f) d (R KNorm d')
  | E_ret d : exec_stmt Ret d (R KRet d)
  | E_cont d : exec_stmt Cont d (R KCont d)
  | E_brk d : exec_stmt Brk d (R KBrk d)
  | E_if_l a b d r : exec_blk a d r -> exec_stmt (If2 a b) d r
  | E_if_r a b d r : exec_blk b d r -> exec_stmt (If2 a b) d r
  | E_loop_done b d : exec_stmt (Loop b) d (R KNorm d)
  | E_loop_iter b d k d' r : exec_blk b d (R k d') -> (k = KNorm \/ k = KCont) ->
                             exec_stmt (Loop b) d' r -> exec_stmt (Loop b) d r
  | E_loop_brk b d d' : exec_blk b d (R KBrk d') -> exec_stmt (Loop b) d (R KNorm d')
  | E_loop_ret b d d' : exec_blk b d (R KRet d') -> exec_stmt (Loop b) d (R KRet d')
  with exec_blk : blk -> Z -> res -> Prop :=
  | E_nil d : exec_blk Nil d (R KNorm d)
  | E_cons_go s r d d' x : exec_stmt s d (R KNorm d') -> exec_blk r d' x -> exec_blk (Cons s r) d x
  | E_cons_exit s r d k d' : exec_stmt s d (R k d') -> k <> KNorm -> exec_blk (Cons s r) d (R k d').

  Scheme exec_stmt_ind2 := Induction for exec_stmt Sort Prop
    with exec_blk_ind2 := Induction for exec_blk Sort Prop.
  Combined Scheme exec_mutind from exec_stmt_ind2, exec_blk_ind2.

  Hypothesis all_ok : check_all funs = true.

  Lemma body_ok f : (f < length funs)%nat -> fun_ok (body f) = true.
  Proof. intros H. unfold check_all in all_ok. rewrite forallb_forall in all_ok.
    apply all_ok. apply nth_In. exact H. Qed.

  Lemma kind_eqb_eq a b : kind_eqb a b = true <-> a = b.
  Proof. destruct a, b; cbn; split; congruence. Qed.

  Lemma seq_summ_exit x y k dl : k <> KNorm -> In (k, dl) x -> In (k, dl) (seq_summ x y).
  Proof. intros Hk Hi. unfold seq_summ. apply in_or_app. left. apply filter_In. split; [exact Hi|].
    cbn. destruct k; try reflexivity. congruence. Qed.

  Lemma seq_summ_go x y d1 k d2 : In (KNorm, d1) x -> In (k, d2) y -> In (k, d1 + d2) (seq_summ x y).
  Proof. intros H1 H2. unfold seq_summ. apply in_or_app. right. apply in_flat_map.
    exists (KNorm, d1). split; [exact H1|]. cbn. apply in_map_iff. exists (k, d2). split; [reflexivity | exact H2]. Qed.

  (* soundness of the summary w.r.t. every terminating execution *)
  Lemma summ_sound :
    (forall s d r, exec_stmt s d r -> forall x, summ_stmt s = Some x ->
        match r with R k d' => In (k, d' - d) x end) /\
    (forall b d r, exec_blk b d r -> forall x, summ_blk b = Some x ->
        match r with R k d' => In (k, d' - d) x end).
  Proof. apply exec_mutind; intros.
    - inversion H; subst. left. f_equal. lia.
    - inversion H; subst. left. f_equal. lia.
    - (* call *) inversion H0; subst. pose proof (body_ok f l) as Hok. unfold fun_ok in Hok.
      destruct (summ_blk (body f)) as [y|] eqn:Ey; [|discriminate].
      specialize (H y eq_refl). rewrite forallb_forall in Hok. specialize (Hok _ H). cbn in Hok.
      left. f_equal. destruct o as [->| ->]; apply Z.eqb_eq in Hok; lia.
    - inversion H; subst. left. f_equal. lia.
    - inversion H; subst. left. f_equal. lia.
    - inversion H; subst. left. f_equal. lia.
    - cbn in H0. destruct (summ_blk a) as [xa|]; [|discriminate]. destruct (summ_blk b) as [xb|]; [|discriminate].
      inversion H0; subst. destruct r. apply in_or_app. left. apply (H xa eq_refl).
    - cbn in H0. destruct (summ_blk a) as [xa|]; [|discriminate]. destruct (summ_blk b) as [xb|]; [|discriminate].
      inversion H0; subst. destruct r. apply in_or_app. right. apply (H xb eq_refl).
    - cbn in H. destruct (summ_blk b) as [xb|]; [|discriminate]. destruct (loop_ok xb); [|discriminate].
      inversion H; subst. left. f_equal. lia.
    - (* loop iteration *) pose proof H1 as H1'. cbn in H1. destruct (summ_blk b) as [xb|] eqn:Eb; [|discriminate].
      destruct (loop_ok xb) eqn:El; [|discriminate]. inversion H1; subst.
      specialize (H xb eq_refl). unfold loop_ok in El. rewrite forallb_forall in El. specialize (El _ H). cbn in El.
      assert (d' = d) by (destruct o as [->| ->]; apply Z.eqb_eq in El; lia). subst d'.
      apply (H0 _ H1').
    - cbn in H0. destruct (summ_blk b) as [xb|] eqn:Eb; [|discriminate]. destruct (loop_ok xb); [|discriminate].
      inversion H0; subst. specialize (H xb eq_refl). right. apply in_flat_map. exists (KBrk, d' - d).
      split; [exact H | left; reflexivity].
    - cbn in H0. destruct (summ_blk b) as [xb|] eqn:Eb; [|discriminate]. destruct (loop_ok xb); [|discriminate].
      inversion H0; subst. specialize (H xb eq_refl). right. apply in_flat_map. exists (KRet, d' - d).
      split; [exact H | left; reflexivity].
    - inversion H; subst. left. f_equal. lia.
    - cbn in H1. destruct (summ_stmt s) as [xs|]; [|discriminate]. destruct (summ_blk r) as [xr|]; [|discriminate].
      inversion H1; subst. specialize (H xs eq_refl). specialize (H0 xr eq_refl). destruct x as [k d2].
      replace (d2 - d) with ((d' - d) + (d2 - d')) by lia. apply seq_summ_go; assumption.
    - cbn in H0. destruct (summ_stmt s) as [xs|]; [|discriminate]. destruct (summ_blk r) as [xr|]; [|discriminate].
      inversion H0; subst. specialize (H xs eq_refl). apply seq_summ_exit; assumption.
  Qed.

  (* every function that passes the check leaves the stack as it found it *)
  Theorem check_sound f d k d' :
    (f < length funs)%nat -> exec_blk (body f) d (R k d') -> (k = KNorm \/ k = KRet) /\ d' = d.
  Proof. intros Hf He. pose proof (body_ok f Hf) as Hok. unfold fun_ok in Hok.
    destruct (summ_blk (body f)) as [y|] eqn:Ey; [|discriminate].
    pose proof (proj2 summ_sound _ _ _ He y Ey) as Hin. cbn in Hin.
    rewrite forallb_forall in Hok. specialize (Hok _ Hin). cbn in Hok.
    destruct k; try discriminate; apply Z.eqb_eq in Hok; split; try lia; tauto. Qed.
End Sem.

(* non-vacuity / sanity: a leaking early return is rejected, the repaired shape accepted *)
Example leak_rejected :
  check_all [Cons Push (Cons (If2 (Cons Ret Nil) Nil) (Cons Pop Nil))] = false.
Proof. reflexivity. Qed.
Example repaired_accepted :
  check_all [Cons Push (Cons (If2 (Cons Pop (Cons Ret Nil)) Nil) (Cons (Loop (Cons (Call 0) Nil)) (Cons Pop Nil)))] = true.
Proof. reflexivity. Qed.
Example exec_example :
  exec_blk [Cons Push (Cons Pop Nil)] (Cons (Call 0) Nil) 5 (R KNorm 5).
Proof. eapply E_cons_go; [|apply E_nil]. eapply E_call with (k := KNorm); [cbn; lia | | left; reflexivity].
  cbn. eapply E_cons_go; [apply E_push|]. eapply E_cons_go; [apply E_pop|].
  replace (5 + 1 - 1) with 5 by lia. apply E_nil. Qed.
