From Coq Require Import List ZArith Bool Lia.
From WTP Require Import Model.Skeleton.
Import ListNotations.
Open Scope Z_scope.

(** Concrete (nondeterministic, big-step) semantics: the state is the depth of
    expand_stack.  A derivation is a finite tree, i.e. a terminating execution. *)
Inductive res := R (k : kind) (d : Z).

Section Sem.
  Variable funs : list blk.
  Definition body (f : nat) : blk := nth f funs Nil.

  Inductive exec_stmt : stmt -> Z -> res -> Prop :=
  | E_push d : exec_stmt Push d (R KNorm (d + 1))
  | E_pop d : exec_stmt Pop d (R KNorm (d - 1))
  | E_call f d k d' : (f < length funs)%nat -> exec_blk (body f) d (R k d') -> (k = KNorm \/ k = KRet) ->
                      exec_stmt (Call f) d (R KNorm d')
  | E_ret d : exec_stmt Ret d (R KRet d)
  | E_cont d : exec_stmt Cont d (R KCont d)
  | E_brk d : exec_stmt Brk d (R KBrk d)
  | E_leak d n : 0 <= n -> exec_stmt Leak d (R KNorm (d + n))
  | E_if_l a b d r : exec_blk a d r -> exec_stmt (If2 a b) d r
  | E_if_r a b d r : exec_blk b d r -> exec_stmt (If2 a b) d r
  | E_loop_done b d : exec_stmt (Loop b) d (R KNorm d)
  | E_loop_iter b d k d' r : exec_blk b d (R k d') -> (k = KNorm \/ k = KCont) ->
                             exec_stmt (Loop b) d' r -> exec_stmt (Loop b) d r
  | E_loop_brk b d d' : exec_blk b d (R KBrk d') -> exec_stmt (Loop b) d (R KNorm d')
  | E_loop_ret b d d' : exec_blk b d (R KRet d') -> exec_stmt (Loop b) d (R KRet d')
  | E_restore b d k d' : exec_blk b d (R k d') -> exec_stmt (Restore b) d (R k (Z.min d' d))
  with exec_blk : blk -> Z -> res -> Prop :=
  | E_nil d : exec_blk Nil d (R KNorm d)
  | E_cons_go s r d d' x : exec_stmt s d (R KNorm d') -> exec_blk r d' x -> exec_blk (Cons s r) d x
  | E_cons_exit s r d k d' : exec_stmt s d (R k d') -> k <> KNorm -> exec_blk (Cons s r) d (R k d').

  Scheme exec_stmt_ind2 := Induction for exec_stmt Sort Prop
    with exec_blk_ind2 := Induction for exec_blk Sort Prop.
  Combined Scheme exec_mutind from exec_stmt_ind2, exec_blk_ind2.

  Hypothesis all_ok : check_all funs = true.

  Lemma body_ok f : (f < length funs)%nat -> fun_ok (body f) = true.
  Proof. intros H. unfold check_all in all_ok. rewrite forallb_forall in all_ok.
    apply all_ok. apply nth_In. exact H. Qed.

  (* an abstract outcome covers a concrete exit kind and net change *)
  Definition covers (o : aout) (k : kind) (dl : Z) : Prop :=
    ak o = k /\ lo o <= dl /\ match hi o with Some h => dl <= h | None => True end.
  Definition covered (x : summ) (k : kind) (dl : Z) : Prop := exists o, In o x /\ covers o k dl.

  Lemma is_zero_covers o k dl : is_zero o = true -> covers o k dl -> dl = 0.
  Proof. unfold is_zero, covers. intros H (_ & H1 & H2). apply andb_true_iff in H. destruct H as [Ha Hb].
    apply Z.eqb_eq in Ha. destruct (hi o) as [h|]; [|discriminate]. apply Z.eqb_eq in Hb. lia. Qed.

  Lemma exact_covered k dl : covered [mk k dl (Some dl)] k dl.
  Proof. exists (mk k dl (Some dl)). split; [left; reflexivity|]. unfold covers; cbn. repeat split; lia. Qed.

  Lemma seq_summ_exit x y k dl : k <> KNorm -> covered x k dl -> covered (seq_summ x y) k dl.
  Proof. intros Hk (o & Hi & Hc). exists o. split; [|exact Hc]. unfold seq_summ. apply in_or_app. left.
    apply filter_In. split; [exact Hi|]. destruct Hc as (Hak & _). rewrite Hak. destruct k; try reflexivity. congruence. Qed.

  Lemma seq_summ_go x y d1 k d2 : covered x KNorm d1 -> covered y k d2 -> covered (seq_summ x y) k (d1 + d2).
  Proof. intros (o1 & H1 & Ha1 & Hl1 & Hh1) (o2 & H2 & Ha2 & Hl2 & Hh2).
    exists (mk (ak o2) (lo o1 + lo o2) (hi_add (hi o1) (hi o2))). split.
    - unfold seq_summ. apply in_or_app. right. apply in_flat_map. exists o1. split; [exact H1|].
      rewrite Ha1. cbn. apply in_map_iff. exists o2. split; [reflexivity | exact H2].
    - unfold covers; cbn. repeat split; [exact Ha2 | lia |].
      destruct (hi o1), (hi o2); cbn; try exact I. lia. Qed.

  (* soundness of the summary w.r.t. every terminating execution *)
  Lemma summ_sound :
    (forall s d r, exec_stmt s d r -> forall x, summ_stmt s = Some x ->
        match r with R k d' => covered x k (d' - d) end) /\
    (forall b d r, exec_blk b d r -> forall x, summ_blk b = Some x ->
        match r with R k d' => covered x k (d' - d) end).
  Proof. apply exec_mutind; intros.
    - inversion H; subst. replace (d + 1 - d) with 1 by lia. apply exact_covered.
    - inversion H; subst. replace (d - 1 - d) with (-1) by lia. apply exact_covered.
    - (* call *) inversion H0; subst. pose proof (body_ok f l) as Hok. unfold fun_ok in Hok.
      destruct (summ_blk (body f)) as [y|] eqn:Ey; [|discriminate].
      destruct (H y eq_refl) as (o1 & Hi & Hc). rewrite forallb_forall in Hok. specialize (Hok _ Hi).
      assert (Hz : d' - d = 0).
      { destruct Hc as (Hak & Hrest). rewrite Hak in Hok.
        destruct o as [->| ->]; eapply is_zero_covers; try exact Hok; (split; [exact Hak | exact Hrest]). }
      rewrite Hz. apply exact_covered.
    - inversion H; subst. replace (d - d) with 0 by lia. apply exact_covered.
    - inversion H; subst. replace (d - d) with 0 by lia. apply exact_covered.
    - inversion H; subst. replace (d - d) with 0 by lia. apply exact_covered.
    - (* leak *) inversion H; subst. exists (mk KNorm 0 None). split; [left; reflexivity|].
      unfold covers; cbn. repeat split; lia.
    - cbn in H0. destruct (summ_blk a) as [xa|]; [|discriminate]. destruct (summ_blk b) as [xb|]; [|discriminate].
      inversion H0; subst. destruct r. destruct (H xa eq_refl) as (o & Hi & Hc). exists o. split; [apply in_or_app; left; exact Hi | exact Hc].
    - cbn in H0. destruct (summ_blk a) as [xa|]; [|discriminate]. destruct (summ_blk b) as [xb|]; [|discriminate].
      inversion H0; subst. destruct r. destruct (H xb eq_refl) as (o & Hi & Hc). exists o. split; [apply in_or_app; right; exact Hi | exact Hc].
    - cbn in H. destruct (summ_blk b) as [xb|]; [|discriminate]. destruct (loop_ok xb); [|discriminate].
      inversion H; subst. exists (mk KNorm 0 (Some 0)). split; [left; reflexivity|]. unfold covers; cbn. repeat split; lia.
    - (* loop iteration *) pose proof H1 as H1'. cbn in H1. destruct (summ_blk b) as [xb|] eqn:Eb; [|discriminate].
      destruct (loop_ok xb) eqn:El; [|discriminate]. inversion H1; subst.
      destruct (H xb eq_refl) as (o1 & Hi & Hc). unfold loop_ok in El. rewrite forallb_forall in El. specialize (El _ Hi).
      assert (d' = d).
      { destruct Hc as (Hak & Hrest). rewrite Hak in El.
        assert (d' - d = 0); [|lia].
        destruct o as [->| ->]; eapply is_zero_covers; try exact El; (split; [exact Hak | exact Hrest]). }
      subst d'. apply (H0 _ H1').
    - cbn in H0. destruct (summ_blk b) as [xb|] eqn:Eb; [|discriminate]. destruct (loop_ok xb); [|discriminate].
      inversion H0; subst. destruct (H xb eq_refl) as (o & Hi & Hak & Hl & Hh).
      exists (mk KNorm (lo o) (hi o)). split.
      + right. apply in_flat_map. exists o. split; [exact Hi|]. rewrite Hak. left; reflexivity.
      + unfold covers; cbn. repeat split; assumption.
    - cbn in H0. destruct (summ_blk b) as [xb|] eqn:Eb; [|discriminate]. destruct (loop_ok xb); [|discriminate].
      inversion H0; subst. destruct (H xb eq_refl) as (o & Hi & Hak & Hl & Hh).
      exists (mk KRet (lo o) (hi o)). split.
      + right. apply in_flat_map. exists o. split; [exact Hi|]. rewrite Hak. left; reflexivity.
      + unfold covers; cbn. repeat split; assumption.
    - (* restore *) cbn in H0. destruct (summ_blk b) as [xb|] eqn:Eb; [|discriminate]. inversion H0; subst.
      destruct (H xb eq_refl) as (o & Hi & Hak & Hl & Hh).
      exists (mk (ak o) (Z.min (lo o) 0) (Some (match hi o with Some h => Z.min h 0 | None => 0 end))). split.
      + unfold restore_summ. apply in_map_iff. exists o. split; [reflexivity | exact Hi].
      + unfold covers; cbn. repeat split; [exact Hak | lia |]. destruct (hi o); lia.
    - inversion H; subst. replace (d - d) with 0 by lia. apply exact_covered.
    - cbn in H1. destruct (summ_stmt s) as [xs|]; [|discriminate]. destruct (summ_blk r) as [xr|]; [|discriminate].
      inversion H1; subst. specialize (H xs eq_refl). specialize (H0 xr eq_refl). destruct x as [k d2].
      replace (d2 - d) with ((d' - d) + (d2 - d')) by lia. apply seq_summ_go; assumption.
    - cbn in H0. destruct (summ_stmt s) as [xs|]; [|discriminate]. destruct (summ_blk r) as [xr|]; [|discriminate].
      inversion H0; subst. specialize (H xs eq_refl). apply seq_summ_exit; assumption.
  Qed.

  (* every function that passes the check leaves the stack as it found it *)
  Theorem check_sound f d k d' :
    (f < length funs)%nat -> exec_blk (body f) d (R k d') -> (k = KNorm \/ k = KRet) /\ d' = d.
  Proof. intros Hf He. pose proof (body_ok f Hf) as Hok. unfold fun_ok in Hok.
    destruct (summ_blk (body f)) as [y|] eqn:Ey; [|discriminate].
    destruct (proj2 summ_sound _ _ _ He y Ey) as (o & Hi & Hc).
    rewrite forallb_forall in Hok. specialize (Hok _ Hi).
    pose proof Hc as (Hak & _). rewrite Hak in Hok.
    destruct k; try discriminate; (split; [tauto|]);
      (assert (d' - d = 0) by (eapply is_zero_covers; eassumption)); lia. Qed.
End Sem.

(* non-vacuity / sanity: a leaking early return is rejected, the repaired shape accepted;
   a Lua call that may leak is accepted only inside Restore *)
Example leak_rejected :
  check_all [Cons Push (Cons (If2 (Cons Ret Nil) Nil) (Cons Pop Nil))] = false.
Proof. reflexivity. Qed.
Example repaired_accepted :
  check_all [Cons Push (Cons (If2 (Cons Pop (Cons Ret Nil)) Nil) (Cons (Loop (Cons (Call 0) Nil)) (Cons Pop Nil)))] = true.
Proof. reflexivity. Qed.
Example lua_call_needs_restore :
  check_all [Cons Push (Cons Leak (Cons Pop Nil))] = false /\
  check_all [Cons (Restore (Cons Push (Cons Leak Nil))) Nil] = true.
Proof. split; reflexivity. Qed.
Example exec_example :
  exec_blk [Cons Push (Cons Pop Nil)] (Cons (Call 0) Nil) 5 (R KNorm 5).
Proof. eapply E_cons_go; [|apply E_nil]. eapply E_call with (k := KNorm); [cbn; lia | | left; reflexivity].
  cbn. eapply E_cons_go; [apply E_push|]. eapply E_cons_go; [apply E_pop|].
  replace (5 + 1 - 1) with 5 by lia. apply E_nil. Qed.
