From Coq Require Import List Bool Arith Lia.
Import ListNotations.
From WTP Require Import Model.Workers.

(** Without a backup file: whatever the schedule and the number of workers,
    the database file keeps its content version, no worker fails, and every
    worker that has connected reads that version. *)
Definition winv (v : nat) (sh : shared) (ws : list worker) : Prop :=
  dbf sh = Holds v /\ bakf sh = Missing /\
  Forall (fun w => failed w = false /\ reads_ok v w = true /\ wpc w <> PUnlink /\ wpc w <> PRename) ws.

Lemma Forall_upd {A} (P : A -> Prop) l i x : Forall P l -> P x -> Forall P (upd l i x).
Proof. revert i. induction l as [|y l IH]; intros i Hl Hx; [constructor|]. inversion Hl; subst.
  destruct i; cbn; constructor; auto. Qed.

Lemma wstep_inv v sh w :
  dbf sh = Holds v -> bakf sh = Missing ->
  failed w = false /\ reads_ok v w = true /\ wpc w <> PUnlink /\ wpc w <> PRename ->
  let (sh', w') := wstep sh w in
  dbf sh' = Holds v /\ bakf sh' = Missing /\
  (failed w' = false /\ reads_ok v w' = true /\ wpc w' <> PUnlink /\ wpc w' <> PRename).
Proof. intros Hd Hb (Hf & Hr & H1 & H2). destruct sh as [d b bp]. cbn in Hd, Hb. subst d b.
  destruct w as [p sb se]. cbn in *.
  destruct p; cbn; try congruence;
    repeat split; try reflexivity; try assumption; try congruence; try discriminate;
    try (unfold reads_ok; cbn; apply Nat.eqb_refl).
Qed.

Theorem no_backup_safe sched : forall v sh ws,
  winv v sh ws ->
  let (sh', ws') := run_schedule sh ws sched in winv v sh' ws'.
Proof. induction sched as [|i r IH]; intros v sh ws H; [exact H|]. cbn [run_schedule].
  destruct (nth_error ws i) as [w|] eqn:E; [|apply IH; exact H].
  destruct H as (Hd & Hb & Hw).
  assert (Hwi : failed w = false /\ reads_ok v w = true /\ wpc w <> PUnlink /\ wpc w <> PRename).
  { rewrite Forall_forall in Hw. apply Hw. eapply nth_error_In. exact E. }
  pose proof (wstep_inv v sh w Hd Hb Hwi) as Hs. destruct (wstep sh w) as [sh' w'].
  destruct Hs as (Hd' & Hb' & Hw'). apply IH. repeat split; try assumption.
  apply Forall_upd; assumption.
Qed.

(* any number of fresh workers satisfies the invariant at the start *)
Lemma start_inv v n bp : winv v (mksh (Holds v) Missing bp) (repeat start_worker n).
Proof. repeat split; try reflexivity. apply Forall_forall. intros w Hw. apply repeat_spec in Hw. subst.
  cbn. repeat split; congruence. Qed.

(* With a backup file present the check-then-unlink-then-rename sequence races:
   worker 0 sees the backup, worker 1 restores it and connects, worker 0 then
   unlinks the restored database and fails to rename. *)
Example backup_race :
  let '(sh, ws) := run_schedule (mksh (Holds 2) (Holds 1) true) [start_worker; start_worker] [0; 1; 1; 1; 1; 0; 0] in
  dbf sh = Missing /\ existsb failed ws = true.
Proof. vm_compute. split; reflexivity. Qed.
