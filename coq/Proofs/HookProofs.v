(** C13, hook clauses on the model: what template_fn / post_template_fn returns is what the call expands to. *)
From Coq Require Import List NArith Bool Arith Lia.
From WTP Require Import Base.Str Model.ArgViews Model.ParserFns Model.Expand Proofs.ExpandProofs Proofs.IdentityProofs.
Import ListNotations.
Open Scope N_scope.

Section Hooks.
Variable pfnames : list str.
Variable lib : list tpl.
Variable opts : options.

(* a call to a template (plain name, no colon, not a parser function) that is expanded: everything is, or it is selected *)
Definition expanded_call (ea : bool) (a0 : enc) : bool :=
  let tc := codes (strip_i a0) in
  forallb is_ch a0 && negb (existsb (N.eqb 58) tc) &&
  match classify_pf pfnames (canon_pf pfnames tc) with PfNone => true | _ => false end &&
  (ea || need_expand lib (o_sel opts) tc).

Definition post_of (name : str) (t : enc) : enc :=
  let t1 := add_newline t in
  match t1 with
  | [] => t1
  | _ => match hook_ret (o_pfn opts) name with Some r => chars r | None => t1 end
  end.

Lemma expand_T_hooked f stk ea (a0 : list item) (more : list (list item)) r :
  expanded_call ea a0 = true -> (length stk < 100)%nat -> (length a0 < f)%nat ->
  let name := codes (strip_i a0) in
  detect_loop (stk ++ [FTemplate name]) = false ->
  hook_ret (o_tfn opts) name = Some r ->
  expand_T pfnames lib opts (S f) stk ea (a0 :: more) =
  match build_args pfnames lib opts f (stk ++ [FTemplate name]) more 1 [] with
  | None => None
  | Some _ => Some (post_of name (chars r))
  end.
Proof. intros Hn Hs Hf name Hloop Hh. unfold expanded_call in Hn. cbv zeta in Hn.
  apply andb_true_iff in Hn. destruct Hn as [Hn Hsel]. apply andb_true_iff in Hn. destruct Hn as [Hn Hpf].
  apply andb_true_iff in Hn. destruct Hn as [Hch Hcolon]. apply negb_true_iff in Hcolon.
  cbn [expand_T]. destruct (Nat.leb_spec 100 (length stk)) as [Hl|_]; [lia|].
  fold (expand_recurse pfnames lib opts) (expand_args pfnames lib opts) (build_args pfnames lib opts) (expand_pf pfnames lib opts).
  rewrite (expand_recurse_plain pfnames lib opts a0 Hch f (stk ++ [FTemplateName]) ea Hf).
  rewrite (index_of_none 58 _ 0%nat Hcolon). cbv beta iota. rewrite Hcolon.
  destruct (classify_pf pfnames (canon_pf pfnames (codes (strip_i a0)))); try discriminate.
  fold name.
  assert (Hsel' : (negb ea && negb (need_expand lib (o_sel opts) name)) = false).
  { fold name in Hsel. destruct ea; [reflexivity|]. cbn in *. rewrite Hsel. reflexivity. }
  rewrite Hsel'. rewrite Hloop.
  destruct (build_args pfnames lib opts f (stk ++ [FTemplate name]) more 1 []) as [ht|]; [|reflexivity].
  rewrite Hh. reflexivity. Qed.
End Hooks.
