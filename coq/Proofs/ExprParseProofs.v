(** parse (print e) = e for every expression tree over any ladder in which
    every operator sits in exactly one level of its kind. *)
From Coq Require Import List String NArith Bool Arith Lia.
From WTP Require Import Model.ExprParse.
Import ListNotations.
Local Open Scope list_scope.

Section Proofs.
Variable full : list level.
Hypothesis Hok : ladder_okb full = true.

Notation parse := (parse full).
Notation loop := (loop full).
Notation lvl := (lvl full).
Notation pr := (pr full).
Notation paren := (paren full).
Notation nlev := (nlev full).

(** ** "for all sufficiently large fuel" *)
Definition Parses (lv : list level) (ts : list tok) (e : gast) (r : list tok) : Prop :=
  exists f0, forall f, f0 <= f -> parse f lv ts = Some (e, r).
Definition Loops (ops : list string) (rest : list level) (a : gast) (ts : list tok) (e : gast) (r : list tok) : Prop :=
  exists f0, forall f, f0 <= f -> loop f ops rest a ts = Some (e, r).
Definition head_not_in (ops : list string) (ts : list tok) : Prop :=
  match ts with TOp o :: _ => mem o ops = false | _ => True end.

Lemma R_num n r : Parses [] (TNum n :: r) (GNum n) r.
Proof. exists 1. intros f Hf. destruct f as [|f]; [lia|]. reflexivity. Qed.

Lemma R_paren ts a r : Parses full ts a (TRp :: r) -> Parses [] (TLp :: ts) a r.
Proof. intros [f0 H]. exists (S f0). intros f Hf. destruct f as [|f]; [lia|].
  cbn [ExprParse.parse atom]. rewrite H by lia. reflexivity. Qed.

Lemma R_bin ops rest ts a r e r' :
  Parses rest ts a r -> Loops ops rest a r e r' -> Parses ((LBin, ops) :: rest) ts e r'.
Proof. intros [f1 H1] [f2 H2]. exists (S (Nat.max f1 f2)). intros f Hf. destruct f as [|f]; [lia|].
  cbn [ExprParse.parse]. rewrite H1 by lia. apply H2. lia. Qed.

Lemma R_pre_take ops rest o ts a r :
  mem o ops = true -> Parses ((LPre, ops) :: rest) ts a r -> Parses ((LPre, ops) :: rest) (TOp o :: ts) (GUn o a) r.
Proof. intros Hm [f0 H]. exists (S f0). intros f Hf. destruct f as [|f]; [lia|].
  cbn [ExprParse.parse]. rewrite Hm, H by lia. reflexivity. Qed.

Lemma R_pre_skip ops rest ts e r :
  head_not_in ops ts -> Parses rest ts e r -> Parses ((LPre, ops) :: rest) ts e r.
Proof. intros Hh [f0 H]. exists (S f0). intros f Hf. destruct f as [|f]; [lia|].
  cbn [ExprParse.parse]. destruct ts as [|[n|o| |] ts']; try (apply H; lia).
  cbn in Hh. rewrite Hh. apply H. lia. Qed.

Lemma L_stop ops rest a ts : head_not_in ops ts -> Loops ops rest a ts a ts.
Proof. intros Hh. exists 1. intros f Hf. destruct f as [|f]; [lia|].
  cbn [ExprParse.loop]. destruct ts as [|[n|o| |] ts']; try reflexivity. cbn in Hh. rewrite Hh. reflexivity. Qed.

Lemma L_step ops rest a o ts b r e r' :
  mem o ops = true -> Parses rest ts b r -> Loops ops rest (GBin o a b) r e r' -> Loops ops rest a (TOp o :: ts) e r'.
Proof. intros Hm [f1 H1] [f2 H2]. exists (S (Nat.max f1 f2)). intros f Hf. destruct f as [|f]; [lia|].
  cbn [ExprParse.loop]. rewrite Hm, H1 by lia. apply H2. lia. Qed.

(** ** The ladder *)
Lemma lkind_eqb_eq a b : lkind_eqb a b = true <-> a = b.
Proof. destruct a, b; cbn; split; congruence. Qed.

Lemma find_level_spec k o : forall lv s j, find_level k o lv s = Some j ->
  s <= j /\ exists ops, nth_error lv (j - s) = Some (k, ops) /\ mem o ops = true.
Proof. induction lv as [|[k' ops] lv IH]; intros s j H; cbn in H; [discriminate|].
  destruct (lkind_eqb k k' && mem o ops) eqn:E.
  - inversion H; subst. apply andb_true_iff in E. destruct E as [E1 E2]. apply lkind_eqb_eq in E1. subst k'.
    split; [lia|]. exists ops. rewrite Nat.sub_diag. split; [reflexivity | exact E2].
  - destruct (IH _ _ H) as [Hs [ops' [Hn Hm]]]. split; [lia|]. exists ops'. split; [|exact Hm].
    replace (j - s) with (S (j - S s)) by lia. exact Hn. Qed.

Lemma ladder_unique j k ops o : nth_error full j = Some (k, ops) -> mem o ops = true -> find_level k o full 0 = Some j.
Proof. intros Hn Hm. unfold ladder_okb in Hok. rewrite forallb_forall in Hok.
  assert (Hj : j < nlev) by (apply nth_error_Some; congruence).
  specialize (Hok j). rewrite Hn in Hok. assert (In j (seq 0 nlev)) as Hin by (apply in_seq; lia).
  specialize (Hok Hin). rewrite forallb_forall in Hok.
  unfold mem in Hm. apply existsb_exists in Hm. destruct Hm as [o' [Hin' He]]. apply String.eqb_eq in He. subst o'.
  specialize (Hok o Hin'). destruct (find_level k o full 0) as [j'|]; [|discriminate].
  apply Nat.eqb_eq in Hok. congruence. Qed.

Lemma blevel_spec o i : blevel full o = Some i -> exists ops, nth_error full i = Some (LBin, ops) /\ mem o ops = true.
Proof. intros H. destruct (find_level_spec _ _ _ _ _ H) as [_ [ops [Hn Hm]]]. rewrite Nat.sub_0_r in Hn. eauto. Qed.
Lemma plevel_spec o p : plevel full o = Some p -> exists ops, nth_error full p = Some (LPre, ops) /\ mem o ops = true.
Proof. intros H. destruct (find_level_spec _ _ _ _ _ H) as [_ [ops [Hn Hm]]]. rewrite Nat.sub_0_r in Hn. eauto. Qed.

Lemma skipn_level_gen (l : list level) : forall k lvk, nth_error l k = Some lvk -> skipn k l = lvk :: skipn (S k) l.
Proof. induction l as [|x l IH]; intros k lvk H; destruct k; cbn in *; try discriminate.
  - inversion H. reflexivity.
  - apply IH. exact H. Qed.
Lemma skipn_level k lvk : nth_error full k = Some lvk -> skipn k full = lvk :: skipn (S k) full.
Proof. apply skipn_level_gen. Qed.

Lemma skipn_all : skipn nlev full = [].
Proof. apply skipn_all. Qed.

Lemma lvl_le e : wfb full e = true -> lvl e <= nlev.
Proof. destruct e as [n|o a|o a b]; cbn; intros H; [lia| |].
  - destruct (plevel full o) as [p|] eqn:E; [|discriminate]. destruct (plevel_spec _ _ E) as [ops [Hn _]].
    assert (p < nlev) by (apply nth_error_Some; congruence). lia.
  - destruct (blevel full o) as [p|] eqn:E; [|discriminate]. destruct (blevel_spec _ _ E) as [ops [Hn _]].
    assert (p < nlev) by (apply nth_error_Some; congruence). lia. Qed.

(* what may follow an operand parsed from level k on: not a binary operator of level k or tighter *)
Definition follow_ok (k : nat) (rest : list tok) : Prop :=
  forall j ops, k <= j -> nth_error full j = Some (LBin, ops) -> head_not_in ops rest.

Lemma follow_ok_mono k k' rest : k <= k' -> follow_ok k rest -> follow_ok k' rest.
Proof. intros Hk H j ops Hj. apply H. lia. Qed.

(** ** Passing through the levels that do not apply *)
Lemma descend ts e r : forall d k, k + d <= nlev ->
  Parses (skipn (k + d) full) ts e r ->
  (forall j ops, k <= j < k + d -> nth_error full j = Some (LBin, ops) -> head_not_in ops r) ->
  (forall j ops, k <= j < k + d -> nth_error full j = Some (LPre, ops) -> head_not_in ops ts) ->
  Parses (skipn k full) ts e r.
Proof. induction d as [|d IH]; intros k Hk HP Hb Hp.
  - rewrite Nat.add_0_r in HP. exact HP.
  - assert (Hlt : k < nlev) by lia.
    destruct (nth_error full k) as [[kd ops]|] eqn:En; [|apply nth_error_None in En; unfold nlev in Hlt; lia].
    rewrite (skipn_level _ _ En).
    assert (HP' : Parses (skipn (S k) full) ts e r).
    { apply (IH (S k)); [lia | replace (S k + d) with (k + S d) by lia; exact HP | |].
      - intros j o Hj. apply Hb. lia.
      - intros j o Hj. apply Hp. lia. }
    destruct kd.
    + eapply R_bin; [exact HP'|]. apply L_stop. apply (Hb k ops); [lia | exact En].
    + apply R_pre_skip; [|exact HP']. apply (Hp k ops); [lia | exact En].
Qed.

(** ** The first token of an unparenthesised expression is not a prefix operator of a looser level *)
Lemma first_token e : wfb full e = true -> forall j ops rest, j < lvl e -> nth_error full j = Some (LPre, ops) ->
  head_not_in ops (pr e ++ rest).
Proof. induction e as [n|o a IHa|o a IHa b IHb]; intros Hwf j ops rest Hj Hn.
  - exact I.
  - cbn [lvl ExprParse.lvl wfb] in *. destruct (plevel full o) as [p|] eqn:E; [|discriminate].
    cbn [ExprParse.pr app head_not_in]. destruct (mem o ops) eqn:Em; [|reflexivity].
    pose proof (ladder_unique _ _ _ _ Hn Em) as Hu. unfold plevel in E. rewrite Hu in E. inversion E. lia.
  - cbn [lvl ExprParse.lvl wfb] in *. destruct (blevel full o) as [i|] eqn:E; [|discriminate].
    apply andb_true_iff in Hwf. destruct Hwf as [Hwa Hwb].
    cbn [ExprParse.pr]. cbn [ExprParse.lvl]. rewrite E.
    destruct (Nat.ltb_spec (lvl a) i) as [Hl|Hl].
    + exact I.
    + rewrite <- app_assoc. apply (IHa Hwa j ops); [lia | exact Hn].
Qed.

Fixpoint size (e : gast) : nat :=
  match e with GNum _ => 1 | GUn _ a => S (size a) | GBin _ a b => S (size a + size b) end.

Definition Main (e : gast) : Prop :=
  wfb full e = true -> forall k rest, k <= nlev -> follow_ok k rest -> Parses (skipn k full) (paren k e ++ rest) e rest.

Lemma paren_neq i a : lvl a <> i -> paren i a = paren (S i) a.
Proof. intros H. unfold ExprParse.paren. destruct (Nat.ltb_spec (lvl a) i), (Nat.ltb_spec (lvl a) (S i)); try reflexivity; lia. Qed.

(* the left operand of a level-i operator: parsing it from level i+1 and continuing the loop of level i
   is the same as continuing the loop with the whole operand *)
Lemma left_operand m i ops : nth_error full i = Some (LBin, ops) ->
  (forall e', size e' < m -> Main e') ->
  forall a, size a < m -> wfb full a = true -> forall rest1 e' r',
    follow_ok (S i) rest1 -> Loops ops (skipn (S i) full) a rest1 e' r' ->
    exists x r, Parses (skipn (S i) full) (paren i a ++ rest1) x r /\ Loops ops (skipn (S i) full) x r e' r'.
Proof. intros Hi IH. induction a as [n|o a _|o a IHa b _]; intros Hsz Hwf rest1 e' r' Hf HL.
  - exists (GNum n), rest1. split; [|exact HL].
    assert (Hl : lvl (GNum n) <> i) by (cbn; assert (i < nlev) by (apply nth_error_Some; congruence); lia).
    rewrite (paren_neq _ _ Hl). apply IH; [exact Hsz | exact Hwf | | exact Hf].
    assert (i < nlev) by (apply nth_error_Some; congruence). lia.
  - exists (GUn o a), rest1. split; [|exact HL].
    assert (Hl : lvl (GUn o a) <> i).
    { cbn. cbn in Hwf. destruct (plevel full o) as [p|] eqn:E; [|discriminate].
      destruct (plevel_spec _ _ E) as [ops' [Hn' _]]. intros ->. congruence. }
    rewrite (paren_neq _ _ Hl). apply IH; [exact Hsz | exact Hwf | | exact Hf].
    assert (i < nlev) by (apply nth_error_Some; congruence). lia.
  - destruct (Nat.eq_dec (lvl (GBin o a b)) i) as [He|Hne].
    + (* same level: the operand is itself a chain of this level *)
      assert (Hwf' := Hwf). cbn [wfb] in Hwf. cbn [ExprParse.lvl] in He.
      destruct (blevel full o) as [i'|] eqn:E; [|discriminate]. subst i'.
      apply andb_true_iff in Hwf. destruct Hwf as [Hwa Hwb].
      destruct (blevel_spec _ _ E) as [ops' [Hn' Hm]]. rewrite Hi in Hn'. inversion Hn'; subst ops'.
      assert (Hp : paren i (GBin o a b) = paren i a ++ TOp o :: paren (S i) b).
      { unfold ExprParse.paren at 1. cbn [ExprParse.lvl]. rewrite E. rewrite Nat.ltb_irrefl.
        cbn [ExprParse.pr ExprParse.lvl]. rewrite E. reflexivity. }
      rewrite Hp. rewrite <- app_assoc. cbn [app].
      cbn [size] in Hsz.
      apply IHa; [lia | exact Hwa | | ].
      * (* what follows a is an operator of level i, not of a tighter level *)
        intros j opsj Hj Hnj. cbn [head_not_in]. destruct (mem o opsj) eqn:Emj; [|reflexivity].
        pose proof (ladder_unique _ _ _ _ Hnj Emj) as Hu. unfold blevel in E. rewrite Hu in E. inversion E. lia.
      * eapply L_step; [exact Hm | | exact HL].
        apply IH; [lia | exact Hwb | | exact Hf].
        assert (i < nlev) by (apply nth_error_Some; congruence). lia.
    + exists (GBin o a b), rest1. split; [|exact HL].
      rewrite (paren_neq _ _ Hne). apply IH; [exact Hsz | exact Hwf | | exact Hf].
      assert (i < nlev) by (apply nth_error_Some; congruence). lia.
Qed.

Lemma main_all : forall m e, size e < m -> Main e.
Proof. induction m as [|m IHm]; intros e Hsz; [lia|].
  assert (IH : forall e', size e' < size e -> Main e') by (intros e' H'; apply IHm; lia).
  clear IHm Hsz m.
  (* first: unparenthesised, from any level up to the expression's own *)
  assert (Hopen : wfb full e = true -> forall k rest, k <= lvl e -> follow_ok k rest ->
                  Parses (skipn k full) (pr e ++ rest) e rest).
  { intros Hwf k rest Hk Hf.
    assert (Hat : Parses (skipn (lvl e) full) (pr e ++ rest) e rest).
    { destruct e as [n|o a|o a b].
      - cbn [ExprParse.lvl]. rewrite skipn_all. apply R_num.
      - cbn [ExprParse.lvl wfb] in *. destruct (plevel full o) as [p|] eqn:E; [|discriminate].
        destruct (plevel_spec _ _ E) as [ops [Hn Hm]]. rewrite (skipn_level _ _ Hn).
        cbn [ExprParse.pr ExprParse.lvl]. rewrite E. cbn [app]. apply R_pre_take; [exact Hm|].
        change (if Nat.ltb (lvl a) p then TLp :: pr a ++ [TRp] else pr a) with (paren p a).
        assert (HH : Parses (skipn p full) (paren p a ++ rest) a rest).
        { apply IH; [cbn; lia | exact Hwf | | eapply follow_ok_mono; [exact Hk | exact Hf]].
          assert (p < nlev) by (apply nth_error_Some; congruence). lia. }
        rewrite (skipn_level _ _ Hn) in HH. exact HH.
      - cbn [ExprParse.lvl wfb] in *. destruct (blevel full o) as [i|] eqn:E; [|discriminate].
        apply andb_true_iff in Hwf. destruct Hwf as [Hwa Hwb].
        destruct (blevel_spec _ _ E) as [ops [Hn Hm]]. rewrite (skipn_level _ _ Hn).
        assert (Hil : i < nlev) by (apply nth_error_Some; congruence).
        cbn [ExprParse.pr ExprParse.lvl]. rewrite E.
        change (if Nat.ltb (lvl a) i then TLp :: pr a ++ [TRp] else pr a) with (paren i a).
        change (if Nat.ltb (lvl b) (S i) then TLp :: pr b ++ [TRp] else pr b) with (paren (S i) b).
        rewrite <- app_assoc. cbn [app].
        assert (Hfi : follow_ok i rest) by (eapply follow_ok_mono; [exact Hk | exact Hf]).
        assert (HL : Loops ops (skipn (S i) full) a (TOp o :: paren (S i) b ++ rest) (GBin o a b) rest).
        { eapply L_step; [exact Hm | |].
          - apply IH; [cbn; lia | exact Hwb | lia | eapply follow_ok_mono; [|exact Hfi]; lia].
          - apply L_stop. apply (Hfi i ops); [lia | exact Hn]. }
        assert (Hfo : follow_ok (S i) (TOp o :: paren (S i) b ++ rest)).
        { intros j opsj Hj Hnj. cbn [head_not_in]. destruct (mem o opsj) eqn:Emj; [|reflexivity].
          pose proof (ladder_unique _ _ _ _ Hnj Emj) as Hu. unfold blevel in E. rewrite Hu in E. inversion E. lia. }
        assert (Hsa : size a < size (GBin o a b)) by (cbn; lia).
        destruct (left_operand (size (GBin o a b)) i ops Hn IH a Hsa Hwa _ _ _ Hfo HL) as [x [r [HP HL2]]].
        eapply R_bin; [exact HP | exact HL2]. }
    replace (lvl e) with (k + (lvl e - k)) in Hat by lia.
    apply (descend _ _ _ (lvl e - k) k); [pose proof (lvl_le e Hwf); lia | exact Hat | |].
    - intros j ops Hj Hn. apply (Hf j ops); [lia | exact Hn].
    - intros j ops Hj Hn. apply (first_token e Hwf j ops rest); [lia | exact Hn]. }
  intros Hwf k rest Hk Hf. unfold ExprParse.paren. destruct (Nat.ltb_spec (lvl e) k) as [Hlt|Hge].
  - (* parenthesised: down to the terminal, then the whole ladder inside *)
    cbn [app]. rewrite <- app_assoc. cbn [app].
    assert (Hterm : Parses (skipn (k + (nlev - k)) full) (TLp :: pr e ++ TRp :: rest) e rest).
    { replace (k + (nlev - k)) with nlev by lia. rewrite skipn_all. apply R_paren.
      apply (Hopen Hwf 0 (TRp :: rest)); [lia|]. intros j ops _ _. exact I. }
    apply (descend _ _ _ (nlev - k) k); [lia | exact Hterm | |].
    + intros j ops Hj Hn. apply (Hf j ops); [lia | exact Hn].
    + intros j ops Hj Hn. exact I.
  - apply Hopen; [exact Hwf | exact Hge | exact Hf].
Qed.

Theorem parse_print e : wfb full e = true ->
  exists f0, forall f, f0 <= f -> parse f full (pr e) = Some (e, []).
Proof. intros Hwf. pose proof (main_all (S (size e)) e ltac:(lia) Hwf 0 [] ltac:(lia)) as H.
  assert (Hf : follow_ok 0 []) by (intros j ops _ _; exact I). specialize (H Hf).
  unfold ExprParse.paren in H. rewrite Nat.ltb_irrefl in H || (destruct (Nat.ltb_spec (lvl e) 0); [lia|]).
  rewrite app_nil_r in H. exact H. Qed.

End Proofs.
