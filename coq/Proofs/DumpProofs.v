From Coq Require Import List ZArith Bool Arith Lia.
From WTP Require Import Base.Str Proofs.StrProofs Model.Store Proofs.StoreProofs Model.Dump.
Import ListNotations.
Open Scope N_scope.

Section DumpProofs.
  Variable tbl : nstable.
  Variable template_ns : Z.
  Variable to_body : str -> str.
  Variable nsset : list Z.

  Definition to_add (p : dpage) : addop :=
    mkadd (d_title p) (d_ns p) (match d_redirect p with Some _ => None | None => Some (d_text p) end)
          (d_redirect p) false (d_model p).

  Lemma store_page_apply s p : store_page tbl template_ns to_body s p = apply_add tbl template_ns to_body s (to_add p).
  Proof. reflexivity. Qed.

  Lemma parse_dump_as_adds_gen dump : forall s,
    fold_left (ingest_step tbl template_ns to_body nsset) dump s =
    fold_left (apply_add tbl template_ns to_body) (map to_add (filter (selected nsset) dump)) s.
  Proof. induction dump as [|p d IH]; intros s; [reflexivity|]. cbn [fold_left filter]. unfold ingest_step at 2.
    destruct (selected nsset p); [cbn [map fold_left]; rewrite <- store_page_apply|]; apply IH. Qed.

  (* the stored pages are exactly the adds of the selected pages, in dump order *)
  Theorem parse_dump_as_adds dump :
    parse_dump tbl template_ns to_body nsset dump =
    run_adds tbl template_ns to_body (map to_add (filter (selected nsset) dump)).
  Proof. apply parse_dump_as_adds_gen. Qed.

  (* hence every key holds the LAST selected page of the dump with that key, and unselected pages leave no trace *)
  Theorem parse_dump_lookup dump t ns :
    find (row_matches t (Some ns) false) (parse_dump tbl template_ns to_body nsset dump) =
    latest tbl template_ns to_body (rev (map to_add (filter (selected nsset) dump))) t ns.
  Proof. rewrite parse_dump_as_adds. apply find_latest. Qed.

  Theorem parse_dump_uniq dump : uniq (parse_dump tbl template_ns to_body nsset dump).
  Proof. rewrite parse_dump_as_adds. apply run_adds_uniq. Qed.
End DumpProofs.

(** canonical titles (as dumps provide them) are stored verbatim, so two
    different (title, namespace) pairs are never merged *)
Definition canonical (tbl : nstable) (ns : Z) (title : str) : Prop :=
  startswith main_prefix title = false /\
  (Z.eqb ns 0 = true \/
   exists info, ns_lookup tbl ns = Some info /\ startswith (ns_name info ++ [colon]) title = true).

Theorem canonical_stored_verbatim tbl ns title : canonical tbl ns title -> add_norm tbl ns title = title.
Proof. intros [Hm H]. unfold add_norm. destruct H as [H0|[info [Hl Hs]]].
  - rewrite H0. cbn [negb andb]. unfold strip_main. rewrite Hm. reflexivity.
  - destruct (Z.eqb ns 0) eqn:E; cbn [negb andb].
    + unfold strip_main. rewrite Hm. reflexivity.
    + rewrite Hl, Hs. cbn [negb]. unfold strip_main. rewrite Hm. reflexivity. Qed.
