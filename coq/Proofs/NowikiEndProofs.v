(** C15 end to end, for pages of plain text, comments and nowiki elements: the preprocessing pass, the expander and
    finalisation compose to "every nowiki content comes out entity-quoted, every closed comment is gone, the rest is
    unchanged" -- the three models (Model/Preprocess.v, Model/Expand.v) chained on the encoding of what the first
    one returns (plain characters stay characters, a nowiki body becomes an N cookie). *)
From Coq Require Import List NArith Bool Arith Lia.
From WTP Require Import Base.Str Model.Preprocess Model.Expand Proofs.PreprocessProofs Proofs.ExpandProofs.
Import ListNotations.
Open Scope N_scope.

(* _encode on text without brackets and braces: nothing to encode *)
Definition encode_plain (p : list pitem) : enc :=
  map (fun i => match i with PCh c => Ch c | PNw c => Nw c | PNwEmpty => Nw [] end) p.

Definition out_of (nwmap : list (N * str)) (i : pitem) : str :=
  match i with
  | PCh c => [c]
  | PNw [] | PNwEmpty => s_nowiki_empty
  | PNw c => nowiki_quote nwmap c
  end.

Section Chain.
  Variable pfnames : list str.
  Variable lib : list tpl.
  Variable opts : options.

  Lemma expand_plain_items : forall p stk ea f, (length p < f)%nat ->
    expand_recurse pfnames lib opts f stk ea (encode_plain p) = Some (encode_plain p).
  Proof. induction p as [|i p IH]; intros stk ea f Hf; (destruct f as [|f]; [cbn in Hf; lia|]); [reflexivity|].
    cbn [encode_plain map length] in *. destruct i as [c|c|].
    - cbn [expand_recurse]. fold (encode_plain p). rewrite IH by lia. reflexivity.
    - rewrite (expand_recurse_nw pfnames lib opts). fold (encode_plain p). rewrite IH by lia. reflexivity.
    - rewrite (expand_recurse_nw pfnames lib opts). fold (encode_plain p). rewrite IH by lia. reflexivity. Qed.

  Lemma finalize_plain_items nwmap : forall p f, (0 < f)%nat ->
    finalize f nwmap (encode_plain p) = flat_map (out_of nwmap) p.
  Proof. intros p f Hf. destruct f as [|f]; [lia|]. cbn [finalize]. unfold encode_plain. rewrite flat_map_concat_map, map_map.
    rewrite flat_map_concat_map. f_equal. apply map_ext. intros [c|[|x c]|]; reflexivity. Qed.

  Theorem page_of_text_comments_and_nowiki nwmap pre_expand segs :
    Forall seg_ok segs -> no_adjacent_plain segs ->
    forall f, (length (spec segs) < f)%nat ->
      expand_page pfnames nwmap lib opts pre_expand f (encode_plain (preprocess (render_ps segs)))
      = Some (flat_map (out_of nwmap) (spec segs)).
  Proof. intros Hok Hadj f Hf. rewrite (preprocess_spec segs Hok Hadj). unfold expand_page.
    rewrite expand_plain_items by exact Hf. rewrite finalize_plain_items by lia. reflexivity. Qed.
End Chain.
