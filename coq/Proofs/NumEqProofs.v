(** C18 / C04: the comparison of #ifeq and #switch (ParserFns.mw_equal, a transcription of parserfns.py:mw_equal tied to
    the code by C04's and C18's checks) against a definition that does not mention how it is computed: two texts are equal
    when they are the same text, or both are numbers and stand for the same rational value (-1)^neg * mant * 10^exp. *)
From Coq Require Import List NArith ZArith Bool Lia QArith Qpower.
From WTP Require Import Base.Str Proofs.StrProofs Model.ParserFns.
Import ListNotations.

(* the value a parsed number stands for *)
Definition qsign (neg : bool) : Z := if neg then (-1)%Z else 1%Z.
Definition qval (a : number) : Q :=
  inject_Z (qsign (num_neg a) * Z.of_N (num_mant a)) * Qpower (inject_Z 10) (num_exp a).

Lemma ten_neq0 : ~ inject_Z 10 == 0.
Proof. intro H. discriminate H. Qed.

Lemma qval_scaled (a : number) (e : Z) : (e <= num_exp a)%Z ->
  qval a == inject_Z (qsign (num_neg a) * Z.of_N (num_mant a) * 10 ^ (num_exp a - e)) * Qpower (inject_Z 10) e.
Proof.
  intros He. unfold qval.
  replace (num_exp a) with ((num_exp a - e) + e)%Z at 1 by lia.
  rewrite Qpower_plus by exact ten_neq0.
  rewrite <- Zpower_Qpower by lia.
  rewrite !inject_Z_mult. generalize (Qpower (inject_Z 10) e). intros q. ring.
Qed.

Theorem number_eqb_is_equality_of_values a b : number_eqb a b = true <-> qval a == qval b.
Proof.
  set (e := Z.min (num_exp a) (num_exp b)).
  rewrite (qval_scaled a e) by (unfold e; lia). rewrite (qval_scaled b e) by (unfold e; lia).
  assert (Hp : ~ Qpower (inject_Z 10) e == 0).
  { apply Qpower_not_0. exact ten_neq0. }
  assert (Ha : (0 < 10 ^ (num_exp a - e))%Z) by (apply Z.pow_pos_nonneg; unfold e; lia).
  assert (Hb : (0 < 10 ^ (num_exp b - e))%Z) by (apply Z.pow_pos_nonneg; unfold e; lia).
  unfold number_eqb. fold e.
  set (pa := (10 ^ (num_exp a - e))%Z) in *. set (pb := (10 ^ (num_exp b - e))%Z) in *.
  assert (Hma : (0 <= Z.of_N (num_mant a))%Z) by lia. assert (Hmb : (0 <= Z.of_N (num_mant b))%Z) by lia.
  split.
  - intros H. apply Qmult_inj_r; [exact Hp|]. apply (proj2 (inject_Z_injective _ _)).
    destruct ((num_mant a =? 0)%N && (num_mant b =? 0)%N) eqn:Ez.
    + apply andb_true_iff in Ez. destruct Ez as [E1 E2]. apply N.eqb_eq in E1. apply N.eqb_eq in E2.
      rewrite E1, E2. cbn. lia.
    + apply andb_true_iff in H. destruct H as [Hs Hm]. apply Bool.eqb_prop in Hs. apply Z.eqb_eq in Hm.
      rewrite Hs. rewrite <- !Z.mul_assoc. rewrite Hm. reflexivity.
  - intros H. apply Qmult_inj_r in H; [|exact Hp]. apply (proj1 (inject_Z_injective _ _)) in H.
    destruct ((num_mant a =? 0)%N && (num_mant b =? 0)%N) eqn:Ez; [reflexivity|].
    apply andb_true_iff.
    assert (Hnz : (Z.of_N (num_mant a) <> 0 \/ Z.of_N (num_mant b) <> 0)%Z).
    { apply andb_false_iff in Ez. destruct Ez as [E|E]; apply N.eqb_neq in E; lia. }
    assert (Hza : forall x p, (0 <= x)%Z -> (0 < p)%Z -> (x * p = 0)%Z -> x = 0%Z) by (intros x p Hx Hp0 Hxp; nia).
    destruct (num_neg a), (num_neg b); cbn [qsign Bool.eqb] in H |- *.
    + split; [reflexivity | apply Z.eqb_eq; nia].
    + exfalso. assert (Hxa : (Z.of_N (num_mant a) * pa = 0)%Z) by nia. assert (Hxb : (Z.of_N (num_mant b) * pb = 0)%Z) by nia.
      destruct Hnz as [Hn|Hn]; apply Hn; [apply (Hza _ pa Hma Ha) | apply (Hza _ pb Hmb Hb)]; assumption.
    + exfalso. assert (Hxa : (Z.of_N (num_mant a) * pa = 0)%Z) by nia. assert (Hxb : (Z.of_N (num_mant b) * pb = 0)%Z) by nia.
      destruct Hnz as [Hn|Hn]; apply Hn; [apply (Hza _ pa Hma Ha) | apply (Hza _ pb Hmb Hb)]; assumption.
    + split; [reflexivity | apply Z.eqb_eq; nia].
  Qed.

Theorem mw_equal_is_same_text_or_same_value a b :
  mw_equal a b = true <->
  a = b \/ exists x y, parse_number a = Some x /\ parse_number b = Some y /\ qval x == qval y.
Proof.
  unfold mw_equal. rewrite orb_true_iff, str_eqb_eq. split.
  - intros [H|H]; [left; exact H|]. right.
    destruct (parse_number a) as [x|]; [|discriminate]. destruct (parse_number b) as [y|]; [|discriminate].
    exists x, y. repeat split. apply number_eqb_is_equality_of_values. exact H.
  - intros [H|(x & y & Hx & Hy & Hv)]; [left; exact H|]. right. rewrite Hx, Hy.
    apply number_eqb_is_equality_of_values. exact Hv.
Qed.

(* ... so the numeric comparison is an equivalence on numbers *)
Corollary number_eqb_trans a b c : number_eqb a b = true -> number_eqb b c = true -> number_eqb a c = true.
Proof.
  rewrite !number_eqb_is_equality_of_values. intros H1 H2. rewrite H1. exact H2.
Qed.
