(** C19 for tables, at the level of the table handlers' tokens: what to_wikitext writes for a table tree of the
    shape the parser builds (Model/TableEmit.v) is read back by the table machine (Model/Tables.v) as exactly that
    tree -- any number of rows and cells, attributes, caption, tables nested in cells to any depth. *)
From Coq Require Import List Arith Bool Lia.
From WTP Require Import Model.Tables Model.TableEmit Proofs.TablesProofs.
Import ListNotations.

Definition not_str_head (acc : list tchild) : bool := match acc with CS _ :: _ => false | _ => true end.

Lemma texts_append s : forall s0 k a acc below,
  run (map TText s) (mkframe k a (CS s0 :: acc) :: below) = Some (mkframe k a (CS (s0 ++ s) :: acc) :: below).
Proof. induction s as [|x s IH]; intros s0 k a acc below; cbn [map run].
  - rewrite app_nil_r. reflexivity.
  - cbn [step mark_of text bind]. unfold add_text, add_text_ch. cbn [fk fattrs fch]. rewrite IH, <- app_assoc. reflexivity. Qed.
Lemma texts_run s k a acc below : s <> [] -> not_str_head acc = true ->
  run (map TText s) (mkframe k a acc :: below) = Some (mkframe k a (CS s :: acc) :: below).
Proof. intros Hs Hacc. destruct s as [|x s]; [congruence|]. cbn [map run step mark_of text bind]. unfold add_text. cbn [fk fattrs fch].
  assert (E : add_text_ch x acc = CS [x] :: acc) by (destruct acc as [|[|] ?]; try discriminate; reflexivity).
  rewrite E. apply (texts_append s [x]). Qed.

Definition TreeOK (T : tnode) : Prop :=
  forall F rest, run (emit T) (F :: rest) = Some (addchild F (CN T) :: rest).

Lemma emit_eq k a ch : emit (TN k a ch) =
  match k with
  | KTable => TStart :: attr_text a ++ emit_list emit ch ++ [TEnd]
  | KCaption => TCaption :: attr_section a ++ emit_list emit ch
  | KRow => TRow :: attr_text a ++ emit_list emit ch
  | KHdr => TBang true :: attr_section a ++ emit_list emit ch
  | KCell => TBar true :: attr_section a ++ emit_list emit ch
  | KBottom => emit_list emit ch
  end.
Proof. destruct k; reflexivity. Qed.

Definition as_atom (a : list nat) : option atom := match a with i :: _ => Some (i, true) | [] => None end.
Lemma as_atom_attrs a : at_most_one a = true -> opt_attrs (as_atom a) = a.
Proof. destruct a as [|i [|j a]]; try discriminate; reflexivity. Qed.
Lemma attr_text_run a k below : at_most_one a = true ->
  run (attr_text a) (mkframe k [] [] :: below) = Some (mkframe k [] (pending (as_atom a)) :: below).
Proof. destruct a as [|i [|j a]]; try discriminate; reflexivity. Qed.

Section Level.
  Variable sh : tnode -> bool.
  Hypothesis IHt : forall T, sh T = true -> TreeOK T.

  (* the content of a caption or cell *)
  Lemma content_run_t : forall ch prev k a acc below,
    content_ok sh prev ch = true -> (prev = false -> not_str_head acc = true) ->
    run (emit_list emit ch) (mkframe k a acc :: below) = Some (mkframe k a (rev ch ++ acc) :: below).
  Proof. induction ch as [|c ch IH]; intros prev k a acc below Hok Hacc; [reflexivity|].
    cbn [emit_list content_ok] in *. destruct c as [s|[k' a' ch']].
    - apply andb_true_iff in Hok. destruct Hok as [Hok Hrest]. apply andb_true_iff in Hok. destruct Hok as [Hp Hs].
      destruct prev; [discriminate|]. assert (Hne : s <> []) by (destruct s; [discriminate | congruence]).
      rewrite (run_app_some _ _ _ _ (texts_run s k a acc below Hne (Hacc eq_refl))).
      rewrite (IH true k a (CS s :: acc) below Hrest) by discriminate.
      cbn [rev]. rewrite <- app_assoc. reflexivity.
    - destruct k'; try discriminate. apply andb_true_iff in Hok. destruct Hok as [Hsh Hrest].
      rewrite (run_app_some _ _ _ _ (IHt _ Hsh (mkframe k a acc) below)). unfold addchild. cbn [fk fattrs fch].
      rewrite (IH false k a (CN (TN KTable a' ch') :: acc) below Hrest) by reflexivity.
      cbn [rev]. rewrite <- app_assoc. reflexivity. Qed.

  (* "attrs |" and the content, in a freshly opened caption or cell *)
  Lemma section_content_run k a ch below : is_cellish k = true -> at_most_one a = true ->
    content_ok sh false ch = true -> have_table below = true ->
    run (attr_section a ++ emit_list emit ch) (mkframe k [] [] :: below) = Some (mkframe k a (rev ch) :: below).
  Proof. intros Hk Ha Hok Hb.
    destruct a as [|i [|j a]]; try discriminate Ha.
    - cbn [attr_section app]. rewrite (content_run_t ch false k [] [] below Hok) by reflexivity. rewrite app_nil_r. reflexivity.
    - unfold have_table in Hb. destruct k; try discriminate Hk;
        (cbn [attr_section attr_text map app run bind]; unfold step, mark_of, vbar_fn, text;
         cbn -[emit_list run]; rewrite Hb; cbn -[emit_list run]; unfold take_attrs, attrs_in; cbn -[emit_list run];
         rewrite (content_run_t ch false _ [i] [] below Hok) by reflexivity; rewrite app_nil_r; reflexivity).
  Qed.

  Definition is_cell_node (c : tchild) : option (bool * list nat * list tchild) :=
    match c with CN (TN KCell a ch) => Some (false, a, ch) | CN (TN KHdr a ch) => Some (true, a, ch) | _ => None end.

  (* the further cells of a row: each closes the cell before it *)
  Lemma cells_run_t : forall cs prev ca cc ra rc ta tc base, cells_ok sh cs = true ->
    exists h' ca' cc' rc',
      run (emit_list emit cs) (Cf prev ca cc :: Rf ra rc :: Tf ta tc :: base)
      = Some (Cf h' ca' cc' :: Rf ra rc' :: Tf ta tc :: base)
      /\ rev (CN (close (Cf h' ca' cc')) :: rc') = rev (CN (close (Cf prev ca cc)) :: rc) ++ cs.
  Proof. induction cs as [|c cs IH]; intros prev ca cc ra rc ta tc base Hok.
    - exists prev, ca, cc, rc. split; [reflexivity | rewrite app_nil_r; reflexivity].
    - cbn [emit_list cells_ok] in *.
      assert (Hc : exists h a ch, c = CN (TN (cell_kind h) a ch) /\ at_most_one a = true /\ content_ok sh false ch = true /\ cells_ok sh cs = true).
      { destruct c as [s|[k a ch]]; [discriminate|]. destruct k; try discriminate;
          apply andb_true_iff in Hok; destruct Hok as [Hok Hrest]; apply andb_true_iff in Hok; destruct Hok as [Ha Hcon].
        - exists false, a, ch. auto.
        - exists true, a, ch. auto. }
      destruct Hc as [h [a [ch [-> [Ha [Hcon Hrest]]]]]].
      rewrite emit_eq.
      assert (Htok : (match cell_kind h with
                      | KTable => TStart :: attr_text a ++ emit_list emit ch ++ [TEnd]
                      | KCaption => TCaption :: attr_section a ++ emit_list emit ch
                      | KRow => TRow :: attr_text a ++ emit_list emit ch
                      | KHdr => TBang true :: attr_section a ++ emit_list emit ch
                      | KCell => TBar true :: attr_section a ++ emit_list emit ch
                      | KBottom => emit_list emit ch
                      end) = sep_tok (SBol h) :: (attr_section a ++ emit_list emit ch)) by (destruct h; reflexivity).
      rewrite Htok. cbn [app run]. rewrite (sep_step prev (SBol h)) by reflexivity. cbn [bind kind_after].
      change (addchild (Rf ra rc) (CN (close (Cf prev ca cc)))) with (Rf ra (CN (close (Cf prev ca cc)) :: rc)).
      assert (Hb : run (attr_section a ++ emit_list emit ch)
                       (Cf h [] [] :: Rf ra (CN (close (Cf prev ca cc)) :: rc) :: Tf ta tc :: base)
                   = Some (Cf h a (rev ch) :: Rf ra (CN (close (Cf prev ca cc)) :: rc) :: Tf ta tc :: base)).
      { apply section_content_run; try assumption; [destruct h; reflexivity | apply (have_table_T [_])]. }
      destruct (IH h a (rev ch) ra (CN (close (Cf prev ca cc)) :: rc) ta tc base Hrest) as [h' [ca' [cc' [rc' [Hrun Hrev]]]]].
      exists h', ca', cc', rc'. split; [rewrite (run_app_some _ _ _ _ Hb); exact Hrun|].
      rewrite Hrev. cbn [rev]. rewrite <- !app_assoc. cbn [app].
      assert (E : close (Cf h a (rev ch)) = TN (cell_kind h) a ch) by (unfold close, Cf; cbn [fk fattrs fch]; rewrite rev_involutive; reflexivity).
      rewrite E. reflexivity. Qed.
End Level.

Section Level2.
  Variable sh : tnode -> bool.
  Hypothesis IHt : forall T, sh T = true -> TreeOK T.

  Lemma row_run_t a ch S T T' base : Above S T T' -> at_most_one a = true -> ch <> [] -> cells_ok sh ch = true ->
    exists h ca cc rc ta tc,
      T' = Tf ta tc /\
      run (emit (TN KRow a ch)) (S ++ T :: base) = Some (Cf h ca cc :: Rf a rc :: Tf ta tc :: base)
      /\ close (addchild (Rf a rc) (CN (close (Cf h ca cc)))) = TN KRow a ch.
  Proof. intros HA Ha Hne Hok. destruct ch as [|c more]; [congruence|]. cbn [cells_ok] in Hok.
    assert (Hc : exists h a1 ch1, c = CN (TN (cell_kind h) a1 ch1) /\ at_most_one a1 = true /\ content_ok sh false ch1 = true /\ cells_ok sh more = true).
    { destruct c as [s|[k a1 ch1]]; [discriminate|]. destruct k; try discriminate;
        apply andb_true_iff in Hok; destruct Hok as [Hok Hrest]; apply andb_true_iff in Hok; destruct Hok as [Ha1 Hcon].
      - exists false, a1, ch1. auto.
      - exists true, a1, ch1. auto. }
    destruct Hc as [h [a1 [ch1 [-> [Ha1 [Hcon Hrest]]]]]].
    assert (HT : exists ta tc, T' = Tf ta tc) by (destruct HA; eexists; eexists; reflexivity).
    destruct HT as [ta [tc ->]].
    assert (Hb : run (attr_section a1 ++ emit_list emit ch1) (Cf h [] [] :: Rf a [] :: Tf ta tc :: base)
                 = Some (Cf h a1 (rev ch1) :: Rf a [] :: Tf ta tc :: base)).
    { apply (section_content_run sh IHt); try assumption; [destruct h; reflexivity | apply (have_table_T [_])]. }
    destruct (cells_run_t sh IHt more h a1 (rev ch1) a [] ta tc base Hrest) as [h' [ca' [cc' [rc' [Hrun Hrev]]]]].
    exists h', ca', cc', rc', ta, tc. split; [reflexivity|]. split.
    - rewrite emit_eq. cbn [run]. rewrite (row_step _ _ _ _ HA). cbn [bind].
      rewrite (run_app_some _ _ _ _ (attr_text_run a KRow (Tf ta tc :: base) Ha)).
      cbn [emit_list]. rewrite emit_eq.
      assert (Htok : (match cell_kind h with
                      | KTable => TStart :: attr_text a1 ++ emit_list emit ch1 ++ [TEnd]
                      | KCaption => TCaption :: attr_section a1 ++ emit_list emit ch1
                      | KRow => TRow :: attr_text a1 ++ emit_list emit ch1
                      | KHdr => TBang true :: attr_section a1 ++ emit_list emit ch1
                      | KCell => TBar true :: attr_section a1 ++ emit_list emit ch1
                      | KBottom => emit_list emit ch1
                      end) = sep_tok (SBol h) :: (attr_section a1 ++ emit_list emit ch1)) by (destruct h; reflexivity).
      rewrite Htok. cbn [app run].
      change (mkframe KRow [] (pending (as_atom a))) with (Rf [] (pending (as_atom a))).
      rewrite first_sep_step. cbn [bind]. rewrite (as_atom_attrs a Ha).
      rewrite (run_app_some _ _ _ _ Hb). exact Hrun.
    - unfold close at 1. cbn [addchild fk fattrs fch Rf]. rewrite Hrev. cbn [rev app].
      assert (E : close (Cf h a1 (rev ch1)) = TN (cell_kind h) a1 ch1) by (unfold close, Cf; cbn [fk fattrs fch]; rewrite rev_involutive; reflexivity).
      rewrite E. reflexivity. Qed.

  Lemma rows_run_t : forall rows S T T' f rest, Above S T T' -> rows_ok sh rows = true ->
    run (emit_list emit rows ++ [TEnd]) (S ++ T :: f :: rest)
    = Some (addchild f (CN (TN KTable (fattrs T') (rev (fch T') ++ rows))) :: rest).
  Proof. induction rows as [|r rows IH]; intros S T T' f rest HA Hok.
    - cbn [emit_list app run]. rewrite (end_step _ _ _ _ _ HA). cbn [bind]. rewrite app_nil_r.
      unfold close. rewrite (above_kind _ _ _ HA). reflexivity.
    - cbn [emit_list rows_ok] in *.
      assert (Hr : exists a ch, r = CN (TN KRow a ch) /\ at_most_one a = true /\ ch <> [] /\ cells_ok sh ch = true /\ rows_ok sh rows = true).
      { destruct r as [s|[k a ch]]; [discriminate|]. destruct k; try discriminate.
        apply andb_true_iff in Hok. destruct Hok as [Hok Hrest]. apply andb_true_iff in Hok. destruct Hok as [Ha Hc].
        exists a, ch. destruct ch; [discriminate|]. repeat split; try assumption. discriminate. }
      destruct Hr as [a [ch [-> [Ha [Hne [Hc Hrest]]]]]].
      destruct (row_run_t a ch S T T' (f :: rest) HA Ha Hne Hc) as [h [ca [cc [rc [ta [tc [-> [Hrun Htree]]]]]]]].
      rewrite <- app_assoc. rewrite (run_app_some _ _ _ _ Hrun).
      change (Cf h ca cc :: Rf a rc :: Tf ta tc :: f :: rest) with ([Cf h ca cc; Rf a rc] ++ Tf ta tc :: f :: rest).
      rewrite (IH [Cf h ca cc; Rf a rc] (Tf ta tc) _ f rest (ACell h ca cc a rc ta tc) Hrest).
      rewrite Htree. cbn [addchild fattrs fch Tf rev]. rewrite <- app_assoc. reflexivity. Qed.

  Lemma table_run_t a ch : at_most_one a = true ->
    match ch with
    | CN (TN KCaption ca cch) :: ch' => at_most_one ca && content_ok sh false cch && rows_ok sh ch'
    | _ => rows_ok sh ch
    end = true ->
    TreeOK (TN KTable a ch).
  Proof. intros Ha Hok f rest. rewrite emit_eq. cbn [run step table_start_fn bind push].
    rewrite (run_app_some _ _ _ _ (attr_text_run a KTable (f :: rest) Ha)).
    change (mkframe KTable [] (pending (as_atom a))) with (Tf [] (pending (as_atom a))).
    assert (Hcases : (exists ca cch ch', ch = CN (TN KCaption ca cch) :: ch' /\ at_most_one ca = true
                                        /\ content_ok sh false cch = true /\ rows_ok sh ch' = true)
                     \/ rows_ok sh ch = true).
    { destruct ch as [|c ch']; [right; exact Hok|]. destruct c as [s|[k ca cch]]; [right; exact Hok|].
      destruct k; try (right; exact Hok). left. exists ca, cch, ch'.
      apply andb_true_iff in Hok. destruct Hok as [Hok Hr]. apply andb_true_iff in Hok. destruct Hok as [Hca Hc]. auto. }
    destruct Hcases as [[ca [cch [ch' [-> [Hca [Hc Hr]]]]]] | Hr].
    - cbn [emit_list]. rewrite emit_eq. cbn [app run]. rewrite caption_step. cbn [bind].
      assert (Hb : run (attr_section ca ++ emit_list emit cch) (mkframe KCaption [] [] :: Tf (opt_attrs (as_atom a)) [] :: f :: rest)
                   = Some (mkframe KCaption ca (rev cch) :: Tf (opt_attrs (as_atom a)) [] :: f :: rest)).
      { apply (section_content_run sh IHt); try assumption; reflexivity. }
      rewrite <- app_assoc. rewrite (run_app_some _ _ _ _ Hb).
      change (mkframe KCaption ca (rev cch) :: Tf (opt_attrs (as_atom a)) [] :: f :: rest)
        with ([mkframe KCaption ca (rev cch)] ++ Tf (opt_attrs (as_atom a)) [] :: f :: rest).
      rewrite (rows_run_t ch' [mkframe KCaption ca (rev cch)] (Tf (opt_attrs (as_atom a)) []) _ f rest (ACap _ _ _ _) Hr).
      cbn [addchild fattrs fch Tf rev app]. unfold close. cbn [fk fattrs fch]. rewrite rev_involutive, (as_atom_attrs a Ha). reflexivity.
    - change (Tf [] (pending (as_atom a)) :: f :: rest) with ([] ++ Tf [] (pending (as_atom a)) :: f :: rest).
      rewrite (rows_run_t ch [] (Tf [] (pending (as_atom a))) _ f rest (AStart (as_atom a)) Hr).
      cbn [fattrs fch Tf rev app]. rewrite (as_atom_attrs a Ha). reflexivity. Qed.
End Level2.

Theorem shaped_tree_is_read_back : forall fuel T, shaped fuel T = true -> TreeOK T.
Proof. induction fuel as [|fuel IH]; intros T Hs; [discriminate|].
  destruct T as [k a ch]. cbn [shaped] in Hs. destruct k; try discriminate.
  apply andb_true_iff in Hs. destruct Hs as [Ha Hok].
  apply (table_run_t (shaped fuel) IH a ch Ha Hok). Qed.

Theorem emitted_table_parses_back fuel T : shaped fuel T = true -> parse (emit T) = Some [CN T].
Proof. intros Hs. unfold parse. rewrite (shaped_tree_is_read_back fuel T Hs bottom []). reflexivity. Qed.

(** * the trees of written tables have that shape *)
Lemma content_ok_mono (sh1 sh2 : tnode -> bool) : (forall T, sh1 T = true -> sh2 T = true) ->
  forall cs prev, content_ok sh1 prev cs = true -> content_ok sh2 prev cs = true.
Proof. intros Hm. induction cs as [|c cs IH]; intros prev H; [reflexivity|]. cbn [content_ok] in *.
  destruct c as [s|[k a ch]].
  - apply andb_true_iff in H. destruct H as [H1 H2]. rewrite H1. cbn [andb]. apply IH. exact H2.
  - destruct k; try discriminate. apply andb_true_iff in H. destruct H as [H1 H2]. rewrite (Hm _ H1). cbn [andb]. apply IH. exact H2. Qed.
Lemma cells_ok_mono (sh1 sh2 : tnode -> bool) : (forall T, sh1 T = true -> sh2 T = true) ->
  forall cs, cells_ok sh1 cs = true -> cells_ok sh2 cs = true.
Proof. intros Hm. induction cs as [|c cs IH]; intros H; [reflexivity|]. cbn [cells_ok] in *.
  destruct c as [s|[k a ch]]; [discriminate|]. destruct k; try discriminate;
    (apply andb_true_iff in H; destruct H as [H H3]; apply andb_true_iff in H; destruct H as [H1 H2];
     rewrite H1, (content_ok_mono sh1 sh2 Hm _ _ H2), (IH H3); reflexivity). Qed.
Lemma rows_ok_mono (sh1 sh2 : tnode -> bool) : (forall T, sh1 T = true -> sh2 T = true) ->
  forall cs, rows_ok sh1 cs = true -> rows_ok sh2 cs = true.
Proof. intros Hm. induction cs as [|c cs IH]; intros H; [reflexivity|]. cbn [rows_ok] in *.
  destruct c as [s|[k a ch]]; [discriminate|]. destruct k; try discriminate.
  apply andb_true_iff in H. destruct H as [H H3]. apply andb_true_iff in H. destruct H as [H1 H2].
  rewrite H1, (IH H3). destruct ch; [discriminate|]. rewrite (cells_ok_mono sh1 sh2 Hm _ H2). reflexivity. Qed.
Lemma shaped_S : forall f T, shaped f T = true -> shaped (S f) T = true.
Proof. induction f as [|f IH]; intros T H; [discriminate|]. destruct T as [k a ch]. cbn [shaped] in *.
  destruct k; try discriminate. apply andb_true_iff in H. destruct H as [Ha H]. rewrite Ha. cbn [andb].
  destruct ch as [|c ch']; [exact H|]. destruct c as [s|[k ca cch]]; try (apply (rows_ok_mono _ _ IH); exact H).
  destruct k; try (apply (rows_ok_mono _ _ IH); exact H).
  apply andb_true_iff in H. destruct H as [H H3]. apply andb_true_iff in H. destruct H as [H1 H2].
  rewrite H1, (content_ok_mono _ _ IH _ _ H2), (rows_ok_mono _ _ IH _ H3). reflexivity. Qed.
Lemma shaped_le f g T : f <= g -> shaped f T = true -> shaped g T = true.
Proof. intros Hle H. induction Hle; [exact H | apply shaped_S; assumption]. Qed.

Definition ends_str (prev : bool) (l : list tchild) : bool :=
  match rev l with CS _ :: _ => true | CN _ :: _ => false | [] => prev end.
Lemma ends_str_cons prev c l : ends_str prev (c :: l) = ends_str (match c with CS _ => true | CN _ => false end) l.
Proof. unfold ends_str. cbn [rev]. destruct (rev l) as [|x r]; cbn [app]; [destruct c; reflexivity | destruct x; reflexivity]. Qed.
Definition item_ok (sh : tnode -> bool) (prev : bool) (c : tchild) : bool :=
  match c with
  | CS s => negb prev && negb (match s with [] => true | _ => false end)
  | CN (TN KTable a ch) => sh (TN KTable a ch)
  | CN _ => false
  end.
Lemma content_ok_snoc sh c : forall l prev,
  content_ok sh prev (l ++ [c]) = content_ok sh prev l && item_ok sh (ends_str prev l) c.
Proof. induction l as [|x l IH]; intros prev.
  - cbn. destruct c as [s|[k a ch]]; [|destruct k]; cbn; rewrite ?andb_true_r; reflexivity.
  - cbn [app content_ok]. rewrite ends_str_cons. destruct x as [s|[k a ch]].
    + rewrite IH. rewrite andb_assoc. reflexivity.
    + destruct k; try reflexivity. rewrite IH. rewrite andb_assoc. reflexivity. Qed.

Section Shape.
  Variable n : nat.
  Hypothesis IHs : forall t, tsize t < n -> wf_table t = true -> shaped (tsize t) (tree_table t) = true.

  Lemma content_shape : forall content acc, items_size content <= n -> wf_items content = true ->
    content_ok (shaped n) false (rev acc) = true ->
    content_ok (shaped n) false (rev (content_ch acc content)) = true.
  Proof. induction content as [|i content IH]; intros acc Hsz Hwf Hacc; [exact Hacc|].
    cbn [content_ch items_size wf_items] in *. apply andb_true_iff in Hwf. destruct Hwf as [Hwi Hwc].
    destruct i as [a|t]; cbn [isize wf_item] in *.
    - apply IH; try assumption; try lia. unfold add_text_ch. destruct acc as [|[s|m] r].
      + reflexivity.
      + cbn [rev] in *. rewrite content_ok_snoc in *. apply andb_true_iff in Hacc. destruct Hacc as [H1 H2].
        rewrite H1. cbn [andb item_ok] in *. apply andb_true_iff in H2. destruct H2 as [H2 _]. rewrite H2.
        destruct s; reflexivity.
      + cbn [rev] in *. rewrite content_ok_snoc. rewrite Hacc. cbn [andb item_ok].
        unfold ends_str. rewrite rev_app_distr. reflexivity.
    - apply IH; try assumption; try lia. cbn [rev]. rewrite content_ok_snoc, Hacc. cbn [andb item_ok].
      assert (Hs := IHs t ltac:(lia) Hwi).
      destruct (tree_table t) as [k a ch] eqn:E. assert (k = KTable) as -> by (destruct t; rewrite tree_table_eq in E; congruence).
      apply (shaped_le (tsize t) n); [lia | exact Hs]. Qed.

  Lemma body_shape k b : bsize b <= n -> wf_body b = true ->
    match tree_body k b with TN _ a ch => at_most_one a && content_ok (shaped n) false ch end = true.
  Proof. destruct b as [a c]. rewrite bsize_eq, wf_body_eq, tree_body_eq. intros Hsz Hwf.
    rewrite (content_shape c [] ltac:(lia) Hwf eq_refl). destruct a as [[i [|]]|]; reflexivity. Qed.

  Lemma cells_shape : forall more prev, cells_size more <= n -> wf_cells prev more = true ->
    cells_ok (shaped n) (cells_tree prev more) = true.
  Proof. induction more as [|[s b] more IH]; intros prev Hsz Hwf; [reflexivity|].
    cbn [cells_tree cells_size csize wf_cells cells_ok] in *.
    apply andb_true_iff in Hwf. destruct Hwf as [Hwf Hwm]. apply andb_true_iff in Hwf. destruct Hwf as [_ Hwb].
    pose proof (body_shape (cell_kind (kind_after prev s)) b ltac:(lia) Hwb) as Hb.
    destruct (tree_body (cell_kind (kind_after prev s)) b) as [k a ch] eqn:E.
    assert (k = cell_kind (kind_after prev s)) as -> by (destruct b; rewrite tree_body_eq in E; congruence).
    rewrite (IH _ ltac:(lia) Hwm). destruct (kind_after prev s); cbn [cell_kind]; rewrite Hb; reflexivity. Qed.

  Lemma rows_shape : forall rows, rows_size rows <= n -> wf_rows rows = true -> rows_ok (shaped n) (rows_tree rows) = true.
  Proof. induction rows as [|[ra h f m] rows IH]; intros Hsz Hwf; [reflexivity|].
    cbn [rows_tree rows_size wf_rows rows_ok] in *. rewrite rsize_eq, wf_row_eq, tree_row_eq in *.
    apply andb_true_iff in Hwf. destruct Hwf as [Hwr Hwf]. apply andb_true_iff in Hwr. destruct Hwr as [Hwb Hwm].
    rewrite (IH ltac:(lia) Hwf).
    pose proof (body_shape (cell_kind h) f ltac:(lia) Hwb) as Hb.
    pose proof (cells_shape m h ltac:(lia) Hwm) as Hm.
    destruct (tree_body (cell_kind h) f) as [k a ch] eqn:E.
    assert (k = cell_kind h) as -> by (destruct f; rewrite tree_body_eq in E; congruence).
    cbn [cells_ok]. destruct h; cbn [cell_kind]; rewrite Hb, Hm; destruct ra as [[i [|]]|]; reflexivity. Qed.
End Shape.

Theorem written_table_tree_is_shaped : forall t, wf_table t = true -> shaped (tsize t) (tree_table t) = true.
Proof. assert (H : forall n t, tsize t < n -> wf_table t = true -> shaped (tsize t) (tree_table t) = true).
  { induction n as [|n IH]; intros t Hsz Hwf; [lia|]. destruct t as [ta c rs].
    rewrite tsize_eq, wf_table_eq, tree_table_eq in *. apply andb_true_iff in Hwf. destruct Hwf as [Hwc Hwr].
    set (m := match c with Some b => bsize b | None => 0 end + rows_size rs) in *.
    cbn [shaped].
    assert (IH' : forall t, tsize t < m -> wf_table t = true -> shaped (tsize t) (tree_table t) = true)
      by (intros t' H1 H2; apply IH; [lia | exact H2]).
    assert (Ha : at_most_one (opt_attrs ta) = true) by (destruct ta as [[i [|]]|]; reflexivity).
    rewrite Ha. cbn [andb].
    pose proof (rows_shape m IH' rs ltac:(unfold m; destruct c; lia) Hwr) as Hrows.
    destruct c as [b|]; cbn [cap_tree app].
    - pose proof (body_shape m IH' KCaption b ltac:(unfold m; lia) Hwc) as Hb.
      destruct (tree_body KCaption b) as [k a ch] eqn:E.
      assert (k = KCaption) as -> by (destruct b; rewrite tree_body_eq in E; congruence).
      rewrite Hb, Hrows. reflexivity.
    - destruct (rows_tree rs) as [|r0 rest] eqn:E; [reflexivity|].
      destruct rs as [|[ra h f mm] rs']; [discriminate|]. cbn [rows_tree] in E. rewrite tree_row_eq in E.
      inversion E; subst. exact Hrows. }
  intros t Hwf. apply (H (S (tsize t))); [lia | assumption]. Qed.

(** the round trip for written tables: what the parser built, written back by to_wikitext, parses to the same tree *)
Theorem written_table_round_trip t : wf_table t = true ->
  parse (render_table t) = Some [CN (tree_table t)] /\ parse (emit (tree_table t)) = Some [CN (tree_table t)].
Proof. intros Hwf. split; [apply parse_written_table; exact Hwf|].
  apply (emitted_table_parses_back (tsize t)). apply written_table_tree_is_shaped. exact Hwf. Qed.
