From Coq Require Import List Bool Lia.
Import ListNotations.
From WTP Require Import Model.FsDb.

(** The invariant: either a complete backup of the original content exists, or
    there is no backup file at all and the database (after SQLite's recovery)
    shows the original content.  A file carrying the backup's name is never
    partial. *)
Definition Inv (s : fs) : bool :=
  match bak s with
  | Complete Orig => true
  | Absent => match visible (recover s) with Some Orig => true | _ => false end
  | _ => false
  end.

Definition s0 : fs := mkfs (Some Orig) NoWal Absent Absent.

Definition result (s : fs) : option content := visible (recover (reopen (recover s))).

(* every crash point of the override flow leaves a state satisfying the invariant *)
Lemma override_inv : forall k, Inv (crash_at s0 override_flow k) = true.
Proof. intros k. do 9 (destruct k as [|k]; [vm_compute; reflexivity|]). vm_compute. reflexivity. Qed.

(* an interrupted reopen (killed after any number of its steps) keeps the invariant *)
Lemma restore_crash_inv : forall s j, Inv s = true -> Inv (crash_at s (restore_flow s) j) = true.
Proof. intros [d w b t] j H. unfold Inv in H. cbn [bak] in H.
  destruct b as [| |[|]]; try discriminate; cbn [restore_flow bak].
  - (* no backup: nothing to do *)
    destruct j; destruct d as [[|]|]; destruct w as [| |[|]]; destruct t as [| |[|]]; vm_compute in H |- *; congruence.
  - do 4 (destruct j as [|j]; [destruct d as [[|]|]; destruct w as [| |[|]]; destruct t as [| |[|]]; vm_compute; reflexivity|]).
    destruct d as [[|]|]; destruct w as [| |[|]]; destruct t as [| |[|]]; vm_compute; reflexivity.
Qed.

(* a completed reopen from a state satisfying the invariant shows the original content *)
Lemma inv_result : forall s, Inv s = true -> result s = Some Orig.
Proof. intros [d w b t] H. unfold Inv in H. cbn [bak] in H.
  destruct b as [| |[|]]; try discriminate;
    destruct d as [[|]|]; destruct w as [| |[|]]; destruct t as [| |[|]]; vm_compute in H |- *; congruence. Qed.

(* any number of interrupted reopen attempts *)
Fixpoint interrupted_reopens (s : fs) (js : list nat) : fs :=
  match js with
  | [] => s
  | j :: r => interrupted_reopens (crash_at s (restore_flow s) j) r
  end.

Lemma interrupted_inv js : forall s, Inv s = true -> Inv (interrupted_reopens s js) = true.
Proof. induction js as [|j r IH]; intros s H; [exact H|]. cbn [interrupted_reopens]. apply IH. apply restore_crash_inv. exact H. Qed.

Theorem crash_safe k js :
  result (interrupted_reopens (crash_at s0 override_flow k) js) = Some Orig.
Proof. apply inv_result. apply interrupted_inv. apply override_inv. Qed.

(* without a backup: an interrupted overwrite shows the old or the new content, never anything else,
   and the new content only once its commit has happened *)
Theorem overwrite_atomic k :
  let r := result (crash_at s0 (overwrite_flow ++ close_flow) k) in
  r = Some Orig \/ r = Some New.
Proof. do 4 (destruct k as [|k]; [vm_compute; auto|]). vm_compute. auto. Qed.

(* the unrepaired protocol (backup created under its final name, log not removed) is NOT safe: witnesses *)
Definition old_backup_flow := [UnlinkBackup; CreateTmp; RenameTmp].   (* the file exists under the backup's name before it is filled *)
Example old_backup_unsafe : result (crash_at s0 old_backup_flow 3) <> Some Orig.
Proof. vm_compute. discriminate. Qed.
Definition old_restore (s : fs) : fs := run s [UnlinkDb; RenameBackup].
Example old_restore_replays_stale_log :
  visible (recover (old_restore (recover (run s0 (backup_flow ++ overwrite_flow))))) = Some New.
Proof. vm_compute. reflexivity. Qed.
