(** What Model/Body.template_to_body computes on well-formed arrangements of comments, noinclude,
    includeonly and onlyinclude elements: the documented "includable part". *)
From Coq Require Import List NArith Bool Arith Lia.
From WTP Require Import Base.Str Model.Body.
Import ListNotations.
Open Scope N_scope.

Definition lt_free (s : str) : Prop := Forall (fun c => c <> 60) s.
Definition clean (s : str) : Prop := Forall (fun c => c <> 60 /\ c <> 62) s.
Lemma clean_lt s : clean s -> lt_free s.
Proof. apply Forall_impl. intros c [H _]. exact H. Qed.

Lemma lower_c_neq c k : c <> k -> (k < 65 \/ 90 < k) -> (k < 97 \/ 122 < k) -> (lower_c c =? k) = false.
Proof. intros Hc Hk1 Hk2. unfold lower_c. destruct ((65 <=? c) && (c <=? 90)) eqn:E.
  - apply andb_true_iff in E. destruct E as [E1 E2]. apply N.leb_le in E1. apply N.leb_le in E2. apply N.eqb_neq. lia.
  - apply N.eqb_neq. exact Hc. Qed.

(** * scanning *)
Section Scan.
Variable m : str -> option str.
Hypothesis m_lt : forall s after, m s = Some after -> exists r, s = 60 :: r.

Lemma scan_ltfree t rest : lt_free t -> scan m 0 (t ++ rest) = t ++ scan m 0 rest.
Proof. induction 1 as [|c t Hc _ IH]; [reflexivity|]. cbn [app scan].
  destruct (m (c :: t ++ rest)) as [after|] eqn:E.
  - destruct (m_lt _ _ E) as [r Hr]. inversion Hr. congruence.
  - rewrite IH. reflexivity. Qed.

Lemma scan_skip x rest : scan m (length x) (x ++ rest) = scan m 0 rest.
Proof. induction x as [|c x IH]; [reflexivity|]. cbn [length app scan]. exact IH. Qed.

Lemma scan_match x rest : x <> [] -> m (x ++ rest) = Some rest -> scan m 0 (x ++ rest) = scan m 0 rest.
Proof. intros Hx Hm. destruct x as [|c x]; [congruence|]. cbn [app scan]. cbn [app] in Hm. rewrite Hm.
  rewrite app_length. replace (length x + length rest - length rest)%nat with (length x) by lia. apply scan_skip. Qed.

Lemma scan_tag body rest : lt_free body -> m (60 :: body ++ rest) = None ->
  scan m 0 (60 :: body ++ rest) = 60 :: body ++ scan m 0 rest.
Proof. intros Hb Hm. cbn [scan]. rewrite Hm. rewrite scan_ltfree by exact Hb. reflexivity. Qed.

(* a text as a sequence of pieces *)
Inductive piece := Text (t : str) | Tag (body : str) | Drop (x : str).
Definition flat (p : piece) : str := match p with Text t => t | Tag b => 60 :: b | Drop x => x end.
Definition kept (p : piece) : str := match p with Drop _ => [] | _ => flat p end.
Definition piece_ok (p : piece) : Prop :=
  match p with
  | Text t => lt_free t
  | Tag b => lt_free b /\ forall rest, m (60 :: b ++ rest) = None
  | Drop x => x <> [] /\ forall rest, m (x ++ rest) = Some rest
  end.
Lemma scan_pieces ps : Forall piece_ok ps -> forall rest,
  scan m 0 (concat (map flat ps) ++ rest) = concat (map kept ps) ++ scan m 0 rest.
Proof. induction 1 as [|p ps Hp _ IH]; intros rest; [reflexivity|]. cbn [map concat].
  destruct p as [t|b|x]; cbn [flat kept piece_ok] in *.
  - rewrite <- !app_assoc. rewrite scan_ltfree by exact Hp. rewrite IH. reflexivity.
  - destruct Hp as [Hb Hn]. rewrite <- !app_assoc. cbn [app].
    rewrite scan_tag; [| exact Hb | apply Hn]. rewrite IH. reflexivity.
  - destruct Hp as [Hx Hs]. rewrite <- app_assoc. rewrite scan_match; [| exact Hx | apply Hs]. rewrite IH. reflexivity. Qed.
End Scan.

(** * concrete tags *)
Definition t_open (name : str) : str := name ++ [62].            (* body of the start tag, after '<' *)
Definition t_close (name : str) : str := 47 :: name ++ [62].     (* body of the end tag, after '<' *)
Definition el (name : str) (content : str) : str := 60 :: t_open name ++ content ++ 60 :: t_close name.

Lemma match_lt p s after : (exists c, p = PC 60 :: c) -> match_pat p s = Some after -> exists r, s = 60 :: r.
Proof. intros [p' ->] H. destruct s as [|x r]; cbn in H; [discriminate|].
  destruct (lower_c x =? 60) eqn:E; [|discriminate]. exists r. f_equal.
  unfold lower_c in E. destruct ((65 <=? x) && (x <=? 90)) eqn:E2.
  - apply andb_true_iff in E2. destruct E2 as [A B]. apply N.leb_le in A. apply N.eqb_eq in E. lia.
  - apply N.eqb_eq in E. exact E. Qed.

(* a pattern that starts with '<' does not match inside '<'-free text: the first match is where the text ends *)
Lemma cut_pat_ltfree p s rest after : (exists c, p = PC 60 :: c) -> lt_free s ->
  match_pat p rest = Some after -> cut_pat p (s ++ rest) = Some (s, after).
Proof. intros Hp Hs Hm. induction Hs as [|c s Hc _ IH].
  - cbn [app]. destruct rest; cbn [cut_pat]; rewrite Hm; reflexivity.
  - cbn [app cut_pat]. destruct (match_pat p (c :: s ++ rest)) as [a|] eqn:E.
    + destruct (match_lt _ _ _ Hp E) as [r Hr]. inversion Hr. congruence.
    + rewrite IH. reflexivity. Qed.

Lemma cut_pat_none_ltfree p s : (exists c, p = PC 60 :: c) -> lt_free s -> cut_pat p s = None.
Proof. intros Hp Hs. induction Hs as [|c s Hc _ IH].
  - destruct Hp as [p' ->]. reflexivity.
  - cbn [cut_pat]. destruct (match_pat p (c :: s)) as [a|] eqn:E.
    + destruct (match_lt _ _ _ Hp E) as [r Hr]. inversion Hr. congruence.
    + rewrite IH. reflexivity. Qed.

(* the comment closer in text without '>' *)
Definition gt_free (s : str) : Prop := Forall (fun c => c <> 62) s.
Lemma clean_gt s : clean s -> gt_free s.
Proof. apply Forall_impl. intros c [_ H]. exact H. Qed.
Lemma lower_c_62 c : c <> 62 -> (lower_c c =? 62) = false.
Proof. intros H. apply lower_c_neq; [exact H | lia | lia]. Qed.

Lemma cclose_in_gtfree s rest : gt_free s -> s <> [] -> match_pat (lit s_cclose) (s ++ s_cclose ++ rest) = None.
Proof. intros Hs Hne. destruct s as [|a [|b [|c s]]]; [congruence| | |].
  - cbn. destruct (lower_c a =? 45); reflexivity.
  - cbn. destruct (lower_c a =? 45); [|reflexivity]. destruct (lower_c b =? 45); reflexivity.
  - inversion Hs as [|? ? _ Hs1]; subst. inversion Hs1 as [|? ? _ Hs2]; subst. inversion Hs2 as [|? ? Hc _]; subst.
    cbn. destruct (lower_c a =? 45); [|reflexivity]. destruct (lower_c b =? 45); [|reflexivity].
    rewrite (lower_c_62 c Hc). reflexivity. Qed.

Lemma cut_cclose s rest : gt_free s -> cut_pat (lit s_cclose) (s ++ s_cclose ++ rest) = Some (s, rest).
Proof. intros Hs. induction Hs as [|c s Hc Hs IH].
  - reflexivity.
  - assert (Hn : match_pat (lit s_cclose) ((c :: s) ++ s_cclose ++ rest) = None).
    { apply cclose_in_gtfree; [constructor; assumption | discriminate]. }
    cbn [app] in *. cbn [cut_pat]. rewrite Hn. rewrite IH. reflexivity. Qed.

Definition prepend (t : str) (r : option (str * str)) : option (str * str) :=
  match r with Some (a, b) => Some (t ++ a, b) | None => None end.
Lemma cut_pat_text p t rest : (exists c, p = PC 60 :: c) -> lt_free t -> cut_pat p (t ++ rest) = prepend t (cut_pat p rest).
Proof. intros Hp Ht. induction Ht as [|c t Hc _ IH].
  - cbn. destruct (cut_pat p rest) as [[a b]|]; reflexivity.
  - cbn [app cut_pat]. destruct (match_pat p (c :: t ++ rest)) as [a|] eqn:E.
    + destruct (match_lt _ _ _ Hp E) as [r Hr]. inversion Hr. congruence.
    + rewrite IH. destruct (cut_pat p rest) as [[a b]|]; reflexivity. Qed.
Lemma cut_pat_tag p b rest : (exists c, p = PC 60 :: c) -> lt_free b -> match_pat p (60 :: b ++ rest) = None ->
  cut_pat p (60 :: b ++ rest) = prepend (60 :: b) (cut_pat p rest).
Proof. intros Hp Hb Hm. cbn [cut_pat]. rewrite Hm. rewrite (cut_pat_text p b rest Hp Hb).
  destruct (cut_pat p rest) as [[a c]|]; reflexivity. Qed.

Section CutPieces.
Variable p : list pel.
Hypothesis Hp : exists c, p = PC 60 :: c.
Definition cpiece_ok (x : piece) : Prop :=
  match x with
  | Text t => lt_free t
  | Tag b => lt_free b /\ forall rest, match_pat p (60 :: b ++ rest) = None
  | Drop _ => False
  end.
Lemma cut_pieces ps : Forall cpiece_ok ps -> forall rest,
  cut_pat p (concat (map flat ps) ++ rest) = prepend (concat (map flat ps)) (cut_pat p rest).
Proof. induction 1 as [|x ps Hx _ IH]; intros rest.
  - cbn. destruct (cut_pat p rest) as [[a b]|]; reflexivity.
  - cbn [map concat]. rewrite <- app_assoc. destruct x as [t|b|x]; cbn [flat cpiece_ok] in *; [| |contradiction].
    + rewrite (cut_pat_text p t _ Hp Hx), IH. destruct (cut_pat p rest) as [[a c]|]; cbn [prepend app]; rewrite <- ?app_assoc; reflexivity.
    + destruct Hx as [Hb Hn]. cbn [app]. rewrite (cut_pat_tag p b _ Hp Hb (Hn _)), IH.
      destruct (cut_pat p rest) as [[a c]|]; cbn [prepend app]; rewrite <- ?app_assoc; reflexivity. Qed.
Lemma cut_pieces_none ps : Forall cpiece_ok ps -> cut_pat p (concat (map flat ps)) = None.
Proof. intros H. pose proof (cut_pieces ps H []) as E. rewrite app_nil_r in E. rewrite E.
  destruct Hp as [c ->]. reflexivity. Qed.
End CutPieces.

(** * collecting the onlyinclude groups *)
Lemma only_here_lt s g after : only_here s = Some (g, after) -> exists r, s = 60 :: r.
Proof. unfold only_here. destruct (match_pat (p_open s_onlyinclude) s) as [r|] eqn:E1.
  - intros _. apply (match_lt _ _ _ ltac:(eexists; reflexivity) E1).
  - destruct (match_pat (p_selfclose s_onlyinclude) s) as [a|] eqn:E2; [|discriminate].
    intros _. apply (match_lt _ _ _ ltac:(eexists; reflexivity) E2). Qed.

Inductive opiece := OText (t : str) | OTag (b : str) | OGroup (x g : str).
Definition oflat (p : opiece) : str := match p with OText t => t | OTag b => 60 :: b | OGroup x _ => x end.
Definition ogroups (ps : list opiece) : list str :=
  flat_map (fun p => match p with OGroup _ g => [g] | _ => [] end) ps.
Definition opiece_ok (p : opiece) : Prop :=
  match p with
  | OText t => lt_free t
  | OTag b => lt_free b /\ forall rest, only_here (60 :: b ++ rest) = None
  | OGroup x g => x <> [] /\ forall rest, only_here (x ++ rest) = Some (g, rest)
  end.
Lemma onlys_ltfree t rest : lt_free t -> onlys 0 (t ++ rest) = onlys 0 rest.
Proof. induction 1 as [|c t Hc _ IH]; [reflexivity|]. cbn [app onlys].
  destruct (only_here (c :: t ++ rest)) as [[g a]|] eqn:E.
  - destruct (only_here_lt _ _ _ E) as [r Hr]. inversion Hr. congruence.
  - exact IH. Qed.
Lemma onlys_skip x rest : onlys (length x) (x ++ rest) = onlys 0 rest.
Proof. induction x as [|c x IH]; [reflexivity|]. cbn [length app onlys]. exact IH. Qed.
Lemma onlys_pieces ps : Forall opiece_ok ps -> forall rest,
  onlys 0 (concat (map oflat ps) ++ rest) = ogroups ps ++ onlys 0 rest.
Proof. induction 1 as [|p ps Hp _ IH]; intros rest; [reflexivity|]. cbn [map concat ogroups flat_map]. fold (ogroups ps).
  rewrite <- app_assoc. destruct p as [t|b|x g]; cbn [oflat opiece_ok] in *.
  - rewrite onlys_ltfree by exact Hp. rewrite IH. reflexivity.
  - destruct Hp as [Hb Hn]. cbn [app onlys]. rewrite Hn. rewrite onlys_ltfree by exact Hb. rewrite IH. reflexivity.
  - destruct Hp as [Hx Hs]. destruct x as [|c x]; [congruence|]. cbn [app onlys]. specialize (Hs (concat (map oflat ps) ++ rest)).
    cbn [app] in Hs. rewrite Hs. rewrite app_length.
    replace (length x + length (concat (map oflat ps) ++ rest) - length (concat (map oflat ps) ++ rest))%nat with (length x) by lia.
    rewrite onlys_skip, IH. reflexivity. Qed.

(** * arrangements of comments, noinclude, includeonly and onlyinclude elements *)
Inductive iseg := IPlain (s : str) | IComment (s : str) | INoInc (s : str) | IIncOnly (s : str).
Inductive seg := Inner (i : iseg) | Only (l : list iseg).
Definition itext (i : iseg) : str := match i with IPlain s | IComment s | INoInc s | IIncOnly s => s end.
Definition render_i (i : iseg) : str :=
  match i with
  | IPlain s => s
  | IComment s => s_copen ++ s ++ s_cclose
  | INoInc s => el s_noinclude s
  | IIncOnly s => el s_includeonly s
  end.
Definition render_s (sg : seg) : str :=
  match sg with Inner i => render_i i | Only l => el s_onlyinclude (concat (map render_i l)) end.
Definition render (segs : list seg) : str := concat (map render_s segs).

(* the documented meaning *)
Definition keep_i (i : iseg) : str := match i with IPlain s | IIncOnly s => s | _ => [] end.
Definition is_only (sg : seg) : bool := match sg with Only _ => true | _ => false end.
Definition includable (segs : list seg) : str :=
  if existsb is_only segs
  then concat (map (fun sg => match sg with Only l => concat (map keep_i l) | Inner _ => [] end) segs)
  else concat (map (fun sg => match sg with Inner i => keep_i i | Only _ => [] end) segs).

Definition iseg_clean (i : iseg) : Prop := clean (itext i).
Definition seg_clean (sg : seg) : Prop := match sg with Inner i => iseg_clean i | Only l => Forall iseg_clean l end.

(* stage k of the text as pieces: which constructs are still there *)
Definition tagp (name : str) (content : list piece) : list piece := Tag (t_open name) :: content ++ [Tag (t_close name)].
Definition pieces_i (stage : nat) (i : iseg) : list piece :=
  match i with
  | IPlain s => [Text s]
  | IComment s => match stage with O => [Drop (s_copen ++ s ++ s_cclose)] | _ => [] end
  | INoInc s => match stage with O => tagp s_noinclude [Text s] | 1%nat => [Drop (el s_noinclude s)] | _ => [] end
  | IIncOnly s => tagp s_includeonly [Text s]
  end.
Definition pieces_s (stage : nat) (sg : seg) : list piece :=
  match sg with Inner i => pieces_i stage i | Only l => tagp s_onlyinclude (flat_map (pieces_i stage) l) end.
Definition text_at (stage : nat) (segs : list seg) : str := concat (map flat (flat_map (pieces_s stage) segs)).

Lemma concat_map_app {A} (f : A -> str) (a b : list A) : concat (map f (a ++ b)) = concat (map f a) ++ concat (map f b).
Proof. rewrite map_app, concat_app. reflexivity. Qed.

Lemma flat_tagp name content : concat (map flat (tagp name content)) = 60 :: t_open name ++ concat (map flat content) ++ 60 :: t_close name.
Proof. unfold tagp. cbn [map concat flat]. rewrite concat_map_app. cbn. rewrite app_nil_r. reflexivity. Qed.

Lemma text_at_0_i i : concat (map flat (pieces_i 0 i)) = render_i i.
Proof. destruct i as [s|s|s|s]; cbn [pieces_i render_i]; try rewrite flat_tagp; cbn; rewrite ?app_nil_r; reflexivity. Qed.
Lemma flat_flat_map {A} (f : A -> list piece) (g : A -> str) l :
  (forall x, concat (map flat (f x)) = g x) -> concat (map flat (flat_map f l)) = concat (map g l).
Proof. intros H. induction l as [|x l IH]; [reflexivity|]. cbn [flat_map map concat]. rewrite concat_map_app, H, IH. reflexivity. Qed.
Lemma text_at_0 segs : text_at 0 segs = render segs.
Proof. unfold text_at, render. apply flat_flat_map. intros [i|l]; cbn [pieces_s render_s].
  - apply text_at_0_i.
  - rewrite flat_tagp. rewrite (flat_flat_map _ render_i l text_at_0_i). reflexivity. Qed.

(* a pass that drops the Drop pieces of stage k yields stage k+1 *)
Lemma kept_stage_i k i : (k < 2)%nat -> concat (map kept (pieces_i k i)) = concat (map flat (pieces_i (S k) i)).
Proof. intros Hk. destruct k as [|[|k]]; [| |lia]; destruct i as [s|s|s|s]; cbn [pieces_i]; try reflexivity;
  unfold tagp, el; cbn [map concat kept flat app]; rewrite ?app_nil_r, <- ?app_assoc; cbn [app]; rewrite <- ?app_assoc; reflexivity. Qed.
Lemma kept_flat_map {A} (f g : A -> list piece) l :
  (forall x, concat (map kept (f x)) = concat (map flat (g x))) ->
  concat (map kept (flat_map f l)) = concat (map flat (flat_map g l)).
Proof. intros H. induction l as [|x l IH]; [reflexivity|]. cbn [flat_map]. rewrite !concat_map_app, H, IH. reflexivity. Qed.
Lemma kept_stage k segs : (k < 2)%nat -> concat (map kept (flat_map (pieces_s k) segs)) = text_at (S k) segs.
Proof. intros Hk. unfold text_at. apply kept_flat_map. intros [i|l]; cbn [pieces_s].
  - apply kept_stage_i. exact Hk.
  - unfold tagp. cbn [map concat kept flat]. rewrite !concat_map_app. cbn [map concat kept flat].
    rewrite (kept_flat_map _ (pieces_i (S k)) l (fun i => kept_stage_i k i Hk)). reflexivity. Qed.

(** ** pass 1: comments *)
Definition m1 := between (lit s_copen) (lit s_cclose).
Lemma m1_lt s after : m1 s = Some after -> exists r, s = 60 :: r.
Proof. unfold m1, between. destruct (match_pat (lit s_copen) s) as [r|] eqn:E; [|discriminate]. intros _.
  apply (match_lt _ _ _ ltac:(eexists; reflexivity) E). Qed.
Lemma lt_free_app a b : lt_free a -> lt_free b -> lt_free (a ++ b).
Proof. intros. apply Forall_app. split; assumption. Qed.
Lemma lt_free_open name : lt_free name -> lt_free (t_open name).
Proof. intros H. apply lt_free_app; [exact H | repeat constructor; discriminate]. Qed.
Lemma lt_free_close name : lt_free name -> lt_free (t_close name).
Proof. intros H. constructor; [discriminate|]. apply lt_free_open. exact H. Qed.
Lemma lt_names : lt_free s_noinclude /\ lt_free s_includeonly /\ lt_free s_onlyinclude.
Proof. repeat split; repeat constructor; discriminate. Qed.

Lemma ok_tagp m name content : lt_free name -> Forall (piece_ok m) content ->
  (forall rest, m (60 :: t_open name ++ rest) = None) -> (forall rest, m (60 :: t_close name ++ rest) = None) ->
  Forall (piece_ok m) (tagp name content).
Proof. intros Hn Hc Ho Hcl. unfold tagp. constructor; [split; [apply lt_free_open; exact Hn | exact Ho]|].
  apply Forall_app. split; [exact Hc|]. constructor; [|constructor]. split; [apply lt_free_close; exact Hn | exact Hcl]. Qed.

Lemma ok1_i i : iseg_clean i -> Forall (piece_ok m1) (pieces_i 0 i).
Proof. intros Hc. destruct i as [s|s|s|s]; cbn [pieces_i]; unfold iseg_clean in Hc; cbn [itext] in Hc.
  - repeat constructor. apply clean_lt. exact Hc.
  - constructor; [|constructor]. split; [discriminate|]. intros rest. unfold m1, between.
    rewrite <- !app_assoc. change (match_pat (lit s_copen) (s_copen ++ s ++ s_cclose ++ rest)) with (Some (s ++ s_cclose ++ rest)).
    cbv beta iota. rewrite cut_cclose by (apply clean_gt; exact Hc). reflexivity.
  - apply ok_tagp; [apply lt_names | repeat constructor; apply clean_lt; exact Hc | intros rest; reflexivity | intros rest; reflexivity].
  - apply ok_tagp; [apply lt_names | repeat constructor; apply clean_lt; exact Hc | intros rest; reflexivity | intros rest; reflexivity].
Qed.

Lemma Forall_flat_map {A B} (P : B -> Prop) (f : A -> list B) l : (forall x, In x l -> Forall P (f x)) -> Forall P (flat_map f l).
Proof. induction l as [|x l IH]; intros H; [constructor|]. cbn [flat_map]. apply Forall_app. split.
  - apply H. left. reflexivity.
  - apply IH. intros y Hy. apply H. right. exact Hy. Qed.

Lemma ok1 segs : Forall seg_clean segs -> Forall (piece_ok m1) (flat_map (pieces_s 0) segs).
Proof. intros H. apply Forall_flat_map. intros sg Hin. rewrite Forall_forall in H. specialize (H sg Hin).
  destruct sg as [i|l]; cbn [pieces_s seg_clean] in *.
  - apply ok1_i. exact H.
  - apply ok_tagp; [apply lt_names | | intros rest; reflexivity | intros rest; reflexivity].
    apply Forall_flat_map. intros i Hi. apply ok1_i. rewrite Forall_forall in H. apply H. exact Hi. Qed.

Lemma pass1 segs : Forall seg_clean segs -> scan m1 0 (render segs) = text_at 1 segs.
Proof. intros H. rewrite <- text_at_0. unfold text_at at 1.
  pose proof (scan_pieces m1 m1_lt _ (ok1 segs H) []) as E. rewrite !app_nil_r in E. rewrite E.
  apply kept_stage. lia. Qed.

(** ** pass 2: noinclude elements *)
Definition m2 := between (p_open s_noinclude) (p_close s_noinclude).
Lemma m2_lt s after : m2 s = Some after -> exists r, s = 60 :: r.
Proof. unfold m2, between. destruct (match_pat (p_open s_noinclude) s) as [r|] eqn:E; [|discriminate]. intros _.
  apply (match_lt _ _ _ ltac:(eexists; reflexivity) E). Qed.

Lemma ok2_i i : iseg_clean i -> Forall (piece_ok m2) (pieces_i 1 i).
Proof. intros Hc. destruct i as [s|s|s|s]; cbn [pieces_i]; unfold iseg_clean in Hc; cbn [itext] in Hc.
  - repeat constructor. apply clean_lt. exact Hc.
  - constructor.
  - constructor; [|constructor]. split; [discriminate|]. intros rest. unfold m2, between, el.
    cbn [app]. rewrite <- !app_assoc. cbn [app].
    change (match_pat (p_open s_noinclude) (60 :: t_open s_noinclude ++ s ++ 60 :: t_close s_noinclude ++ rest))
      with (Some (s ++ 60 :: t_close s_noinclude ++ rest)).
    cbv beta iota. rewrite (cut_pat_ltfree (p_close s_noinclude) s _ rest); [reflexivity | eexists; reflexivity | apply clean_lt; exact Hc | reflexivity].
  - apply ok_tagp; [apply lt_names | repeat constructor; apply clean_lt; exact Hc | intros rest; reflexivity | intros rest; reflexivity].
Qed.

Lemma ok2 segs : Forall seg_clean segs -> Forall (piece_ok m2) (flat_map (pieces_s 1) segs).
Proof. intros H. apply Forall_flat_map. intros sg Hin. rewrite Forall_forall in H. specialize (H sg Hin).
  destruct sg as [i|l]; cbn [pieces_s seg_clean] in *.
  - apply ok2_i. exact H.
  - apply ok_tagp; [apply lt_names | | intros rest; reflexivity | intros rest; reflexivity].
    apply Forall_flat_map. intros i Hi. apply ok2_i. rewrite Forall_forall in H. apply H. exact Hi. Qed.

Lemma pass2 segs : Forall seg_clean segs -> scan m2 0 (text_at 1 segs) = text_at 2 segs.
Proof. intros H. unfold text_at at 1.
  pose proof (scan_pieces m2 m2_lt _ (ok2 segs H) []) as E. rewrite !app_nil_r in E. rewrite E.
  apply kept_stage. lia. Qed.

(** ** passes 3 and 4: nothing is unclosed *)
Lemma cok_i p i : (exists c, p = PC 60 :: c) -> iseg_clean i ->
  (forall rest, match_pat p (60 :: t_open s_includeonly ++ rest) = None) ->
  (forall rest, match_pat p (60 :: t_close s_includeonly ++ rest) = None) ->
  Forall (cpiece_ok p) (pieces_i 2 i).
Proof. intros Hp Hc H1 H2. destruct i as [s|s|s|s]; cbn [pieces_i]; unfold iseg_clean in Hc; cbn [itext] in Hc.
  - repeat constructor. apply clean_lt. exact Hc.
  - constructor.
  - constructor.
  - unfold tagp. cbn [app]. constructor; [split; [apply lt_free_open; apply lt_names | exact H1]|].
    constructor; [apply clean_lt; exact Hc|]. constructor; [|constructor]. split; [apply lt_free_close; apply lt_names | exact H2]. Qed.
Lemma cok p segs : (exists c, p = PC 60 :: c) -> Forall seg_clean segs ->
  (forall rest, match_pat p (60 :: t_open s_includeonly ++ rest) = None) ->
  (forall rest, match_pat p (60 :: t_close s_includeonly ++ rest) = None) ->
  (forall rest, match_pat p (60 :: t_open s_onlyinclude ++ rest) = None) ->
  (forall rest, match_pat p (60 :: t_close s_onlyinclude ++ rest) = None) ->
  Forall (cpiece_ok p) (flat_map (pieces_s 2) segs).
Proof. intros Hp H H1 H2 H3 H4. apply Forall_flat_map. intros sg Hin. rewrite Forall_forall in H. specialize (H sg Hin).
  destruct sg as [i|l]; cbn [pieces_s seg_clean] in *.
  - apply cok_i; assumption.
  - unfold tagp. constructor; [split; [apply lt_free_open; apply lt_names | exact H3]|].
    apply Forall_app. split.
    + apply Forall_flat_map. intros i Hi. apply cok_i; try assumption. rewrite Forall_forall in H. apply H. exact Hi.
    + constructor; [|constructor]. split; [apply lt_free_close; apply lt_names | exact H4]. Qed.

Lemma pass3 segs : Forall seg_clean segs -> truncate_at (p_open s_noinclude) (text_at 2 segs) = text_at 2 segs.
Proof. intros H. unfold truncate_at, text_at.
  rewrite (cut_pieces_none (p_open s_noinclude) ltac:(eexists; reflexivity) _
             (cok (p_open s_noinclude) segs ltac:(eexists; reflexivity) H ltac:(intros; reflexivity) ltac:(intros; reflexivity)
                  ltac:(intros; reflexivity) ltac:(intros; reflexivity))). reflexivity. Qed.
Lemma pass4 segs : Forall seg_clean segs -> truncate_at (lit s_copen) (text_at 2 segs) = text_at 2 segs.
Proof. intros H. unfold truncate_at, text_at.
  rewrite (cut_pieces_none (lit s_copen) ltac:(eexists; reflexivity) _
             (cok (lit s_copen) segs ltac:(eexists; reflexivity) H ltac:(intros; reflexivity) ltac:(intros; reflexivity)
                  ltac:(intros; reflexivity) ltac:(intros; reflexivity))). reflexivity. Qed.

(** ** pass 5: the onlyinclude groups *)
Definition itext2 (i : iseg) : str := concat (map flat (pieces_i 2 i)).     (* an inner segment after passes 1-4 *)
Definition opieces_i (i : iseg) : list opiece :=
  match i with
  | IPlain s => [OText s]
  | IIncOnly s => [OTag (t_open s_includeonly); OText s; OTag (t_close s_includeonly)]
  | _ => []
  end.
Definition group_of (l : list iseg) : str := concat (map itext2 l).
Definition opieces_s (sg : seg) : list opiece :=
  match sg with Inner i => opieces_i i | Only l => [OGroup (el s_onlyinclude (group_of l)) (group_of l)] end.

Lemma oflat_i i : concat (map oflat (opieces_i i)) = itext2 i.
Proof. destruct i as [s|s|s|s]; unfold itext2; cbn [opieces_i pieces_i]; reflexivity. Qed.
Lemma group_flat l : concat (map flat (flat_map (pieces_i 2) l)) = group_of l.
Proof. unfold group_of. apply flat_flat_map. intros i. reflexivity. Qed.
Lemma oflat_s sg : concat (map oflat (opieces_s sg)) = concat (map flat (pieces_s 2 sg)).
Proof. destruct sg as [i|l]; cbn [opieces_s pieces_s].
  - apply oflat_i.
  - rewrite flat_tagp, group_flat. cbn. rewrite app_nil_r. reflexivity. Qed.
Lemma oflat_all segs : concat (map oflat (flat_map opieces_s segs)) = text_at 2 segs.
Proof. unfold text_at. induction segs as [|sg segs IH]; [reflexivity|]. cbn [flat_map].
  rewrite !concat_map_app, IH, oflat_s. reflexivity. Qed.

Lemma ook_i i : iseg_clean i -> Forall opiece_ok (opieces_i i).
Proof. intros Hc. destruct i as [s|s|s|s]; cbn [opieces_i]; unfold iseg_clean in Hc; cbn [itext] in Hc; try constructor.
  - apply clean_lt. exact Hc.
  - constructor.
  - split; [apply lt_free_open; apply lt_names | intros rest; reflexivity].
  - constructor; [apply clean_lt; exact Hc|]. constructor; [|constructor].
    split; [apply lt_free_close; apply lt_names | intros rest; reflexivity]. Qed.

Lemma ook_s sg : seg_clean sg -> Forall opiece_ok (opieces_s sg).
Proof. intros H. destruct sg as [i|l]; cbn [opieces_s seg_clean] in *; [apply ook_i; exact H|].
  constructor; [|constructor]. split; [discriminate|]. intros rest. unfold only_here, el.
  cbn [app]. rewrite <- !app_assoc. cbn [app].
  change (match_pat (p_open s_onlyinclude) (60 :: t_open s_onlyinclude ++ group_of l ++ 60 :: t_close s_onlyinclude ++ rest))
    with (Some (group_of l ++ 60 :: t_close s_onlyinclude ++ rest)).
  cbv beta iota. rewrite <- group_flat.
  rewrite (cut_pieces (p_close s_onlyinclude) ltac:(eexists; reflexivity) (flat_map (pieces_i 2) l)).
  - change (cut_pat (p_close s_onlyinclude) (60 :: t_close s_onlyinclude ++ rest)) with (Some (@nil N, rest)).
    cbn [prepend]. rewrite app_nil_r. reflexivity.
  - apply Forall_flat_map. intros i Hi. rewrite Forall_forall in H.
    apply cok_i; [eexists; reflexivity | apply H; exact Hi | intros; reflexivity | intros; reflexivity]. Qed.

Definition groups (segs : list seg) : list str :=
  flat_map (fun sg => match sg with Only l => [group_of l] | Inner _ => [] end) segs.
Lemma ogroups_i i : ogroups (opieces_i i) = [].
Proof. destruct i; reflexivity. Qed.
Lemma ogroups_all segs : ogroups (flat_map opieces_s segs) = groups segs.
Proof. induction segs as [|sg segs IH]; [reflexivity|]. cbn [flat_map groups]. fold (groups segs).
  unfold ogroups in *. rewrite flat_map_app, IH. destruct sg as [i|l]; cbn [opieces_s].
  - fold (ogroups (opieces_i i)). rewrite ogroups_i. reflexivity.
  - reflexivity. Qed.

Lemma pass5 segs : Forall seg_clean segs -> onlys 0 (text_at 2 segs) = groups segs.
Proof. intros H. rewrite <- oflat_all.
  pose proof (onlys_pieces (flat_map opieces_s segs)) as E.
  assert (Hok : Forall opiece_ok (flat_map opieces_s segs)).
  { apply Forall_flat_map. intros sg Hin. apply ook_s. rewrite Forall_forall in H. apply H. exact Hin. }
  specialize (E Hok []). rewrite !app_nil_r in E. rewrite E. apply ogroups_all. Qed.

(** ** pass 6: includeonly tags *)
Definition m6 := match_pat p_includeonly.
Lemma m6_lt s after : m6 s = Some after -> exists r, s = 60 :: r.
Proof. apply match_lt. eexists. reflexivity. Qed.
Definition pieces6_i (i : iseg) : list piece :=
  match i with
  | IPlain s => [Text s]
  | IIncOnly s => [Drop (60 :: t_open s_includeonly); Text s; Drop (60 :: t_close s_includeonly)]
  | _ => []
  end.
Lemma flat6_i i : concat (map flat (pieces6_i i)) = itext2 i.
Proof. destruct i as [s|s|s|s]; unfold itext2; cbn [pieces6_i pieces_i]; reflexivity. Qed.
Lemma kept6_i i : concat (map kept (pieces6_i i)) = keep_i i.
Proof. destruct i as [s|s|s|s]; cbn; rewrite ?app_nil_r; reflexivity. Qed.
Lemma ok6_i i : iseg_clean i -> Forall (piece_ok m6) (pieces6_i i).
Proof. intros Hc. destruct i as [s|s|s|s]; cbn [pieces6_i]; unfold iseg_clean in Hc; cbn [itext] in Hc; try constructor.
  - apply clean_lt. exact Hc.
  - constructor.
  - split; [discriminate | intros rest; reflexivity].
  - constructor; [apply clean_lt; exact Hc|]. constructor; [|constructor]. split; [discriminate | intros rest; reflexivity]. Qed.

Lemma pass6 (l : list iseg) : Forall iseg_clean l -> scan m6 0 (concat (map itext2 l)) = concat (map keep_i l).
Proof. intros H.
  assert (E1 : concat (map itext2 l) = concat (map flat (flat_map pieces6_i l))).
  { symmetry. apply flat_flat_map. exact flat6_i. }
  rewrite E1.
  assert (Hok : Forall (piece_ok m6) (flat_map pieces6_i l)).
  { apply Forall_flat_map. intros i Hi. apply ok6_i. rewrite Forall_forall in H. apply H. exact Hi. }
  pose proof (scan_pieces m6 m6_lt _ Hok []) as E. rewrite !app_nil_r in E. rewrite E.
  induction l as [|i l IH]; [reflexivity|]. cbn [flat_map map concat]. rewrite concat_map_app, kept6_i.
  f_equal. apply IH.
  - inversion H; assumption.
  - symmetry. apply flat_flat_map. exact flat6_i.
  - apply Forall_flat_map. intros j Hj. apply ok6_i. inversion H as [|? ? _ Hl]; subst. rewrite Forall_forall in Hl. apply Hl. exact Hj.
  - pose proof (scan_pieces m6 m6_lt (flat_map pieces6_i l)) as E'. 
    assert (Hok' : Forall (piece_ok m6) (flat_map pieces6_i l)).
    { apply Forall_flat_map. intros j Hj. apply ok6_i. inversion H as [|? ? _ Hl]; subst. rewrite Forall_forall in Hl. apply Hl. exact Hj. }
    specialize (E' Hok' []). rewrite !app_nil_r in E'. exact E'.
Qed.

(** * the theorem *)
Definition only_inners (segs : list seg) : list iseg := flat_map (fun sg => match sg with Only l => l | Inner _ => [] end) segs.
Definition plain_inners (segs : list seg) : list iseg := flat_map (fun sg => match sg with Inner i => [i] | Only _ => [] end) segs.

Lemma groups_concat segs : concat (groups segs) = concat (map itext2 (only_inners segs)).
Proof. induction segs as [|[i|l] segs IH]; [reflexivity| |]; cbn [groups only_inners flat_map app].
  - exact IH.
  - cbn [concat]. rewrite concat_map_app. f_equal. exact IH. Qed.
Lemma groups_nil segs : groups segs = [] <-> existsb is_only segs = false.
Proof. induction segs as [|[i|l] segs IH]; cbn [groups flat_map existsb is_only app orb].
  - tauto.
  - exact IH.
  - split; discriminate. Qed.
Lemma text2_plain segs : existsb is_only segs = false -> text_at 2 segs = concat (map itext2 (plain_inners segs)).
Proof. unfold text_at. induction segs as [|[i|l] segs IH]; cbn [existsb is_only orb flat_map plain_inners]; intros H.
  - reflexivity.
  - rewrite concat_map_app. cbn [pieces_s app map concat]. f_equal. apply IH. exact H.
  - discriminate. Qed.
Lemma clean_only segs : Forall seg_clean segs -> Forall iseg_clean (only_inners segs).
Proof. intros H. apply Forall_flat_map. intros sg Hin. rewrite Forall_forall in H. specialize (H sg Hin). destruct sg; [constructor | exact H]. Qed.
Lemma clean_plain segs : Forall seg_clean segs -> Forall iseg_clean (plain_inners segs).
Proof. intros H. apply Forall_flat_map. intros sg Hin. rewrite Forall_forall in H. specialize (H sg Hin). destruct sg; [repeat constructor; exact H | constructor]. Qed.
Lemma includable_only segs : existsb is_only segs = true -> includable segs = concat (map keep_i (only_inners segs)).
Proof. intros H. unfold includable. rewrite H. clear H. induction segs as [|[i|l] segs IH]; [reflexivity| |];
  cbn [map concat only_inners flat_map app].
  - exact IH.
  - rewrite concat_map_app. f_equal. exact IH. Qed.
Lemma includable_plain segs : existsb is_only segs = false -> includable segs = concat (map keep_i (plain_inners segs)).
Proof. intros H. unfold includable. rewrite H. clear H. induction segs as [|[i|l] segs IH]; [reflexivity| |];
  cbn [map concat plain_inners flat_map app].
  - f_equal. exact IH.
  - exact IH. Qed.

Theorem template_to_body_includable segs : Forall seg_clean segs -> template_to_body (render segs) = includable segs.
Proof. intros H. unfold template_to_body.
  change (scan (between (lit s_copen) (lit s_cclose)) 0 (render segs)) with (scan m1 0 (render segs)). rewrite (pass1 segs H).
  change (scan (between (p_open s_noinclude) (p_close s_noinclude)) 0 (text_at 1 segs)) with (scan m2 0 (text_at 1 segs)).
  rewrite (pass2 segs H), (pass3 segs H), (pass4 segs H), (pass5 segs H).
  change (scan (match_pat p_includeonly) 0) with (scan m6 0).
  destruct (groups segs) as [|g gs] eqn:Eg.
  - apply groups_nil in Eg. rewrite (text2_plain segs Eg), (includable_plain segs Eg).
    apply pass6. apply clean_plain. exact H.
  - assert (Ex : existsb is_only segs = true).
    { destruct (existsb is_only segs) eqn:E; [reflexivity|]. apply groups_nil in E. congruence. }
    rewrite <- Eg, groups_concat, (includable_only segs Ex). apply pass6. apply clean_only. exact H.
Qed.

(* non-vacuity: "a<!--c--><noinclude>n</noinclude><includeonly>i</includeonly>" and an onlyinclude arrangement *)
Example body_example :
  let segs1 := [Inner (IPlain [97]); Inner (IComment [99]); Inner (INoInc [110]); Inner (IIncOnly [105])] in
  let segs2 := [Inner (IPlain [97]); Only [IPlain [98]; IComment [99]; IIncOnly [105]]; Inner (IIncOnly [120]); Only [INoInc [110]]] in
  Forall seg_clean segs1 /\ template_to_body (render segs1) = [97; 105] /\
  Forall seg_clean segs2 /\ template_to_body (render segs2) = [98; 105].
Proof. cbn zeta. repeat split; try (vm_compute; reflexivity);
  repeat constructor; cbn; try discriminate; repeat constructor; try discriminate. Qed.
