From Coq Require Import List NArith Bool Arith Lia.
From WTP Require Import Base.Str Proofs.StrProofs Model.Attrs.
Import ListNotations.
Open Scope N_scope.

Lemma take_while_app p a b :
  forallb p a = true -> match b with [] => True | c :: _ => p c = false end ->
  take_while p (a ++ b) = (a, b).
Proof. induction a as [|x a IH]; cbn [app forallb]; intros Ha Hb.
  - destruct b as [|c b]; [reflexivity|]. cbn. rewrite Hb. reflexivity.
  - apply andb_true_iff in Ha. destruct Ha as [Hx Ha]. cbn [take_while]. rewrite Hx, (IH Ha Hb). reflexivity. Qed.

Lemma take_while_none p s : match s with [] => True | c :: _ => p c = false end -> take_while p s = ([], s).
Proof. intros H. apply (take_while_app p [] s eq_refl H). Qed.

Lemma take_space_then r0 R : is_space r0 = false -> take_while is_space (32 :: r0 :: R) = ([32], r0 :: R).
Proof. intros H. cbn [take_while]. change (is_space 32) with true. cbn iota. rewrite H. reflexivity. Qed.

(** what the property calls URL-safe names and values *)
Definition key_ok (k : str) : Prop :=
  forallb name_char k = true /\ match k with c :: _ => word_char c = true | [] => False end.
Definition value_ok (v : str) : Prop :=
  forallb (fun x => negb (x =? 34)) v = true.
Definition pair_ok (kv : str * str) : Prop := key_ok (fst kv) /\ value_ok (snd kv).

Definition head_is_key (s : str) : Prop :=
  match s with [] => True | c :: _ => name_char c = true /\ word_char c = true end.

Lemma name_char_facts c : name_char c = true -> is_space c = false /\ (c =? 61) = false.
Proof. unfold name_char. intros H. apply negb_true_iff in H. apply orb_false_iff in H. destruct H as [H Hs].
  apply orb_false_iff in H. destruct H as [H _]. split; [exact Hs|].
  unfold in_l in H. cbn in H. repeat (apply orb_false_iff in H; destruct H as [? H]).
  destruct (N.eqb_spec c 61); [subst; discriminate | reflexivity]. Qed.

(* one rendered attribute followed by the rest of the rendering *)
Lemma match_rendered prev k v R :
  key_ok k -> value_ok v ->
  match prev with Some p => word_char p = false | None => True end ->
  (R = [] \/ exists R', R = 32 :: R' /\ R' <> [] /\ head_is_key R') ->
  exists lastc, match_here prev (render_attr (k, v) ++ R) = Some (k, v, drop_spaces R, lastc) /\
                (drop_spaces R <> [] -> word_char lastc = false).
Proof. intros [Hk Hk1] Hv Hprev HR.
  destruct k as [|c k']; [contradiction|]. cbn [forallb] in Hk. apply andb_true_iff in Hk. destruct Hk as [Hc Hk'].
  assert (Hpw : (match prev with Some p => word_char p | None => false end) = false).
  { destruct prev; [exact Hprev | reflexivity]. }
  assert (HRhead : match R with [] => True | x :: _ => name_char x = false end).
  { destruct HR as [->|[R' [-> _]]]; [exact I | reflexivity]. }
  assert (HdropR : forall l, take_while is_space R = (l, drop_spaces R) -> True) by (intros; exact I).
  unfold render_attr. cbn [fst snd]. destruct v as [|v0 v'].
  - (* no value *)
    unfold match_here. cbn [app]. rewrite Hc, Hpw, Hk1. cbn [andb xorb].
    change (c :: k' ++ R) with ((c :: k') ++ R).
    rewrite (take_while_app name_char (c :: k') R); [| cbn; rewrite Hc; exact Hk' | exact HRhead].
    destruct HR as [->|[R' [-> [Hne Hhead]]]].
    + cbn. eexists. split; [reflexivity|]. intros H; congruence.
    + destruct R' as [|r0 R'']; [congruence|]. destruct Hhead as [Hn Hw].
      destruct (name_char_facts r0 Hn) as [Hsp He].
      rewrite (take_space_then r0 R'' Hsp). rewrite He. unfold drop_spaces. rewrite (take_space_then r0 R'' Hsp).
      cbn [snd last]. eexists. split; [reflexivity|]. intros _. reflexivity.
  - (* quoted value *)
    set (v := v0 :: v') in *.
    unfold match_here.
    replace ((c :: k') ++ [61; 34] ++ v ++ [34]) with ((c :: k') ++ (61 :: 34 :: v ++ [34])) by reflexivity.
    rewrite <- app_assoc. cbn [app]. rewrite Hc, Hpw, Hk1. cbn [andb xorb].
    change (c :: k' ++ 61 :: 34 :: (v ++ [34]) ++ R) with ((c :: k') ++ (61 :: 34 :: (v ++ [34]) ++ R)).
    rewrite (take_while_app name_char (c :: k')); [| cbn; rewrite Hc; exact Hk' | reflexivity].
    rewrite (take_while_none is_space (61 :: _)) by reflexivity. rewrite N.eqb_refl.
    rewrite (take_while_none is_space (34 :: _)) by reflexivity.
    unfold quoted at 1. rewrite N.eqb_refl. rewrite <- app_assoc. cbn [app].
    rewrite (take_while_app (fun x => negb (x =? 34)) v (34 :: R)); [| exact Hv | reflexivity].
    destruct HR as [->|[R' [-> [Hne Hhead]]]].
    + cbn. eexists. split; [reflexivity|]. intros H; congruence.
    + destruct R' as [|r0 R'']; [congruence|]. destruct Hhead as [Hn Hw].
      destruct (name_char_facts r0 Hn) as [Hsp He].
      unfold drop_spaces. rewrite (take_space_then r0 R'' Hsp). cbn [snd last].
      eexists. split; [reflexivity|]. intros _. reflexivity.
Qed.

Lemma render_attr_head k v : key_ok k -> head_is_key (render_attr (k, v)) /\ render_attr (k, v) <> [].
Proof. intros [Hk Hk1]. destruct k as [|c k']; [contradiction|]. cbn [forallb] in Hk. apply andb_true_iff in Hk.
  unfold render_attr. cbn [fst snd]. destruct v; cbn; (split; [split; tauto | discriminate]). Qed.

Lemma join_sp_cons x l : l <> [] -> join_sp (x :: l) = x ++ 32 :: join_sp l.
Proof. destruct l; [congruence | reflexivity]. Qed.

Lemma to_attrs_head m : Forall pair_ok m -> m <> [] -> head_is_key (to_attrs m) /\ to_attrs m <> [].
Proof. intros Hm Hne. destruct m as [|[k v] m]; [congruence|]. inversion Hm as [|? ? [Hk _] _]; subst. cbn [fst] in Hk.
  destruct (render_attr_head k v Hk) as [Hh Hn]. unfold to_attrs. cbn [map].
  destruct (map render_attr m) eqn:E.
  - cbn. split; assumption.
  - rewrite join_sp_cons by discriminate. destruct (render_attr (k, v)); [congruence|]. cbn. split; [exact Hh | discriminate]. Qed.

Theorem scan_rendered m : Forall pair_ok m -> forall fuel prev,
  (length m <= fuel)%nat ->
  match prev with Some p => word_char p = false | None => True end ->
  scan_attrs fuel prev (to_attrs m) = m.
Proof. induction 1 as [|[k v] m [Hk Hv] Hm IH]; intros fuel prev Hf Hprev.
  - destruct fuel; reflexivity.
  - destruct fuel as [|f]; [cbn in Hf; lia|]. cbn [fst snd] in *.
    unfold to_attrs. cbn [map]. fold (to_attrs m).
    assert (HR : exists R, join_sp (render_attr (k, v) :: map render_attr m) = render_attr (k, v) ++ R /\
                           (R = [] /\ m = [] \/ exists R', R = 32 :: R' /\ R' = to_attrs m /\ m <> [])).
    { destruct m as [|p m'].
      - exists []. cbn. rewrite app_nil_r. split; [reflexivity | left; split; reflexivity].
      - exists (32 :: to_attrs (p :: m')). split; [apply join_sp_cons; discriminate|].
        right. exists (to_attrs (p :: m')). repeat split; discriminate. }
    destruct HR as [R [-> HR]].
    destruct (render_attr_head k v Hk) as [_ Hne].
    destruct (match_rendered prev k v R Hk Hv Hprev) as [lastc [Hmh Hlast]].
    { destruct HR as [[-> _]|[R' [-> [-> Hmne]]]]; [left; reflexivity|]. right. exists (to_attrs m).
      destruct (to_attrs_head m Hm Hmne) as [Hh Hn]. repeat split; assumption. }
    cbn [scan_attrs]. destruct (render_attr (k, v) ++ R) as [|c0 s0] eqn:Es.
    { apply app_eq_nil in Es. destruct Es; congruence. }
    rewrite Hmh. f_equal.
    destruct HR as [[-> ->]|[R' [-> [-> Hmne]]]].
    + cbn. destruct f; reflexivity.
    + destruct (to_attrs_head m Hm Hmne) as [Hh Hn].
      assert (Hd : drop_spaces (32 :: to_attrs m) = to_attrs m).
      { unfold drop_spaces. destruct (to_attrs m) as [|r0 r]; [congruence|]. destruct Hh as [Hn0 _].
        destruct (name_char_facts r0 Hn0) as [Hsp _]. rewrite (take_space_then r0 r Hsp). reflexivity. }
      rewrite Hd in *. apply IH; [cbn in Hf; lia|]. apply Hlast. exact Hn.
Qed.

(** the dict of distinct keys is the list itself *)
Definition keys (m : list (str * str)) : list str := map fst m.

Lemma dict_set_new d k v : ~ In k (keys d) -> dict_set d k v = d ++ [(k, v)].
Proof. induction d as [|[k' v'] d IH]; cbn; intros H; [reflexivity|].
  destruct (str_eqb k k') eqn:E; [apply str_eqb_eq in E; subst; exfalso; apply H; left; reflexivity|].
  f_equal. apply IH. intros Hi; apply H; right; exact Hi. Qed.

Lemma fold_dict m : forall d, NoDup (keys d ++ keys m) ->
  fold_left (fun d kv => dict_set d (fst kv) (snd kv)) m d = d ++ m.
Proof. induction m as [|[k v] m IH]; intros d Hnd; cbn [fold_left]; [symmetry; apply app_nil_r|].
  cbn [fst snd]. rewrite dict_set_new.
  - rewrite IH; [rewrite <- app_assoc; reflexivity|].
    unfold keys in *. rewrite map_app. cbn [map fst]. rewrite <- app_assoc. exact Hnd.
  - unfold keys in *. cbn [map fst] in Hnd. apply NoDup_remove_2 in Hnd. intros Hi; apply Hnd. apply in_or_app. left; exact Hi. Qed.

Lemma length_le_render m : Forall pair_ok m -> (length m <= length (to_attrs m))%nat.
Proof. induction 1 as [|[k v] m [Hk _] Hm IH]; [cbn; lia|]. cbn [fst] in Hk.
  destruct (render_attr_head k v Hk) as [_ Hne]. unfold to_attrs in *. cbn [map length].
  destruct (map render_attr m) eqn:E.
  - cbn. destruct m; [|discriminate]. destruct (render_attr (k, v)); [congruence | cbn; lia].
  - rewrite join_sp_cons by discriminate. rewrite app_length. cbn [length].
    destruct (render_attr (k, v)); [congruence|]. cbn [length]. lia. Qed.

Theorem attrs_roundtrip m : Forall pair_ok m -> NoDup (keys m) -> parse_attrs (to_attrs m) = m.
Proof. intros Hm Hnd. unfold parse_attrs. rewrite scan_rendered; try assumption.
  - apply (fold_dict m []). exact Hnd.
  - pose proof (length_le_render m Hm). lia.
  - exact I. Qed.

(* non-vacuity *)
Example attrs_example :
  parse_attrs (to_attrs [([99;108;97;115;115], [119;105;107;105]); ([105;100], []); ([100;97;116;97;45;120], [97;46;98])])
  = [([99;108;97;115;115], [119;105;107;105]); ([105;100], []); ([100;97;116;97;45;120], [97;46;98])].
Proof. vm_compute. reflexivity. Qed.
