From Coq Require Import List ZArith Bool Arith Lia.
From WTP Require Import Base.Str Proofs.StrProofs Model.Store.
Import ListNotations.
Open Scope N_scope.

(** * Keys are unique and [upsert] behaves like a map update *)
Fixpoint uniq (s : store) : Prop :=
  match s with
  | [] => True
  | x :: s' => (forall y, In y s' -> key_eqb (r_title x) (r_ns x) y = false) /\ uniq s'
  end.

Lemma key_eqb_true t ns r : key_eqb t ns r = true <-> t = r_title r /\ ns = r_ns r.
Proof. unfold key_eqb. rewrite andb_true_iff, str_eqb_eq, Z.eqb_eq. tauto. Qed.

Lemma key_eqb_self r : key_eqb (r_title r) (r_ns r) r = true.
Proof. apply key_eqb_true. split; reflexivity. Qed.

Lemma key_eqb_trans_false x r y :
  key_eqb (r_title r) (r_ns r) x = true -> key_eqb (r_title x) (r_ns x) y = false ->
  key_eqb (r_title r) (r_ns r) y = false.
Proof. intros H1 H2. apply key_eqb_true in H1. destruct H1 as [-> ->]. exact H2. Qed.


Lemma upsert_In s r y : uniq s -> In y (upsert s r) ->
  y = r \/ (In y s /\ key_eqb (r_title r) (r_ns r) y = false).
Proof. induction s as [|x s IH]; cbn [upsert uniq]; intros Hu Hy.
  - destruct Hy as [Hy|[]]. left; symmetry; exact Hy.
  - destruct Hu as [Hx Hu]. destruct (key_eqb (r_title r) (r_ns r) x) eqn:Hk.
    + destruct Hy as [Hy|Hy]; [left; symmetry; exact Hy|]. right. split; [right; exact Hy|].
      eapply key_eqb_trans_false; [exact Hk | apply Hx; exact Hy].
    + destruct Hy as [Hy|Hy]; [subst y; right; split; [left; reflexivity | exact Hk]|].
      destruct (IH Hu Hy) as [H|[H1 H2]]; [left; exact H | right; split; [right; exact H1 | exact H2]].
Qed.

Lemma key_eqb_sym_false x y : key_eqb (r_title x) (r_ns x) y = false -> key_eqb (r_title y) (r_ns y) x = false.
Proof. intros H. destruct (key_eqb (r_title y) (r_ns y) x) eqn:E; [|reflexivity].
  apply key_eqb_true in E. destruct E as [E1 E2]. rewrite <- H. symmetry. apply key_eqb_true.
  split; congruence. Qed.

Lemma upsert_uniq s r : uniq s -> uniq (upsert s r).
Proof. induction s as [|x s IH]; cbn [upsert uniq]; intros Hu.
  - split; [intros y []| exact I].
  - destruct Hu as [Hx Hu]. destruct (key_eqb (r_title r) (r_ns r) x) eqn:Hk; cbn [uniq].
    + split; [|exact Hu]. intros y Hy. eapply key_eqb_trans_false; [exact Hk | apply Hx; exact Hy].
    + split; [|apply IH; exact Hu]. intros y Hy. destruct (upsert_In _ _ _ Hu Hy) as [->|[H1 _]].
      * apply key_eqb_sym_false. exact Hk.
      * apply Hx. exact H1.
Qed.

Definition redirect_ok (nr : bool) (r : row) : bool :=
  if nr then match r_redirect r with None => true | Some _ => false end else true.

Lemma row_matches_key t ns nr r :
  row_matches t (Some ns) nr r = key_eqb t ns r && redirect_ok nr r.
Proof. reflexivity. Qed.

Lemma find_none_all {A} (p : A -> bool) l : (forall y, In y l -> p y = false) -> find p l = None.
Proof. induction l as [|x l IH]; cbn; intros H; [reflexivity|].
  rewrite H by (left; reflexivity). apply IH. intros y Hy. apply H. right; exact Hy. Qed.

Definition filt (nr : bool) (o : option row) : option row :=
  match o with Some r => if redirect_ok nr r then Some r else None | None => None end.

(* with unique keys, a filtered find is the filter of the plain find *)
Lemma find_filt s t ns nr : uniq s ->
  find (row_matches t (Some ns) nr) s = filt nr (find (row_matches t (Some ns) false) s).
Proof. induction s as [|x s IH]; cbn [find uniq]; intros Hu; [reflexivity|].
  destruct Hu as [Hx Hu]. rewrite !row_matches_key. cbn [redirect_ok]. rewrite andb_true_r.
  destruct (key_eqb t ns x) eqn:Hk; cbn [andb].
  - cbn [filt]. destruct (redirect_ok nr x); [reflexivity|].
    apply find_none_all. intros y Hy. rewrite row_matches_key.
    apply key_eqb_true in Hk. destruct Hk as [-> ->]. rewrite (Hx y Hy). reflexivity.
  - apply IH. exact Hu.
Qed.

Lemma upsert_find s r t ns : 
  find (row_matches t (Some ns) false) (upsert s r) =
  if key_eqb t ns r then Some r else find (row_matches t (Some ns) false) s.
Proof. induction s as [|x s IH]; cbn [upsert find].
  - rewrite row_matches_key. cbn [redirect_ok]. rewrite andb_true_r. destruct (key_eqb t ns r); reflexivity.
  - destruct (key_eqb (r_title r) (r_ns r) x) eqn:Hk; cbn [find]; rewrite !row_matches_key; cbn [redirect_ok];
      rewrite !andb_true_r.
    + apply key_eqb_true in Hk. destruct Hk as [Ht Hn].
      destruct (key_eqb t ns r) eqn:Hr; [reflexivity|].
      assert (key_eqb t ns x = false) as ->; [|reflexivity].
      rewrite <- Hr. unfold key_eqb. rewrite Ht, Hn. reflexivity.
    + destruct (key_eqb t ns x) eqn:Hx.
      * destruct (key_eqb t ns r) eqn:Hr; [|reflexivity]. exfalso.
        apply key_eqb_true in Hx. apply key_eqb_true in Hr. destruct Hx as [-> ->]. destruct Hr as [E1 E2].
        assert (key_eqb (r_title r) (r_ns r) x = true) by (apply key_eqb_true; split; congruence). congruence.
      * exact IH.
Qed.

(** * Histories of add_page calls *)
Record addop := mkadd { a_title : str; a_ns : Z; a_body : option str; a_red : option str; a_pre : bool; a_model : str }.

Section Hist.
  Variable tbl : nstable.
  Variable template_ns : Z.
  Variable to_body : str -> str.

  Definition apply_add (s : store) (a : addop) : store :=
    add_page tbl template_ns to_body s (a_title a) (a_ns a) (a_body a) (a_red a) (a_pre a) (a_model a).

  (* the row an add stores *)
  Definition stored (a : addop) : row :=
    mkrow (add_norm tbl (a_ns a) (a_title a)) (a_ns a) (a_red a) (a_pre a)
          (if Z.eqb (a_ns a) template_ns then
             match a_red a, a_body a with None, Some b => Some (to_body b) | _, _ => a_body a end
           else a_body a)
          (a_model a).

  Definition run_adds (hist : list addop) : store := fold_left apply_add hist [].

  (* the most recent add (history given newest first) that stored key (t, ns) *)
  Fixpoint latest (hist_rev : list addop) (t : str) (ns : Z) : option row :=
    match hist_rev with
    | [] => None
    | a :: r => if key_eqb t ns (stored a) then Some (stored a) else latest r t ns
    end.

  Lemma apply_add_upsert s a : apply_add s a = upsert s (stored a).
  Proof. reflexivity. Qed.

  Lemma run_adds_uniq hist : uniq (run_adds hist).
  Proof. unfold run_adds. induction hist as [|a h IH] using rev_ind; [exact I|].
    rewrite fold_left_app. cbn [fold_left]. rewrite apply_add_upsert. apply upsert_uniq. exact IH. Qed.

  Lemma find_latest hist t ns :
    find (row_matches t (Some ns) false) (run_adds hist) = latest (rev hist) t ns.
  Proof. unfold run_adds. induction hist as [|a h IH] using rev_ind; [reflexivity|].
    rewrite fold_left_app, rev_app_distr. cbn [fold_left rev app latest].
    rewrite apply_add_upsert, upsert_find, IH. reflexivity. Qed.

  (** get_page over a history = the history-level specification *)
  Definition spec_get (hist : list addop) (title : str) (ns : Z) (nr : bool) : option row :=
    match lookup_titles tbl title (Some ns) with
    | None => None
    | Some (t2, up) =>
      match filt nr (latest (rev hist) t2 ns) with
      | Some r => Some r
      | None => if str_eqb up t2 then None else filt nr (latest (rev hist) up ns)
      end
    end.

  Lemma get_page_latest hist title ns nr :
    get_page tbl (run_adds hist) title (Some ns) nr = spec_get hist title ns nr.
  Proof. unfold get_page, spec_get. destruct (lookup_titles tbl title (Some ns)) as [[t2 up]|]; [|reflexivity].
    rewrite !(find_filt _ _ _ nr (run_adds_uniq hist)), !find_latest. reflexivity. Qed.

  (* the page just added is returned under the spelling that normalises to its stored title *)
  Lemma get_after_add hist a title :
    (exists up, lookup_titles tbl title (Some (a_ns a)) = Some (r_title (stored a), up)) ->
    get_page tbl (run_adds (hist ++ [a])) title (Some (a_ns a)) false = Some (stored a).
  Proof. intros [up Hl]. rewrite get_page_latest. unfold spec_get. rewrite Hl.
    rewrite rev_app_distr. cbn [rev app latest]. rewrite key_eqb_self. reflexivity. Qed.

  (* adding a page under another key does not change what any lookup returns *)
  Lemma get_frame hist a title ns nr t2 up :
    lookup_titles tbl title (Some ns) = Some (t2, up) ->
    key_eqb t2 ns (stored a) = false -> key_eqb up ns (stored a) = false ->
    get_page tbl (run_adds (hist ++ [a])) title (Some ns) nr = get_page tbl (run_adds hist) title (Some ns) nr.
  Proof. intros Hl H1 H2. rewrite !get_page_latest. unfold spec_get. rewrite Hl.
    rewrite rev_app_distr. cbn [rev app latest]. rewrite H1, H2. reflexivity. Qed.
End Hist.

(** * Spelling variants normalise to the same pair of candidate titles *)
Lemma replace_us_roundtrip t : ~ In 95 t -> replace_c 95 32 (replace_c 32 95 t) = t.
Proof. unfold replace_c. induction t as [|c t IH]; cbn [map]; intros H; [reflexivity|].
  assert (Hc : c <> 95) by (intros ->; apply H; left; reflexivity).
  rewrite IH by (intros Hi; apply H; right; exact Hi). f_equal.
  destruct (N.eqb_spec c 32) as [->|H32].
  - reflexivity.
  - destruct (N.eqb_spec c 95); congruence. Qed.

Lemma after_first_app c a b : ~ In c a -> after_first c (a ++ c :: b) = b.
Proof. induction a as [|x a IH]; cbn; intros H.
  - now rewrite N.eqb_refl.
  - destruct (N.eqb_spec x c) as [->|Hx]; [exfalso; apply H; left; reflexivity|].
    apply IH. intros Hi; apply H; right; exact Hi. Qed.

Lemma match_nonnil {A B} (l : list A) (x : B) (y : B) :
  l <> [] -> match l with [] => x | _ :: _ => y end = y.
Proof. destruct l; congruence. Qed.

Definition Pfx (info : nsinfo) : str := ns_name info ++ [colon].

Section Spelling.
  Variable tbl : nstable.
  Variable ns : Z.
  Variable info : nsinfo.
  Hypothesis ns_nonzero : Z.eqb ns 0 = false.
  Hypothesis ns_known : ns_lookup tbl ns = Some info.
  Notation P := (Pfx info).
  Variable b : str.
  Hypothesis b_no_us : ~ In 95 b.
  Hypothesis P_no_us : ~ In 95 (ns_name info).
  Hypothesis Pb_not_main : startswith main_prefix (P ++ b) = false.

  Definition canon_pair : option (str * str) := Some (P ++ b, P ++ upper_first b).

  Lemma P_not_nil : forall x, P ++ x <> [].
  Proof. intros x. unfold Pfx. destruct (ns_name info); discriminate. Qed.

  Lemma no_us_Pb : ~ In 95 (P ++ b).
  Proof. unfold Pfx. rewrite !in_app_iff. cbn. intros [[H|[H|[]]]|H]; [tauto | discriminate | tauto]. Qed.

  (* prefix given *)
  Lemma lookup_prefixed : lookup_titles tbl (P ++ b) (Some ns) = canon_pair.
  Proof. unfold lookup_titles. rewrite (replace_c_none _ _ _ no_us_Pb).
    unfold strip_main. rewrite Pb_not_main.
    rewrite match_nonnil by apply P_not_nil.
    rewrite ns_nonzero, ns_known. change (ns_name info ++ [colon]) with P. rewrite startswith_app, skipn_app_exact. reflexivity. Qed.

  (* prefix omitted *)
  Lemma lookup_plain :
    b <> [] -> startswith main_prefix b = false -> startswith P b = false ->
    existsb (fun p => startswith p (lower b)) (ns_prefixes info) = false ->
    lookup_titles tbl b (Some ns) = canon_pair.
  Proof. intros Hne Hm Hp Ha. unfold lookup_titles. rewrite (replace_c_none _ _ _ b_no_us).
    unfold strip_main. rewrite Hm. rewrite match_nonnil by exact Hne.
    rewrite ns_nonzero, ns_known. change (ns_name info ++ [colon]) with P. rewrite Hp, Ha, skipn_app_exact. reflexivity. Qed.

  (* alias / other-case prefix *)
  Lemma lookup_alias a :
    ~ In colon a -> ~ In 95 a -> In (lower (a ++ [colon])) (ns_prefixes info) ->
    startswith main_prefix (a ++ colon :: b) = false -> startswith P (a ++ colon :: b) = false ->
    lookup_titles tbl (a ++ colon :: b) (Some ns) = canon_pair.
  Proof. intros Hc Hu Hin Hm Hp. unfold lookup_titles.
    assert (Hnu : ~ In 95 (a ++ colon :: b)).
    { rewrite in_app_iff. cbn. intros [H|[H|H]]; [tauto | discriminate | tauto]. }
    rewrite (replace_c_none _ _ _ Hnu). unfold strip_main. rewrite Hm.
    rewrite match_nonnil by (destruct a; discriminate).
    rewrite ns_nonzero, ns_known. change (ns_name info ++ [colon]) with P. rewrite Hp.
    assert (existsb (fun p => startswith p (lower (a ++ colon :: b))) (ns_prefixes info) = true) as ->.
    { apply existsb_exists. exists (lower (a ++ [colon])). split; [exact Hin|].
      replace (a ++ colon :: b) with ((a ++ [colon]) ++ b) by (rewrite <- app_assoc; reflexivity).
      rewrite (lower_app (a ++ [colon]) b). apply startswith_app. }
    rewrite after_first_app by exact Hc. rewrite skipn_app_exact. reflexivity. Qed.

  (* underscores for spaces, in any spelling *)
  Lemma lookup_underscore t nso : ~ In 95 t ->
    lookup_titles tbl (replace_c 32 95 t) nso = lookup_titles tbl t nso.
  Proof. intros H. unfold lookup_titles. rewrite replace_us_roundtrip by exact H.
    rewrite (replace_c_none 95 32 t H). reflexivity. Qed.
End Spelling.

(* get_page depends on the title only through lookup_titles *)
Lemma get_page_titles tbl s t t' nso nr :
  lookup_titles tbl t nso = lookup_titles tbl t' nso -> get_page tbl s t nso nr = get_page tbl s t' nso nr.
Proof. intros H. unfold get_page. rewrite H. reflexivity. Qed.

(** * Non-vacuity: a concrete namespace table and history *)
Definition ex_tbl : nstable :=
  [(10%Z, mkns [84;101;109;112;108;97;116;101] [[116;101;109;112;108;97;116;101;58]; [116;58]])].
Definition ex_b : str := [70;111;111].   (* "Foo" *)
Example ex_spellings :
  let P := [84;101;109;112;108;97;116;101;58] in
  lookup_titles ex_tbl (P ++ ex_b) (Some 10%Z) = Some (P ++ ex_b, P ++ ex_b) /\
  lookup_titles ex_tbl ex_b (Some 10%Z) = Some (P ++ ex_b, P ++ ex_b) /\
  lookup_titles ex_tbl ([84;58] ++ ex_b) (Some 10%Z) = Some (P ++ ex_b, P ++ ex_b) /\
  lookup_titles ex_tbl [102;111;111] (Some 10%Z) = Some (P ++ [102;111;111], P ++ ex_b).
Proof. vm_compute. repeat split. Qed.
