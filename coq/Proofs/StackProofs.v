(** Proofs about Model/Stack.v: well-formedness clauses that are invariants
    of the parser's primitive stack operations, for EVERY sequence of
    operations (C01). *)
From Coq Require Import List Bool NArith Lia.
Import ListNotations.
From WTP Require Import Model.Tree Model.Stack.

Section Proofs.
  Variable fin : text -> text.
  Variable magic : N -> bool.
  (* finalisation leaves no placeholder character (false of the real _finalize_expand exactly on the inputs of
     the known findings c01:*:placeholder-in-input) *)
  Hypothesis fin_clean : forall s, existsb magic (fin s) = false.

  Notation merge := (merge fin).
  Notation merged := (merged fin).
  Notation clean := (clean magic).
  Notation step := (step fin magic).
  Notation run := (run fin magic).
  Notation result := (result fin).
  Notation finale := (finale fin magic).
  Notation close_frame := (close_frame fin).

  (** the 'strings' clause on one list: no empty string, no placeholder, no two strings in a row *)
  Fixpoint sok (l : list item) (prev : bool) : bool :=
    match l with
    | [] => true
    | IStr s :: r => clean s && negb prev && sok r true
    | INode _ :: r => sok r false
    end.
  Definition osok (o : option (list item)) : Prop := match o with Some l => sok l false = true | None => True end.

  (** a closed node and everything below it *)
  Inductive Good : node -> Prop :=
  | Good_intro : forall k largs ch head defn,
      k <> ROOT ->
      sok ch false = true -> Forall (fun l => sok l false = true) largs -> osok head -> osok defn ->
      (is_kind args_kinds k = true -> largs <> [] /\ (k = LINK \/ ch = [])) ->
      (is_kind largs_kinds k = false -> largs = []) ->
      (defn <> None -> k = LIST_ITEM) ->
      GoodL ch -> GoodLL largs -> GoodO head -> GoodO defn ->
      Good (Nd k largs ch head defn)
  with GoodL : list item -> Prop :=
  | GL_nil : GoodL []
  | GL_str : forall s r, GoodL r -> GoodL (IStr s :: r)
  | GL_node : forall n r, Good n -> GoodL r -> GoodL (INode n :: r)
  with GoodLL : list (list item) -> Prop :=
  | GLL_nil : GoodLL []
  | GLL_cons : forall l r, GoodL l -> GoodLL r -> GoodLL (l :: r)
  with GoodO : option (list item) -> Prop :=
  | GO_none : GoodO None
  | GO_some : forall l, GoodL l -> GoodO (Some l).

  (** an open node *)
  Definition FrameOk (f : frame) : Prop :=
    Forall (fun l => sok l false = true) (f_largs f) /\ osok (f_head f) /\
    GoodL (f_children f) /\ GoodLL (f_largs f) /\ GoodO (f_head f) /\
    (is_kind largs_kinds (f_kind f) = false -> f_kind f <> ROOT -> f_largs f = []).

  Fixpoint kinds_ok (st : stack) : Prop :=
    match st with
    | [] => False
    | f :: r => match r with [] => f_kind f = ROOT | _ :: _ => f_kind f <> ROOT /\ kinds_ok r end
    end.

  Definition Inv (st : stack) : Prop := Forall FrameOk st /\ kinds_ok st.

  (** what parse() returns *)
  Definition GoodRoot (t : node) : Prop :=
    match t with
    | Nd k largs ch head defn => k = ROOT /\ defn = None /\ sok ch false = true /\ GoodL ch
    end.

  (* ---------- lists ---------- *)
  Lemma GoodL_app : forall a b, GoodL a -> GoodL b -> GoodL (a ++ b).
  Proof.
    induction a as [|x a IH]; intros b Ha Hb; [exact Hb|].
    inversion Ha; subst; simpl; constructor; auto.
  Qed.

  Lemma GoodL_app_inv : forall a b, GoodL (a ++ b) -> GoodL a /\ GoodL b.
  Proof.
    induction a as [|x a IH]; intros b H; simpl in H; [split; [constructor|exact H]|].
    inversion H; subst; destruct (IH _ ltac:(eassumption)) as [Ha Hb]; split; try constructor; auto.
  Qed.

  Lemma GoodLL_app : forall a b, GoodLL a -> GoodLL b -> GoodLL (a ++ b).
  Proof.
    induction a as [|x a IH]; intros b Ha Hb; [exact Hb|].
    inversion Ha; subst; simpl; constructor; auto.
  Qed.

  Lemma GoodL_rev : forall l, GoodL l -> GoodL (rev l).
  Proof.
    induction l as [|x l IH]; intros H; [constructor|].
    simpl. inversion H; subst; apply GoodL_app; auto; repeat constructor; auto.
  Qed.

  Lemma flush_GoodL : forall acc, GoodL (flush fin acc).
  Proof. intros [s|]; simpl; [destruct (fin s); repeat constructor | constructor]. Qed.

  Lemma merge_GoodL : forall l acc, GoodL l -> GoodL (merge l acc).
  Proof.
    induction l as [|x l IH]; intros acc H; simpl; [apply flush_GoodL|].
    inversion H; subst; [apply IH; assumption|].
    apply GoodL_app; [apply flush_GoodL|]. constructor; auto.
  Qed.

  Lemma flush_clean : forall s c r, fin s = c :: r -> clean (fin s) = true.
  Proof.
    intros s c r H. unfold Stack.clean. rewrite fin_clean. rewrite H. reflexivity.
  Qed.

  Lemma merge_sok : forall l acc, sok (merge l acc) false = true.
  Proof.
    induction l as [|x l IH]; intros acc; simpl.
    - destruct acc as [s|]; simpl; [|reflexivity].
      destruct (fin s) as [|c r] eqn:E; [reflexivity|].
      simpl. rewrite <- E. rewrite (flush_clean s c r E). reflexivity.
    - destruct x as [s|n]; [apply IH|].
      destruct acc as [s|]; simpl; [|apply IH].
      destruct (fin s) as [|c r] eqn:E; simpl; [apply IH|].
      rewrite <- E. rewrite (flush_clean s c r E). simpl. apply IH.
  Qed.

  Lemma merged_sok : forall l, sok (merged l) false = true.
  Proof. intros; apply merge_sok. Qed.
  Lemma merged_GoodL : forall l, GoodL l -> GoodL (merged l).
  Proof. intros; apply merge_GoodL; assumption. Qed.

  Lemma args_in_largs : forall k, is_kind args_kinds k = true -> is_kind largs_kinds k = true.
  Proof. destruct k; simpl; intros H; try reflexivity; discriminate H. Qed.

  Lemma kind_eqb_eq : forall a b, kind_eqb a b = true <-> a = b.
  Proof. intros a b; split; [destruct a, b; simpl; intros H; try reflexivity; discriminate H | intros ->; destruct b; reflexivity]. Qed.

  Lemma kind_eqb_neq : forall a b, kind_eqb a b = false <-> a <> b.
  Proof.
    intros a b; split.
    - intros H E; apply kind_eqb_eq in E; congruence.
    - intros H; destruct (kind_eqb a b) eqn:E; [apply kind_eqb_eq in E; contradiction | reflexivity].
  Qed.

  (* ---------- closing a node ---------- *)
  Lemma close_frame_Good : forall f semi tofn,
    FrameOk f -> f_kind f <> ROOT -> (tofn = true -> f_kind f = TEMPLATE) -> Good (close_frame f semi tofn).
  Proof.
    intros f semi tofn (Hls & Hhs & Hch & Hll & Hho & Hplain) Hroot Htofn.
    unfold Stack.close_frame.
    set (ch := merged (f_children f)).
    assert (Hch_sok : sok ch false = true) by apply merged_sok.
    assert (Hch_good : GoodL ch) by (apply merged_GoodL; assumption).
    set (k := f_kind f) in *.
    set (largs := if is_kind args_kinds k then f_largs f ++ [ch] else f_largs f).
    set (ch1 := if is_kind args_kinds k then [] else ch).
    set (k1 := if tofn then PARSER_FN else k).
    assert (Hk1 : k1 <> ROOT) by (unfold k1; destruct tofn; [discriminate | assumption]).
    assert (Hch1_sok : sok ch1 false = true) by (unfold ch1; destruct (is_kind args_kinds k); [reflexivity | assumption]).
    assert (Hch1_good : GoodL ch1) by (unfold ch1; destruct (is_kind args_kinds k); [constructor | assumption]).
    assert (Hlargs_sok : Forall (fun l => sok l false = true) largs).
    { unfold largs; destruct (is_kind args_kinds k); [|assumption].
      apply Forall_app; split; [assumption | repeat constructor; assumption]. }
    assert (Hlargs_good : GoodLL largs).
    { unfold largs; destruct (is_kind args_kinds k); [|assumption].
      apply GoodLL_app; [assumption | repeat constructor; assumption]. }
    assert (Hargs : is_kind args_kinds k1 = true -> largs <> [] /\ (k1 = LINK \/ ch1 = [])).
    { intros Hk. assert (Ha : is_kind args_kinds k = true).
      { unfold k1 in Hk. destruct tofn; [rewrite (Htofn eq_refl); reflexivity | assumption]. }
      unfold largs, ch1. rewrite Ha. split; [destruct (f_largs f); discriminate | right; reflexivity]. }
    assert (Hpl : is_kind largs_kinds k1 = false -> largs = []).
    { intros Hk. unfold k1 in Hk. destruct tofn; [discriminate Hk|].
      assert (Ha : is_kind args_kinds k = false).
      { destruct (is_kind args_kinds k) eqn:E; [apply args_in_largs in E; congruence | reflexivity]. }
      unfold largs. rewrite Ha. apply Hplain; assumption. }
    assert (Hdefault : Good (Nd k1 largs ch1 (f_head f) None)).
    { constructor; auto; try exact I; try constructor. intros H; contradiction H; reflexivity. }
    destruct (f_head f) as [[|h0 h]|] eqn:Eh; try exact Hdefault.
    destruct (kind_eqb k LIST_ITEM && semi) eqn:Esw; [|exact Hdefault].
    apply andb_true_iff in Esw. destruct Esw as [Ek _]. apply kind_eqb_eq in Ek.
    assert (Hnt : tofn = false).
    { destruct tofn; [|reflexivity]. rewrite (Htofn eq_refl) in Ek. discriminate Ek. }
    assert (Hk1e : k1 = LIST_ITEM) by (unfold k1; rewrite Hnt; exact Ek).
    inversion Hho; subst.
    apply Good_intro; auto.
    all: try (rewrite Hk1e; simpl; intros H; discriminate H).
    all: try (simpl; simpl in Hhs; exact Hhs).
    all: try (constructor; assumption).
    all: try constructor.
  Qed.

  (* ---------- link trail ---------- *)
  Lemma sok_app_node : forall a n p, sok (a ++ [INode n]) p = sok a p.
  Proof.
    induction a as [|x a IH]; intros n p; simpl; [reflexivity|].
    destruct x; [rewrite IH; reflexivity | apply IH].
  Qed.

  Lemma trail_GoodL : forall l s l', clean s = true -> GoodL l -> trail l s = Some l' -> GoodL l'.
  Proof.
    intros l s l' Hs Hl Ht. unfold trail in Ht.
    assert (Hr : GoodL (rev l)) by (apply GoodL_rev; assumption).
    destruct (rev l) as [|x before] eqn:E; [discriminate|].
    destruct x as [|n]; [discriminate|]. destruct n as [k largs ch h d].
    destruct k; try discriminate. destruct ch; [|discriminate].
    inversion Ht; subst l'; clear Ht.
    inversion Hr as [| |n r Hn Hb]; subst.
    apply GoodL_app; [apply GoodL_rev; assumption|].
    constructor; [|constructor].
    inversion Hn; subst.
    constructor; auto.
    - simpl. rewrite Hs. reflexivity.
    - intros _. split; [|left; reflexivity].
      match goal with H : is_kind args_kinds LINK = true -> _ |- _ => destruct (H eq_refl) as [Hne _]; exact Hne end.
    - repeat constructor.
  Qed.

  (* ---------- one operation ---------- *)
  Lemma kinds_ok_tail : forall f p r, kinds_ok (f :: p :: r) -> f_kind f <> ROOT /\ kinds_ok (p :: r).
  Proof. intros f p r H. exact H. Qed.

  Lemma kinds_ok_same_kind : forall f g r, f_kind g = f_kind f -> kinds_ok (f :: r) -> kinds_ok (g :: r).
  Proof. intros f g r E H. destruct r; simpl in *; rewrite E; exact H. Qed.

  Lemma FrameOk_set_children : forall f ch, FrameOk f -> GoodL ch -> FrameOk (set_children f ch).
  Proof. intros f ch (A & B & C & D & E & F) H. repeat split; cbn [f_largs f_head f_children f_kind set_children]; auto. Qed.

  Lemma step_Inv : forall st o st', Inv st -> step st o = Some st' -> Inv st'.
  Proof.
    intros st o st' [Hf Hk] Hs.
    destruct o as [k|warn semi tofn| |s|s|tofn| | |]; destruct st as [|f r]; cbn [Stack.step] in Hs; try discriminate.
    - (* push *)
      destruct (kind_eqb k ROOT) eqn:Ek; [discriminate|]. inversion Hs; subst; clear Hs.
      apply kind_eqb_neq in Ek. inversion Hf; subst.
      split.
      + constructor; [|constructor; [|assumption]].
        * repeat split; cbn [f_largs f_head f_children f_kind set_children]; auto; try constructor.
        * apply FrameOk_set_children; [assumption|].
          apply merged_GoodL. match goal with H : FrameOk f |- _ => destruct H as (_ & _ & C & _); exact C end.
      + simpl. split; [exact Ek|]. apply (kinds_ok_same_kind f); [reflexivity | exact Hk].
    - (* pop *)
      destruct r as [|p r]; [discriminate|].
      apply kinds_ok_tail in Hk. destruct Hk as [Hroot Hk].
      inversion Hf as [|? ? Hff Hfr]; subst. inversion Hfr as [|? ? Hfp Hfr']; subst.
      match type of Hs with (if ?c then _ else _) = _ => destruct c end.
      + inversion Hs; subst. split; [constructor; assumption | exact Hk].
      + destruct (tofn && negb (kind_eqb (f_kind f) TEMPLATE)) eqn:Et; [discriminate|].
        inversion Hs; subst; clear Hs. split.
        * constructor; [|assumption].
          apply FrameOk_set_children; [assumption|].
          apply GoodL_app; [destruct Hfp as (_ & _ & C & _); exact C|].
          constructor; [|constructor].
          apply close_frame_Good; auto.
          intros ->. simpl in Et. apply negb_false_iff in Et. apply kind_eqb_eq in Et. exact Et.
        * apply (kinds_ok_same_kind p); [reflexivity | exact Hk].
    - (* merge *)
      inversion Hs; subst; clear Hs. inversion Hf; subst. split.
      + constructor; [|assumption]. apply FrameOk_set_children; [assumption|].
        apply merged_GoodL. match goal with H : FrameOk f |- _ => destruct H as (_ & _ & C & _); exact C end.
      + apply (kinds_ok_same_kind f); [reflexivity | exact Hk].
    - (* text *)
      inversion Hs; subst; clear Hs. inversion Hf; subst. split.
      + constructor; [|assumption]. apply FrameOk_set_children; [assumption|].
        apply GoodL_app; [|repeat constructor].
        match goal with H : FrameOk f |- _ => destruct H as (_ & _ & C & _); exact C end.
      + apply (kinds_ok_same_kind f); [reflexivity | exact Hk].
    - (* trail *)
      destruct (Stack.clean magic s) eqn:Ec; [|discriminate].
      destruct (trail (f_children f) s) as [ch|] eqn:Et; [|discriminate].
      inversion Hs; subst; clear Hs. inversion Hf; subst. split.
      + constructor; [|assumption]. apply FrameOk_set_children; [assumption|].
        apply (trail_GoodL (f_children f) s); auto.
        match goal with H : FrameOk f |- _ => destruct H as (_ & _ & C & _); exact C end.
      + apply (kinds_ok_same_kind f); [reflexivity | exact Hk].
    - (* children -> largs *)
      destruct (negb (is_kind largs_kinds (f_kind f)) || (tofn && negb (kind_eqb (f_kind f) TEMPLATE))) eqn:Eg; [discriminate|].
      apply orb_false_iff in Eg. destruct Eg as [Eg1 Eg2]. apply negb_false_iff in Eg1.
      inversion Hs; subst; clear Hs. inversion Hf as [|? ? Hff Hfr]; subst.
      destruct Hff as (A & B & C & D & E & F).
      split.
      + constructor; [|assumption]. repeat split; cbn [f_largs f_head f_children f_kind set_children]; auto.
        * apply Forall_app; split; [assumption|]. repeat constructor. apply merged_sok.
        * constructor.
        * apply GoodLL_app; [assumption|]. repeat constructor. apply merged_GoodL; assumption.
        * intros Hn _. exfalso. destruct tofn; [discriminate Hn | rewrite Eg1 in Hn; discriminate Hn].
      + destruct r as [|p r]; simpl in *.
        * destruct tofn; [|exact Hk]. simpl in Eg2. apply negb_false_iff in Eg2. apply kind_eqb_eq in Eg2.
          rewrite Hk in Eg2. discriminate Eg2.
        * destruct Hk as [Hk1 Hk2]. split; [|exact Hk2]. destruct tofn; [discriminate | exact Hk1].
    - (* children -> temp_head *)
      destruct (kind_eqb (f_kind f) LIST_ITEM) eqn:Ek; [|discriminate].
      inversion Hs; subst; clear Hs. inversion Hf as [|? ? Hff Hfr]; subst.
      destruct Hff as (A & B & C & D & E & F).
      split.
      + constructor; [|assumption]. repeat split; cbn [f_largs f_head f_children f_kind set_children]; auto.
        * apply merged_sok.
        * constructor.
        * constructor. apply merged_GoodL; assumption.
      + apply (kinds_ok_same_kind f); [reflexivity | exact Hk].
    - (* clear *)
      inversion Hs; subst; clear Hs. inversion Hf; subst. split.
      + constructor; [|assumption]. apply FrameOk_set_children; [assumption | constructor].
      + apply (kinds_ok_same_kind f); [reflexivity | exact Hk].
    - (* un-push *)
      destruct r as [|p r]; [discriminate|].
      destruct (kind_eqb (f_kind f) URL && is_nil (f_children f)); [|discriminate].
      inversion Hs; subst; clear Hs. inversion Hf; subst.
      apply kinds_ok_tail in Hk. destruct Hk as [_ Hk]. split; assumption.
  Qed.

  Lemma run_Inv : forall ops st st', Inv st -> run st ops = Some st' -> Inv st'.
  Proof.
    induction ops as [|o ops IH]; intros st st' Hi Hr; simpl in Hr.
    - inversion Hr; subst; exact Hi.
    - destruct (step st o) as [st1|] eqn:E; [|discriminate].
      apply (IH st1); [apply (step_Inv st o); assumption | exact Hr].
  Qed.

  Lemma init_Inv : forall title, clean title = true -> Inv (init title).
  Proof.
    intros title Ht. split.
    - constructor; [|constructor]. repeat split; cbn [f_largs f_head f_children f_kind set_children]; auto.
      + repeat constructor. simpl. rewrite Ht. reflexivity.
      + constructor.
      + repeat constructor.
      + constructor.
      + intros _ H; contradiction H; reflexivity.
    - simpl. reflexivity.
  Qed.

  Lemma result_Good : forall st t, Inv st -> result st = Some t -> GoodRoot t.
  Proof.
    intros st t [Hf Hk] Hr. destruct st as [|f [|g r]]; simpl in Hr; try discriminate.
    inversion Hr; subst; clear Hr. simpl in Hk. inversion Hf; subst.
    simpl. repeat split; auto.
    - apply merged_sok.
    - apply merged_GoodL. match goal with H : FrameOk f |- _ => destruct H as (_ & _ & C & _); exact C end.
  Qed.

  (** Every tree the primitives can produce, whatever the handlers do *)
  Theorem every_operation_sequence_gives_a_good_tree :
    forall title ops st t, clean title = true ->
      run (init title) ops = Some st -> result st = Some t -> GoodRoot t.
  Proof.
    intros title ops st t Ht Hr Hres.
    apply (result_Good st); [|exact Hres].
    apply (run_Inv ops (init title)); [apply init_Inv; exact Ht | exact Hr].
  Qed.

  (* ---------- the closing loop ---------- *)
  Lemma pop_true_shape : forall f p r semi tofn,
    tofn && negb (kind_eqb (f_kind f) TEMPLATE) = false ->
    exists p', step (f :: p :: r) (OPop true semi tofn) = Some (p' :: r) /\ f_kind p' = f_kind p.
  Proof.
    intros f p r semi tofn Hg. cbn [Stack.step]. rewrite Hg.
    match goal with |- context [if ?c then _ else _] => destruct c end; eexists; split; reflexivity.
  Qed.

  Lemma finale_reaches_root : forall flags st,
    kinds_ok st -> (length st <= S (length flags))%nat ->
    exists f, finale flags st = Some [f] /\ f_kind f = ROOT.
  Proof.
    induction flags as [|[semi tofn] fl IH]; intros st Hk Hlen.
    - destruct st as [|f [|g r]]; simpl in *; [contradiction | exists f; split; [reflexivity | exact Hk] | lia].
    - destruct st as [|f [|p r]]; [contradiction | exists f; split; [reflexivity | exact Hk] |].
      apply kinds_ok_tail in Hk. destruct Hk as [Hroot Hk].
      cbn [Stack.finale].
      remember (tofn && kind_eqb (f_kind f) TEMPLATE) as tofn' eqn:Et.
      assert (Hg : tofn' && negb (kind_eqb (f_kind f) TEMPLATE) = false).
      { subst tofn'. destruct tofn; simpl; [|reflexivity]. destruct (kind_eqb (f_kind f) TEMPLATE); reflexivity. }
      destruct (pop_true_shape f p r semi tofn' Hg) as [p' [Hp Hkp]].
      rewrite Hp.
      assert (Hk' : kinds_ok (p' :: r)) by (apply (kinds_ok_same_kind p); [exact Hkp | exact Hk]).
      destruct (kind_eqb (f_kind f) URL && is_nil (merged (f_children f))).
      + cbn [Stack.step]. apply IH; [apply (kinds_ok_same_kind p'); [reflexivity | exact Hk'] | simpl in *; lia].
      + apply IH; [exact Hk' | simpl in *; lia].
  Qed.

  Lemma finale_Inv : forall flags st st', Inv st -> finale flags st = Some st' -> Inv st'.
  Proof.
    induction flags as [|[semi tofn] fl IH]; intros st st' Hi Hf.
    - destruct st as [|f [|g r]]; simpl in Hf; try discriminate. inversion Hf; subst; exact Hi.
    - destruct st as [|f [|p r]]; [discriminate | simpl in Hf; inversion Hf; subst; exact Hi |].
      cbn [Stack.finale] in Hf.
      destruct (step (f :: p :: r) (OPop true semi (tofn && kind_eqb (f_kind f) TEMPLATE))) as [st1|] eqn:E1; [|discriminate].
      assert (H1 : Inv st1) by (apply (step_Inv _ _ _ Hi E1)).
      destruct (kind_eqb (f_kind f) URL && is_nil (merged (f_children f))).
      + destruct (step st1 (OText lbracket)) as [st2|] eqn:E2; [|discriminate].
        apply (IH st2); [apply (step_Inv _ _ _ H1 E2) | exact Hf].
      + apply (IH st1); assumption.
  Qed.

  (** parse_encoded as a whole: any handler behaviour, then the closing loop *)
  Theorem parse_returns_a_good_tree_and_leaves_only_the_root :
    forall title ops st flags, clean title = true ->
      run (init title) ops = Some st -> (length st <= S (length flags))%nat ->
      exists f t, finale flags st = Some [f] /\ result [f] = Some t /\ GoodRoot t.
  Proof.
    intros title ops st flags Ht Hr Hlen.
    assert (Hi : Inv st) by (apply (run_Inv ops (init title)); [apply init_Inv; exact Ht | exact Hr]).
    destruct (finale_reaches_root flags st (proj2 Hi) Hlen) as [f [Hf Hk]].
    exists f. eexists. split; [exact Hf|]. split; [reflexivity|].
    apply (result_Good [f]); [apply (finale_Inv flags st); assumption | reflexivity].
  Qed.
End Proofs.
