From Coq Require Import List NArith Bool Arith Lia.
From WTP Require Import Base.Str Model.Expand Model.Nowiki Gen.GenData.
Import ListNotations.
Open Scope N_scope.

Lemma nowiki_quote_cons m c s : nowiki_quote m (c :: s) = quote_char m c ++ nowiki_quote m s.
Proof. reflexivity. Qed.

(* every character other than '&' is recovered from its quoted form, whatever follows *)
Lemma unescape_quote_char x rest f : x <> 38 ->
  unescape (S f) nowiki_map (quote_char nowiki_map x ++ rest) = x :: unescape f nowiki_map rest.
Proof. intros Hx. unfold quote_char, nowiki_map. cbn [find fst snd].
  repeat match goal with
  | |- context [N.eqb ?k x] =>
      destruct (N.eqb_spec k x) as [<-|?]; [cbn; reflexivity|]
  end.
  cbn [app unescape]. destruct (N.eqb_spec x 38); [congruence | reflexivity]. Qed.

Theorem unescape_quote c : ~ In 38 c ->
  unescape (length c) nowiki_map (nowiki_quote nowiki_map c) = c.
Proof. induction c as [|x c IH]; intros H; [reflexivity|].
  rewrite nowiki_quote_cons. cbn [length]. rewrite unescape_quote_char.
  - f_equal. apply IH. intros Hi; apply H; right; exact Hi.
  - intros ->. apply H. left; reflexivity. Qed.

(* the quoted form contains none of the markup characters of the map except
   '#' (which occurs only in the entity for '_'), nor does it introduce '&' or ';'
   other than as entity delimiters: here the plain statement for the markup set *)
Definition markup_chars : list N := [61; 60; 62; 42; 58; 33; 124; 91; 93; 123; 125; 34; 39; 95].

Lemma quote_char_clean x y : In y (quote_char nowiki_map x) -> In y markup_chars -> False.
Proof. unfold quote_char, nowiki_map. cbn [find fst snd].
  repeat match goal with
  | |- context [N.eqb ?k x] =>
      destruct (N.eqb_spec k x) as [<-|?];
      [cbn; intros Hy Hm; repeat (destruct Hy as [<-|Hy]; [cbn in Hm; intuition discriminate|]); exact Hy|]
  end.
  cbn. intros [<-|[]] Hm. unfold markup_chars in Hm. cbn in Hm. intuition congruence. Qed.

Theorem quote_inert c y : In y (nowiki_quote nowiki_map c) -> In y markup_chars -> False.
Proof. induction c as [|x c IH]; [intros []|]. rewrite nowiki_quote_cons, in_app_iff.
  intros [H|H] Hm; [eapply quote_char_clean; eassumption | apply IH; assumption]. Qed.

