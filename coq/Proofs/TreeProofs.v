From Coq Require Import List Arith Bool Lia.
Import ListNotations.
From WTP Require Import Model.Tree.

Section MergeProofs.
  Variable A S : Type.
  Variable cat : S -> S -> S.
  Variable empty : S.
  Variable is_empty : S -> bool.
  Variable fin : S -> S.
  Notation mchild := (mchild A S).
  Notation merge := (merge A S cat is_empty fin).
  Notation flush := (flush A S is_empty fin).

  Fixpoint adj_free (l : list mchild) (prev_str : bool) : Prop :=
    match l with
    | [] => True
    | MStr _ _ _ :: r => prev_str = false /\ adj_free r true
    | MNode _ _ _ :: r => adj_free r false
    end.

  Definition nodes (l : list mchild) : list A :=
    flat_map (fun c => match c with MNode _ _ n => [n] | MStr _ _ _ => [] end) l.
  Definition strs (l : list mchild) : list S :=
    flat_map (fun c => match c with MStr _ _ s => [s] | MNode _ _ _ => [] end) l.

  (* the joined text of each maximal run of strings, in order *)
  Fixpoint runs (l : list mchild) (acc : option S) : list S :=
    match l with
    | [] => match acc with Some s => [s] | None => [] end
    | MStr _ _ s :: r => runs r (Some (match acc with Some a => cat a s | None => s end))
    | MNode _ _ _ :: r => (match acc with Some s => [s] | None => [] end) ++ runs r None
    end.

  Lemma merge_adj_free l : forall acc, adj_free (merge l acc) false.
  Proof. induction l as [|c l IH]; intros acc; cbn [Tree.merge].
    - unfold Tree.flush. destruct acc as [s|]; [|exact I]. destruct (is_empty (fin s)); cbn; auto.
    - destruct c as [s|n]; [apply IH|].
      unfold Tree.flush. destruct acc as [s|]; [destruct (is_empty (fin s))|]; cbn; auto. Qed.

  Lemma merge_no_empty l : forall acc s, In (MStr A S s) (merge l acc) -> is_empty s = false.
  Proof. induction l as [|c l IH]; intros acc s; cbn [Tree.merge].
    - unfold Tree.flush. destruct acc as [a|]; [|intros []]. destruct (is_empty (fin a)) eqn:E; [intros []|].
      intros [H|[]]. inversion H; subst. exact E.
    - destruct c as [x|n]; [apply IH|]. rewrite in_app_iff. intros [H|[H|H]].
      + unfold Tree.flush in H. destruct acc as [a|]; [|destruct H]. destruct (is_empty (fin a)) eqn:E; [destruct H|].
        destruct H as [H|[]]. inversion H; subst. exact E.
      + discriminate.
      + eapply IH. exact H. Qed.

  Lemma nodes_app a b : nodes (a ++ b) = nodes a ++ nodes b.
  Proof. unfold nodes. apply flat_map_app. Qed.
  Lemma strs_app a b : strs (a ++ b) = strs a ++ strs b.
  Proof. unfold strs. apply flat_map_app. Qed.

  Lemma flush_nodes acc : nodes (flush acc) = [].
  Proof. unfold Tree.flush. destruct acc as [s|]; [destruct (is_empty (fin s))|]; reflexivity. Qed.

  Lemma merge_nodes l : forall acc, nodes (merge l acc) = nodes l.
  Proof. induction l as [|c l IH]; intros acc; cbn [Tree.merge].
    - apply flush_nodes.
    - destruct c as [s|n]; [apply IH|]. rewrite nodes_app, flush_nodes. cbn. f_equal. apply IH. Qed.

  (* the strings that remain are the finalised run texts, minus the empty ones *)
  Lemma merge_strs l : forall acc,
    strs (merge l acc) = filter (fun s => negb (is_empty s)) (map fin (runs l acc)).
  Proof. induction l as [|c l IH]; intros acc; cbn [Tree.merge runs].
    - unfold Tree.flush. destruct acc as [s|]; [|reflexivity]. cbn. destruct (is_empty (fin s)); reflexivity.
    - destruct c as [s|n]; [apply IH|]. rewrite strs_app, map_app, filter_app. cbn [strs flat_map app].
      rewrite IH. f_equal. unfold Tree.flush. destruct acc as [s|]; [|reflexivity]. cbn.
      destruct (is_empty (fin s)); reflexivity. Qed.
End MergeProofs.
