(** Whatever tokens arrive, in whatever order: the trees the table handlers build (Model/Tables.v) keep rows and
    captions directly under a table and cells directly under a row -- the table clause of well-formedness (C01).
    Invariant over the parser stack, preserved by every handler. *)
From Coq Require Import List Arith Bool.
From WTP Require Import Model.Tables.
Import ListNotations.

Definition nkind (n : tnode) : tkind := match n with TN k _ _ => k end.
Definition parent_ok (parent child : tkind) : bool :=
  match child with
  | KRow | KCaption => tkind_eqb parent KTable
  | KCell | KHdr => tkind_eqb parent KRow
  | KTable | KBottom => true
  end.
Fixpoint node_ok (n : tnode) : bool :=
  match n with
  | TN k _ ch => forallb (fun c => match c with CS _ => true | CN m => parent_ok k (nkind m) && node_ok m end) ch
  end.
Definition child_ok (k : tkind) (c : tchild) : bool :=
  match c with CS _ => true | CN m => parent_ok k (nkind m) && node_ok m end.
Lemma node_ok_eq k a ch : node_ok (TN k a ch) = forallb (child_ok k) ch.
Proof. reflexivity. Qed.

Definition frame_ok (f : frame) : bool := forallb (child_ok (fk f)) (fch f).
Fixpoint stack_ok (st : stack) : bool :=
  match st with
  | [] => true
  | f :: r => frame_ok f && match r with g :: _ => parent_ok (fk g) (fk f) | [] => true end && stack_ok r
  end.
(* the frame at the bottom of the stack is the page's root *)
Fixpoint bottom_kind (st : stack) : tkind :=
  match st with [] => KTable | [f] => fk f | _ :: r => bottom_kind r end.
Definition Good (st : stack) : Prop := stack_ok st = true /\ bottom_kind st = KBottom.

Lemma forallb_rev {A} (p : A -> bool) l : forallb p (rev l) = forallb p l.
Proof. induction l as [|x l IH]; [reflexivity|]. cbn [rev forallb]. rewrite forallb_app, IH. cbn. rewrite andb_true_r. apply andb_comm. Qed.

Lemma close_ok f : frame_ok f = true -> node_ok (close f) = true.
Proof. unfold close, frame_ok. rewrite node_ok_eq, forallb_rev. auto. Qed.

Lemma stack_ok_cons f g r : stack_ok (f :: g :: r) = frame_ok f && parent_ok (fk g) (fk f) && stack_ok (g :: r).
Proof. reflexivity. Qed.
Lemma good_adj f g r : Good (f :: g :: r) -> parent_ok (fk g) (fk f) = true.
Proof. intros [H _]. rewrite stack_ok_cons in H. apply andb_true_iff in H. destruct H as [H _]. apply andb_true_iff in H. apply H. Qed.

Lemma pop_ok st st' : Good st -> pop st = Some st' -> Good st'.
Proof. destruct st as [|n [|p r]]; try discriminate. intros [H Hb] E. injection E as <-. split.
  - rewrite stack_ok_cons in H. apply andb_true_iff in H. destruct H as [H Hr]. apply andb_true_iff in H. destruct H as [Hn Hpar].
    cbn [stack_ok] in *. apply andb_true_iff in Hr. destruct Hr as [Hr1 Hr2]. apply andb_true_iff in Hr1. destruct Hr1 as [Hp Hadj].
    rewrite Hr2, andb_true_r. unfold addchild. cbn [fk]. rewrite Hadj, andb_true_r.
    unfold frame_ok. cbn [fk fch forallb child_ok]. fold (frame_ok p). rewrite Hp, andb_true_r.
    unfold close at 1. cbn [nkind]. rewrite Hpar. cbn [andb]. apply close_ok. exact Hn.
  - destruct r; exact Hb. Qed.

Lemma push_ok k st : Good st -> parent_ok (top_kind st) k = true -> Good (push k st).
Proof. intros [H Hb] Hp. unfold push. destruct st as [|g r]; [discriminate Hb|]. split.
  - cbn [stack_ok frame_ok fk fch forallb andb]. cbn [top_kind] in Hp. rewrite Hp. cbn [andb]. exact H.
  - exact Hb. Qed.

Lemma frame_ok_text a f : frame_ok f = true -> frame_ok (add_text a f) = true.
Proof. unfold frame_ok, add_text, add_text_ch. cbn [fk fch]. destruct (fch f) as [|[s|m] r]; cbn [forallb child_ok]; auto. Qed.
Lemma text_ok a st st' : Good st -> text a st = Some st' -> Good st'.
Proof. destruct st as [|f r]; [discriminate|]. intros [H Hb] E. injection E as <-. split.
  - cbn [stack_ok] in *. apply andb_true_iff in H. destruct H as [H Hr]. apply andb_true_iff in H. destruct H as [Hf Hadj].
    rewrite (frame_ok_text a f Hf), Hr. change (fk (add_text a f)) with (fk f). rewrite Hadj. reflexivity.
  - destruct r; exact Hb. Qed.

Lemma take_attrs_ok f s r : Good (f :: r) -> Good (take_attrs f s :: r).
Proof. intros [H Hb]. split.
  - cbn [stack_ok] in *. apply andb_true_iff in H. destruct H as [H Hr]. apply andb_true_iff in H. destruct H as [_ Hadj].
    change (fk (take_attrs f s)) with (fk f). rewrite Hadj, Hr. reflexivity.
  - destruct r; exact Hb. Qed.

Lemma check_attrs_ok k st st' : Good st -> check_attrs k st = Some st' -> Good st'.
Proof. destruct st as [|f r]; [discriminate|]. unfold check_attrs. intros H.
  destruct (tkind_eqb (fk f) k); [|intros E; injection E as <-; auto].
  destruct (tkind_eqb k KRow && existsb is_cell_child (fch f)); [intros E; injection E as <-; auto|].
  destruct (fch f) as [|[s|m] [|c cs]]; try discriminate; intros E; injection E as <-; auto.
  apply take_attrs_ok; exact H. Qed.

Lemma pop_to_table_ok fuel : forall st st', Good st -> pop_to_table fuel st = Some st' -> Good st' /\ top_kind st' = KTable.
Proof. induction fuel as [|n IH]; intros st st' H; [discriminate|]. cbn [pop_to_table].
  destruct (tkind_eqb (top_kind st) KTable) eqn:E.
  - intros E2. injection E2 as <-. split; [exact H|]. destruct (top_kind st); try discriminate; reflexivity.
  - destruct (pop st) as [s1|] eqn:Ep; [|discriminate]. cbn [bind]. apply IH. apply (pop_ok st s1 H Ep). Qed.

Lemma hdr_loop_ok fuel bol a : forall st st', Good st -> hdr_loop fuel bol a st = Some st' -> Good st'.
Proof. induction fuel as [|n IH]; intros st st' H; [discriminate|]. cbn [hdr_loop].
  destruct (top_kind st) eqn:Ek.
  - destruct (pop st) as [s1|] eqn:Ep; [|discriminate]. cbn [bind]. apply IH. apply (pop_ok st s1 H Ep).
  - intros E. injection E as <-. apply push_ok; [apply push_ok; [exact H | rewrite Ek; reflexivity] | reflexivity].
  - intros E. injection E as <-. apply push_ok; [exact H | rewrite Ek; reflexivity].
  - destruct bol; [|apply text_ok; exact H]. destruct (pop st) as [s1|] eqn:Ep; [|discriminate]. cbn [bind]. apply IH. apply (pop_ok st s1 H Ep).
  - destruct (pop st) as [s1|] eqn:Ep; [|discriminate]. cbn [bind]. apply IH. apply (pop_ok st s1 H Ep).
  - destruct bol; [|apply text_ok; exact H]. destruct (pop st) as [s1|] eqn:Ep; [|discriminate]. cbn [bind].
    intros E. injection E as <-.
    (* below a caption there is a table *)
    destruct st as [|c [|t r]]; try discriminate. injection Ep as <-. cbn [top_kind] in Ek.
    assert (Ht : fk t = KTable).
    { pose proof (good_adj _ _ _ H) as Hp. rewrite Ek in Hp. cbn [parent_ok] in Hp. destruct (fk t); try discriminate; reflexivity. }
    apply push_ok; [apply push_ok; [apply (pop_ok (c :: t :: r)); [exact H | reflexivity] | cbn [top_kind addchild fk]; rewrite Ht; reflexivity] | reflexivity]. Qed.

Lemma cell_loop_ok fuel a : forall st st', Good st -> cell_loop fuel a st = Some st' -> Good st'.
Proof. induction fuel as [|n IH]; intros st st' H; [discriminate|]. cbn [cell_loop].
  destruct (top_kind st) eqn:Ek;
    try (destruct (pop st) as [s1|] eqn:Ep; [|discriminate]; cbn [bind]; apply IH; apply (pop_ok st s1 H Ep)).
  - intros E. injection E as <-. apply push_ok; [apply push_ok; [exact H | rewrite Ek; reflexivity] | reflexivity].
  - intros E. injection E as <-. apply push_ok; [exact H | rewrite Ek; reflexivity].
  - apply text_ok; exact H. Qed.

Lemma dvbar_loop_ok fuel : forall st st' b, Good st -> dvbar_loop fuel st = Some (st', b) -> Good st'.
Proof. induction fuel as [|n IH]; intros st st' b H; [discriminate|]. cbn [dvbar_loop].
  destruct (top_kind st) eqn:Ek;
    try (destruct (pop st) as [s1|] eqn:Ep; [|discriminate]; cbn [bind]; apply IH; apply (pop_ok st s1 H Ep));
    intros E; injection E as <- <-; try exact H.
  apply push_ok; [exact H | rewrite Ek; reflexivity]. Qed.

Lemma end_loop_ok fuel : forall st st', Good st -> end_loop fuel st = Some st' -> Good st'.
Proof. induction fuel as [|n IH]; intros st st' H; [discriminate|]. cbn [end_loop].
  destruct (tkind_eqb (top_kind st) KTable); [apply pop_ok; exact H|].
  destruct (pop st) as [s1|] eqn:Ep; [|discriminate]. cbn [bind]. apply IH. apply (pop_ok st s1 H Ep). Qed.

Lemma hdr_fn_ok double bol a st st' : Good st -> table_hdr_cell_fn double bol a st = Some st' -> Good st'.
Proof. intros H E. unfold table_hdr_cell_fn in E.
  destruct (check_attrs KRow st) as [s1|] eqn:E1; [|discriminate]. cbn [bind] in E.
  pose proof (check_attrs_ok _ _ _ H E1) as H1.
  destruct (check_attrs KTable s1) as [s2|] eqn:E2; [|discriminate]. cbn [bind] in E.
  pose proof (check_attrs_ok _ _ _ H1 E2) as H2.
  destruct (negb (have_table s2)); [apply (text_ok a s2 st' H2 E)|].
  destruct (negb double && negb bol); [apply (text_ok a s2 st' H2 E)|].
  apply (hdr_loop_ok _ _ _ _ _ H2 E). Qed.

Lemma cell_fn_ok double bol a st st' : Good st -> table_cell_fn double bol a st = Some st' -> Good st'.
Proof. intros H E. unfold table_cell_fn in E.
  destruct (check_attrs KRow st) as [s1|] eqn:E1; [|discriminate]. cbn [bind] in E.
  pose proof (check_attrs_ok _ _ _ H E1) as H1.
  destruct (check_attrs KTable s1) as [s2|] eqn:E2; [|discriminate]. cbn [bind] in E.
  pose proof (check_attrs_ok _ _ _ H1 E2) as H2.
  destruct (negb (have_table s2)); [apply (text_ok a s2 st' H2 E)|].
  destruct s2 as [|f r]; [discriminate|].
  destruct (negb double && negb bol && is_cellish (fk f)).
  - destruct (fattrs f); [|apply (text_ok a _ st' H2 E)].
    destruct (fch f) as [|[s|m] [|c cs]]; injection E as <-; try exact H2. apply take_attrs_ok. exact H2.
  - apply (cell_loop_ok _ _ _ _ H2 E). Qed.

Theorem step_ok st t st' : Good st -> step st t = Some st' -> Good st'.
Proof. intros H E. destruct t as [| | | |bol| |[|]| |a]; cbn [step mark_of] in E.
  - injection E as <-. apply push_ok; [exact H | reflexivity].
  - unfold table_caption_fn in E. destruct (check_attrs KTable st) as [s1|] eqn:E1; [|discriminate]. cbn [bind] in E.
    pose proof (check_attrs_ok _ _ _ H E1) as H1.
    destruct (negb (have_table s1)); [apply (text_ok _ s1 st' H1 E)|].
    destruct (pop_to_table (length s1) s1) as [s2|] eqn:E2; [|discriminate]. cbn [bind] in E. injection E as <-.
    destruct (pop_to_table_ok _ _ _ H1 E2) as [H2 Hk]. apply push_ok; [exact H2 | rewrite Hk; reflexivity].
  - unfold table_row_fn in E. destruct (check_attrs KTable st) as [s1|] eqn:E1; [|discriminate]. cbn [bind] in E.
    pose proof (check_attrs_ok _ _ _ H E1) as H1.
    destruct (negb (have_table s1)); [apply (text_ok _ s1 st' H1 E)|].
    destruct (pop_to_table (length s1) s1) as [s2|] eqn:E2; [|discriminate]. cbn [bind] in E. injection E as <-.
    destruct (pop_to_table_ok _ _ _ H1 E2) as [H2 Hk]. apply push_ok; [exact H2 | rewrite Hk; reflexivity].
  - unfold table_end_fn in E. destruct (check_attrs KRow st) as [s1|] eqn:E1; [|discriminate]. cbn [bind] in E.
    pose proof (check_attrs_ok _ _ _ H E1) as H1.
    destruct (check_attrs KTable s1) as [s2|] eqn:E2; [|discriminate]. cbn [bind] in E.
    pose proof (check_attrs_ok _ _ _ H1 E2) as H2.
    destruct (negb (have_table s2)); [apply (text_ok _ s2 st' H2 E) | apply (end_loop_ok _ _ _ H2 E)].
  - unfold vbar_fn in E. destruct (have_table st); [apply (cell_fn_ok _ _ _ _ _ H E) | apply (text_ok _ _ _ H E)].
  - unfold double_vbar_fn in E. destruct (dvbar_loop (length st) st) as [[s1 b]|] eqn:E1; [|discriminate]. cbn [bind] in E.
    pose proof (dvbar_loop_ok _ _ _ _ H E1) as H1. destruct b; [apply (text_ok _ _ _ H1 E)|].
    destruct s1 as [|f r]; [discriminate|].
    destruct (tkind_eqb (fk f) KRow && last_child_is_hdr f); [apply (hdr_fn_ok _ _ _ _ _ H1 E) | apply (cell_fn_ok _ _ _ _ _ H1 E)].
  - apply (hdr_fn_ok _ _ _ _ _ H E).
  - apply (text_ok _ _ _ H E).
  - apply (hdr_fn_ok _ _ _ _ _ H E).
  - apply (text_ok _ _ _ H E). Qed.

Theorem run_ok ts : forall st st', Good st -> run ts st = Some st' -> Good st'.
Proof. induction ts as [|t ts IH]; intros st st' H E; cbn [run] in E; [injection E as <-; exact H|].
  destruct (step st t) as [s1|] eqn:E1; [|discriminate]. cbn [bind] in E. apply (IH s1 st' (step_ok _ _ _ H E1) E). Qed.

Lemma pop_all_ok fuel : forall st f, Good st -> pop_all fuel st = Some f -> frame_ok f = true /\ fk f = KBottom.
Proof. assert (Hone : forall g, Good [g] -> frame_ok g = true /\ fk g = KBottom).
  { intros g [H Hb]. cbn [stack_ok] in H. apply andb_true_iff in H. destruct H as [H _]. apply andb_true_iff in H. split; [apply H | exact Hb]. }
  induction fuel as [|n IH]; intros st f H E.
  - destruct st as [|g [|h r]]; try discriminate. injection E as <-. apply Hone. exact H.
  - destruct st as [|g [|h r]]; try discriminate.
    + injection E as <-. apply Hone. exact H.
    + cbn [pop_all] in E. destruct (pop (g :: h :: r)) as [s1|] eqn:Ep; [|discriminate]. cbn [bind] in E.
      apply (IH s1 f (pop_ok _ _ H Ep) E). Qed.

(** every tree the table handlers build, from any token sequence, has rows and captions only directly under tables
    and cells only directly under rows -- at the top level of the page and at every depth below it *)
Theorem parsed_trees_are_well_formed ts ch : parse ts = Some ch -> forallb (child_ok KBottom) ch = true.
Proof. unfold parse. intros E. destruct (run ts [bottom]) as [st|] eqn:Er; [|discriminate]. cbn [bind] in E.
  destruct (pop_all (length st) st) as [f|] eqn:Ep; [|discriminate]. cbn [bind] in E. injection E as <-.
  assert (Hb : Good [bottom]) by (split; reflexivity).
  destruct (pop_all_ok _ _ _ (run_ok ts _ _ Hb Er) Ep) as [Hf Hk].
  unfold frame_ok in Hf. rewrite Hk in Hf. rewrite forallb_rev. exact Hf. Qed.
