From Coq Require Import List NArith ZArith Bool Arith Lia.
From WTP Require Import Base.Str Proofs.StrProofs Model.ArgViews Model.Expand.
Import ListNotations.
Open Scope N_scope.

(** * Argument maps behave like Python dicts: the last binding of a key wins *)
Lemma key_eqb_refl k : key_eqb k k = true.
Proof. destruct k; cbn; [apply N.eqb_refl | apply str_eqb_refl]. Qed.

Lemma key_eqb_eq a b : key_eqb a b = true <-> a = b.
Proof. destruct a, b; cbn; split; intros H; try discriminate.
  - apply N.eqb_eq in H. now subst.
  - inversion H; apply N.eqb_refl.
  - apply str_eqb_eq in H. now subst.
  - inversion H; apply str_eqb_refl. Qed.

Lemma am_get_app m1 m2 k :
  am_get (m1 ++ m2) k = match am_get m2 k with Some v => Some v | None => am_get m1 k end.
Proof. induction m1 as [|[k' v'] m1 IH]; cbn [app am_get].
  - destruct (am_get m2 k); reflexivity.
  - rewrite IH. destruct (am_get m2 k); [reflexivity|]. reflexivity. Qed.

Lemma am_get_set_same m k v : am_get (am_set m k v) k = Some v.
Proof. unfold am_set. rewrite am_get_app. cbn. rewrite key_eqb_refl. reflexivity. Qed.

Lemma am_get_set_other m k k' v : key_eqb k' k = false -> am_get (am_set m k v) k' = am_get m k'.
Proof. intros H. unfold am_set. rewrite am_get_app. cbn. rewrite H. reflexivity. Qed.

(** * Plain text is left alone by both passes *)
Section Plain.
  Variable pfnames : list str.
  Variable lib : list tpl.
  Variable opts : options.

  Lemma expand_recurse_plain e : forallb is_ch e = true ->
    forall fuel stk ea, (length e < fuel)%nat ->
      expand_recurse pfnames lib opts fuel stk ea e = Some e.
  Proof. induction e as [|i e IH]; intros Hp fuel stk ea Hf.
    - destruct fuel; [cbn in Hf; lia | reflexivity].
    - destruct fuel as [|f]; [cbn in Hf; lia|]. cbn [forallb] in Hp. apply andb_true_iff in Hp.
      destruct Hp as [Hi Hp]. cbn [expand_recurse]. rewrite (IH Hp) by (cbn in Hf; lia).
      destruct i; try discriminate. reflexivity. Qed.

  Lemma expand_args_plain e : forallb is_ch e = true ->
    forall fuel stk am, (length e < fuel)%nat ->
      expand_args pfnames lib opts fuel stk am e = Some e.
  Proof. induction e as [|i e IH]; intros Hp fuel stk am Hf.
    - destruct fuel; [cbn in Hf; lia | reflexivity].
    - destruct fuel as [|f]; [cbn in Hf; lia|]. cbn [forallb] in Hp. apply andb_true_iff in Hp.
      destruct Hp as [Hi Hp]. cbn [expand_args]. rewrite (IH Hp) by (cbn in Hf; lia).
      destruct i; try discriminate. reflexivity. Qed.
End Plain.

Lemma finalize_plain nwmap s fuel : (0 < fuel)%nat -> finalize fuel nwmap (chars s) = s.
Proof. intros Hf. destruct fuel as [|f]; [lia|]. cbn [finalize]. unfold chars.
  induction s as [|c s IH]; cbn; [reflexivity|]. f_equal. exact IH. Qed.

(** * add_newline_to_expansion *)
Lemma add_newline_spec e : add_newline e = if starts_block e then Ch 10 :: e else e.
Proof. reflexivity. Qed.

(** * Selection (check_template_need_expand) as one formula *)
Definition opt_mem (n : str) (o : option (list str)) : bool :=
  match o with Some l => in_names n l | None => false end.

Lemma need_expand_spec lib sel name :
  need_expand lib sel name =
  match find_tpl lib name with
  | None => false
  | Some t => negb (opt_mem name (not_expand_names sel)) && (opt_mem name (expand_names sel) || t_pre t)
  end.
Proof. unfold need_expand. destruct (find_tpl lib name) as [t|]; [|reflexivity].
  destruct (expand_names sel), (not_expand_names sel); cbn [opt_mem negb andb orb]; reflexivity. Qed.

(* a template that is not stored is never selected; an excluded one neither *)
Lemma need_expand_missing lib sel name : find_tpl lib name = None -> need_expand lib sel name = false.
Proof. intros H. rewrite need_expand_spec, H. reflexivity. Qed.

Lemma need_expand_excluded lib sel name l :
  not_expand_names sel = Some l -> in_names name l = true -> need_expand lib sel name = false.
Proof. intros H1 H2. rewrite need_expand_spec. destruct (find_tpl lib name); [|reflexivity].
  rewrite H1. cbn [opt_mem]. rewrite H2. reflexivity. Qed.

(** * nowiki cookies are never looked into *)
Section NowikiInert.
  Variable pfnames : list str.
  Variable lib : list tpl.
  Variable opts : options.

  Lemma expand_recurse_nw f stk ea c rest :
    expand_recurse pfnames lib opts (S f) stk ea (Nw c :: rest) =
    option_map (cons (Nw c)) (expand_recurse pfnames lib opts f stk ea rest).
  Proof. cbn [expand_recurse]. destruct (expand_recurse pfnames lib opts f stk ea rest); reflexivity. Qed.

  Lemma expand_args_nw f stk am c rest :
    expand_args pfnames lib opts (S f) stk am (Nw c :: rest) =
    option_map (cons (Nw c)) (expand_args pfnames lib opts f stk am rest).
  Proof. cbn [expand_args]. destruct (expand_args pfnames lib opts f stk am rest); reflexivity. Qed.
End NowikiInert.

Lemma finalize_nw fuel nwmap c rest :
  finalize (S fuel) nwmap (Nw c :: rest) =
  (match c with [] => s_nowiki_empty | _ => nowiki_quote nwmap c end) ++ finalize (S fuel) nwmap rest.
Proof. reflexivity. Qed.
