(** C04: on the flat fragment - a call whose name and arguments are plain
    text, to a template whose body is plain text and parameter references
    with plain names and plain defaults - the expander model (Model/Expand.v:
    expand_T with its fuel, expansion path, name detection and two passes)
    computes exactly the documented transclusion rule, stated here without
    fuel, path or passes. *)
From Coq Require Import List NArith ZArith Bool Arith Lia.
From WTP Require Import Base.Str Proofs.StrProofs Model.ArgViews Model.ParserFns Model.Expand Proofs.ExpandProofs Model.FlatCall.
Import ListNotations.
Open Scope N_scope.

(** ** Small facts *)
Lemma codes_chars s : codes (chars s) = s.
Proof. unfold codes, chars. rewrite map_map. cbn. apply map_id. Qed.

Lemma plain_chars s : plain (chars s) = true.
Proof. unfold plain, chars. induction s; cbn; auto. Qed.

Lemma plain_app a b : plain (a ++ b) = plain a && plain b.
Proof. unfold plain. apply forallb_app. Qed.

Lemma plain_rev a : plain (rev a) = plain a.
Proof.
  unfold plain. induction a as [|x a IH]; [reflexivity|]. cbn [rev forallb].
  rewrite forallb_app, IH. cbn. rewrite andb_true_r. apply andb_comm.
Qed.

Lemma plain_lstrip a : plain a = true -> plain (lstrip_i a) = true.
Proof.
  induction a as [|x a IH]; intros H; [reflexivity|]. cbn [lstrip_i].
  destruct (sp_item x); [apply IH; cbn in H; apply andb_true_iff in H; tauto | exact H].
Qed.

Lemma plain_strip a : plain a = true -> plain (strip_i a) = true.
Proof.
  intros H. unfold strip_i, rstrip_i. rewrite plain_rev. apply plain_lstrip. rewrite plain_rev. apply plain_lstrip. exact H.
Qed.

Lemma plain_drop_last_nl v : plain v = true -> plain (drop_last_nl v) = true.
Proof.
  intros H. unfold drop_last_nl. destruct (rev v) as [|i r] eqn:E; [exact H|].
  destruct (is_code 10 i); [|exact H].
  rewrite plain_rev. rewrite <- plain_rev in H. rewrite E in H. cbn in H. apply andb_true_iff in H. tauto.
Qed.

Lemma drop_last_nl_id v : match rev v with i :: _ => negb (is_code 10 i) | [] => true end = true -> drop_last_nl v = v.
Proof.
  intros H. unfold drop_last_nl. destruct (rev v) as [|i r]; [reflexivity|].
  apply negb_true_iff in H. rewrite H. reflexivity.
Qed.

Lemma split_eq_plain a p r : plain a = true -> split_eq_i a = Some (p, r) -> plain p = true /\ plain r = true.
Proof.
  revert p r. induction a as [|i a IH]; intros p r H S; cbn in S; [discriminate|].
  cbn in H. apply andb_true_iff in H. destruct H as [Hi Ha].
  destruct (is_code 61 i).
  - inversion S; subst. split; [reflexivity | exact Ha].
  - destruct (split_eq_i a) as [[p' r']|] eqn:E; [|discriminate]. inversion S; subst.
    destruct (IH p' r Ha eq_refl) as [Hp Hr]. split; [cbn; rewrite Hi; exact Hp | exact Hr].
Qed.

Lemma plain_last p d : plain p = true -> is_ch d = true -> is_ch (last p d) = true.
Proof.
  induction p as [|x p IH]; intros H Hd; [exact Hd|]. cbn in H. apply andb_true_iff in H. destruct H as [Hx Hp].
  destruct p as [|y p]; [exact Hx|]. apply IH; assumption.
Qed.

Lemma split_named_plain a k v : plain a = true -> split_named_i a = Some (k, v) -> plain k = true /\ plain v = true.
Proof.
  intros H S. unfold split_named_i in S. destruct (split_eq_i a) as [[p r]|] eqn:E; [|discriminate].
  destruct (split_eq_plain a p r H E) as [Hp Hr].
  destruct p as [|p0 p']; [discriminate|].
  remember (p0 :: p') as p eqn:Ep.
  destruct (forallb _ _); [|discriminate]. inversion S as [[Hk' Hv']]. clear S. split; [|apply plain_strip; exact Hr].
  destruct (strip_i p) eqn:Es.
  - assert (Hl := plain_last p (Ch 32) Hp eq_refl). unfold plain. cbn [forallb]. rewrite Hl. reflexivity.
  - rewrite <- Es. apply plain_strip. exact Hp.
Qed.

Lemma values_plain_set ht k v : values_plain ht = true -> plain v = true -> values_plain (am_set ht k v) = true.
Proof. intros H Hv. unfold values_plain, am_set in *. rewrite forallb_app, H. cbn [forallb snd andb]. rewrite Hv. reflexivity. Qed.

Lemma am_get_plain ht k v : values_plain ht = true -> am_get ht k = Some v -> plain v = true.
Proof.
  induction ht as [|[k' v'] ht IH]; intros H G; cbn in G; [discriminate|].
  cbn in H. apply andb_true_iff in H. destruct H as [Hv Hr].
  destruct (am_get ht k) as [w|] eqn:E.
  - inversion G; subst. apply IH; auto.
  - destruct (key_eqb k k'); [inversion G; subst; exact Hv | discriminate].
Qed.

Lemma am_get_no_nl ht k v : no_trailing_nl ht = true -> am_get ht k = Some v ->
  match rev v with i :: _ => negb (is_code 10 i) | [] => true end = true.
Proof.
  induction ht as [|[k' v'] ht IH]; intros H G; cbn in G; [discriminate|].
  cbn in H. apply andb_true_iff in H. destruct H as [Hv Hr].
  destruct (am_get ht k) as [w|] eqn:E.
  - inversion G; subst. apply IH; auto.
  - destruct (key_eqb k k'); [inversion G; subst; exact Hv | discriminate].
Qed.

(** ** The two passes on the fragment *)
Section Flat.
  Variable pfnames : list str.
  Variable lib : list tpl.
  Variable opts : options.

  Notation expand_args := (expand_args pfnames lib opts).
  Notation expand_recurse := (expand_recurse pfnames lib opts).
  Notation expand_T := (expand_T pfnames lib opts).
  Notation build_args := (build_args pfnames lib opts).

  Notation expand_pf := (expand_pf pfnames lib opts).
  Notation canon_pf := (canon_pf pfnames).
  Notation classify_pf := (classify_pf pfnames).

  (* the defining equation of expand_T (text of Model/Expand.v), so that one step can be taken by rewriting *)
  Lemma expand_T_S f stk expand_all args : expand_T (S f) stk expand_all args =
      if Nat.leb 100 (length stk) then Some [ErrDeep] else
      match args with
      | [] => None
      | a0 :: more =>
        match expand_recurse f (stk ++ [FTemplateName]) expand_all a0 with
        | None => None
        | Some tn =>
          let tname := strip_i tn in
          let tcodes := codes tname in
          (* name:arg form of a parser function *)
          let colon_form :=
            match index_of 58 tcodes 0 with
            | Some (S ofs') =>
              let ofs := S ofs' in
              let fn := canon_pf (firstn ofs tcodes) in
              match classify_pf fn with
              | PfNone => None
              | c => Some (c, fn, lstrip_i (skipn (S ofs) tname) :: more)
              end
            | _ => None
            end in
          match colon_form with
          | Some (c, fn, pargs) => expand_pf f (stk ++ [FFn fn]) c fn pargs
          | None =>
            let fn := canon_pf tcodes in
            let bare := match classify_pf fn with
                        | PfNone => false
                        | _ => (in_names fn pfnames && Nat.eqb (length args) 1) || startswith [35] fn
                        end in
            if bare then expand_pf f stk (classify_pf fn) fn more
            else if existsb (N.eqb 58) tcodes then None        (* {{:ns:title}} forms: outside the model *)
            else
              let name := tcodes in
              if negb expand_all && negb (need_expand lib (o_sel opts) name) then
                match map_opt (expand_recurse f stk expand_all) args with
                | Some args' => Some (unexpanded_template args')
                | None => None
                end
              else
                let stk1 := stk ++ [FTemplate name] in
                if detect_loop stk1 then Some (chars (tpl_loop_msg name))
                else
                  match build_args f stk1 more 1 [] with
                  | None => None
                  | Some ht =>
                    let post := fun (t : enc) =>
                      let t1 := add_newline t in
                      match t1 with
                      | [] => t1
                      | _ => match hook_ret (o_pfn opts) name with
                             | Some r => chars r
                             | None => t1
                             end
                      end in
                    match hook_ret (o_tfn opts) name with
                    | Some r => Some (post (chars r))
                    | None =>
                    match find_tpl lib name with
                    | None => Some (post (chars (missing_tpl name)))
                    | Some t =>
                      let body := match t_body t with
                                  | Ch c :: _ => if (c =? 35) || (c =? 42) || (c =? 59) || (c =? 58)
                                                 then Ch 10 :: t_body t else t_body t
                                  | _ => t_body t
                                  end in
                      match expand_args f stk1 ht body with
                      | None => None
                      | Some sub =>
                        match expand_recurse f stk1 (expand_all || (t_pre t && o_pre_propagates opts)) sub with
                        | Some out => Some (post out)
                        | None => None
                        end
                      end
                    end
                    end
                  end
          end
        end
      end.
  Proof. reflexivity. Qed.

  Notation switch_loop := (switch_loop pfnames lib opts).

  (* the defining equation of expand_pf (text of Model/Expand.v) *)
  Lemma expand_pf_S f stk c fn args : expand_pf (S f) stk c fn args =
      if negb (o_parserfns opts) then
        Some (match args with
              | [] => chars s_lbrace2 ++ chars fn ++ chars s_rbrace2
              | _ => chars s_lbrace2 ++ chars fn ++ [Ch 58] ++ join_i vbar args ++ chars s_rbrace2
              end)
      else
        let stk1 := stk ++ [FFn fn] in
        let ex := fun a => option_map strip_i (expand_recurse f stk1 true a) in
        let argn := fun n => nth n args [] in
        match c with
        | PfIf =>
          match ex (argn 0%nat) with
          | None => None
          | Some v => option_map add_newline (match v with [] => ex (argn 2%nat) | _ => ex (argn 1%nat) end)
          end
        | PfIfeq =>
          match ex (argn 0%nat), ex (argn 1%nat) with
          | Some x, Some y =>
            option_map add_newline (if mw_equal (codes x) (codes y) && forallb is_ch x && forallb is_ch y
                                    then ex (argn 2%nat) else
                                    if str_eqb (codes x) (codes y) then None else ex (argn 3%nat))
          | _, _ => None
          end
        | PfSwitch =>
          match args with
          | [] => Some []
          | a0 :: cases =>
            match ex a0 with
            | None => None
            | Some val => option_map add_newline (switch_loop f stk1 val cases false false None None)
            end
          end
        | _ => None
        end.
  Proof. reflexivity. Qed.

  (* the defining equation of switch_loop (text of Model/Expand.v) *)
  Lemma switch_loop_S f stk val cases match_next next_default defval lastv :
    switch_loop (S f) stk val cases match_next next_default defval lastv =
      let ex := fun a => option_map strip_i (expand_recurse f stk true a) in
      let same := fun (x y : enc) => mw_equal (codes x) (codes y) in
      match cases with
      | [] => match lastv with
              | Some l => Some l            (* a final item without "=" is the default, whatever "#default=" said *)
              | None => match defval with
                        | Some d => ex d
                        | None => Some []
                        end
              end
      | a :: rest =>
        match split_switch a with
        | None =>
          match ex a with
          | None => None
          | Some l =>
            switch_loop f stk val rest (match_next || same l val)
                        (next_default || str_eqb (lower (codes l)) s_default) defval (Some l)
          end
        | Some (k, v) =>
          let defval1 := if next_default && negb (match v with [] => true | _ => false end) then Some v else defval in
          let next_default1 := if next_default && negb (match v with [] => true | _ => false end) then false else next_default in
          match ex k with
          | None => None
          | Some k' =>
            if same k' val || match_next then ex v
            else switch_loop f stk val rest match_next next_default1
                             (if str_eqb (lower (codes k')) s_default then Some v else defval1) None
          end
        end
      end.
  Proof. reflexivity. Qed.

  (* the defining equation of build_args (text of Model/Expand.v) *)
  Lemma build_args_S f stk args num ht : build_args (S f) stk args num ht =
      match args with
      | [] => Some ht
      | a :: rest =>
        match split_named_i a with
        | Some (kname, v) =>
          let kc := codes kname in
          let kopt := if positive_number kc then Some (KInt (to_num kc))
                      else match expand_recurse f (stk ++ [FArgName]) true kname with
                           | Some kx => Some (KStr (strip_by sp_py (collapse_ws (codes kx))))
                           | None => None
                           end in
          match kopt with
          | None => None
          | Some k =>
            match expand_recurse f (stk ++ [FArgVal k]) true v with
            | Some v' => build_args f stk rest num (am_set ht k (strip_i v'))
            | None => None
            end
          end
        | None =>
          match expand_recurse f (stk ++ [FArgVal (KInt num)]) true a with
          | Some v' => build_args f stk rest (num + 1) (am_set ht (KInt num) v')
          | None => None
          end
        end
      end.
  Proof. reflexivity. Qed.

  Fixpoint size (e : enc) : nat :=
    match e with
    | [] => 1
    | A args :: r => S (fold_right (fun a n => (length a + n)%nat) 2%nat args) + size r
    | _ :: r => S (size r)
    end.

  Lemma bind_plain args : forallb plain args = true ->
    forall num ht, values_plain ht = true -> values_plain (bind_args args num ht) = true.
  Proof.
    induction args as [|a args IH]; intros Ha num ht Hh; [exact Hh|].
    cbn in Ha. apply andb_true_iff in Ha. destruct Ha as [Ha Hr]. cbn [bind_args].
    destruct (split_named_i a) as [[k v]|] eqn:E.
    - destruct (split_named_plain a k v Ha E) as [_ Hv].
      apply IH; [exact Hr | apply values_plain_set; [exact Hh | apply plain_strip; exact Hv]].
    - apply IH; [exact Hr | apply values_plain_set; assumption].
  Qed.

  (* the argument dictionary the model builds is the binding of the rule *)
  Lemma build_args_flat args : forallb plain args = true ->
    forall fuel stk num ht, (fold_right (fun a n => (length a + n)%nat) 0%nat args + length args + 1 < fuel)%nat ->
      build_args fuel stk args num ht = Some (bind_args args num ht).
  Proof.
    induction args as [|a args IH]; intros Ha fuel stk num ht Hf.
    - destruct fuel; [cbn in Hf; lia | reflexivity].
    - destruct fuel as [|f]; [cbn in Hf; lia|].
      cbn in Ha. apply andb_true_iff in Ha. destruct Ha as [Ha Hr].
      cbn [fold_right length] in Hf.
      cbn [Expand.build_args bind_args].
      destruct (split_named_i a) as [[k v]|] eqn:E.
      + destruct (split_named_plain a k v Ha E) as [Hk Hv].
        assert (Lk : (length k <= length a)%nat /\ (length v <= length a)%nat).
        { clear - E. unfold split_named_i in E. destruct (split_eq_i a) as [[p r]|] eqn:S; [|discriminate].
          assert (L : (length p + length r < length a + 1)%nat).
          { clear E. revert p r S. induction a as [|i a IHa]; intros p r S; cbn in S; [discriminate|].
            destruct (is_code 61 i); [inversion S; subst; cbn; lia|].
            destruct (split_eq_i a) as [[p' r']|]; [|discriminate]. inversion S; subst.
            specialize (IHa p' r eq_refl). cbn. lia. }
          destruct p as [|p0 p']; [discriminate|]. destruct (forallb _ _); [|discriminate]. inversion E; subst.
          assert (Ls : forall x, (length (strip_i x) <= length x)%nat).
          { intros x. unfold strip_i, rstrip_i. rewrite rev_length.
            assert (Ll : forall y, (length (lstrip_i y) <= length y)%nat).
            { induction y as [|z y IHy]; [cbn; lia|]. cbn [lstrip_i]. destruct (sp_item z); cbn; lia. }
            etransitivity; [apply Ll|]. rewrite rev_length. apply Ll. }
          split.
          - destruct (strip_i (p0 :: p')) eqn:Es; [cbn in *; lia|]. rewrite <- Es. specialize (Ls (p0 :: p')). lia.
          - specialize (Ls r). lia. }
        unfold name_key.
        destruct (positive_number (codes k)).
        * rewrite (expand_recurse_plain pfnames lib opts v Hv) by lia.
          apply IH; [exact Hr | lia].
        * rewrite (expand_recurse_plain pfnames lib opts k Hk) by lia.
          rewrite (expand_recurse_plain pfnames lib opts v Hv) by lia.
          apply IH; [exact Hr | lia].
      + rewrite (expand_recurse_plain pfnames lib opts a Ha) by lia.
        apply IH; [exact Hr | lia].
  Qed.

  (* the first pass substitutes the parameters as the rule says *)
  Lemma expand_args_flat e : flat_body e = true ->
    forall fuel stk am, (size e < fuel)%nat ->
      expand_args fuel stk am e = Some (code_subst am e).
  Proof.
    induction e as [|i e IH]; intros Hb fuel stk am Hf.
    - destruct fuel; [cbn in Hf; lia | reflexivity].
    - destruct fuel as [|f]; [cbn in Hf; lia|].
      destruct i as [c|args|args|args|c|]; try discriminate Hb.
      + cbn [Expand.expand_args]. cbn in Hb, Hf. rewrite (IH Hb) by lia. reflexivity.
      + destruct args as [|k [|d [|x more]]]; try discriminate Hb.
        * cbn in Hb. apply andb_true_iff in Hb. destruct Hb as [Hk Hb].
          cbn [size fold_right] in Hf.
          cbn [Expand.expand_args]. rewrite (IH Hb) by lia.
          rewrite (expand_args_plain pfnames lib opts k Hk) by lia.
          rewrite (expand_recurse_plain pfnames lib opts k Hk) by lia.
          unfold code_subst. cbn [subst]. fold (param_key k).
          destruct (am_get am (param_key k)); reflexivity.
        * cbn in Hb. apply andb_true_iff in Hb. destruct Hb as [Hk Hb]. apply andb_true_iff in Hk. destruct Hk as [Hk Hd].
          cbn [size fold_right] in Hf.
          cbn [Expand.expand_args]. rewrite (IH Hb) by lia.
          rewrite (expand_args_plain pfnames lib opts k Hk) by lia.
          rewrite (expand_recurse_plain pfnames lib opts k Hk) by lia.
          unfold code_subst. cbn [subst]. fold (param_key k).
          destruct (am_get am (param_key k)); [reflexivity|].
          rewrite (expand_args_plain pfnames lib opts d Hd) by lia. reflexivity.
  Qed.

  Lemma subst_plain val ht e : (forall v, plain v = true -> plain (val v) = true) ->
    values_plain ht = true -> flat_body e = true -> plain (subst val ht e) = true.
  Proof.
    intros Hval Hh. induction e as [|i e IH]; intros Hb; [reflexivity|].
    destruct i as [c|args|args|args|c|]; try discriminate Hb.
    - cbn. apply IH. exact Hb.
    - destruct args as [|k [|d [|x more]]]; try discriminate Hb; cbn in Hb.
      + apply andb_true_iff in Hb. destruct Hb as [Hk Hb]. cbn [subst]. rewrite plain_app, (IH Hb), andb_true_r.
        destruct (am_get ht (param_key k)) as [v|] eqn:G; [apply Hval; apply (am_get_plain ht _ v Hh G)|].
        unfold unexpanded_arg. cbn [join_i]. rewrite !plain_app, !plain_chars. reflexivity.
      + apply andb_true_iff in Hb. destruct Hb as [Hk Hb]. apply andb_true_iff in Hk. destruct Hk as [Hk Hd].
        cbn [subst]. rewrite plain_app, (IH Hb), andb_true_r.
        destruct (am_get ht (param_key k)) as [v|] eqn:G; [apply Hval; apply (am_get_plain ht _ v Hh G) | exact Hd].
  Qed.

  Lemma subst_same ht e : no_trailing_nl ht = true -> code_subst ht e = mw_subst ht e.
  Proof.
    intros Hn. unfold code_subst, mw_subst. induction e as [|i e IH]; [reflexivity|].
    destruct i as [c|args|args|args|c|]; cbn [subst]; try (rewrite IH; reflexivity).
    destruct args as [|k more]; [rewrite IH; reflexivity|]. rewrite IH.
    destruct (am_get ht (param_key k)) as [v|] eqn:G; [|reflexivity].
    rewrite (drop_last_nl_id v (am_get_no_nl ht _ v Hn G)). reflexivity.
  Qed.

  (* the newline the code puts before a body that starts with a list marker, and add_newline on the result,
     together are add_newline on the substituted body *)
  Definition marked_body (b : enc) : enc :=
    match b with
    | Ch c :: _ => if (c =? 35) || (c =? 42) || (c =? 59) || (c =? 58) then Ch 10 :: b else b
    | _ => b
    end.

  Lemma add_newline_marked val ht b : add_newline (subst val ht (marked_body b)) = add_newline (subst val ht b).
  Proof.
    destruct b as [|i b]; [reflexivity|]. destruct i as [c| | | | |]; try reflexivity.
    cbn [marked_body]. destruct ((c =? 35) || (c =? 42) || (c =? 59) || (c =? 58)) eqn:E; [|reflexivity].
    cbn [subst]. unfold add_newline. cbn [starts_block].
    replace ((10 =? 42) || (10 =? 59) || (10 =? 58) || (10 =? 35) || _) with false by reflexivity.
    assert (Hs : (c =? 42) || (c =? 59) || (c =? 58) || (c =? 35) = true).
    { destruct (c =? 35), (c =? 42), (c =? 59), (c =? 58); cbn in *; congruence. }
    rewrite Hs. reflexivity.
  Qed.

  Lemma flat_marked b : flat_body b = true -> flat_body (marked_body b) = true.
  Proof.
    destruct b as [|i b]; [reflexivity|]. destruct i as [c| | | | |]; try (intros H; exact H).
    cbn [marked_body]. destruct ((c =? 35) || (c =? 42) || (c =? 59) || (c =? 58)); intros H; exact H.
  Qed.

  Lemma no_colon_index s i : existsb (N.eqb 58) s = false -> index_of 58 s i = None.
  Proof.
    revert i. induction s as [|x s IH]; intros i H; [reflexivity|]. cbn [existsb] in H. apply orb_false_iff in H. destruct H as [Hx Hs].
    cbn [index_of]. rewrite N.eqb_sym, Hx. apply IH. exact Hs.
  Qed.

  (** The call: [name] is a template name (blank-free at both ends, no colon, not a parser function), the
      arguments are plain, no hook is installed; written at page level, with full expansion. *)
  Theorem flat_call_uniform name args :
    strip_i (chars name) = chars name -> existsb (N.eqb 58) name = false ->
    Expand.classify_pf pfnames (Expand.canon_pf pfnames name) = PfNone ->
    forallb plain args = true ->
    o_tfn opts = [] -> o_pfn opts = [] ->
    (forall t, find_tpl lib name = Some t -> flat_body (t_body t) = true) ->
    exists F, forall stk fuel, (length stk < 100)%nat -> detect_loop (stk ++ [FTemplate name]) = false -> (F <= fuel)%nat ->
      expand_T fuel stk true (chars name :: args) = Some (result_of lib name args).
  Proof.
    intros Hstrip Hcolon Hpf Hargs Htfn Hpfn Hbody.
    set (ht := bind_args args 1 []).
    assert (Hht : values_plain ht = true) by (apply bind_plain; [exact Hargs | reflexivity]).
    set (bsize := match find_tpl lib name with
                  | Some t => (size (marked_body (t_body t)) + length (code_subst ht (marked_body (t_body t))))%nat
                  | None => 0%nat end).
    exists (length name + fold_right (fun a n => (length a + n)%nat) 0%nat args + length args + bsize + 10)%nat.
    intros stk fuel Hdepth Hloop Hf. destruct fuel as [|f]; [lia|].
    rewrite expand_T_S. replace (Nat.leb 100 (length stk)) with false by (symmetry; apply Nat.leb_gt; exact Hdepth).
    rewrite (expand_recurse_plain pfnames lib opts (chars name) (plain_chars name)) by (unfold chars; rewrite map_length; lia).
    cbv beta iota zeta. rewrite Hstrip, codes_chars.
    rewrite (no_colon_index name 0 Hcolon).
    rewrite Hpf. rewrite Hcolon. cbn [negb andb].
    rewrite Hloop.
    rewrite (build_args_flat args Hargs) by lia. fold ht.
    rewrite Htfn, Hpfn. cbn [hook_ret find].
    unfold result_of. fold ht.
    destruct (find_tpl lib name) as [t|] eqn:Et.
    - specialize (Hbody t eq_refl).
      fold (marked_body (t_body t)).
      rewrite (expand_args_flat (marked_body (t_body t)) (flat_marked _ Hbody)) by (unfold bsize in Hf; lia).
      assert (Hp : plain (code_subst ht (marked_body (t_body t))) = true)
        by (apply subst_plain; [apply plain_drop_last_nl | exact Hht | apply flat_marked; exact Hbody]).
      rewrite (expand_recurse_plain pfnames lib opts _ Hp) by (unfold bsize in Hf; lia).
      unfold code_subst. rewrite add_newline_marked.
      destruct (add_newline (subst drop_last_nl ht (t_body t))); reflexivity.
    - cbn. reflexivity.
  Qed.

  Theorem flat_call_at stk name args :
    (length stk < 100)%nat -> detect_loop (stk ++ [FTemplate name]) = false ->
    strip_i (chars name) = chars name -> existsb (N.eqb 58) name = false ->
    Expand.classify_pf pfnames (Expand.canon_pf pfnames name) = PfNone ->
    forallb plain args = true ->
    o_tfn opts = [] -> o_pfn opts = [] ->
    (forall t, find_tpl lib name = Some t -> flat_body (t_body t) = true) ->
    exists F, forall fuel, (F <= fuel)%nat ->
      expand_T fuel stk true (chars name :: args) = Some (result_of lib name args).
  Proof.
    intros Hdepth Hloop.
    intros Hstrip Hcolon Hpf Hargs Htfn Hpfn Hbody.
    set (ht := bind_args args 1 []).
    assert (Hht : values_plain ht = true) by (apply bind_plain; [exact Hargs | reflexivity]).
    set (bsize := match find_tpl lib name with
                  | Some t => (size (marked_body (t_body t)) + length (code_subst ht (marked_body (t_body t))))%nat
                  | None => 0%nat end).
    exists (length name + fold_right (fun a n => (length a + n)%nat) 0%nat args + length args + bsize + 10)%nat.
    intros fuel Hf. destruct fuel as [|f]; [lia|].
    rewrite expand_T_S. replace (Nat.leb 100 (length stk)) with false by (symmetry; apply Nat.leb_gt; exact Hdepth).
    rewrite (expand_recurse_plain pfnames lib opts (chars name) (plain_chars name)) by (unfold chars; rewrite map_length; lia).
    cbv beta iota zeta. rewrite Hstrip, codes_chars.
    rewrite (no_colon_index name 0 Hcolon).
    rewrite Hpf. rewrite Hcolon. cbn [negb andb].
    rewrite Hloop.
    rewrite (build_args_flat args Hargs) by lia. fold ht.
    rewrite Htfn, Hpfn. cbn [hook_ret find].
    unfold result_of. fold ht.
    destruct (find_tpl lib name) as [t|] eqn:Et.
    - specialize (Hbody t eq_refl).
      fold (marked_body (t_body t)).
      rewrite (expand_args_flat (marked_body (t_body t)) (flat_marked _ Hbody)) by (unfold bsize in Hf; lia).
      assert (Hp : plain (code_subst ht (marked_body (t_body t))) = true)
        by (apply subst_plain; [apply plain_drop_last_nl | exact Hht | apply flat_marked; exact Hbody]).
      rewrite (expand_recurse_plain pfnames lib opts _ Hp) by (unfold bsize in Hf; lia).
      unfold code_subst. rewrite add_newline_marked.
      destruct (add_newline (subst drop_last_nl ht (t_body t))); reflexivity.
    - cbn. reflexivity.
  Qed.

  Lemma map_opt_plain f stk ea (l : list enc) :
    forallb plain l = true -> (fold_right (fun a n => (length a + n)%nat) 0%nat l < f)%nat ->
    map_opt (expand_recurse f stk ea) l = Some l.
  Proof.
    induction l as [|a l IH]; intros Hp Hf; [reflexivity|].
    cbn in Hp. apply andb_true_iff in Hp. destruct Hp as [Ha Hl]. cbn [fold_right] in Hf.
    cbn [map_opt]. rewrite (expand_recurse_plain pfnames lib opts a Ha) by lia. rewrite IH by (assumption || lia). reflexivity.
  Qed.

  (** With a selection (C13): the call is replaced by the rule's result when everything is expanded or the template is
      selected, and is emitted as it was written otherwise. *)
  Theorem flat_call_sel stk ea name args :
    (length stk < 100)%nat -> detect_loop (stk ++ [FTemplate name]) = false ->
    strip_i (chars name) = chars name -> existsb (N.eqb 58) name = false ->
    Expand.classify_pf pfnames (Expand.canon_pf pfnames name) = PfNone ->
    forallb plain args = true ->
    o_tfn opts = [] -> o_pfn opts = [] ->
    (forall t, find_tpl lib name = Some t -> flat_body (t_body t) = true) ->
    exists F, forall fuel, (F <= fuel)%nat ->
      expand_T fuel stk ea (chars name :: args)
      = Some (if ea || need_expand lib (o_sel opts) name then result_of lib name args
              else unexpanded_template (chars name :: args)).
  Proof.
    intros Hdepth Hloop.
    intros Hstrip Hcolon Hpf Hargs Htfn Hpfn Hbody.
    set (ht := bind_args args 1 []).
    assert (Hht : values_plain ht = true) by (apply bind_plain; [exact Hargs | reflexivity]).
    set (bsize := match find_tpl lib name with
                  | Some t => (size (marked_body (t_body t)) + length (code_subst ht (marked_body (t_body t))))%nat
                  | None => 0%nat end).
    exists (length name + fold_right (fun a n => (length a + n)%nat) 0%nat args + length args + bsize + 10)%nat.
    intros fuel Hf. destruct fuel as [|f]; [lia|].
    rewrite expand_T_S. replace (Nat.leb 100 (length stk)) with false by (symmetry; apply Nat.leb_gt; exact Hdepth).
    rewrite (expand_recurse_plain pfnames lib opts (chars name) (plain_chars name)) by (unfold chars; rewrite map_length; lia).
    cbv beta iota zeta. rewrite Hstrip, codes_chars.
    rewrite (no_colon_index name 0 Hcolon).
    rewrite Hpf. rewrite Hcolon.
    destruct (negb ea && negb (need_expand lib (o_sel opts) name)) eqn:Esel.
    - (* left alone *)
      assert (Hno : ea || need_expand lib (o_sel opts) name = false).
      { destruct ea; [discriminate Esel|]. destruct (need_expand lib (o_sel opts) name); [discriminate Esel | reflexivity]. }
      rewrite Hno.
      rewrite map_opt_plain; [reflexivity | cbn [forallb]; rewrite plain_chars; exact Hargs |].
      cbn [fold_right]. unfold chars. rewrite map_length. lia.
    - assert (Hyes : ea || need_expand lib (o_sel opts) name = true).
      { destruct ea; [reflexivity|]. destruct (need_expand lib (o_sel opts) name); [reflexivity | discriminate Esel]. }
      rewrite Hyes. cbn [negb andb].
      rewrite Hloop.
      rewrite (build_args_flat args Hargs) by lia. fold ht.
      rewrite Htfn, Hpfn. cbn [hook_ret find].
      unfold result_of. fold ht.
      destruct (find_tpl lib name) as [t|] eqn:Et.
      + specialize (Hbody t eq_refl).
        fold (marked_body (t_body t)).
        rewrite (expand_args_flat (marked_body (t_body t)) (flat_marked _ Hbody)) by (unfold bsize in Hf; lia).
        assert (Hp : plain (code_subst ht (marked_body (t_body t))) = true)
          by (apply subst_plain; [apply plain_drop_last_nl | exact Hht | apply flat_marked; exact Hbody]).
        rewrite (expand_recurse_plain pfnames lib opts _ Hp) by (unfold bsize in Hf; lia).
        unfold code_subst. rewrite add_newline_marked.
        destruct (add_newline (subst drop_last_nl ht (t_body t))); reflexivity.
      + cbn. reflexivity.
  Qed.

  (* at page level *)
  Theorem flat_call name args :
    strip_i (chars name) = chars name -> existsb (N.eqb 58) name = false ->
    Expand.classify_pf pfnames (Expand.canon_pf pfnames name) = PfNone ->
    forallb plain args = true ->
    o_tfn opts = [] -> o_pfn opts = [] ->
    (forall t, find_tpl lib name = Some t -> flat_body (t_body t) = true) ->
    exists F, forall fuel, (F <= fuel)%nat ->
      expand_T fuel [FTitle] true (chars name :: args) = Some (result_of lib name args).
  Proof. apply flat_call_at; [cbn; lia | reflexivity]. Qed.

  (* ... and that is MediaWiki's result whenever no bound value ends in a line break *)
  Theorem flat_call_mediawiki name args t :
    find_tpl lib name = Some t -> no_trailing_nl (bind_args args 1 []) = true ->
    result_of lib name args = mw_result_of lib name args.
  Proof. intros Ht Hn. unfold result_of, mw_result_of. rewrite Ht, (subst_same _ _ Hn). reflexivity. Qed.

  (* the result does not depend on where the call is expanded: inside a Lua callback (frame:expandTemplate builds the
     same call and expands it under a longer expansion path) it is what the call gives on the page *)
  Theorem flat_call_anywhere stk name args :
    (length stk < 100)%nat -> detect_loop (stk ++ [FTemplate name]) = false ->
    strip_i (chars name) = chars name -> existsb (N.eqb 58) name = false ->
    Expand.classify_pf pfnames (Expand.canon_pf pfnames name) = PfNone ->
    forallb plain args = true ->
    o_tfn opts = [] -> o_pfn opts = [] ->
    (forall t, find_tpl lib name = Some t -> flat_body (t_body t) = true) ->
    exists F, forall fuel, (F <= fuel)%nat ->
      expand_T fuel stk true (chars name :: args) = expand_T fuel [FTitle] true (chars name :: args) /\
      expand_T fuel stk true (chars name :: args) = Some (result_of lib name args).
  Proof.
    intros Hd Hl H1 H2 H3 H4 H5 H6 H7.
    destruct (flat_call_at stk name args Hd Hl H1 H2 H3 H4 H5 H6 H7) as [F HF].
    destruct (flat_call name args H1 H2 H3 H4 H5 H6 H7) as [G HG].
    exists (F + G)%nat. intros fuel Hf. rewrite (HF fuel) by lia. rewrite (HG fuel) by lia. split; reflexivity.
  Qed.

  Lemma plain_chars_codes e : plain e = true -> chars (codes e) = e.
  Proof.
    unfold plain, chars, codes. induction e as [|i e IH]; intros H; [reflexivity|].
    cbn in H. apply andb_true_iff in H. destruct H as [Hi He]. cbn [map]. rewrite (IH He).
    destruct i; try discriminate Hi. reflexivity.
  Qed.

  Lemma result_plain name args :
    forallb plain args = true -> (forall t, find_tpl lib name = Some t -> flat_body (t_body t) = true) ->
    plain (result_of lib name args) = true.
  Proof.
    intros Ha Hb. unfold result_of. destruct (find_tpl lib name) as [t|] eqn:Et; [|apply plain_chars].
    assert (Hp : plain (code_subst (bind_args args 1 []) (t_body t)) = true).
    { apply subst_plain; [apply plain_drop_last_nl | apply bind_plain; [exact Ha | reflexivity] | apply Hb; reflexivity]. }
    unfold add_newline. destruct (starts_block _); [cbn; exact Hp | exact Hp].
  Qed.

  Lemma flat_ok_premises name args : flat_ok pfnames lib name args = true ->
    strip_i (chars name) = chars name /\ existsb (N.eqb 58) name = false /\
    Expand.classify_pf pfnames (Expand.canon_pf pfnames name) = PfNone /\ forallb plain args = true /\
    (forall t, find_tpl lib name = Some t -> flat_body (t_body t) = true).
  Proof.
    unfold flat_ok. intros H. repeat (apply andb_true_iff in H; destruct H as [H ?]).
    repeat split.
    - apply str_eqb_eq in H. rewrite <- (plain_chars_codes (strip_i (chars name))) by (apply plain_strip, plain_chars).
      rewrite H. reflexivity.
    - match goal with X : negb _ = true |- _ => apply negb_true_iff in X; exact X end.
    - destruct (Expand.classify_pf pfnames (Expand.canon_pf pfnames name)); try discriminate; reflexivity.
    - assumption.
    - intros t Ht. match goal with X : match find_tpl lib name with _ => _ end = true |- _ => rewrite Ht in X; exact X end.
  Qed.

  (** The page that consists of the call, through Wtp.expand's model: recursive expansion, then finalisation *)
  Theorem flat_page nwmap name args :
    flat_ok pfnames lib name args = true -> o_tfn opts = [] -> o_pfn opts = [] ->
    exists F, forall fuel, (F <= fuel)%nat ->
      expand_page pfnames nwmap lib opts false fuel [T (chars name :: args)] = Some (codes (result_of lib name args)).
  Proof.
    intros Hok Htfn Hpfn.
    destruct (flat_ok_premises name args Hok) as (H1 & H2 & H3 & H4 & H5).
    destruct (flat_call name args H1 H2 H3 H4 Htfn Hpfn H5) as [F HF].
    exists (F + 2)%nat. intros fuel Hf.
    destruct fuel as [|f]; [lia|]. destruct f as [|f']; [lia|].
    unfold expand_page. cbn [negb].
    assert (Hr : expand_recurse (S (S f')) [FTitle] true [T (chars name :: args)] = Some (result_of lib name args ++ [])).
    { change (expand_recurse (S (S f')) [FTitle] true [T (chars name :: args)])
        with (match expand_recurse (S f') [FTitle] true [] with
              | None => None
              | Some rest' => match expand_T (S f') [FTitle] true (chars name :: args) with
                              | Some t => Some (t ++ rest') | None => None end
              end).
      cbn [Expand.expand_recurse]. rewrite (HF (S f')) by lia. reflexivity. }
    rewrite Hr, app_nil_r.
    rewrite <- (plain_chars_codes (result_of lib name args)) at 1 by (apply result_plain; assumption).
    rewrite finalize_plain by lia. reflexivity.
  Qed.

  (** A page of text and any number of flat calls: every call is replaced by the result of the rule, the text stays. *)
  Notation flat_item := (FlatCall.flat_item pfnames lib).
  Notation page_result := (FlatCall.page_result lib).

  Lemma page_result_plain page : forallb flat_item page = true -> plain (page_result page) = true.
  Proof.
    induction page as [|i page IH]; intros H; [reflexivity|]. cbn in H. apply andb_true_iff in H. destruct H as [Hi Hp].
    unfold FlatCall.page_result. cbn [flat_map]. rewrite plain_app. fold (page_result page). rewrite (IH Hp), andb_true_r.
    destruct i as [c|[|n args]| | | |]; try discriminate Hi; [reflexivity|].
    apply andb_true_iff in Hi. destruct Hi as [Hn Hok].
    destruct (flat_ok_premises _ _ Hok) as (_ & _ & _ & H4 & H5). apply result_plain; assumption.
  Qed.

  Theorem flat_pages nwmap page :
    forallb flat_item page = true -> o_tfn opts = [] -> o_pfn opts = [] ->
    exists F, forall fuel, (F <= fuel)%nat ->
      expand_page pfnames nwmap lib opts false fuel page = Some (codes (page_result page)).
  Proof.
    intros Hpage Htfn Hpfn.
    assert (Hrec : exists F, forall fuel, (F <= fuel)%nat ->
              expand_recurse fuel [FTitle] true page = Some (page_result page)).
    { induction page as [|i page IH].
      - exists 1%nat. intros fuel Hf. destruct fuel; [lia | reflexivity].
      - cbn in Hpage. apply andb_true_iff in Hpage. destruct Hpage as [Hi Hp].
        destruct (IH Hp) as [F HF].
        destruct i as [c|[|n args]| | | |]; try discriminate Hi.
        + exists (S F). intros fuel Hf. destruct fuel as [|f]; [lia|].
          cbn [Expand.expand_recurse]. rewrite (HF f) by lia. reflexivity.
        + apply andb_true_iff in Hi. destruct Hi as [Hn Hok].
          destruct (flat_ok_premises _ _ Hok) as (H1 & H2 & H3 & H4 & H5).
          destruct (flat_call (codes n) args H1 H2 H3 H4 Htfn Hpfn H5) as [G HG].
          exists (S (F + G)). intros fuel Hf. destruct fuel as [|f]; [lia|].
          assert (E : n = chars (codes n)) by (symmetry; apply plain_chars_codes; exact Hn).
          remember (codes n) as name eqn:En. rewrite E. clear E.
          change (expand_recurse (S f) [FTitle] true (T (chars name :: args) :: page))
            with (match expand_recurse f [FTitle] true page with
                  | None => None
                  | Some rest' => match expand_T f [FTitle] true (chars name :: args) with
                                  | Some t => Some (t ++ rest') | None => None end
                  end).
          rewrite (HF f) by lia. rewrite (HG f) by lia.
          unfold FlatCall.page_result. cbn [flat_map]. rewrite codes_chars. reflexivity. }
    destruct Hrec as [F HF]. exists (S F). intros fuel Hf.
    unfold expand_page. cbn [negb]. rewrite (HF fuel) by lia.
    rewrite <- (plain_chars_codes (page_result page)) at 1 by (apply page_result_plain; exact Hpage).
    rewrite finalize_plain by lia. reflexivity.
  Qed.

  (** Selective expansion of a page of text and flat calls (C13): with [pre_expand] the selected calls are replaced by
      the rule's result and every other call comes back as it was written. *)
  Notation page_result_sel := (FlatCall.page_result_sel lib (o_sel opts)).

  Lemma plain_join_i l : forallb plain l = true -> plain (join_i vbar l) = true.
  Proof.
    induction l as [|a l IH]; intros H; [reflexivity|]. cbn in H. apply andb_true_iff in H. destruct H as [Ha Hl].
    destruct l as [|b l]; [exact Ha|]. change (join_i vbar (a :: b :: l)) with (a ++ vbar ++ join_i vbar (b :: l)).
    rewrite !plain_app, Ha, (IH Hl). reflexivity.
  Qed.

  Lemma plain_unexpanded l : forallb plain l = true -> plain (unexpanded_template l) = true.
  Proof. intros H. unfold unexpanded_template. rewrite !plain_app, !plain_chars, (plain_join_i l H). reflexivity. Qed.

  Lemma page_result_sel_plain pre page : forallb flat_item page = true -> plain (page_result_sel pre page) = true.
  Proof.
    induction page as [|i page IH]; intros H; [reflexivity|]. cbn in H. apply andb_true_iff in H. destruct H as [Hi Hp].
    unfold FlatCall.page_result_sel. cbn [flat_map]. rewrite plain_app. fold (page_result_sel pre page). rewrite (IH Hp), andb_true_r.
    destruct i as [c|[|n args]| | | |]; try discriminate Hi; [reflexivity|].
    apply andb_true_iff in Hi. destruct Hi as [Hn Hok].
    destruct (flat_ok_premises _ _ Hok) as (_ & _ & _ & H4 & H5).
    destruct (negb pre || need_expand lib (o_sel opts) (codes n)); [apply result_plain; assumption|].
    apply plain_unexpanded. cbn [forallb]. rewrite Hn. exact H4.
  Qed.

  Theorem flat_pages_sel nwmap pre page :
    forallb flat_item page = true -> o_tfn opts = [] -> o_pfn opts = [] ->
    exists F, forall fuel, (F <= fuel)%nat ->
      expand_page pfnames nwmap lib opts pre fuel page = Some (codes (page_result_sel pre page)).
  Proof.
    intros Hpage Htfn Hpfn.
    assert (Hrec : exists F, forall fuel, (F <= fuel)%nat ->
              expand_recurse fuel [FTitle] (negb pre) page = Some (page_result_sel pre page)).
    { induction page as [|i page IH].
      - exists 1%nat. intros fuel Hf. destruct fuel; [lia | reflexivity].
      - cbn in Hpage. apply andb_true_iff in Hpage. destruct Hpage as [Hi Hp].
        destruct (IH Hp) as [F HF].
        destruct i as [c|[|n args]| | | |]; try discriminate Hi.
        + exists (S F). intros fuel Hf. destruct fuel as [|f]; [lia|].
          cbn [Expand.expand_recurse]. rewrite (HF f) by lia. reflexivity.
        + apply andb_true_iff in Hi. destruct Hi as [Hn Hok].
          destruct (flat_ok_premises _ _ Hok) as (H1 & H2 & H3 & H4 & H5).
          assert (Hd : (length [FTitle] < 100)%nat) by (cbn; lia).
          destruct (flat_call_sel [FTitle] (negb pre) (codes n) args Hd eq_refl H1 H2 H3 H4 Htfn Hpfn H5) as [G HG].
          exists (S (F + G)). intros fuel Hf. destruct fuel as [|f]; [lia|].
          assert (E : n = chars (codes n)) by (symmetry; apply plain_chars_codes; exact Hn).
          remember (codes n) as name eqn:En. rewrite E. clear E.
          change (expand_recurse (S f) [FTitle] (negb pre) (T (chars name :: args) :: page))
            with (match expand_recurse f [FTitle] (negb pre) page with
                  | None => None
                  | Some rest' => match expand_T f [FTitle] (negb pre) (chars name :: args) with
                                  | Some t => Some (t ++ rest') | None => None end
                  end).
          rewrite (HF f) by lia. rewrite (HG f) by lia.
          unfold FlatCall.page_result_sel. cbn [flat_map]. rewrite codes_chars. reflexivity. }
    destruct Hrec as [F HF]. exists (S F). intros fuel Hf.
    unfold expand_page. rewrite (HF fuel) by lia.
    rewrite <- (plain_chars_codes (page_result_sel pre page)) at 1 by (apply page_result_sel_plain; exact Hpage).
    rewrite finalize_plain by lia. reflexivity.
  Qed.

  (** #if with plain arguments (C04): {{#if: cond | a | b}} is a, trimmed, when cond is not blank, else b, trimmed (an
      absent argument is empty); a newline is put before a result that starts with a list or table marker. *)
  Lemma lstrip_i_app x y : lstrip_i (x ++ y) = match lstrip_i x with [] => lstrip_i y | z => z ++ y end.
  Proof.
    induction x as [|i x IH]; [reflexivity|]. cbn [app lstrip_i]. destruct (sp_item i); [exact IH | reflexivity].
  Qed.


  Lemma strip_if_head cond : strip_i (if_head ++ cond) = if_head ++ rstrip_i cond.
  Proof.
    unfold strip_i. assert (Hl : lstrip_i (if_head ++ cond) = if_head ++ cond) by reflexivity. rewrite Hl.
    unfold rstrip_i. rewrite rev_app_distr, lstrip_i_app.
    destruct (lstrip_i (rev cond)) eqn:E.
    - cbn. reflexivity.
    - rewrite rev_app_distr, rev_involutive. reflexivity.
  Qed.

  Lemma plain_rstrip a : plain a = true -> plain (rstrip_i a) = true.
  Proof. intros H. unfold rstrip_i. rewrite plain_rev. apply plain_lstrip. rewrite plain_rev. exact H. Qed.

  Lemma nth_plain (l : list enc) n : forallb plain l = true -> plain (nth n l []) = true.
  Proof.
    revert n. induction l as [|a l IH]; intros n H; [destruct n; reflexivity|].
    cbn in H. apply andb_true_iff in H. destruct H as [Ha Hl]. destruct n; [exact Ha | apply IH; exact Hl].
  Qed.

  Lemma nth_length_le (l : list enc) n : (length (nth n l []) <= fold_right (fun a m => (length a + m)%nat) 0%nat l)%nat.
  Proof.
    revert n. induction l as [|a l IH]; intros n; [destruct n; cbn; lia|].
    destruct n; cbn [nth fold_right]; [lia | specialize (IH n); lia].
  Qed.

  Lemma lstrip_idem y : lstrip_i (lstrip_i y) = lstrip_i y.
  Proof.
    induction y as [|z y IHy]; [reflexivity|]. cbn [lstrip_i]. destruct (sp_item z) eqn:Ez; [exact IHy|].
    cbn [lstrip_i]. rewrite Ez. reflexivity.
  Qed.

  Lemma rstrip_idem y : rstrip_i (rstrip_i y) = rstrip_i y.
  Proof. unfold rstrip_i. rewrite rev_involutive, lstrip_idem. reflexivity. Qed.

  Lemma rstrip_cons z y :
    rstrip_i (z :: y) = match rstrip_i y with [] => if sp_item z then [] else [z] | r => z :: r end.
  Proof.
    unfold rstrip_i. cbn [rev]. rewrite lstrip_i_app.
    destruct (lstrip_i (rev y)) as [|w ws] eqn:E.
    - cbn [rev lstrip_i]. destruct (sp_item z); reflexivity.
    - rewrite rev_app_distr. cbn [rev app].
      destruct (rev ws ++ [w]) eqn:E2; [destruct (rev ws); discriminate E2 | reflexivity].
  Qed.

  Lemma lstrip_rstrip_comm c : lstrip_i (rstrip_i c) = rstrip_i (lstrip_i c).
  Proof.
    induction c as [|z y IH]; [reflexivity|].
    rewrite rstrip_cons. cbn [lstrip_i]. destruct (sp_item z) eqn:Ez.
    - rewrite <- IH. destruct (rstrip_i y) as [|r rs]; [reflexivity|]. cbn [lstrip_i]. rewrite Ez. reflexivity.
    - rewrite rstrip_cons. destruct (rstrip_i y) as [|r rs]; cbn [lstrip_i]; rewrite Ez; reflexivity.
  Qed.

  Theorem if_plain stk ea cond more :
    (length stk < 100)%nat -> plain cond = true -> forallb plain more = true -> o_parserfns opts = true ->
    exists F, forall fuel, (F <= fuel)%nat ->
      expand_T fuel stk ea ((if_head ++ cond) :: more) = Some (if_result cond more).
  Proof.
    intros Hdepth Hc Hm Hpf.
    exists (length cond + fold_right (fun a m => (length a + m)%nat) 0%nat more + 20)%nat.
    intros fuel Hf. destruct fuel as [|f]; [lia|]. destruct f as [|f']; [lia|].
    rewrite expand_T_S. replace (Nat.leb 100 (length stk)) with false by (symmetry; apply Nat.leb_gt; exact Hdepth).
    assert (Hp : plain (if_head ++ cond) = true) by (rewrite plain_app, Hc; reflexivity).
    rewrite (expand_recurse_plain pfnames lib opts _ Hp) by (rewrite app_length; cbn; lia).
    cbv beta iota zeta. rewrite strip_if_head.
    assert (Hcodes : codes (if_head ++ rstrip_i cond) = 35 :: 105 :: 102 :: 58 :: codes (rstrip_i cond)) by reflexivity.
    rewrite Hcodes. cbn [index_of N.eqb Pos.eqb firstn skipn].
    assert (Hcanon : Expand.canon_pf pfnames [35; 105; 102] = [35; 105; 102]).
    { unfold Expand.canon_pf. cbn [collapse_ws_us is_space N.eqb orb]. destruct (in_names _ pfnames); reflexivity. }
    replace (35 =? 58) with false by reflexivity. replace (105 =? 58) with false by reflexivity.
    replace (102 =? 58) with false by reflexivity. replace (58 =? 58) with true by reflexivity.
    cbv beta iota. cbn [firstn]. rewrite Hcanon.
    assert (Hcl : Expand.classify_pf pfnames [35; 105; 102] = PfIf) by reflexivity. rewrite Hcl.
    cbn [skipn if_head chars s_if map app].
    rewrite expand_pf_S. rewrite Hpf. cbn [negb].
    set (c0 := lstrip_i (rstrip_i cond)).
    assert (Hc0 : plain c0 = true) by (apply plain_lstrip, plain_rstrip; exact Hc).
    assert (Lc0 : (length c0 <= length cond)%nat).
    { unfold c0, rstrip_i. assert (Ll : forall y, (length (lstrip_i y) <= length y)%nat).
      { induction y as [|z y IHy]; [cbn; lia|]. cbn [lstrip_i]. destruct (sp_item z); cbn; lia. }
      etransitivity; [apply Ll|]. rewrite rev_length. etransitivity; [apply Ll|]. rewrite rev_length. lia. }
    cbn [nth].
    rewrite (expand_recurse_plain pfnames lib opts c0 Hc0) by lia.
    cbn [option_map].
    assert (Hstrip : strip_i c0 = strip_i cond).
    { unfold c0, strip_i. rewrite lstrip_idem, lstrip_rstrip_comm, rstrip_idem. reflexivity. }
    rewrite Hstrip.
    unfold if_result.
    destruct (strip_i cond) eqn:Es.
    - assert (Hn := nth_plain more 1 Hm).
      rewrite (expand_recurse_plain pfnames lib opts _ Hn) by (assert (L := nth_length_le more 1); lia).
      reflexivity.
    - assert (Hn := nth_plain more 0 Hm).
      rewrite (expand_recurse_plain pfnames lib opts _ Hn) by (assert (L := nth_length_le more 0); lia).
      reflexivity.
  Qed.

  (** With expand_parserfns off (C13) an #if call is not evaluated: it is emitted as written - the function's name, the
      condition without the blanks around it, and the other arguments untouched (not expanded either). *)
  Theorem if_switched_off stk ea cond more :
    (length stk < 100)%nat -> plain cond = true -> o_parserfns opts = false ->
    exists F, forall fuel, (F <= fuel)%nat ->
      expand_T fuel stk ea ((if_head ++ cond) :: more)
      = Some (chars s_lbrace2 ++ chars [35; 105; 102] ++ [Ch 58] ++ join_i vbar (lstrip_i (rstrip_i cond) :: more)
              ++ chars s_rbrace2).
  Proof.
    intros Hdepth Hc Hpf.
    exists (length cond + 20)%nat.
    intros fuel Hf. destruct fuel as [|f]; [lia|]. destruct f as [|f']; [lia|].
    rewrite expand_T_S. replace (Nat.leb 100 (length stk)) with false by (symmetry; apply Nat.leb_gt; exact Hdepth).
    assert (Hp : plain (if_head ++ cond) = true) by (rewrite plain_app, Hc; reflexivity).
    rewrite (expand_recurse_plain pfnames lib opts _ Hp) by (rewrite app_length; cbn; lia).
    cbv beta iota zeta. rewrite strip_if_head.
    assert (Hcodes : codes (if_head ++ rstrip_i cond) = 35 :: 105 :: 102 :: 58 :: codes (rstrip_i cond)) by reflexivity.
    rewrite Hcodes. cbn [index_of N.eqb Pos.eqb firstn skipn].
    assert (Hcanon : Expand.canon_pf pfnames [35; 105; 102] = [35; 105; 102]).
    { unfold Expand.canon_pf. cbn [collapse_ws_us is_space N.eqb orb]. destruct (in_names _ pfnames); reflexivity. }
    replace (35 =? 58) with false by reflexivity. replace (105 =? 58) with false by reflexivity.
    replace (102 =? 58) with false by reflexivity. replace (58 =? 58) with true by reflexivity.
    cbv beta iota. cbn [firstn]. rewrite Hcanon.
    assert (Hcl : Expand.classify_pf pfnames [35; 105; 102] = PfIf) by reflexivity. rewrite Hcl.
    cbn [skipn if_head chars s_if map app].
    rewrite expand_pf_S. rewrite Hpf. cbn [negb]. reflexivity.
  Qed.

  (** #ifeq with plain arguments (C04): {{#ifeq: x | y | a | b}} is a when x and y, trimmed, are equal (ParserFns.mw_equal:
      as numbers when both are numbers, else as text), else b. *)
  Notation ifeq_head := FlatCall.ifeq_head.
  Notation ifeq_result := FlatCall.ifeq_result.

  Lemma strip_ifeq_head cond : strip_i (ifeq_head ++ cond) = ifeq_head ++ rstrip_i cond.
  Proof.
    unfold strip_i. assert (Hl : lstrip_i (ifeq_head ++ cond) = ifeq_head ++ cond) by reflexivity. rewrite Hl.
    unfold rstrip_i. rewrite rev_app_distr, lstrip_i_app.
    destruct (lstrip_i (rev cond)) eqn:E.
    - cbn. reflexivity.
    - rewrite rev_app_distr, rev_involutive. reflexivity.
  Qed.

  Lemma str_eqb_codes_plain x y : plain x = true -> plain y = true -> str_eqb (codes x) (codes y) = true -> x = y.
  Proof.
    intros Hx Hy H. apply str_eqb_eq in H. rewrite <- (plain_chars_codes x Hx), <- (plain_chars_codes y Hy), H. reflexivity.
  Qed.

  Theorem ifeq_plain stk ea x more :
    (length stk < 100)%nat -> plain x = true -> forallb plain more = true -> o_parserfns opts = true ->
    exists F, forall fuel, (F <= fuel)%nat ->
      expand_T fuel stk ea ((ifeq_head ++ x) :: more) = Some (ifeq_result x more).
  Proof.
    intros Hdepth Hc Hm Hpf.
    exists (length x + fold_right (fun a m => (length a + m)%nat) 0%nat more + 20)%nat.
    intros fuel Hf. destruct fuel as [|f]; [lia|]. destruct f as [|f']; [lia|].
    rewrite expand_T_S. replace (Nat.leb 100 (length stk)) with false by (symmetry; apply Nat.leb_gt; exact Hdepth).
    assert (Hp : plain (ifeq_head ++ x) = true) by (rewrite plain_app, Hc; reflexivity).
    rewrite (expand_recurse_plain pfnames lib opts _ Hp) by (rewrite app_length; cbn; lia).
    cbv beta iota zeta. rewrite strip_ifeq_head.
    assert (Hcodes : codes (ifeq_head ++ rstrip_i x) = 35 :: 105 :: 102 :: 101 :: 113 :: 58 :: codes (rstrip_i x)) by reflexivity.
    rewrite Hcodes. cbn [index_of].
    replace (35 =? 58) with false by reflexivity. replace (105 =? 58) with false by reflexivity.
    replace (102 =? 58) with false by reflexivity. replace (101 =? 58) with false by reflexivity.
    replace (113 =? 58) with false by reflexivity. replace (58 =? 58) with true by reflexivity.
    cbv beta iota. cbn [firstn].
    assert (Hcanon : Expand.canon_pf pfnames [35; 105; 102; 101; 113] = [35; 105; 102; 101; 113]).
    { unfold Expand.canon_pf. cbn [collapse_ws_us is_space N.eqb orb]. destruct (in_names _ pfnames); reflexivity. }
    rewrite Hcanon.
    assert (Hcl : Expand.classify_pf pfnames [35; 105; 102; 101; 113] = PfIfeq) by reflexivity. rewrite Hcl.
    cbn [skipn FlatCall.ifeq_head chars s_ifeq map app].
    rewrite expand_pf_S. rewrite Hpf. cbn [negb].
    set (c0 := lstrip_i (rstrip_i x)).
    assert (Hc0 : plain c0 = true) by (apply plain_lstrip, plain_rstrip; exact Hc).
    assert (Lc0 : (length c0 <= length x)%nat).
    { unfold c0, rstrip_i. assert (Ll : forall y, (length (lstrip_i y) <= length y)%nat).
      { induction y as [|z y IHy]; [cbn; lia|]. cbn [lstrip_i]. destruct (sp_item z); cbn; lia. }
      etransitivity; [apply Ll|]. rewrite rev_length. etransitivity; [apply Ll|]. rewrite rev_length. lia. }
    cbn [nth].
    rewrite (expand_recurse_plain pfnames lib opts c0 Hc0) by lia.
    assert (Hn0 := nth_plain more 0 Hm).
    rewrite (expand_recurse_plain pfnames lib opts _ Hn0) by (assert (L := nth_length_le more 0); lia).
    cbn [option_map].
    assert (Hstrip : strip_i c0 = strip_i x).
    { unfold c0, strip_i. rewrite lstrip_idem, lstrip_rstrip_comm, rstrip_idem. reflexivity. }
    rewrite Hstrip.
    assert (Hsx : plain (strip_i x) = true) by (apply plain_strip; exact Hc).
    assert (Hsy : plain (strip_i (nth 0 more [])) = true) by (apply plain_strip; exact Hn0).
    unfold FlatCall.ifeq_result.
    assert (Hpl : forall e, plain e = true -> forallb is_ch e = true) by (intros e He; exact He).
    rewrite (Hpl _ Hsx), (Hpl _ Hsy), andb_true_r, andb_true_r.
    destruct (mw_equal (codes (strip_i x)) (codes (strip_i (nth 0 more [])))) eqn:Eq.
    - assert (Hn := nth_plain more 1 Hm).
      rewrite (expand_recurse_plain pfnames lib opts _ Hn) by (assert (L := nth_length_le more 1); lia).
      reflexivity.
    - assert (Hne : str_eqb (codes (strip_i x)) (codes (strip_i (nth 0 more []))) = false).
      { unfold mw_equal in Eq. apply orb_false_iff in Eq. exact (proj1 Eq). }
      rewrite Hne.
      assert (Hn := nth_plain more 2 Hm).
      rewrite (expand_recurse_plain pfnames lib opts _ Hn) by (assert (L := nth_length_le more 2); lia).
      reflexivity.
  Qed.

  (** #switch with plain keyed cases (C04): {{#switch: x | k1 = v1 | k2 = v2 | ... }}, every case of the form key=value, is
      the value of the first case whose key equals x (ParserFns.mw_equal, both trimmed), else the value of the last
      "#default = v" case, else empty. *)
  Notation switch_head := FlatCall.switch_head.
  Notation mkcase := FlatCall.mkcase.
  Notation case_ok := FlatCall.case_ok.
  Notation switch_result := FlatCall.switch_result.

  Lemma strip_switch_head cond : strip_i (switch_head ++ cond) = switch_head ++ rstrip_i cond.
  Proof.
    unfold strip_i. assert (Hl : lstrip_i (switch_head ++ cond) = switch_head ++ cond) by reflexivity. rewrite Hl.
    unfold rstrip_i. rewrite rev_app_distr, lstrip_i_app.
    destruct (lstrip_i (rev cond)) eqn:E.
    - cbn. reflexivity.
    - rewrite rev_app_distr, rev_involutive. reflexivity.
  Qed.

  Lemma split_switch_case k v :
    forallb (fun i => negb (is_code 61 i) && negb (is_code 60 i)) k = true ->
    Expand.split_switch (k ++ Ch 61 :: v) = Some (k, v).
  Proof.
    induction k as [|i k IH]; intros H; [reflexivity|].
    cbn in H. apply andb_true_iff in H. destruct H as [Hi Hk]. apply andb_true_iff in Hi. destruct Hi as [H61 H60].
    apply negb_true_iff in H61. apply negb_true_iff in H60.
    cbn [app Expand.split_switch]. rewrite H61, H60, (IH Hk). reflexivity.
  Qed.

  Definition cases_size (cases : list (enc * enc)) : nat :=
    fold_right (fun kv n => (length (fst kv) + length (snd kv) + 2 + n)%nat) 0%nat cases.

  Lemma switch_loop_simple stk1 val : forall cases d f,
    forallb case_ok cases = true -> (match d with Some x => plain x = true | None => True end) ->
    (cases_size cases + match d with Some x => length x | None => 0 end + 2 < f)%nat ->
    switch_loop f stk1 val (map mkcase cases) false false d None = Some (switch_result val cases d).
  Proof.
    induction cases as [|[k v] cases IH]; intros d f Hok Hd Hf.
    - destruct f as [|f]; [lia|]. rewrite switch_loop_S. cbn [map].
      destruct d as [x|]; [|reflexivity].
      cbn [FlatCall.switch_result]. rewrite (expand_recurse_plain pfnames lib opts x Hd) by (cbn in Hf; lia). reflexivity.
    - destruct f as [|f]; [lia|]. rewrite switch_loop_S. cbn [map].
      cbn in Hok. apply andb_true_iff in Hok. destruct Hok as [Hkv Hrest].
      unfold FlatCall.case_ok in Hkv. cbn [fst snd] in Hkv.
      apply andb_true_iff in Hkv. destruct Hkv as [Hkv Hv]. apply andb_true_iff in Hkv. destruct Hkv as [Hk Hne].
      unfold FlatCall.mkcase at 1. cbn [fst snd].
      rewrite (split_switch_case k v Hne).
      cbn [negb andb]. cbv beta iota zeta.
      unfold cases_size in Hf. cbn [fold_right fst snd] in Hf. fold (cases_size cases) in Hf.
      rewrite (expand_recurse_plain pfnames lib opts k Hk) by lia.
      cbn [option_map]. rewrite orb_false_r.
      cbn [FlatCall.switch_result].
      destruct (mw_equal (codes (strip_i k)) (codes val)) eqn:Em.
      + rewrite (expand_recurse_plain pfnames lib opts v Hv) by lia. reflexivity.
      + destruct (str_eqb (lower (codes (strip_i k))) s_default) eqn:Ed.
        * apply IH; [exact Hrest | exact Hv | cbn; lia].
        * apply IH; [exact Hrest | exact Hd | destruct d; cbn in *; lia].
  Qed.

  Theorem switch_plain stk ea x cases :
    (length stk < 100)%nat -> plain x = true -> forallb case_ok cases = true -> o_parserfns opts = true ->
    exists F, forall fuel, (F <= fuel)%nat ->
      expand_T fuel stk ea ((switch_head ++ x) :: map mkcase cases)
      = Some (add_newline (switch_result (strip_i x) cases None)).
  Proof.
    intros Hdepth Hc Hm Hpf.
    exists (length x + cases_size cases + 30)%nat.
    intros fuel Hf. destruct fuel as [|f]; [lia|]. destruct f as [|f']; [lia|].
    rewrite expand_T_S. replace (Nat.leb 100 (length stk)) with false by (symmetry; apply Nat.leb_gt; exact Hdepth).
    assert (Hp : plain (switch_head ++ x) = true) by (rewrite plain_app, Hc; reflexivity).
    rewrite (expand_recurse_plain pfnames lib opts _ Hp) by (rewrite app_length; cbn; lia).
    cbv beta iota zeta. rewrite strip_switch_head.
    assert (Hcodes : codes (switch_head ++ rstrip_i x)
                     = 35 :: 115 :: 119 :: 105 :: 116 :: 99 :: 104 :: 58 :: codes (rstrip_i x)) by reflexivity.
    rewrite Hcodes. cbn [index_of].
    replace (35 =? 58) with false by reflexivity. replace (115 =? 58) with false by reflexivity.
    replace (119 =? 58) with false by reflexivity. replace (105 =? 58) with false by reflexivity.
    replace (116 =? 58) with false by reflexivity. replace (99 =? 58) with false by reflexivity.
    replace (104 =? 58) with false by reflexivity. replace (58 =? 58) with true by reflexivity.
    cbv beta iota. cbn [firstn].
    assert (Hcanon : Expand.canon_pf pfnames [35; 115; 119; 105; 116; 99; 104] = [35; 115; 119; 105; 116; 99; 104]).
    { unfold Expand.canon_pf. cbn [collapse_ws_us is_space N.eqb orb]. destruct (in_names _ pfnames); reflexivity. }
    rewrite Hcanon.
    assert (Hcl : Expand.classify_pf pfnames [35; 115; 119; 105; 116; 99; 104] = PfSwitch) by reflexivity. rewrite Hcl.
    cbn [skipn FlatCall.switch_head chars s_switch map app].
    rewrite expand_pf_S. rewrite Hpf. cbn [negb].
    set (c0 := lstrip_i (rstrip_i x)).
    assert (Hc0 : plain c0 = true) by (apply plain_lstrip, plain_rstrip; exact Hc).
    assert (Lc0 : (length c0 <= length x)%nat).
    { unfold c0, rstrip_i. assert (Ll : forall y, (length (lstrip_i y) <= length y)%nat).
      { induction y as [|z y IHy]; [cbn; lia|]. cbn [lstrip_i]. destruct (sp_item z); cbn; lia. }
      etransitivity; [apply Ll|]. rewrite rev_length. etransitivity; [apply Ll|]. rewrite rev_length. lia. }
    cbv beta iota zeta.
    rewrite (expand_recurse_plain pfnames lib opts c0 Hc0) by lia.
    cbn [option_map].
    assert (Hstrip : strip_i c0 = strip_i x).
    { unfold c0, strip_i. rewrite lstrip_idem, lstrip_rstrip_comm, rstrip_idem. reflexivity. }
    rewrite Hstrip.
    rewrite (switch_loop_simple _ (strip_i x) cases None f' Hm I) by lia.
    reflexivity.
  Qed.


  (** ... with a final item without "=" (the default, whatever "#default=" said before) *)
  Lemma split_switch_bare a :
    forallb (fun i => negb (is_code 61 i)) a = true -> Expand.split_switch a = None.
  Proof.
    induction a as [|i a IH]; intros H; [reflexivity|].
    cbn in H. apply andb_true_iff in H. destruct H as [Hi Ha]. apply negb_true_iff in Hi.
    cbn [Expand.split_switch]. rewrite Hi, (IH Ha). destruct (is_code 60 i); reflexivity.
  Qed.

  Lemma switch_loop_trailing stk1 val last : FlatCall.bare_ok last = true -> forall cases d f,
    forallb case_ok cases = true ->
    (cases_size cases + length last + 3 < f)%nat ->
    switch_loop f stk1 val (map mkcase cases ++ [last]) false false d None
    = Some (FlatCall.switch_trailing_result val cases last).
  Proof.
    intros Hl. unfold FlatCall.bare_ok in Hl. apply andb_true_iff in Hl. destruct Hl as [Hlp Hl61].
    induction cases as [|[k v] cases IH]; intros d f Hok Hf.
    - destruct f as [|f]; [lia|]. rewrite switch_loop_S. cbn [map app].
      rewrite (split_switch_bare last Hl61). cbv beta iota zeta.
      rewrite (expand_recurse_plain pfnames lib opts last Hlp) by (cbn in Hf; lia).
      cbn [option_map]. destruct f as [|f]; [cbn in Hf; lia|]. rewrite switch_loop_S. reflexivity.
    - destruct f as [|f]; [lia|]. rewrite switch_loop_S. cbn [map app].
      cbn in Hok. apply andb_true_iff in Hok. destruct Hok as [Hkv Hrest].
      unfold FlatCall.case_ok in Hkv. cbn [fst snd] in Hkv.
      apply andb_true_iff in Hkv. destruct Hkv as [Hkv Hv]. apply andb_true_iff in Hkv. destruct Hkv as [Hk Hne].
      unfold FlatCall.mkcase at 1. cbn [fst snd].
      rewrite (split_switch_case k v Hne).
      cbn [negb andb]. cbv beta iota zeta.
      unfold cases_size in Hf. cbn [fold_right fst snd] in Hf. fold (cases_size cases) in Hf.
      rewrite (expand_recurse_plain pfnames lib opts k Hk) by lia.
      cbn [option_map]. rewrite orb_false_r.
      cbn [FlatCall.switch_trailing_result].
      destruct (mw_equal (codes (strip_i k)) (codes val)) eqn:Em.
      + rewrite (expand_recurse_plain pfnames lib opts v Hv) by lia. reflexivity.
      + apply IH; [exact Hrest | lia].
  Qed.

  Theorem switch_trailing stk ea x cases last :
    (length stk < 100)%nat -> plain x = true -> forallb case_ok cases = true -> FlatCall.bare_ok last = true ->
    o_parserfns opts = true ->
    exists F, forall fuel, (F <= fuel)%nat ->
      expand_T fuel stk ea ((switch_head ++ x) :: map mkcase cases ++ [last])
      = Some (add_newline (FlatCall.switch_trailing_result (strip_i x) cases last)).
  Proof.
    intros Hdepth Hc Hm Hlast Hpf.
    exists (length x + cases_size cases + length last + 30)%nat.
    intros fuel Hf. destruct fuel as [|f]; [lia|]. destruct f as [|f']; [lia|].
    rewrite expand_T_S. replace (Nat.leb 100 (length stk)) with false by (symmetry; apply Nat.leb_gt; exact Hdepth).
    assert (Hp : plain (switch_head ++ x) = true) by (rewrite plain_app, Hc; reflexivity).
    rewrite (expand_recurse_plain pfnames lib opts _ Hp) by (rewrite app_length; cbn; lia).
    cbv beta iota zeta. rewrite strip_switch_head.
    assert (Hcodes : codes (switch_head ++ rstrip_i x)
                     = 35 :: 115 :: 119 :: 105 :: 116 :: 99 :: 104 :: 58 :: codes (rstrip_i x)) by reflexivity.
    rewrite Hcodes. cbn [index_of].
    replace (35 =? 58) with false by reflexivity. replace (115 =? 58) with false by reflexivity.
    replace (119 =? 58) with false by reflexivity. replace (105 =? 58) with false by reflexivity.
    replace (116 =? 58) with false by reflexivity. replace (99 =? 58) with false by reflexivity.
    replace (104 =? 58) with false by reflexivity. replace (58 =? 58) with true by reflexivity.
    cbv beta iota. cbn [firstn].
    assert (Hcanon : Expand.canon_pf pfnames [35; 115; 119; 105; 116; 99; 104] = [35; 115; 119; 105; 116; 99; 104]).
    { unfold Expand.canon_pf. cbn [collapse_ws_us is_space N.eqb orb]. destruct (in_names _ pfnames); reflexivity. }
    rewrite Hcanon.
    assert (Hcl : Expand.classify_pf pfnames [35; 115; 119; 105; 116; 99; 104] = PfSwitch) by reflexivity. rewrite Hcl.
    cbn [skipn FlatCall.switch_head chars s_switch map app].
    rewrite expand_pf_S. rewrite Hpf. cbn [negb].
    set (c0 := lstrip_i (rstrip_i x)).
    assert (Hc0 : plain c0 = true) by (apply plain_lstrip, plain_rstrip; exact Hc).
    assert (Lc0 : (length c0 <= length x)%nat).
    { unfold c0, rstrip_i. assert (Ll : forall y, (length (lstrip_i y) <= length y)%nat).
      { induction y as [|z y IHy]; [cbn; lia|]. cbn [lstrip_i]. destruct (sp_item z); cbn; lia. }
      etransitivity; [apply Ll|]. rewrite rev_length. etransitivity; [apply Ll|]. rewrite rev_length. lia. }
    cbv beta iota zeta.
    rewrite (expand_recurse_plain pfnames lib opts c0 Hc0) by lia.
    cbn [option_map].
    assert (Hstrip : strip_i c0 = strip_i x).
    { unfold c0, strip_i. rewrite lstrip_idem, lstrip_rstrip_comm, rstrip_idem. reflexivity. }
    rewrite Hstrip.
    rewrite (switch_loop_trailing _ (strip_i x) last Hlast cases None f' Hm) by lia.
    reflexivity.
  Qed.

  (** Calls inside the arguments of a call (C04: arguments are expanded in the caller's frame). *)
  Lemma existsb_rev {A} (f : A -> bool) l : existsb f (rev l) = existsb f l.
  Proof.
    induction l as [|x l IH]; [reflexivity|]. cbn [rev existsb]. rewrite existsb_app, IH. cbn. rewrite orb_false_r. apply orb_comm.
  Qed.

  (* a template that is not on the expansion path yet cannot be looping *)
  Lemma detect_loop_fresh stk fr : existsb (frame_eqb fr) stk = false -> detect_loop (stk ++ [fr]) = false.
  Proof.
    intros H. unfold detect_loop. destruct (Nat.ltb (length (stk ++ [fr])) 2); [reflexivity|].
    rewrite rev_app_distr. cbn [rev app]. rewrite existsb_rev, H. reflexivity.
  Qed.

  Definition fresh_items (stk : list frame) (page : enc) : bool :=
    forallb (fun i => match i with T (n :: _) => negb (existsb (frame_eqb (FTemplate (codes n))) stk) | _ => true end) page.

  (* text and flat calls, expanded anywhere below the depth limit where none of the called templates is being expanded;
     the fuel that suffices does not depend on where *)
  Lemma expand_items_at page :
    forallb flat_item page = true -> o_tfn opts = [] -> o_pfn opts = [] ->
    exists F, forall stk fuel, (length stk < 100)%nat -> fresh_items stk page = true -> (F <= fuel)%nat ->
      expand_recurse fuel stk true page = Some (page_result page).
  Proof.
    intros Hpage Htfn Hpfn.
    induction page as [|i page IH].
    - exists 1%nat. intros stk fuel _ _ Hf. destruct fuel; [lia | reflexivity].
    - cbn in Hpage. apply andb_true_iff in Hpage. destruct Hpage as [Hi Hp].
      destruct (IH Hp) as [F HF].
      destruct i as [c|[|n args]| | | |]; try discriminate Hi.
      + exists (S F). intros stk fuel Hd Hfresh Hf. destruct fuel as [|f]; [lia|].
        cbn in Hfresh.
        cbn [Expand.expand_recurse]. rewrite (HF stk f Hd Hfresh) by lia. reflexivity.
      + apply andb_true_iff in Hi. destruct Hi as [Hn Hok].
        destruct (flat_ok_premises _ _ Hok) as (H1 & H2 & H3 & H4 & H5).
        destruct (flat_call_uniform (codes n) args H1 H2 H3 H4 Htfn Hpfn H5) as [G HG].
        exists (S (F + G)). intros stk fuel Hd Hfresh Hf. destruct fuel as [|f]; [lia|].
        cbn in Hfresh. apply andb_true_iff in Hfresh. destruct Hfresh as [Hfi Hfp].
        apply negb_true_iff in Hfi.
        assert (E : n = chars (codes n)) by (symmetry; apply plain_chars_codes; exact Hn).
        remember (codes n) as name eqn:En. rewrite E. clear E.
        change (expand_recurse (S f) stk true (T (chars name :: args) :: page))
          with (match expand_recurse f stk true page with
                | None => None
                | Some rest' => match expand_T f stk true (chars name :: args) with
                                | Some t => Some (t ++ rest') | None => None end
                end).
        rewrite (HF stk f Hd Hfp) by lia. rewrite (HG stk f Hd (detect_loop_fresh _ _ Hfi)) by lia.
        unfold FlatCall.page_result. cbn [flat_map]. rewrite codes_chars. reflexivity.
  Qed.

  Notation nested_arg_ok := (FlatCall.nested_arg_ok pfnames lib).
  Notation bind_nested := (FlatCall.bind_nested lib).

  Lemma items_ok_split outer e :
    forallb (fun i => flat_item i && match i with T (n :: _) => negb (str_eqb (codes n) outer) | _ => true end) e = true ->
    forallb flat_item e = true /\
    forall k, fresh_items [FTitle; FTemplate outer; FArgVal k] e = true.
  Proof.
    intros H. split.
    - apply forallb_forall. intros x Hx. rewrite forallb_forall in H. specialize (H x Hx). apply andb_true_iff in H. tauto.
    - intros k. unfold fresh_items. apply forallb_forall. intros x Hx. rewrite forallb_forall in H. specialize (H x Hx).
      apply andb_true_iff in H. destruct H as [_ H]. destruct x as [c|[|n args]| | | |]; try reflexivity.
      cbn [existsb frame_eqb orb]. rewrite orb_false_r. exact H.
  Qed.

  (** #if with calls in its branches (C04): the chosen branch is expanded where the #if stands *)
  Lemma fresh_items_fn stk fn page : fresh_items (stk ++ [FFn fn]) page = fresh_items stk page.
  Proof.
    unfold fresh_items. induction page as [|i page IH]; [reflexivity|]. cbn [forallb]. rewrite IH. f_equal.
    destruct i as [c|[|n args]| | | |]; try reflexivity.
    rewrite existsb_app. cbn [existsb]. rewrite !orb_false_r. reflexivity.
  Qed.

  Lemma nth_flat (l : list enc) n : forallb (forallb flat_item) l = true -> forallb flat_item (nth n l []) = true.
  Proof.
    revert n. induction l as [|a l IH]; intros n H; [destruct n; reflexivity|].
    cbn in H. apply andb_true_iff in H. destruct H as [Ha Hl]. destruct n; [exact Ha | apply IH; exact Hl].
  Qed.

  Lemma nth_fresh stk (l : list enc) n : forallb (fresh_items stk) l = true -> fresh_items stk (nth n l []) = true.
  Proof.
    revert n. induction l as [|a l IH]; intros n H; [destruct n; reflexivity|].
    cbn in H. apply andb_true_iff in H. destruct H as [Ha Hl]. destruct n; [exact Ha | apply IH; exact Hl].
  Qed.

  Theorem if_calls cond more :
    FlatCall.if_calls_ok pfnames lib cond more = true -> o_parserfns opts = true -> o_tfn opts = [] -> o_pfn opts = [] ->
    exists F, forall stk ea fuel, (length stk < 98)%nat -> forallb (fresh_items stk) more = true -> (F <= fuel)%nat ->
      expand_T fuel stk ea ((if_head ++ cond) :: more) = Some (FlatCall.if_calls_result lib cond more).
  Proof.
    intros Hok Hpf Htfn Hpfn. unfold FlatCall.if_calls_ok in Hok. apply andb_true_iff in Hok. destruct Hok as [Hc Hm].
    destruct (expand_items_at (nth 0 more []) (nth_flat more 0 Hm) Htfn Hpfn) as [F0 HF0].
    destruct (expand_items_at (nth 1 more []) (nth_flat more 1 Hm) Htfn Hpfn) as [F1 HF1].
    exists (length cond + F0 + F1 + 20)%nat.
    intros stk ea fuel Hdepth Hfresh Hf. destruct fuel as [|f]; [lia|]. destruct f as [|f']; [lia|].
    rewrite expand_T_S. replace (Nat.leb 100 (length stk)) with false by (symmetry; apply Nat.leb_gt; lia).
    assert (Hp : plain (if_head ++ cond) = true) by (rewrite plain_app, Hc; reflexivity).
    rewrite (expand_recurse_plain pfnames lib opts _ Hp) by (rewrite app_length; cbn; lia).
    cbv beta iota zeta. rewrite strip_if_head.
    assert (Hcodes : codes (if_head ++ rstrip_i cond) = 35 :: 105 :: 102 :: 58 :: codes (rstrip_i cond)) by reflexivity.
    rewrite Hcodes. cbn [index_of N.eqb Pos.eqb firstn skipn].
    assert (Hcanon : Expand.canon_pf pfnames [35; 105; 102] = [35; 105; 102]).
    { unfold Expand.canon_pf. cbn [collapse_ws_us is_space N.eqb orb]. destruct (in_names _ pfnames); reflexivity. }
    replace (35 =? 58) with false by reflexivity. replace (105 =? 58) with false by reflexivity.
    replace (102 =? 58) with false by reflexivity. replace (58 =? 58) with true by reflexivity.
    cbv beta iota. cbn [firstn]. rewrite Hcanon.
    assert (Hcl : Expand.classify_pf pfnames [35; 105; 102] = PfIf) by reflexivity. rewrite Hcl.
    cbn [skipn if_head chars s_if map app].
    rewrite expand_pf_S. rewrite Hpf. cbn [negb].
    set (c0 := lstrip_i (rstrip_i cond)).
    assert (Hc0 : plain c0 = true) by (apply plain_lstrip, plain_rstrip; exact Hc).
    assert (Lc0 : (length c0 <= length cond)%nat).
    { unfold c0, rstrip_i. assert (Ll : forall y, (length (lstrip_i y) <= length y)%nat).
      { induction y as [|z y IHy]; [cbn; lia|]. cbn [lstrip_i]. destruct (sp_item z); cbn; lia. }
      etransitivity; [apply Ll|]. rewrite rev_length. etransitivity; [apply Ll|]. rewrite rev_length. lia. }
    cbn [nth].
    rewrite (expand_recurse_plain pfnames lib opts c0 Hc0) by lia.
    cbn [option_map].
    assert (Hstrip : strip_i c0 = strip_i cond).
    { unfold c0, strip_i. rewrite lstrip_idem, lstrip_rstrip_comm, rstrip_idem. reflexivity. }
    rewrite Hstrip.
    unfold FlatCall.if_calls_result.
    set (stk2 := ((stk ++ [FFn [35; 105; 102]]) ++ [FFn [35; 105; 102]])).
    assert (Hd2 : (length stk2 < 100)%nat) by (unfold stk2; rewrite !app_length; cbn; lia).
    assert (Hfr : forall n, fresh_items stk2 (nth n more []) = true).
    { intros n. unfold stk2. rewrite !fresh_items_fn. apply nth_fresh. exact Hfresh. }
    destruct (strip_i cond) eqn:Es.
    - rewrite (HF1 stk2 f' Hd2 (Hfr 1%nat)) by lia. reflexivity.
    - rewrite (HF0 stk2 f' Hd2 (Hfr 0%nat)) by lia. reflexivity.
  Qed.

  Lemma fresh_items_tn stk page : fresh_items (stk ++ [FTemplateName]) page = fresh_items stk page.
  Proof.
    unfold fresh_items. induction page as [|i page IH]; [reflexivity|]. cbn [forallb]. rewrite IH. f_equal.
    destruct i as [c|[|n args]| | | |]; try reflexivity.
    rewrite existsb_app. cbn [existsb]. rewrite !orb_false_r. reflexivity.
  Qed.

  Lemma page_result_app a b : page_result (a ++ b) = page_result a ++ page_result b.
  Proof. unfold FlatCall.page_result. apply flat_map_app. Qed.

  Lemma page_result_of_plain a : plain a = true -> page_result a = a.
  Proof.
    induction a as [|i a IH]; intros H; [reflexivity|]. cbn in H. apply andb_true_iff in H. destruct H as [Hi Ha].
    destruct i; try discriminate Hi. unfold FlatCall.page_result in *. cbn [flat_map app]. rewrite (IH Ha). reflexivity.
  Qed.

  Lemma plain_flat a : plain a = true -> forallb flat_item a = true.
  Proof.
    induction a as [|i a IH]; intros H; [reflexivity|]. cbn in H. apply andb_true_iff in H. destruct H as [Hi Ha].
    destruct i; try discriminate Hi. cbn [forallb FlatCall.flat_item]. rewrite (IH Ha). reflexivity.
  Qed.

  Theorem if_cond_calls cond more :
    FlatCall.if_cond_calls_ok pfnames lib cond more = true -> o_parserfns opts = true -> o_tfn opts = [] -> o_pfn opts = [] ->
    exists F, forall stk fuel, (length stk < 98)%nat -> fresh_items stk cond = true ->
      forallb (fresh_items stk) more = true -> (F <= fuel)%nat ->
      expand_T fuel stk true ((if_head ++ cond) :: more) = Some (FlatCall.if_cond_calls_result lib cond more).
  Proof.
    intros Hok Hpf Htfn Hpfn. unfold FlatCall.if_cond_calls_ok in Hok. apply andb_true_iff in Hok. destruct Hok as [Hc Hm].
    assert (Hhead : forallb flat_item (if_head ++ cond) = true).
    { rewrite forallb_app, Hc. reflexivity. }
    destruct (expand_items_at (if_head ++ cond) Hhead Htfn Hpfn) as [Fc HFc].
    destruct (expand_items_at (nth 0 more []) (nth_flat more 0 Hm) Htfn Hpfn) as [F0 HF0].
    destruct (expand_items_at (nth 1 more []) (nth_flat more 1 Hm) Htfn Hpfn) as [F1 HF1].
    set (cond' := page_result cond).
    assert (Hc' : plain cond' = true) by (apply page_result_plain; exact Hc).
    exists (Fc + length cond' + F0 + F1 + 20)%nat.
    intros stk fuel Hdepth Hfc Hfresh Hf. destruct fuel as [|f]; [lia|]. destruct f as [|f']; [lia|].
    rewrite expand_T_S. replace (Nat.leb 100 (length stk)) with false by (symmetry; apply Nat.leb_gt; lia).
    assert (Hfr0 : fresh_items (stk ++ [FTemplateName]) (if_head ++ cond) = true).
    { rewrite fresh_items_tn. unfold fresh_items. rewrite forallb_app. fold (fresh_items stk cond). rewrite Hfc. reflexivity. }
    rewrite (HFc (stk ++ [FTemplateName]) (S f') ltac:(rewrite app_length; cbn; lia) Hfr0) by lia.
    rewrite page_result_app, (page_result_of_plain if_head) by reflexivity. fold cond'.
    cbv beta iota zeta. rewrite strip_if_head.
    assert (Hcodes : codes (if_head ++ rstrip_i cond') = 35 :: 105 :: 102 :: 58 :: codes (rstrip_i cond')) by reflexivity.
    rewrite Hcodes. cbn [index_of N.eqb Pos.eqb firstn skipn].
    assert (Hcanon : Expand.canon_pf pfnames [35; 105; 102] = [35; 105; 102]).
    { unfold Expand.canon_pf. cbn [collapse_ws_us is_space N.eqb orb]. destruct (in_names _ pfnames); reflexivity. }
    replace (35 =? 58) with false by reflexivity. replace (105 =? 58) with false by reflexivity.
    replace (102 =? 58) with false by reflexivity. replace (58 =? 58) with true by reflexivity.
    cbv beta iota. cbn [firstn]. rewrite Hcanon.
    assert (Hcl : Expand.classify_pf pfnames [35; 105; 102] = PfIf) by reflexivity. rewrite Hcl.
    cbn [skipn if_head chars s_if map app].
    rewrite expand_pf_S. rewrite Hpf. cbn [negb].
    set (c0 := lstrip_i (rstrip_i cond')).
    assert (Hc0 : plain c0 = true) by (apply plain_lstrip, plain_rstrip; exact Hc').
    assert (Lc0 : (length c0 <= length cond')%nat).
    { unfold c0, rstrip_i. assert (Ll : forall y, (length (lstrip_i y) <= length y)%nat).
      { induction y as [|z y IHy]; [cbn; lia|]. cbn [lstrip_i]. destruct (sp_item z); cbn; lia. }
      etransitivity; [apply Ll|]. rewrite rev_length. etransitivity; [apply Ll|]. rewrite rev_length. lia. }
    cbn [nth].
    rewrite (expand_recurse_plain pfnames lib opts c0 Hc0) by lia.
    cbn [option_map].
    assert (Hstrip : strip_i c0 = strip_i cond').
    { unfold c0, strip_i. rewrite lstrip_idem, lstrip_rstrip_comm, rstrip_idem. reflexivity. }
    rewrite Hstrip.
    unfold FlatCall.if_cond_calls_result, FlatCall.if_calls_result. fold cond'.
    set (stk2 := ((stk ++ [FFn [35; 105; 102]]) ++ [FFn [35; 105; 102]])).
    assert (Hd2 : (length stk2 < 100)%nat) by (unfold stk2; rewrite !app_length; cbn; lia).
    assert (Hfr : forall n, fresh_items stk2 (nth n more []) = true).
    { intros n. unfold stk2. rewrite !fresh_items_fn. apply nth_fresh. exact Hfresh. }
    destruct (strip_i cond') eqn:Es.
    - rewrite (HF1 stk2 f' Hd2 (Hfr 1%nat)) by lia. reflexivity.
    - rewrite (HF0 stk2 f' Hd2 (Hfr 0%nat)) by lia. reflexivity.
  Qed.

  Theorem ifeq_calls x more :
    FlatCall.ifeq_calls_ok pfnames lib x more = true -> o_parserfns opts = true -> o_tfn opts = [] -> o_pfn opts = [] ->
    exists F, forall stk ea fuel, (length stk < 98)%nat -> forallb (fresh_items stk) more = true -> (F <= fuel)%nat ->
      expand_T fuel stk ea ((ifeq_head ++ x) :: more) = Some (FlatCall.ifeq_calls_result lib x more).
  Proof.
    intros Hok Hpf Htfn Hpfn. unfold FlatCall.ifeq_calls_ok in Hok. apply andb_true_iff in Hok. destruct Hok as [Hok Hm].
    apply andb_true_iff in Hok. destruct Hok as [Hc Hn0].
    destruct (expand_items_at (nth 1 more []) (nth_flat more 1 Hm) Htfn Hpfn) as [F1 HF1].
    destruct (expand_items_at (nth 2 more []) (nth_flat more 2 Hm) Htfn Hpfn) as [F2 HF2].
    exists (length x + length (nth 0 more []) + F1 + F2 + 20)%nat.
    intros stk ea fuel Hdepth Hfresh Hf. destruct fuel as [|f]; [lia|]. destruct f as [|f']; [lia|].
    rewrite expand_T_S. replace (Nat.leb 100 (length stk)) with false by (symmetry; apply Nat.leb_gt; lia).
    assert (Hp : plain (ifeq_head ++ x) = true) by (rewrite plain_app, Hc; reflexivity).
    rewrite (expand_recurse_plain pfnames lib opts _ Hp) by (rewrite app_length; cbn; lia).
    cbv beta iota zeta. rewrite strip_ifeq_head.
    assert (Hcodes : codes (ifeq_head ++ rstrip_i x) = 35 :: 105 :: 102 :: 101 :: 113 :: 58 :: codes (rstrip_i x)) by reflexivity.
    rewrite Hcodes. cbn [index_of].
    replace (35 =? 58) with false by reflexivity. replace (105 =? 58) with false by reflexivity.
    replace (102 =? 58) with false by reflexivity. replace (101 =? 58) with false by reflexivity.
    replace (113 =? 58) with false by reflexivity. replace (58 =? 58) with true by reflexivity.
    cbv beta iota. cbn [firstn].
    assert (Hcanon : Expand.canon_pf pfnames [35; 105; 102; 101; 113] = [35; 105; 102; 101; 113]).
    { unfold Expand.canon_pf. cbn [collapse_ws_us is_space N.eqb orb]. destruct (in_names _ pfnames); reflexivity. }
    rewrite Hcanon.
    assert (Hcl : Expand.classify_pf pfnames [35; 105; 102; 101; 113] = PfIfeq) by reflexivity. rewrite Hcl.
    cbn [skipn FlatCall.ifeq_head chars s_ifeq map app].
    rewrite expand_pf_S. rewrite Hpf. cbn [negb].
    set (c0 := lstrip_i (rstrip_i x)).
    assert (Hc0 : plain c0 = true) by (apply plain_lstrip, plain_rstrip; exact Hc).
    assert (Lc0 : (length c0 <= length x)%nat).
    { unfold c0, rstrip_i. assert (Ll : forall y, (length (lstrip_i y) <= length y)%nat).
      { induction y as [|z y IHy]; [cbn; lia|]. cbn [lstrip_i]. destruct (sp_item z); cbn; lia. }
      etransitivity; [apply Ll|]. rewrite rev_length. etransitivity; [apply Ll|]. rewrite rev_length. lia. }
    cbn [nth].
    rewrite (expand_recurse_plain pfnames lib opts c0 Hc0) by lia.
    rewrite (expand_recurse_plain pfnames lib opts _ Hn0) by lia.
    cbn [option_map].
    assert (Hstrip : strip_i c0 = strip_i x).
    { unfold c0, strip_i. rewrite lstrip_idem, lstrip_rstrip_comm, rstrip_idem. reflexivity. }
    rewrite Hstrip.
    assert (Hsx : plain (strip_i x) = true) by (apply plain_strip; exact Hc).
    assert (Hsy : plain (strip_i (nth 0 more [])) = true) by (apply plain_strip; exact Hn0).
    unfold FlatCall.ifeq_calls_result.
    assert (Hpl : forall e, plain e = true -> forallb is_ch e = true) by (intros e He; exact He).
    rewrite (Hpl _ Hsx), (Hpl _ Hsy), andb_true_r, andb_true_r.
    set (stk2 := ((stk ++ [FFn [35; 105; 102; 101; 113]]) ++ [FFn [35; 105; 102; 101; 113]])).
    assert (Hd2 : (length stk2 < 100)%nat) by (unfold stk2; rewrite !app_length; cbn; lia).
    assert (Hfr : forall n, fresh_items stk2 (nth n more []) = true).
    { intros n. unfold stk2. rewrite !fresh_items_fn. apply nth_fresh. exact Hfresh. }
    destruct (mw_equal (codes (strip_i x)) (codes (strip_i (nth 0 more [])))) eqn:Eq.
    - rewrite (HF1 stk2 f' Hd2 (Hfr 1%nat)) by lia. reflexivity.
    - assert (Hne : str_eqb (codes (strip_i x)) (codes (strip_i (nth 0 more []))) = false).
      { unfold mw_equal in Eq. apply orb_false_iff in Eq. exact (proj1 Eq). }
      rewrite Hne.
      rewrite (HF2 stk2 f' Hd2 (Hfr 2%nat)) by lia. reflexivity.
  Qed.

  Theorem ifeq_full x more :
    FlatCall.ifeq_full_ok pfnames lib x more = true -> o_parserfns opts = true -> o_tfn opts = [] -> o_pfn opts = [] ->
    exists F, forall stk fuel, (length stk < 98)%nat -> fresh_items stk x = true ->
      forallb (fresh_items stk) more = true -> (F <= fuel)%nat ->
      expand_T fuel stk true ((ifeq_head ++ x) :: more) = Some (FlatCall.ifeq_full_result lib x more).
  Proof.
    intros Hok Hpf Htfn Hpfn. unfold FlatCall.ifeq_full_ok in Hok. apply andb_true_iff in Hok. destruct Hok as [Hc Hm].
    assert (Hhead : forallb flat_item (ifeq_head ++ x) = true).
    { rewrite forallb_app, Hc. reflexivity. }
    destruct (expand_items_at (ifeq_head ++ x) Hhead Htfn Hpfn) as [Fc HFc].
    destruct (expand_items_at (nth 0 more []) (nth_flat more 0 Hm) Htfn Hpfn) as [F0 HF0].
    destruct (expand_items_at (nth 1 more []) (nth_flat more 1 Hm) Htfn Hpfn) as [F1 HF1].
    destruct (expand_items_at (nth 2 more []) (nth_flat more 2 Hm) Htfn Hpfn) as [F2 HF2].
    set (x' := page_result x). set (y' := page_result (nth 0 more [])).
    assert (Hx' : plain x' = true) by (apply page_result_plain; exact Hc).
    assert (Hy' : plain y' = true) by (apply page_result_plain, nth_flat; exact Hm).
    exists (Fc + length x' + F0 + F1 + F2 + 20)%nat.
    intros stk fuel Hdepth Hfc Hfresh Hf. destruct fuel as [|f]; [lia|]. destruct f as [|f']; [lia|].
    rewrite expand_T_S. replace (Nat.leb 100 (length stk)) with false by (symmetry; apply Nat.leb_gt; lia).
    assert (Hfr0 : fresh_items (stk ++ [FTemplateName]) (ifeq_head ++ x) = true).
    { rewrite fresh_items_tn. unfold fresh_items. rewrite forallb_app. fold (fresh_items stk x). rewrite Hfc. reflexivity. }
    rewrite (HFc (stk ++ [FTemplateName]) (S f') ltac:(rewrite app_length; cbn; lia) Hfr0) by lia.
    rewrite page_result_app, (page_result_of_plain ifeq_head) by reflexivity. fold x'.
    cbv beta iota zeta. rewrite strip_ifeq_head.
    assert (Hcodes : codes (ifeq_head ++ rstrip_i x') = 35 :: 105 :: 102 :: 101 :: 113 :: 58 :: codes (rstrip_i x')) by reflexivity.
    rewrite Hcodes. cbn [index_of].
    replace (35 =? 58) with false by reflexivity. replace (105 =? 58) with false by reflexivity.
    replace (102 =? 58) with false by reflexivity. replace (101 =? 58) with false by reflexivity.
    replace (113 =? 58) with false by reflexivity. replace (58 =? 58) with true by reflexivity.
    cbv beta iota. cbn [firstn].
    assert (Hcanon : Expand.canon_pf pfnames [35; 105; 102; 101; 113] = [35; 105; 102; 101; 113]).
    { unfold Expand.canon_pf. cbn [collapse_ws_us is_space N.eqb orb]. destruct (in_names _ pfnames); reflexivity. }
    rewrite Hcanon.
    assert (Hcl : Expand.classify_pf pfnames [35; 105; 102; 101; 113] = PfIfeq) by reflexivity. rewrite Hcl.
    cbn [skipn FlatCall.ifeq_head chars s_ifeq map app].
    rewrite expand_pf_S. rewrite Hpf. cbn [negb].
    set (c0 := lstrip_i (rstrip_i x')).
    assert (Hc0 : plain c0 = true) by (apply plain_lstrip, plain_rstrip; exact Hx').
    assert (Lc0 : (length c0 <= length x')%nat).
    { unfold c0, rstrip_i. assert (Ll : forall y, (length (lstrip_i y) <= length y)%nat).
      { induction y as [|z y IHy]; [cbn; lia|]. cbn [lstrip_i]. destruct (sp_item z); cbn; lia. }
      etransitivity; [apply Ll|]. rewrite rev_length. etransitivity; [apply Ll|]. rewrite rev_length. lia. }
    set (stk2 := ((stk ++ [FFn [35; 105; 102; 101; 113]]) ++ [FFn [35; 105; 102; 101; 113]])).
    assert (Hd2 : (length stk2 < 100)%nat) by (unfold stk2; rewrite !app_length; cbn; lia).
    assert (Hfr : forall n, fresh_items stk2 (nth n more []) = true).
    { intros n. unfold stk2. rewrite !fresh_items_fn. apply nth_fresh. exact Hfresh. }
    cbn [nth].
    rewrite (expand_recurse_plain pfnames lib opts c0 Hc0) by lia.
    rewrite (HF0 stk2 f' Hd2 (Hfr 0%nat)) by lia. fold y'.
    cbn [option_map].
    assert (Hstrip : strip_i c0 = strip_i x').
    { unfold c0, strip_i. rewrite lstrip_idem, lstrip_rstrip_comm, rstrip_idem. reflexivity. }
    rewrite Hstrip.
    assert (Hsx : plain (strip_i x') = true) by (apply plain_strip; exact Hx').
    assert (Hsy : plain (strip_i y') = true) by (apply plain_strip; exact Hy').
    unfold FlatCall.ifeq_full_result. fold x' y'.
    assert (Hpl : forall e, plain e = true -> forallb is_ch e = true) by (intros e He; exact He).
    rewrite (Hpl _ Hsx), (Hpl _ Hsy), andb_true_r, andb_true_r.
    destruct (mw_equal (codes (strip_i x')) (codes (strip_i y'))) eqn:Eq.
    - rewrite (HF1 stk2 f' Hd2 (Hfr 1%nat)) by lia. reflexivity.
    - assert (Hne : str_eqb (codes (strip_i x')) (codes (strip_i y')) = false).
      { unfold mw_equal in Eq. apply orb_false_iff in Eq. exact (proj1 Eq). }
      rewrite Hne.
      rewrite (HF2 stk2 f' Hd2 (Hfr 2%nat)) by lia. reflexivity.
  Qed.

  (** #switch with calls in the values of its cases *)
  Lemma expand_items_all (vs : list enc) :
    forallb (forallb flat_item) vs = true -> o_tfn opts = [] -> o_pfn opts = [] ->
    exists F, forall v, In v vs -> forall stk fuel, (length stk < 100)%nat -> fresh_items stk v = true -> (F <= fuel)%nat ->
      expand_recurse fuel stk true v = Some (page_result v).
  Proof.
    intros Hvs Htfn Hpfn. induction vs as [|a vs IH].
    - exists 0%nat. intros v [].
    - cbn in Hvs. apply andb_true_iff in Hvs. destruct Hvs as [Ha Hr].
      destruct (IH Hr) as [F HF]. destruct (expand_items_at a Ha Htfn Hpfn) as [Fa HFa].
      exists (Fa + F)%nat. intros v [Hv|Hv] stk fuel Hd Hfr Hf.
      + subst v. apply HFa; [exact Hd | exact Hfr | lia].
      + apply (HF v Hv); [exact Hd | exact Hfr | lia].
  Qed.

  Lemma switch_loop_calls stk1 val (vs : list enc) F :
    (length stk1 < 100)%nat ->
    (forall v, In v vs -> forall fuel, (F <= fuel)%nat -> expand_recurse fuel stk1 true v = Some (page_result v)) ->
    forall cases d f,
    forallb (FlatCall.case_calls_ok pfnames lib) cases = true ->
    (forall kv, In kv cases -> In (snd kv) vs) -> (match d with Some x => In x vs | None => True end) ->
    (cases_size cases + F + 2 < f)%nat ->
    switch_loop f stk1 val (map mkcase cases) false false d None = Some (FlatCall.switch_calls_result lib val cases d).
  Proof.
    intros Hd1 HF.
    induction cases as [|[k v] cases IH]; intros d f Hok Hin Hd Hf.
    - destruct f as [|f]; [lia|]. rewrite switch_loop_S. cbn [map].
      destruct d as [x|]; [|reflexivity].
      cbn [FlatCall.switch_calls_result]. rewrite (HF x Hd) by (cbn in Hf; lia). reflexivity.
    - destruct f as [|f]; [lia|]. rewrite switch_loop_S. cbn [map].
      cbn in Hok. apply andb_true_iff in Hok. destruct Hok as [Hkv Hrest].
      unfold FlatCall.case_calls_ok in Hkv. cbn [fst snd] in Hkv.
      apply andb_true_iff in Hkv. destruct Hkv as [Hkv Hv]. apply andb_true_iff in Hkv. destruct Hkv as [Hk Hne].
      unfold FlatCall.mkcase at 1. cbn [fst snd].
      rewrite (split_switch_case k v Hne).
      cbn [negb andb]. cbv beta iota zeta.
      unfold cases_size in Hf. cbn [fold_right fst snd] in Hf. fold (cases_size cases) in Hf.
      rewrite (expand_recurse_plain pfnames lib opts k Hk) by lia.
      cbn [option_map]. rewrite orb_false_r.
      cbn [FlatCall.switch_calls_result].
      assert (Hvin : In v vs) by (apply (Hin (k, v)); left; reflexivity).
      assert (Hin' : forall kv, In kv cases -> In (snd kv) vs) by (intros kv Hkv'; apply Hin; right; exact Hkv').
      destruct (mw_equal (codes (strip_i k)) (codes val)) eqn:Em.
      + rewrite (HF v Hvin) by lia. reflexivity.
      + destruct (str_eqb (lower (codes (strip_i k))) s_default) eqn:Ed.
        * apply IH; [exact Hrest | exact Hin' | exact Hvin | lia].
        * apply IH; [exact Hrest | exact Hin' | exact Hd | lia].
  Qed.

  Theorem switch_calls x cases :
    plain x = true -> forallb (FlatCall.case_calls_ok pfnames lib) cases = true ->
    o_parserfns opts = true -> o_tfn opts = [] -> o_pfn opts = [] ->
    exists F, forall stk ea fuel, (length stk < 98)%nat -> forallb (fun kv => fresh_items stk (snd kv)) cases = true ->
      (F <= fuel)%nat ->
      expand_T fuel stk ea ((switch_head ++ x) :: map mkcase cases)
      = Some (add_newline (FlatCall.switch_calls_result lib (strip_i x) cases None)).
  Proof.
    intros Hc Hm Hpf Htfn Hpfn.
    assert (Hvs : forallb (forallb flat_item) (map snd cases) = true).
    { clear -Hm. induction cases as [|[k v] cases IH]; [reflexivity|]. cbn in Hm. apply andb_true_iff in Hm.
      destruct Hm as [Hkv Hr]. unfold FlatCall.case_calls_ok in Hkv. apply andb_true_iff in Hkv. cbn [snd] in Hkv.
      cbn [map snd forallb]. rewrite (proj2 Hkv), (IH Hr). reflexivity. }
    destruct (expand_items_all (map snd cases) Hvs Htfn Hpfn) as [F0 HF0].
    exists (length x + cases_size cases + F0 + 30)%nat.
    intros stk ea fuel Hdepth Hfresh Hf. destruct fuel as [|f]; [lia|]. destruct f as [|f']; [lia|].
    rewrite expand_T_S. replace (Nat.leb 100 (length stk)) with false by (symmetry; apply Nat.leb_gt; lia).
    assert (Hp : plain (switch_head ++ x) = true) by (rewrite plain_app, Hc; reflexivity).
    rewrite (expand_recurse_plain pfnames lib opts _ Hp) by (rewrite app_length; cbn; lia).
    cbv beta iota zeta. rewrite strip_switch_head.
    assert (Hcodes : codes (switch_head ++ rstrip_i x)
                     = 35 :: 115 :: 119 :: 105 :: 116 :: 99 :: 104 :: 58 :: codes (rstrip_i x)) by reflexivity.
    rewrite Hcodes. cbn [index_of].
    replace (35 =? 58) with false by reflexivity. replace (115 =? 58) with false by reflexivity.
    replace (119 =? 58) with false by reflexivity. replace (105 =? 58) with false by reflexivity.
    replace (116 =? 58) with false by reflexivity. replace (99 =? 58) with false by reflexivity.
    replace (104 =? 58) with false by reflexivity. replace (58 =? 58) with true by reflexivity.
    cbv beta iota. cbn [firstn].
    assert (Hcanon : Expand.canon_pf pfnames [35; 115; 119; 105; 116; 99; 104] = [35; 115; 119; 105; 116; 99; 104]).
    { unfold Expand.canon_pf. cbn [collapse_ws_us is_space N.eqb orb]. destruct (in_names _ pfnames); reflexivity. }
    rewrite Hcanon.
    assert (Hcl : Expand.classify_pf pfnames [35; 115; 119; 105; 116; 99; 104] = PfSwitch) by reflexivity. rewrite Hcl.
    cbn [skipn FlatCall.switch_head chars s_switch map app].
    rewrite expand_pf_S. rewrite Hpf. cbn [negb].
    set (c0 := lstrip_i (rstrip_i x)).
    assert (Hc0 : plain c0 = true) by (apply plain_lstrip, plain_rstrip; exact Hc).
    assert (Lc0 : (length c0 <= length x)%nat).
    { unfold c0, rstrip_i. assert (Ll : forall y, (length (lstrip_i y) <= length y)%nat).
      { induction y as [|z y IHy]; [cbn; lia|]. cbn [lstrip_i]. destruct (sp_item z); cbn; lia. }
      etransitivity; [apply Ll|]. rewrite rev_length. etransitivity; [apply Ll|]. rewrite rev_length. lia. }
    cbv beta iota zeta.
    rewrite (expand_recurse_plain pfnames lib opts c0 Hc0) by lia.
    cbn [option_map].
    assert (Hstrip : strip_i c0 = strip_i x).
    { unfold c0, strip_i. rewrite lstrip_idem, lstrip_rstrip_comm, rstrip_idem. reflexivity. }
    rewrite Hstrip.
    set (stk2 := ((stk ++ [FFn [35; 115; 119; 105; 116; 99; 104]]) ++ [FFn [35; 115; 119; 105; 116; 99; 104]])).
    assert (Hd2 : (length stk2 < 100)%nat) by (unfold stk2; rewrite !app_length; cbn; lia).
    assert (HF : forall v, In v (map snd cases) -> forall fuel, (F0 <= fuel)%nat ->
                 expand_recurse fuel stk2 true v = Some (page_result v)).
    { intros v Hv fuel Hfu. apply (HF0 v Hv); [exact Hd2 | | exact Hfu].
      unfold stk2. rewrite !fresh_items_fn. apply in_map_iff in Hv. destruct Hv as [kv [Hkv Hin]]. subst v.
      rewrite forallb_forall in Hfresh. exact (Hfresh kv Hin). }
    rewrite (switch_loop_calls stk2 (strip_i x) (map snd cases) F0 Hd2 HF cases None f' Hm
               (fun kv Hkv => in_map snd cases kv Hkv) I) by lia.
    reflexivity.
  Qed.

  (* ... and with calls in the subject of the #switch (full expansion): it is expanded first, its result is compared *)
  Theorem switch_full x cases :
    forallb flat_item x = true -> forallb (FlatCall.case_calls_ok pfnames lib) cases = true ->
    o_parserfns opts = true -> o_tfn opts = [] -> o_pfn opts = [] ->
    exists F, forall stk fuel, (length stk < 98)%nat -> fresh_items stk x = true ->
      forallb (fun kv => fresh_items stk (snd kv)) cases = true -> (F <= fuel)%nat ->
      expand_T fuel stk true ((switch_head ++ x) :: map mkcase cases)
      = Some (add_newline (FlatCall.switch_calls_result lib (strip_i (page_result x)) cases None)).
  Proof.
    intros Hc Hm Hpf Htfn Hpfn.
    assert (Hvs : forallb (forallb flat_item) (map snd cases) = true).
    { clear -Hm. induction cases as [|[k v] cases IH]; [reflexivity|]. cbn in Hm. apply andb_true_iff in Hm.
      destruct Hm as [Hkv Hr]. unfold FlatCall.case_calls_ok in Hkv. apply andb_true_iff in Hkv. cbn [snd] in Hkv.
      cbn [map snd forallb]. rewrite (proj2 Hkv), (IH Hr). reflexivity. }
    destruct (expand_items_all (map snd cases) Hvs Htfn Hpfn) as [F0 HF0].
    assert (Hhead : forallb flat_item (switch_head ++ x) = true).
    { rewrite forallb_app, Hc. reflexivity. }
    destruct (expand_items_at (switch_head ++ x) Hhead Htfn Hpfn) as [Fc HFc].
    set (x' := page_result x).
    assert (Hx' : plain x' = true) by (apply page_result_plain; exact Hc).
    exists (Fc + length x' + cases_size cases + F0 + 30)%nat.
    intros stk fuel Hdepth Hfc Hfresh Hf. destruct fuel as [|f]; [lia|]. destruct f as [|f']; [lia|].
    rewrite expand_T_S. replace (Nat.leb 100 (length stk)) with false by (symmetry; apply Nat.leb_gt; lia).
    assert (Hfr0 : fresh_items (stk ++ [FTemplateName]) (switch_head ++ x) = true).
    { rewrite fresh_items_tn. unfold fresh_items. rewrite forallb_app. fold (fresh_items stk x). rewrite Hfc. reflexivity. }
    rewrite (HFc (stk ++ [FTemplateName]) (S f') ltac:(rewrite app_length; cbn; lia) Hfr0) by lia.
    rewrite page_result_app, (page_result_of_plain switch_head) by reflexivity. fold x'.
    cbv beta iota zeta. rewrite strip_switch_head.
    assert (Hcodes : codes (switch_head ++ rstrip_i x')
                     = 35 :: 115 :: 119 :: 105 :: 116 :: 99 :: 104 :: 58 :: codes (rstrip_i x')) by reflexivity.
    rewrite Hcodes. cbn [index_of].
    replace (35 =? 58) with false by reflexivity. replace (115 =? 58) with false by reflexivity.
    replace (119 =? 58) with false by reflexivity. replace (105 =? 58) with false by reflexivity.
    replace (116 =? 58) with false by reflexivity. replace (99 =? 58) with false by reflexivity.
    replace (104 =? 58) with false by reflexivity. replace (58 =? 58) with true by reflexivity.
    cbv beta iota. cbn [firstn].
    assert (Hcanon : Expand.canon_pf pfnames [35; 115; 119; 105; 116; 99; 104] = [35; 115; 119; 105; 116; 99; 104]).
    { unfold Expand.canon_pf. cbn [collapse_ws_us is_space N.eqb orb]. destruct (in_names _ pfnames); reflexivity. }
    rewrite Hcanon.
    assert (Hcl : Expand.classify_pf pfnames [35; 115; 119; 105; 116; 99; 104] = PfSwitch) by reflexivity. rewrite Hcl.
    cbn [skipn FlatCall.switch_head chars s_switch map app].
    rewrite expand_pf_S. rewrite Hpf. cbn [negb].
    set (c0 := lstrip_i (rstrip_i x')).
    assert (Hc0 : plain c0 = true) by (apply plain_lstrip, plain_rstrip; exact Hx').
    assert (Lc0 : (length c0 <= length x')%nat).
    { unfold c0, rstrip_i. assert (Ll : forall y, (length (lstrip_i y) <= length y)%nat).
      { induction y as [|z y IHy]; [cbn; lia|]. cbn [lstrip_i]. destruct (sp_item z); cbn; lia. }
      etransitivity; [apply Ll|]. rewrite rev_length. etransitivity; [apply Ll|]. rewrite rev_length. lia. }
    cbv beta iota zeta.
    rewrite (expand_recurse_plain pfnames lib opts c0 Hc0) by lia.
    cbn [option_map].
    assert (Hstrip : strip_i c0 = strip_i x').
    { unfold c0, strip_i. rewrite lstrip_idem, lstrip_rstrip_comm, rstrip_idem. reflexivity. }
    rewrite Hstrip.
    set (stk2 := ((stk ++ [FFn [35; 115; 119; 105; 116; 99; 104]]) ++ [FFn [35; 115; 119; 105; 116; 99; 104]])).
    assert (Hd2 : (length stk2 < 100)%nat) by (unfold stk2; rewrite !app_length; cbn; lia).
    assert (HF : forall v, In v (map snd cases) -> forall fuel, (F0 <= fuel)%nat ->
                 expand_recurse fuel stk2 true v = Some (page_result v)).
    { intros v Hv fuel Hfu. apply (HF0 v Hv); [exact Hd2 | | exact Hfu].
      unfold stk2. rewrite !fresh_items_fn. apply in_map_iff in Hv. destruct Hv as [kv [Hkv Hin]]. subst v.
      rewrite forallb_forall in Hfresh. exact (Hfresh kv Hin). }
    rewrite (switch_loop_calls stk2 (strip_i x') (map snd cases) F0 Hd2 HF cases None f' Hm
               (fun kv Hkv => in_map snd cases kv Hkv) I) by lia.
    reflexivity.
  Qed.

  Lemma values_plain_nested outer args : forallb (nested_arg_ok outer) args = true ->
    forall num ht, values_plain ht = true -> values_plain (bind_nested args num ht) = true.
  Proof.
    induction args as [|a args IH]; intros Ha num ht Hh; [exact Hh|].
    cbn in Ha. apply andb_true_iff in Ha. destruct Ha as [Ha Hr]. cbn [FlatCall.bind_nested].
    unfold FlatCall.nested_arg_ok in Ha.
    destruct (split_named_i a) as [[k v]|] eqn:E.
    - apply andb_true_iff in Ha. destruct Ha as [_ Hv]. destruct (items_ok_split outer v Hv) as [Hfv _].
      apply IH; [exact Hr | apply values_plain_set; [exact Hh | apply plain_strip, page_result_plain; exact Hfv]].
    - destruct (items_ok_split outer a Ha) as [Hfa _].
      apply IH; [exact Hr | apply values_plain_set; [exact Hh | apply page_result_plain; exact Hfa]].
  Qed.

  (* the argument dictionary: every value is the argument with its calls replaced, computed on the caller's path *)
  Lemma build_args_nested outer args :
    forallb (nested_arg_ok outer) args = true -> o_tfn opts = [] -> o_pfn opts = [] ->
    exists F, forall fuel num ht, (F <= fuel)%nat ->
      build_args fuel [FTitle; FTemplate outer] args num ht = Some (bind_nested args num ht).
  Proof.
    intros Hargs Htfn Hpfn. induction args as [|a args IH].
    - exists 1%nat. intros fuel num ht Hf. destruct fuel; [lia | reflexivity].
    - cbn in Hargs. apply andb_true_iff in Hargs. destruct Hargs as [Ha Hr].
      destruct (IH Hr) as [F HF].
      unfold FlatCall.nested_arg_ok in Ha.
      destruct (split_named_i a) as [[k v]|] eqn:E.
      + apply andb_true_iff in Ha. destruct Ha as [Hk Hv].
        destruct (items_ok_split outer v Hv) as [Hfv Hfresh].
        destruct (expand_items_at v Hfv Htfn Hpfn) as [G HG].
        exists (S (F + G + length k + 2)). intros fuel num ht Hf. destruct fuel as [|f]; [lia|].
        rewrite build_args_S. cbn [FlatCall.bind_nested]. rewrite E. cbv beta iota zeta.
        unfold name_key.
        destruct (positive_number (codes k)).
        * rewrite (HG ([FTitle; FTemplate outer] ++ [FArgVal (KInt (to_num (codes k)))]) f) by (cbn; (lia || apply Hfresh)).
          apply HF. lia.
        * rewrite (expand_recurse_plain pfnames lib opts k Hk) by lia.
          rewrite (HG ([FTitle; FTemplate outer] ++ [FArgVal (KStr (strip_by sp_py (collapse_ws (codes k))))]) f)
            by (cbn; (lia || apply Hfresh)).
          apply HF. lia.
      + destruct (items_ok_split outer a Ha) as [Hfa Hfresh].
        destruct (expand_items_at a Hfa Htfn Hpfn) as [G HG].
        exists (S (F + G)). intros fuel num ht Hf. destruct fuel as [|f]; [lia|].
        rewrite build_args_S. cbn [FlatCall.bind_nested]. rewrite E. cbv beta iota zeta.
        rewrite (HG ([FTitle; FTemplate outer] ++ [FArgVal (KInt num)]) f) by (cbn; (lia || apply Hfresh)).
        apply HF. lia.
  Qed.

  Theorem nested_call name args :
    FlatCall.nested_ok pfnames lib name args = true -> o_tfn opts = [] -> o_pfn opts = [] ->
    exists F, forall fuel, (F <= fuel)%nat ->
      expand_T fuel [FTitle] true (chars name :: args) = Some (FlatCall.nested_result lib name args).
  Proof.
    intros Hok Htfn Hpfn.
    unfold FlatCall.nested_ok in Hok. repeat (apply andb_true_iff in Hok; destruct Hok as [Hok ?]).
    assert (Hstrip : strip_i (chars name) = chars name).
    { apply str_eqb_eq in Hok. rewrite <- (plain_chars_codes (strip_i (chars name))) by (apply plain_strip, plain_chars).
      rewrite Hok. reflexivity. }
    assert (Hcolon : existsb (N.eqb 58) name = false) by (match goal with X : negb _ = true |- _ => apply negb_true_iff in X; exact X end).
    assert (Hpf : Expand.classify_pf pfnames (Expand.canon_pf pfnames name) = PfNone)
      by (destruct (Expand.classify_pf pfnames (Expand.canon_pf pfnames name)); try discriminate; reflexivity).
    assert (Hargs : forallb (nested_arg_ok name) args = true) by assumption.
    assert (Hbody : forall t, find_tpl lib name = Some t -> flat_body (t_body t) = true).
    { intros t Ht. match goal with X : match find_tpl lib name with _ => _ end = true |- _ => rewrite Ht in X; exact X end. }
    destruct (build_args_nested name args Hargs Htfn Hpfn) as [B HB].
    set (ht := bind_nested args 1 []).
    assert (Hht : values_plain ht = true) by (apply (values_plain_nested name); [exact Hargs | reflexivity]).
    set (bsize := match find_tpl lib name with
                  | Some t => (size (marked_body (t_body t)) + length (code_subst ht (marked_body (t_body t))))%nat
                  | None => 0%nat end).
    exists (length name + B + bsize + 10)%nat.
    intros fuel Hf. destruct fuel as [|f]; [lia|].
    rewrite expand_T_S. replace (Nat.leb 100 (length [FTitle])) with false by reflexivity.
    rewrite (expand_recurse_plain pfnames lib opts (chars name) (plain_chars name)) by (unfold chars; rewrite map_length; lia).
    cbv beta iota zeta. rewrite Hstrip, codes_chars.
    rewrite (no_colon_index name 0 Hcolon).
    rewrite Hpf. rewrite Hcolon. cbn [negb andb].
    replace (detect_loop ([FTitle] ++ [FTemplate name])) with false by reflexivity.
    change ([FTitle] ++ [FTemplate name]) with [FTitle; FTemplate name].
    rewrite (HB f 1 []) by lia. fold ht.
    rewrite Htfn, Hpfn. cbn [hook_ret find].
    unfold FlatCall.nested_result. fold ht.
    destruct (find_tpl lib name) as [t|] eqn:Et.
    - specialize (Hbody t eq_refl).
      fold (marked_body (t_body t)).
      rewrite (expand_args_flat (marked_body (t_body t)) (flat_marked _ Hbody)) by (unfold bsize in Hf; lia).
      assert (Hp : plain (code_subst ht (marked_body (t_body t))) = true)
        by (apply subst_plain; [apply plain_drop_last_nl | exact Hht | apply flat_marked; exact Hbody]).
      rewrite (expand_recurse_plain pfnames lib opts _ Hp) by (unfold bsize in Hf; lia).
      unfold code_subst. rewrite add_newline_marked.
      destruct (add_newline (subst drop_last_nl ht (t_body t))); reflexivity.
    - cbn. reflexivity.
  Qed.

  (** Calls inside a template body (C04: body -> substitute -> recursive expand with the new frame). *)
  Notation body_subst := FlatCall.body_subst.
  Notation body_calls_ok := (FlatCall.body_calls_ok pfnames lib).

  Fixpoint size2 (e : enc) : nat :=
    match e with
    | [] => 1
    | A args :: r => S (fold_right (fun a n => (length a + n)%nat) 2%nat args) + size2 r
    | T args :: r => S (fold_right (fun a n => (length a + n)%nat) 2%nat args) + size2 r
    | _ :: r => S (size2 r)
    end.

  Lemma fold_len_base (l : list enc) b :
    fold_right (fun a n => (length a + n)%nat) b l = (fold_right (fun a n => (length a + n)%nat) 0%nat l + b)%nat.
  Proof. induction l as [|a l IH]; cbn [fold_right]; [reflexivity | rewrite IH; lia]. Qed.

  Lemma map_opt_args_plain f stk am (args : list enc) :
    forallb plain args = true -> (fold_right (fun a n => (length a + n)%nat) 0%nat args < f)%nat ->
    map_opt (fun x => option_map drop_last_nl (expand_args f stk am x)) args = Some (map drop_last_nl args).
  Proof.
    induction args as [|a args IH]; intros Hp Hf; [reflexivity|].
    cbn in Hp. apply andb_true_iff in Hp. destruct Hp as [Ha Hl]. cbn [fold_right] in Hf.
    cbn [map_opt map]. rewrite (expand_args_plain pfnames lib opts a Ha) by lia. cbn [option_map].
    rewrite IH by (assumption || lia). reflexivity.
  Qed.

  Lemma body_marked outer b : body_calls_ok outer b = true -> body_calls_ok outer (marked_body b) = true.
  Proof.
    destruct b as [|i b]; [reflexivity|]. destruct i as [c| | | | |]; try (intros H; exact H).
    cbn [marked_body]. destruct ((c =? 35) || (c =? 42) || (c =? 59) || (c =? 58)); intros H; exact H.
  Qed.

  (* the first pass on such a body *)
  Lemma expand_args_body outer e : body_calls_ok outer e = true ->
    forall fuel stk am, (size2 e < fuel)%nat -> expand_args fuel stk am e = Some (body_subst am e).
  Proof.
    induction e as [|i e IH]; intros Hb fuel stk am Hf.
    - destruct fuel; [cbn in Hf; lia | reflexivity].
    - destruct fuel as [|f]; [cbn in Hf; lia|].
      destruct i as [c|args|args|args|c|]; try discriminate Hb.
      + cbn [Expand.expand_args]. cbn in Hb, Hf. rewrite (IH Hb) by lia. reflexivity.
      + destruct args as [|n args]; [discriminate Hb|].
        cbn [FlatCall.body_calls_ok] in Hb. repeat (apply andb_true_iff in Hb; destruct Hb as [Hb ?]).
        cbn [size2] in Hf. rewrite (fold_len_base (n :: args) 2) in Hf.
        cbn [Expand.expand_args]. rewrite (IH ltac:(assumption)) by lia.
        assert (Hall : forallb plain (n :: args) = true) by (cbn [forallb]; rewrite Hb; assumption).
        rewrite (map_opt_args_plain f stk am (n :: args) Hall) by lia.
        reflexivity.
      + destruct args as [|k [|d [|x more]]]; try discriminate Hb.
        * cbn in Hb. apply andb_true_iff in Hb. destruct Hb as [Hk Hb].
          cbn [size2 fold_right] in Hf.
          cbn [Expand.expand_args]. rewrite (IH Hb) by lia.
          rewrite (expand_args_plain pfnames lib opts k Hk) by lia.
          rewrite (expand_recurse_plain pfnames lib opts k Hk) by lia.
          cbn [FlatCall.body_subst]. fold (param_key k).
          destruct (am_get am (param_key k)); reflexivity.
        * cbn in Hb. apply andb_true_iff in Hb. destruct Hb as [Hk Hb]. apply andb_true_iff in Hk. destruct Hk as [Hk Hd].
          cbn [size2 fold_right] in Hf.
          cbn [Expand.expand_args]. rewrite (IH Hb) by lia.
          rewrite (expand_args_plain pfnames lib opts k Hk) by lia.
          rewrite (expand_recurse_plain pfnames lib opts k Hk) by lia.
          cbn [FlatCall.body_subst]. fold (param_key k).
          destruct (am_get am (param_key k)); [reflexivity|].
          rewrite (expand_args_plain pfnames lib opts d Hd) by lia. reflexivity.
  Qed.

  Lemma plain_items v : plain v = true -> forallb flat_item v = true.
  Proof.
    induction v as [|i v IH]; intros H; [reflexivity|]. cbn in H. apply andb_true_iff in H. destruct H as [Hi Hv].
    cbn [forallb]. rewrite (IH Hv), andb_true_r. destruct i; try discriminate Hi. reflexivity.
  Qed.

  Lemma plain_fresh stk v : plain v = true -> fresh_items stk v = true.
  Proof.
    induction v as [|i v IH]; intros H; [reflexivity|]. cbn in H. apply andb_true_iff in H. destruct H as [Hi Hv].
    unfold fresh_items. cbn [forallb]. fold (fresh_items stk v). rewrite (IH Hv), andb_true_r. destruct i; try discriminate Hi. reflexivity.
  Qed.

  Lemma fresh_app stk a b : fresh_items stk (a ++ b) = fresh_items stk a && fresh_items stk b.
  Proof. unfold fresh_items. apply forallb_app. Qed.

  (* what the second pass meets: text and flat calls to other templates *)
  Lemma body_subst_items outer ht e : values_plain ht = true -> body_calls_ok outer e = true ->
    forallb flat_item (body_subst ht e) = true /\ fresh_items [FTitle; FTemplate outer] (body_subst ht e) = true.
  Proof.
    intros Hh. induction e as [|i e IH]; intros Hb; [split; reflexivity|].
    destruct i as [c|args|args|args|c|]; try discriminate Hb.
    - cbn in Hb. destruct (IH Hb) as [H1 H2]. split; [cbn; exact H1 | unfold fresh_items in *; cbn; exact H2].
    - destruct args as [|n args]; [discriminate Hb|].
      cbn [FlatCall.body_calls_ok] in Hb. repeat (apply andb_true_iff in Hb; destruct Hb as [Hb ?]).
      destruct (IH ltac:(assumption)) as [Hit Hfr].
      cbn [FlatCall.body_subst map]. split.
      + cbn [forallb FlatCall.flat_item]. rewrite Hit, andb_true_r.
        rewrite plain_drop_last_nl by exact Hb. cbn [andb].
        (* the name's trailing line break: a plain name that is stripped has none *)
        match goal with X : flat_ok _ _ _ _ = true |- _ => destruct (flat_ok_premises _ _ X) as (Hs & _) end.
        assert (Hdl : drop_last_nl n = n).
        { rewrite <- (plain_chars_codes n Hb). rewrite <- Hs.
          unfold drop_last_nl. destruct (rev (strip_i (chars (codes n)))) as [|z zs] eqn:Er; [reflexivity|].
          destruct (is_code 10 z) eqn:Ez; [|reflexivity]. exfalso.
          (* the last item of a stripped text is no blank *)
          assert (Hsp : sp_item z = true) by (destruct z; try discriminate Ez; cbn in *; apply N.eqb_eq in Ez; subst; reflexivity).
          unfold strip_i, rstrip_i in Er. rewrite rev_involutive in Er.
          assert (Hl : forall y w ws, lstrip_i y = w :: ws -> sp_item w = false).
          { induction y as [|q y IHy]; intros w ws Hy; [discriminate|]. cbn [lstrip_i] in Hy. destruct (sp_item q) eqn:Eq; [apply (IHy _ _ Hy)|].
            inversion Hy; subst. exact Eq. }
          rewrite (Hl _ _ _ Er) in Hsp. discriminate Hsp. }
        rewrite Hdl. match goal with X : flat_ok _ _ _ _ = true |- _ => exact X end.
      + unfold fresh_items in *. cbn [forallb]. rewrite Hfr, andb_true_r.
        cbn [existsb frame_eqb orb]. rewrite orb_false_r.
        assert (Hdl' : codes (drop_last_nl n) = codes n \/ True) by (right; exact I).
        (* the name as above *)
        match goal with X : flat_ok _ _ _ _ = true |- _ => destruct (flat_ok_premises _ _ X) as (Hs & _) end.
        assert (Hdl : drop_last_nl n = n).
        { rewrite <- (plain_chars_codes n Hb). rewrite <- Hs.
          unfold drop_last_nl. destruct (rev (strip_i (chars (codes n)))) as [|z zs] eqn:Er; [reflexivity|].
          destruct (is_code 10 z) eqn:Ez; [|reflexivity]. exfalso.
          assert (Hsp : sp_item z = true) by (destruct z; try discriminate Ez; cbn in *; apply N.eqb_eq in Ez; subst; reflexivity).
          unfold strip_i, rstrip_i in Er. rewrite rev_involutive in Er.
          assert (Hl : forall y w ws, lstrip_i y = w :: ws -> sp_item w = false).
          { induction y as [|q y IHy]; intros w ws Hy; [discriminate|]. cbn [lstrip_i] in Hy. destruct (sp_item q) eqn:Eq; [apply (IHy _ _ Hy)|].
            inversion Hy; subst. exact Eq. }
          rewrite (Hl _ _ _ Er) in Hsp. discriminate Hsp. }
        rewrite Hdl. assumption.
    - destruct args as [|k [|d [|x more]]]; try discriminate Hb; cbn in Hb.
      + apply andb_true_iff in Hb. destruct Hb as [Hk Hb]. destruct (IH Hb) as [H1 H2].
        cbn [FlatCall.body_subst]. rewrite forallb_app, fresh_app, H1, H2, !andb_true_r.
        destruct (am_get ht (param_key k)) as [v|] eqn:G.
        * assert (Hv := plain_drop_last_nl v (am_get_plain ht _ v Hh G)). split; [apply plain_items | apply plain_fresh]; exact Hv.
        * assert (Hu : plain (unexpanded_arg [chars (show_key (param_key k))]) = true)
            by (unfold unexpanded_arg; cbn [join_i]; rewrite !plain_app, !plain_chars; reflexivity).
          split; [apply plain_items | apply plain_fresh]; exact Hu.
      + apply andb_true_iff in Hb. destruct Hb as [Hk Hb]. apply andb_true_iff in Hk. destruct Hk as [Hk Hd].
        destruct (IH Hb) as [H1 H2].
        cbn [FlatCall.body_subst]. rewrite forallb_app, fresh_app, H1, H2, !andb_true_r.
        destruct (am_get ht (param_key k)) as [v|] eqn:G.
        * assert (Hv := plain_drop_last_nl v (am_get_plain ht _ v Hh G)). split; [apply plain_items | apply plain_fresh]; exact Hv.
        * split; [apply plain_items | apply plain_fresh]; exact Hd.
  Qed.

  Lemma add_newline_marked_body ht b :
    add_newline (page_result (body_subst ht (marked_body b))) = add_newline (page_result (body_subst ht b)).
  Proof.
    destruct b as [|i b]; [reflexivity|]. destruct i as [c| | | | |]; try reflexivity.
    cbn [marked_body]. destruct ((c =? 35) || (c =? 42) || (c =? 59) || (c =? 58)) eqn:E; [|reflexivity].
    cbn [FlatCall.body_subst]. unfold FlatCall.page_result. cbn [flat_map app]. unfold add_newline. cbn [starts_block].
    replace ((10 =? 42) || (10 =? 59) || (10 =? 58) || (10 =? 35) || _) with false by reflexivity.
    assert (Hs : (c =? 42) || (c =? 59) || (c =? 58) || (c =? 35) = true).
    { destruct (c =? 35), (c =? 42), (c =? 59), (c =? 58); cbn in *; congruence. }
    rewrite Hs. reflexivity.
  Qed.

  Theorem body_calls_call name args :
    FlatCall.body_calls_call_ok pfnames lib name args = true -> o_tfn opts = [] -> o_pfn opts = [] ->
    exists F, forall fuel, (F <= fuel)%nat ->
      expand_T fuel [FTitle] true (chars name :: args) = Some (FlatCall.body_calls_result lib name args).
  Proof.
    intros Hok Htfn Hpfn.
    unfold FlatCall.body_calls_call_ok in Hok. repeat (apply andb_true_iff in Hok; destruct Hok as [Hok ?]).
    assert (Hstrip : strip_i (chars name) = chars name).
    { apply str_eqb_eq in Hok. rewrite <- (plain_chars_codes (strip_i (chars name))) by (apply plain_strip, plain_chars).
      rewrite Hok. reflexivity. }
    assert (Hcolon : existsb (N.eqb 58) name = false) by (match goal with X : negb _ = true |- _ => apply negb_true_iff in X; exact X end).
    assert (Hpf : Expand.classify_pf pfnames (Expand.canon_pf pfnames name) = PfNone)
      by (destruct (Expand.classify_pf pfnames (Expand.canon_pf pfnames name)); try discriminate; reflexivity).
    assert (Hargs : forallb plain args = true) by assumption.
    assert (Hbody : forall t, find_tpl lib name = Some t -> body_calls_ok name (t_body t) = true).
    { intros t Ht. match goal with X : match find_tpl lib name with _ => _ end = true |- _ => rewrite Ht in X; exact X end. }
    set (ht := bind_args args 1 []).
    assert (Hht : values_plain ht = true) by (apply bind_plain; [exact Hargs | reflexivity]).
    (* the fuel the second pass needs on the substituted body *)
    assert (Hsecond : exists G, forall fuel, (G <= fuel)%nat -> forall t, find_tpl lib name = Some t ->
              expand_recurse fuel [FTitle; FTemplate name] true (body_subst ht (marked_body (t_body t)))
              = Some (page_result (body_subst ht (marked_body (t_body t))))).
    { destruct (find_tpl lib name) as [t|] eqn:Et.
      - destruct (body_subst_items name ht (marked_body (t_body t)) Hht (body_marked _ _ (Hbody t eq_refl))) as [Hi Hfr].
        destruct (expand_items_at _ Hi Htfn Hpfn) as [G HG].
        exists G. intros fuel Hf t' Ht'. inversion Ht'; subst t'. apply HG; [cbn; lia | exact Hfr | exact Hf].
      - exists 0%nat. intros fuel _ t' Ht'. discriminate Ht'. }
    destruct Hsecond as [G HG].
    set (bsize := match find_tpl lib name with Some t => size2 (marked_body (t_body t)) | None => 0%nat end).
    exists (length name + fold_right (fun a n => (length a + n)%nat) 0%nat args + length args + bsize + G + 10)%nat.
    intros fuel Hf. destruct fuel as [|f]; [lia|].
    rewrite expand_T_S. replace (Nat.leb 100 (length [FTitle])) with false by reflexivity.
    rewrite (expand_recurse_plain pfnames lib opts (chars name) (plain_chars name)) by (unfold chars; rewrite map_length; lia).
    cbv beta iota zeta. rewrite Hstrip, codes_chars.
    rewrite (no_colon_index name 0 Hcolon).
    rewrite Hpf. rewrite Hcolon. cbn [negb andb].
    replace (detect_loop ([FTitle] ++ [FTemplate name])) with false by reflexivity.
    rewrite (build_args_flat args Hargs) by lia. fold ht.
    rewrite Htfn, Hpfn. cbn [hook_ret find].
    unfold FlatCall.body_calls_result. fold ht.
    destruct (find_tpl lib name) as [t|] eqn:Et.
    - fold (marked_body (t_body t)).
      rewrite (expand_args_body name (marked_body (t_body t)) (body_marked _ _ (Hbody t eq_refl))) by (unfold bsize in Hf; lia).
      change ([FTitle] ++ [FTemplate name]) with [FTitle; FTemplate name]. cbn [orb].
      rewrite (HG f ltac:(lia) t eq_refl).
      rewrite add_newline_marked_body.
      destruct (add_newline (page_result (body_subst ht (t_body t)))); reflexivity.
    - cbn. reflexivity.
  Qed.

  (** Calls in the arguments and calls in the body together. *)
  Theorem two_level_call name args :
    FlatCall.two_level_ok pfnames lib name args = true -> o_tfn opts = [] -> o_pfn opts = [] ->
    exists F, forall fuel, (F <= fuel)%nat ->
      expand_T fuel [FTitle] true (chars name :: args) = Some (FlatCall.two_level_result lib name args).
  Proof.
    intros Hok Htfn Hpfn.
    unfold FlatCall.two_level_ok in Hok. repeat (apply andb_true_iff in Hok; destruct Hok as [Hok ?]).
    assert (Hstrip : strip_i (chars name) = chars name).
    { apply str_eqb_eq in Hok. rewrite <- (plain_chars_codes (strip_i (chars name))) by (apply plain_strip, plain_chars).
      rewrite Hok. reflexivity. }
    assert (Hcolon : existsb (N.eqb 58) name = false) by (match goal with X : negb _ = true |- _ => apply negb_true_iff in X; exact X end).
    assert (Hpf : Expand.classify_pf pfnames (Expand.canon_pf pfnames name) = PfNone)
      by (destruct (Expand.classify_pf pfnames (Expand.canon_pf pfnames name)); try discriminate; reflexivity).
    assert (Hargs : forallb (nested_arg_ok name) args = true) by assumption.
    assert (Hbody : forall t, find_tpl lib name = Some t -> body_calls_ok name (t_body t) = true).
    { intros t Ht. match goal with X : match find_tpl lib name with _ => _ end = true |- _ => rewrite Ht in X; exact X end. }
    destruct (build_args_nested name args Hargs Htfn Hpfn) as [B HB].
    set (ht := bind_nested args 1 []).
    assert (Hht : values_plain ht = true) by (apply (values_plain_nested name); [exact Hargs | reflexivity]).
    assert (Hsecond : exists G, forall fuel, (G <= fuel)%nat -> forall t, find_tpl lib name = Some t ->
              expand_recurse fuel [FTitle; FTemplate name] true (body_subst ht (marked_body (t_body t)))
              = Some (page_result (body_subst ht (marked_body (t_body t))))).
    { destruct (find_tpl lib name) as [t|] eqn:Et.
      - destruct (body_subst_items name ht (marked_body (t_body t)) Hht (body_marked _ _ (Hbody t eq_refl))) as [Hi Hfr].
        destruct (expand_items_at _ Hi Htfn Hpfn) as [G HG].
        exists G. intros fuel Hf t' Ht'. inversion Ht'; subst t'. apply HG; [cbn; lia | exact Hfr | exact Hf].
      - exists 0%nat. intros fuel _ t' Ht'. discriminate Ht'. }
    destruct Hsecond as [G HG].
    set (bsize := match find_tpl lib name with Some t => size2 (marked_body (t_body t)) | None => 0%nat end).
    exists (length name + B + bsize + G + 10)%nat.
    intros fuel Hf. destruct fuel as [|f]; [lia|].
    rewrite expand_T_S. replace (Nat.leb 100 (length [FTitle])) with false by reflexivity.
    rewrite (expand_recurse_plain pfnames lib opts (chars name) (plain_chars name)) by (unfold chars; rewrite map_length; lia).
    cbv beta iota zeta. rewrite Hstrip, codes_chars.
    rewrite (no_colon_index name 0 Hcolon).
    rewrite Hpf. rewrite Hcolon. cbn [negb andb].
    replace (detect_loop ([FTitle] ++ [FTemplate name])) with false by reflexivity.
    change ([FTitle] ++ [FTemplate name]) with [FTitle; FTemplate name].
    rewrite (HB f 1 []) by lia. fold ht.
    rewrite Htfn, Hpfn. cbn [hook_ret find].
    unfold FlatCall.two_level_result. fold ht.
    destruct (find_tpl lib name) as [t|] eqn:Et.
    - fold (marked_body (t_body t)).
      rewrite (expand_args_body name (marked_body (t_body t)) (body_marked _ _ (Hbody t eq_refl))) by (unfold bsize in Hf; lia).
      cbn [orb].
      rewrite (HG f ltac:(lia) t eq_refl).
      rewrite add_newline_marked_body.
      destruct (add_newline (page_result (body_subst ht (t_body t)))); reflexivity.
    - cbn. reflexivity.
  Qed.

  (** ... with parameter references inside the arguments of the calls in the body. *)
  Notation body_subst_args := FlatCall.body_subst_args.
  Notation body_params_ok := (FlatCall.body_params_ok pfnames lib).

  Fixpoint size3 (e : enc) : nat :=
    match e with
    | [] => 1
    | A args :: r => S (fold_right (fun a n => (length a + n)%nat) 2%nat args) + size3 r
    | T args :: r => S (fold_right (fun a n => (size a + n)%nat) 2%nat args) + size3 r
    | _ :: r => S (size3 r)
    end.

  Lemma map_opt_args_flat f stk am (args : list enc) :
    forallb flat_body args = true -> (fold_right (fun a n => (size a + n)%nat) 0%nat args < f)%nat ->
    map_opt (fun x => option_map drop_last_nl (expand_args f stk am x)) args
    = Some (map (fun a => drop_last_nl (code_subst am a)) args).
  Proof.
    induction args as [|a args IH]; intros Hp Hf; [reflexivity|].
    cbn in Hp. apply andb_true_iff in Hp. destruct Hp as [Ha Hl]. cbn [fold_right] in Hf.
    cbn [map_opt map]. rewrite (expand_args_flat a Ha) by lia. cbn [option_map].
    rewrite IH by (assumption || lia). reflexivity.
  Qed.

  Lemma fold_size_base (l : list enc) b :
    fold_right (fun a n => (size a + n)%nat) b l = (fold_right (fun a n => (size a + n)%nat) 0%nat l + b)%nat.
  Proof. induction l as [|a l IH]; cbn [fold_right]; [reflexivity | rewrite IH; lia]. Qed.

  Lemma params_marked outer b : body_params_ok outer b = true -> body_params_ok outer (marked_body b) = true.
  Proof.
    destruct b as [|i b]; [reflexivity|]. destruct i as [c| | | | |]; try (intros H; exact H).
    cbn [marked_body]. destruct ((c =? 35) || (c =? 42) || (c =? 59) || (c =? 58)); intros H; exact H.
  Qed.

  Lemma flat_body_plain a : plain a = true -> flat_body a = true.
  Proof.
    induction a as [|i a IH]; intros H; [reflexivity|]. cbn in H. apply andb_true_iff in H. destruct H as [Hi Ha].
    destruct i; try discriminate Hi. cbn. apply IH. exact Ha.
  Qed.

  Lemma expand_args_params outer e : body_params_ok outer e = true ->
    forall fuel stk am, (size3 e < fuel)%nat -> expand_args fuel stk am e = Some (body_subst_args am e).
  Proof.
    induction e as [|i e IH]; intros Hb fuel stk am Hf.
    - destruct fuel; [cbn in Hf; lia | reflexivity].
    - destruct fuel as [|f]; [cbn in Hf; lia|].
      destruct i as [c|args|args|args|c|]; try discriminate Hb.
      + cbn [Expand.expand_args]. cbn in Hb, Hf. rewrite (IH Hb) by lia. reflexivity.
      + destruct args as [|n args]; [discriminate Hb|].
        cbn [FlatCall.body_params_ok] in Hb. repeat (apply andb_true_iff in Hb; destruct Hb as [Hb ?]).
        cbn [size3] in Hf. rewrite (fold_size_base (n :: args) 2) in Hf.
        cbn [Expand.expand_args]. rewrite (IH ltac:(assumption)) by lia.
        assert (Hall : forallb flat_body (n :: args) = true) by (cbn [forallb]; rewrite (flat_body_plain n Hb); assumption).
        rewrite (map_opt_args_flat f stk am (n :: args) Hall) by lia.
        reflexivity.
      + destruct args as [|k [|d [|x more]]]; try discriminate Hb.
        * cbn in Hb. apply andb_true_iff in Hb. destruct Hb as [Hk Hb].
          cbn [size3 fold_right] in Hf.
          cbn [Expand.expand_args]. rewrite (IH Hb) by lia.
          rewrite (expand_args_plain pfnames lib opts k Hk) by lia.
          rewrite (expand_recurse_plain pfnames lib opts k Hk) by lia.
          cbn [FlatCall.body_subst_args]. fold (param_key k).
          destruct (am_get am (param_key k)); reflexivity.
        * cbn in Hb. apply andb_true_iff in Hb. destruct Hb as [Hk Hb]. apply andb_true_iff in Hk. destruct Hk as [Hk Hd].
          cbn [size3 fold_right] in Hf.
          cbn [Expand.expand_args]. rewrite (IH Hb) by lia.
          rewrite (expand_args_plain pfnames lib opts k Hk) by lia.
          rewrite (expand_recurse_plain pfnames lib opts k Hk) by lia.
          cbn [FlatCall.body_subst_args]. fold (param_key k).
          destruct (am_get am (param_key k)); [reflexivity|].
          rewrite (expand_args_plain pfnames lib opts d Hd) by lia. reflexivity.
  Qed.

  Lemma flat_ok_args name args : flat_ok pfnames lib name [] = true -> forallb plain args = true ->
    flat_ok pfnames lib name args = true.
  Proof. unfold flat_ok. cbn [forallb]. intros H Ha. rewrite Ha. rewrite andb_true_r in H. rewrite andb_true_r. exact H. Qed.

  Lemma stripped_name_no_nl n : plain n = true -> strip_i (chars (codes n)) = chars (codes n) -> drop_last_nl n = n.
  Proof.
    intros Hn Hs. rewrite <- (plain_chars_codes n Hn). rewrite <- Hs.
    unfold drop_last_nl. destruct (rev (strip_i (chars (codes n)))) as [|z zs] eqn:Er; [reflexivity|].
    destruct (is_code 10 z) eqn:Ez; [|reflexivity]. exfalso.
    assert (Hsp : sp_item z = true) by (destruct z; try discriminate Ez; cbn in *; apply N.eqb_eq in Ez; subst; reflexivity).
    unfold strip_i, rstrip_i in Er. rewrite rev_involutive in Er.
    assert (Hl : forall y w ws, lstrip_i y = w :: ws -> sp_item w = false).
    { induction y as [|q y IHy]; intros w ws Hy; [discriminate|]. cbn [lstrip_i] in Hy. destruct (sp_item q) eqn:Eq; [apply (IHy _ _ Hy)|].
      inversion Hy; subst. exact Eq. }
    rewrite (Hl _ _ _ Er) in Hsp. discriminate Hsp.
  Qed.

  Lemma code_subst_plain ht a : values_plain ht = true -> flat_body a = true -> plain (code_subst ht a) = true.
  Proof. intros Hh Ha. apply subst_plain; [apply plain_drop_last_nl | exact Hh | exact Ha]. Qed.

  Lemma body_subst_args_items outer ht e : values_plain ht = true -> body_params_ok outer e = true ->
    forallb flat_item (body_subst_args ht e) = true /\ fresh_items [FTitle; FTemplate outer] (body_subst_args ht e) = true.
  Proof.
    intros Hh. induction e as [|i e IH]; intros Hb; [split; reflexivity|].
    destruct i as [c|args|args|args|c|]; try discriminate Hb.
    - cbn in Hb. destruct (IH Hb) as [H1 H2]. split; [cbn; exact H1 | unfold fresh_items in *; cbn; exact H2].
    - destruct args as [|n args]; [discriminate Hb|].
      cbn [FlatCall.body_params_ok] in Hb. repeat (apply andb_true_iff in Hb; destruct Hb as [Hb ?]).
      destruct (IH ltac:(assumption)) as [Hit Hfr].
      match goal with X : flat_ok _ _ _ [] = true |- _ => pose proof X as Hname; destruct (flat_ok_premises _ _ X) as (Hs & _) end.
      assert (Hn : code_subst ht n = n).
      { unfold code_subst. clear - Hb. induction n as [|z n IHn]; [reflexivity|]. cbn in Hb. apply andb_true_iff in Hb. destruct Hb as [Hz Hn].
        destruct z; try discriminate Hz. cbn [subst]. rewrite (IHn Hn). reflexivity. }
      assert (Hdl : drop_last_nl (code_subst ht n) = n) by (rewrite Hn; apply stripped_name_no_nl; assumption).
      assert (Hargs' : forallb plain (map (fun a => drop_last_nl (code_subst ht a)) args) = true).
      { match goal with X : forallb flat_body args = true |- _ => revert X end. clear - Hh.
        induction args as [|a args IHa]; intros Hf; [reflexivity|]. cbn in Hf. apply andb_true_iff in Hf. destruct Hf as [Ha Hr].
        cbn [map forallb]. rewrite (plain_drop_last_nl _ (code_subst_plain ht a Hh Ha)), (IHa Hr). reflexivity. }
      cbn [FlatCall.body_subst_args map]. rewrite Hdl. split.
      + cbn [forallb FlatCall.flat_item]. rewrite Hit, andb_true_r, Hb. cbn [andb].
        apply flat_ok_args; assumption.
      + unfold fresh_items in *. cbn [forallb]. rewrite Hfr, andb_true_r.
        cbn [existsb frame_eqb orb]. rewrite orb_false_r. assumption.
    - destruct args as [|k [|d [|x more]]]; try discriminate Hb; cbn in Hb.
      + apply andb_true_iff in Hb. destruct Hb as [Hk Hb]. destruct (IH Hb) as [H1 H2].
        cbn [FlatCall.body_subst_args]. rewrite forallb_app, fresh_app, H1, H2, !andb_true_r.
        destruct (am_get ht (param_key k)) as [v|] eqn:G.
        * assert (Hv := plain_drop_last_nl v (am_get_plain ht _ v Hh G)). split; [apply plain_items | apply plain_fresh]; exact Hv.
        * assert (Hu : plain (unexpanded_arg [chars (show_key (param_key k))]) = true)
            by (unfold unexpanded_arg; cbn [join_i]; rewrite !plain_app, !plain_chars; reflexivity).
          split; [apply plain_items | apply plain_fresh]; exact Hu.
      + apply andb_true_iff in Hb. destruct Hb as [Hk Hb]. apply andb_true_iff in Hk. destruct Hk as [Hk Hd].
        destruct (IH Hb) as [H1 H2].
        cbn [FlatCall.body_subst_args]. rewrite forallb_app, fresh_app, H1, H2, !andb_true_r.
        destruct (am_get ht (param_key k)) as [v|] eqn:G.
        * assert (Hv := plain_drop_last_nl v (am_get_plain ht _ v Hh G)). split; [apply plain_items | apply plain_fresh]; exact Hv.
        * split; [apply plain_items | apply plain_fresh]; exact Hd.
  Qed.

  Lemma add_newline_marked_params ht b :
    add_newline (page_result (body_subst_args ht (marked_body b))) = add_newline (page_result (body_subst_args ht b)).
  Proof.
    destruct b as [|i b]; [reflexivity|]. destruct i as [c| | | | |]; try reflexivity.
    cbn [marked_body]. destruct ((c =? 35) || (c =? 42) || (c =? 59) || (c =? 58)) eqn:E; [|reflexivity].
    cbn [FlatCall.body_subst_args]. unfold FlatCall.page_result. cbn [flat_map app]. unfold add_newline. cbn [starts_block].
    replace ((10 =? 42) || (10 =? 59) || (10 =? 58) || (10 =? 35) || _) with false by reflexivity.
    assert (Hs : (c =? 42) || (c =? 59) || (c =? 58) || (c =? 35) = true).
    { destruct (c =? 35), (c =? 42), (c =? 59), (c =? 58); cbn in *; congruence. }
    rewrite Hs. reflexivity.
  Qed.

  Theorem body_params_call name args :
    FlatCall.body_params_call_ok pfnames lib name args = true -> o_tfn opts = [] -> o_pfn opts = [] ->
    exists F, forall fuel, (F <= fuel)%nat ->
      expand_T fuel [FTitle] true (chars name :: args) = Some (FlatCall.body_params_result lib name args).
  Proof.
    intros Hok Htfn Hpfn.
    unfold FlatCall.body_params_call_ok in Hok. repeat (apply andb_true_iff in Hok; destruct Hok as [Hok ?]).
    assert (Hstrip : strip_i (chars name) = chars name).
    { apply str_eqb_eq in Hok. rewrite <- (plain_chars_codes (strip_i (chars name))) by (apply plain_strip, plain_chars).
      rewrite Hok. reflexivity. }
    assert (Hcolon : existsb (N.eqb 58) name = false) by (match goal with X : negb _ = true |- _ => apply negb_true_iff in X; exact X end).
    assert (Hpf : Expand.classify_pf pfnames (Expand.canon_pf pfnames name) = PfNone)
      by (destruct (Expand.classify_pf pfnames (Expand.canon_pf pfnames name)); try discriminate; reflexivity).
    assert (Hargs : forallb (nested_arg_ok name) args = true) by assumption.
    assert (Hbody : forall t, find_tpl lib name = Some t -> body_params_ok name (t_body t) = true).
    { intros t Ht. match goal with X : match find_tpl lib name with _ => _ end = true |- _ => rewrite Ht in X; exact X end. }
    destruct (build_args_nested name args Hargs Htfn Hpfn) as [B HB].
    set (ht := bind_nested args 1 []).
    assert (Hht : values_plain ht = true) by (apply (values_plain_nested name); [exact Hargs | reflexivity]).
    assert (Hsecond : exists G, forall fuel, (G <= fuel)%nat -> forall t, find_tpl lib name = Some t ->
              expand_recurse fuel [FTitle; FTemplate name] true (body_subst_args ht (marked_body (t_body t)))
              = Some (page_result (body_subst_args ht (marked_body (t_body t))))).
    { destruct (find_tpl lib name) as [t|] eqn:Et.
      - destruct (body_subst_args_items name ht (marked_body (t_body t)) Hht (params_marked _ _ (Hbody t eq_refl))) as [Hi Hfr].
        destruct (expand_items_at _ Hi Htfn Hpfn) as [G HG].
        exists G. intros fuel Hf t' Ht'. inversion Ht'; subst t'. apply HG; [cbn; lia | exact Hfr | exact Hf].
      - exists 0%nat. intros fuel _ t' Ht'. discriminate Ht'. }
    destruct Hsecond as [G HG].
    set (bsize := match find_tpl lib name with Some t => size3 (marked_body (t_body t)) | None => 0%nat end).
    exists (length name + B + bsize + G + 10)%nat.
    intros fuel Hf. destruct fuel as [|f]; [lia|].
    rewrite expand_T_S. replace (Nat.leb 100 (length [FTitle])) with false by reflexivity.
    rewrite (expand_recurse_plain pfnames lib opts (chars name) (plain_chars name)) by (unfold chars; rewrite map_length; lia).
    cbv beta iota zeta. rewrite Hstrip, codes_chars.
    rewrite (no_colon_index name 0 Hcolon).
    rewrite Hpf. rewrite Hcolon. cbn [negb andb].
    replace (detect_loop ([FTitle] ++ [FTemplate name])) with false by reflexivity.
    change ([FTitle] ++ [FTemplate name]) with [FTitle; FTemplate name].
    rewrite (HB f 1 []) by lia. fold ht.
    rewrite Htfn, Hpfn. cbn [hook_ret find].
    unfold FlatCall.body_params_result. fold ht.
    destruct (find_tpl lib name) as [t|] eqn:Et.
    - fold (marked_body (t_body t)).
      rewrite (expand_args_params name (marked_body (t_body t)) (params_marked _ _ (Hbody t eq_refl))) by (unfold bsize in Hf; lia).
      cbn [orb].
      rewrite (HG f ltac:(lia) t eq_refl).
      rewrite add_newline_marked_params.
      destruct (add_newline (page_result (body_subst_args ht (t_body t)))); reflexivity.
    - cbn. reflexivity.
  Qed.

  (** frame:preprocess(t): text and flat calls expanded inside a Lua callback - under a longer expansion path on which
      none of the called templates is being expanded - give what they give on the page (C08). *)
  Theorem preprocess_anywhere stk page :
    (length stk < 100)%nat -> forallb flat_item page = true -> fresh_items stk page = true ->
    o_tfn opts = [] -> o_pfn opts = [] ->
    exists F, forall fuel, (F <= fuel)%nat ->
      expand_recurse fuel stk true page = expand_recurse fuel [FTitle] true page /\
      expand_recurse fuel stk true page = Some (page_result page).
  Proof.
    intros Hd Hp Hf Htfn Hpfn. destruct (expand_items_at page Hp Htfn Hpfn) as [F HF].
    exists F. intros fuel Hfu.
    assert (Hfresh0 : fresh_items [FTitle] page = true).
    { unfold fresh_items. apply forallb_forall. intros x _. destruct x as [c|[|n args]| | | |]; reflexivity. }
    rewrite (HF stk fuel Hd Hf Hfu). rewrite (HF [FTitle] fuel ltac:(cbn; lia) Hfresh0 Hfu). split; reflexivity.
  Qed.
  (** ... and of a page that is one #if / #ifeq / #switch call with calls inside (C08) *)
  Lemma single_call_anywhere args r F (P : list frame -> Prop) :
    (forall stk ea fuel, P stk -> (F <= fuel)%nat -> expand_T fuel stk ea args = Some r) ->
    forall stk fuel, P stk -> P [FTitle] -> (S (S F) <= fuel)%nat ->
      expand_recurse fuel stk true [T args] = expand_recurse fuel [FTitle] true [T args] /\
      expand_recurse fuel stk true [T args] = Some r.
  Proof.
    intros HF stk fuel Hs H0 Hf. destruct fuel as [|f]; [lia|]. destruct f as [|f]; [lia|].
    assert (E : forall st, P st -> expand_recurse (S (S f)) st true [T args] = Some r).
    { intros st Hst.
      change (expand_recurse (S (S f)) st true [T args])
        with (match expand_recurse (S f) st true [] with
              | None => None
              | Some rest' => match expand_T (S f) st true args with
                              | Some t => Some (t ++ rest') | None => None end
              end).
      rewrite (HF st true (S f) Hst) by lia. cbn [Expand.expand_recurse]. rewrite app_nil_r. reflexivity. }
    rewrite (E stk Hs), (E [FTitle] H0). split; reflexivity.
  Qed.

  Lemma fresh_at_title (more : list enc) : forallb (fresh_items [FTitle]) more = true.
  Proof.
    apply forallb_forall. intros e _. unfold fresh_items. apply forallb_forall. intros x _.
    destruct x as [c|[|n args]| | | |]; reflexivity.
  Qed.

  Theorem preprocess_if_anywhere cond more :
    FlatCall.if_calls_ok pfnames lib cond more = true -> o_parserfns opts = true -> o_tfn opts = [] -> o_pfn opts = [] ->
    exists F, forall stk fuel, (length stk < 98)%nat -> forallb (fresh_items stk) more = true -> (F <= fuel)%nat ->
      expand_recurse fuel stk true [T ((if_head ++ cond) :: more)]
      = expand_recurse fuel [FTitle] true [T ((if_head ++ cond) :: more)] /\
      expand_recurse fuel stk true [T ((if_head ++ cond) :: more)] = Some (FlatCall.if_calls_result lib cond more).
  Proof.
    intros Hok Hpf Htfn Hpfn. destruct (if_calls cond more Hok Hpf Htfn Hpfn) as [F HF].
    exists (S (S F)). intros stk fuel Hd Hfr Hf.
    apply (single_call_anywhere _ _ F (fun st => (length st < 98)%nat /\ forallb (fresh_items st) more = true)).
    - intros st ea fu [H1 H2] Hfu. apply HF; assumption.
    - split; assumption.
    - split; [cbn; lia | apply fresh_at_title].
    - exact Hf.
  Qed.

  Theorem preprocess_ifeq_anywhere x more :
    FlatCall.ifeq_calls_ok pfnames lib x more = true -> o_parserfns opts = true -> o_tfn opts = [] -> o_pfn opts = [] ->
    exists F, forall stk fuel, (length stk < 98)%nat -> forallb (fresh_items stk) more = true -> (F <= fuel)%nat ->
      expand_recurse fuel stk true [T ((ifeq_head ++ x) :: more)]
      = expand_recurse fuel [FTitle] true [T ((ifeq_head ++ x) :: more)] /\
      expand_recurse fuel stk true [T ((ifeq_head ++ x) :: more)] = Some (FlatCall.ifeq_calls_result lib x more).
  Proof.
    intros Hok Hpf Htfn Hpfn. destruct (ifeq_calls x more Hok Hpf Htfn Hpfn) as [F HF].
    exists (S (S F)). intros stk fuel Hd Hfr Hf.
    apply (single_call_anywhere _ _ F (fun st => (length st < 98)%nat /\ forallb (fresh_items st) more = true)).
    - intros st ea fu [H1 H2] Hfu. apply HF; assumption.
    - split; assumption.
    - split; [cbn; lia | apply fresh_at_title].
    - exact Hf.
  Qed.

  Theorem preprocess_switch_anywhere x cases :
    plain x = true -> forallb (FlatCall.case_calls_ok pfnames lib) cases = true ->
    o_parserfns opts = true -> o_tfn opts = [] -> o_pfn opts = [] ->
    exists F, forall stk fuel, (length stk < 98)%nat -> forallb (fun kv => fresh_items stk (snd kv)) cases = true ->
      (F <= fuel)%nat ->
      expand_recurse fuel stk true [T ((switch_head ++ x) :: map mkcase cases)]
      = expand_recurse fuel [FTitle] true [T ((switch_head ++ x) :: map mkcase cases)] /\
      expand_recurse fuel stk true [T ((switch_head ++ x) :: map mkcase cases)]
      = Some (add_newline (FlatCall.switch_calls_result lib (strip_i x) cases None)).
  Proof.
    intros Hx Hok Hpf Htfn Hpfn. destruct (switch_calls x cases Hx Hok Hpf Htfn Hpfn) as [F HF].
    exists (S (S F)). intros stk fuel Hd Hfr Hf.
    apply (single_call_anywhere _ _ F (fun st => (length st < 98)%nat /\ forallb (fun kv => fresh_items st (snd kv)) cases = true)).
    - intros st ea fu [H1 H2] Hfu. apply HF; assumption.
    - split; assumption.
    - split; [cbn; lia |]. apply forallb_forall. intros kv _. unfold fresh_items. apply forallb_forall. intros y _.
      destruct y as [c|[|n args]| | | |]; reflexivity.
    - exact Hf.
  Qed.
End Flat.

(** The deviation the code is known to have (c04:trailing-newline-dropped) is exactly the gap between the two
    rules: a call that MediaWiki and the code answer differently. *)
Lemma trailing_newline_witness :
  let lib := [mktpl [115] [Ch 91; A [chars [49]]; Ch 93] false] in       (* Template:s = "[{{{1}}}]" *)
  let args := [chars [120; 10]] in                                        (* {{s|x\n}} *)
  flat_ok [] lib [115] args = true /\
  codes (result_of lib [115] args) = [91; 120; 93] /\                    (* the code: "[x]" *)
  codes (mw_result_of lib [115] args) = [91; 120; 10; 93].               (* MediaWiki: "[x\n]" *)
Proof. repeat split; vm_compute; reflexivity. Qed.
