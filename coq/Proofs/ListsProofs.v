(** The list machine of Model/Lists.v (list_fn + pop_until_nth_list on the parser stack) builds, for every
    block of list lines, the forest the right-to-left specification describes; on the way: the open items'
    markers always form a chain of proper prefixes, and pop_until_nth_list never pops anything. *)
From Coq Require Import List Arith Bool Lia.
From WTP Require Import Model.Lists.
Import ListNotations.

(** * markers *)
Lemma marker_eqb_eq a : forall b, marker_eqb a b = true <-> a = b.
Proof. induction a as [|x a IH]; destruct b as [|y b]; cbn; split; try congruence; try discriminate.
  - intros H. apply andb_true_iff in H. destruct H as [H1 H2]. apply Nat.eqb_eq in H1. apply IH in H2. congruence.
  - intros H. inversion H; subst. rewrite Nat.eqb_refl. cbn. apply IH. reflexivity. Qed.
Lemma marker_eqb_refl a : marker_eqb a a = true.
Proof. apply marker_eqb_eq. reflexivity. Qed.
Lemma marker_eqb_sym a b : marker_eqb a b = marker_eqb b a.
Proof. destruct (marker_eqb a b) eqn:E1, (marker_eqb b a) eqn:E2; try reflexivity.
  - apply marker_eqb_eq in E1. subst. rewrite marker_eqb_refl in E2. discriminate.
  - apply marker_eqb_eq in E2. subst. rewrite marker_eqb_refl in E1. discriminate. Qed.
Lemma extends_irrefl m : extends m m = false.
Proof. unfold extends. rewrite Nat.ltb_irrefl. reflexivity. Qed.
Lemma extends_length a b : extends a b = true -> length a < length b.
Proof. unfold extends. intros H. apply andb_true_iff in H. destruct H as [H _]. apply Nat.ltb_lt. exact H. Qed.

(** * frames: an open item together with the list it belongs to *)
Record frame := mkf { fm : marker; fdone : list lnode; fid : nat; fsubs : list lnode }.
Definition raw_of (fs : list frame) : list node :=
  flat_map (fun f => [NI (fm f) (fid f) (fsubs f); NL (fm f) (fdone f)]) fs.
Definition fitem (f : frame) : lnode := LI (fm f) (fid f) (rev (fsubs f)).
Definition fclose (f : frame) : lnode := LL (fm f) (rev (fitem f :: fdone f)).
Definition addsub (g : frame) (l : lnode) : frame := mkf (fm g) (fdone g) (fid g) (l :: fsubs g).
Definition newf (m : marker) (id : nat) : frame := mkf m [] id [].

Fixpoint chain (top : frame) (rest : list frame) : Prop :=
  match rest with
  | [] => fm top <> []
  | g :: r => extends (fm g) (fm top) = true /\ chain g r
  end.
Lemma chain_len : forall rest top, chain top rest -> S (length rest) <= length (fm top).
Proof. induction rest as [|g r IH]; intros top H; cbn in *.
  - destruct (fm top); [congruence | cbn; lia].
  - destruct H as [He Hc]. apply extends_length in He. specialize (IH g Hc). lia. Qed.
Lemma chain_addsub top rest l : chain top rest -> chain (addsub top l) rest.
Proof. destruct rest; cbn; auto. Qed.

(** * what list_fn's loop does, frame by frame *)
Inductive lres := RSame (top : frame) (rest : list frame) (roots : list lnode)
                | RSub (top : frame) (rest : list frame) (roots : list lnode)
                | REmpty (roots : list lnode).
Fixpoint floop (m : marker) (top : frame) (rest : list frame) (roots : list lnode) : lres :=
  if marker_eqb (fm top) m then RSame top rest roots
  else if extends (fm top) m then RSub top rest roots
  else match rest with
       | [] => REmpty (fclose top :: roots)
       | g :: r => floop m (addsub g (fclose top)) r roots
       end.
Definition raw_after (r : lres) : state :=
  match r with
  | RSame top rest roots => (NL (fm top) (fitem top :: fdone top) :: raw_of rest, roots)
  | RSub top rest roots => (raw_of (top :: rest), roots)
  | REmpty roots => ([], roots)
  end.
Definition push_f (m : marker) (id : nat) (r : lres) : list frame * list lnode :=
  match r with
  | RSame top rest roots => (mkf m (fitem top :: fdone top) id [] :: rest, roots)
  | RSub top rest roots => (newf m id :: top :: rest, roots)
  | REmpty roots => ([newf m id], roots)
  end.
Definition fstep (st : list frame * list lnode) (line : marker * nat) : list frame * list lnode :=
  let (m, id) := line in
  match fst st with
  | [] => ([newf m id], snd st)
  | top :: rest => push_f m id (floop m top rest (snd st))
  end.

Lemma pop_loop_floop m : forall rest top roots fuel, 2 * S (length rest) < fuel ->
  pop_loop fuel m (raw_of (top :: rest), roots) = raw_after (floop m top rest roots).
Proof. induction rest as [|g r IH]; intros top roots fuel Hf.
  - destruct fuel as [|[|[|f]]]; cbn in Hf; try lia. cbn [pop_loop raw_of flat_map fst app floop].
    destruct (marker_eqb (fm top) m); [reflexivity|]. destruct (extends (fm top) m); [reflexivity|].
    cbn [pop fst pop_loop]. destruct f; reflexivity.
  - destruct fuel as [|[|f]]; cbn [length] in Hf; try lia.
    cbn [pop_loop raw_of flat_map fst app floop].
    destruct (marker_eqb (fm top) m); [reflexivity|]. destruct (extends (fm top) m); [reflexivity|].
    cbn [pop fst addchild close]. 
    change (NI (fm g) (fid g) (LL (fm top) (rev (LI (fm top) (fid top) (rev (fsubs top)) :: fdone top)) :: fsubs g)
              :: NL (fm g) (fdone g) :: flat_map (fun f0 : frame => [NI (fm f0) (fid f0) (fsubs f0); NL (fm f0) (fdone f0)]) r)
      with (raw_of (addsub g (fclose top) :: r)).
    apply IH. cbn [length] in *. lia.
Qed.

(** * pop_until_nth_list does nothing on such stacks *)
Fixpoint count_nl (l : list node) : nat :=
  match l with [] => 0 | NL _ _ :: r => S (count_nl r) | NI _ _ _ :: r => count_nl r end.
Lemma upto_app_last : forall l x n, count_nl l < n -> nodes_upto_nth_list (l ++ [x]) n = S (length l).
Proof. induction l as [|y l IH]; intros x n Hn.
  - cbn in *. destruct x; cbn; [|reflexivity]. destruct n as [|[|n]]; [lia | reflexivity | reflexivity].
  - destruct y as [m ch|m id ch]; cbn [app nodes_upto_nth_list count_nl length] in *.
    + destruct n as [|[|n]]; [lia | lia |]. f_equal. apply IH. lia.
    + f_equal. apply IH. exact Hn. Qed.
Lemma count_nl_app a b : count_nl (a ++ b) = count_nl a + count_nl b.
Proof. induction a as [|[m ch|m id ch] a IH]; cbn; try rewrite IH; lia. Qed.
Lemma count_nl_rev l : count_nl (rev l) = count_nl l.
Proof. induction l as [|[m ch|m id ch] l IH]; cbn; try rewrite count_nl_app; cbn; try rewrite IH; lia. Qed.
Lemma count_raw fs : count_nl (raw_of fs) = length fs.
Proof. induction fs as [|f fs IH]; [reflexivity|]. cbn [raw_of flat_map app count_nl length]. fold (raw_of fs). rewrite IH. reflexivity. Qed.
Lemma length_raw fs : length (raw_of fs) = 2 * length fs.
Proof. induction fs as [|f fs IH]; [reflexivity|]. cbn [raw_of flat_map app length]. fold (raw_of fs). rewrite IH. lia. Qed.

Lemma pop_until_noop m x below roots : count_nl below < length m ->
  pop_until_nth_list m (x :: below, roots) = (x :: below, roots).
Proof. intros H. unfold pop_until_nth_list. cbn [fst rev].
  rewrite upto_app_last by (rewrite count_nl_rev; exact H). rewrite rev_length. cbn [length]. rewrite Nat.sub_diag. reflexivity. Qed.

Lemma floop_chain m : forall rest top roots, chain top rest ->
  match floop m top rest roots with
  | RSame t r _ => chain t r /\ fm t = m
  | RSub t r _ => chain t r /\ extends (fm t) m = true
  | REmpty _ => True
  end.
Proof. induction rest as [|g r IH]; intros top roots Hc; cbn [floop].
  - destruct (marker_eqb (fm top) m) eqn:E1; [split; [exact Hc | apply marker_eqb_eq; exact E1]|].
    destruct (extends (fm top) m) eqn:E2; [split; [exact Hc | exact E2]|]. exact I.
  - destruct (marker_eqb (fm top) m) eqn:E1; [split; [exact Hc | apply marker_eqb_eq; exact E1]|].
    destruct (extends (fm top) m) eqn:E2; [split; [exact Hc | exact E2]|].
    apply IH. apply chain_addsub. destruct Hc as [_ Hc]. exact Hc. Qed.

Lemma raw_step fs roots m id : m <> [] -> match fs with [] => True | top :: rest => chain top rest end ->
  step (raw_of fs, roots) (m, id) = (raw_of (fst (fstep (fs, roots) (m, id))), snd (fstep (fs, roots) (m, id)))
  /\ match fst (fstep (fs, roots) (m, id)) with [] => False | top :: rest => chain top rest end.
Proof. intros Hm Hc. destruct fs as [|top rest].
  - cbn. split; [|exact Hm]. unfold pop_until_nth_list. cbn. reflexivity.
  - unfold step, fstep. cbn [fst snd].
    rewrite pop_loop_floop by (rewrite length_raw; cbn [length]; lia).
    pose proof (floop_chain m rest top roots Hc) as Hf.
    destruct (floop m top rest roots) as [t r ro|t r ro|ro]; cbn [raw_after push_f fst snd].
    + destruct Hf as [Hct Hmt]. rewrite pop_until_noop.
      * unfold push_item. cbn [fst snd]. subst m. split; [reflexivity|]. destruct r; cbn in *; exact Hct.
      * rewrite count_raw. pose proof (chain_len _ _ Hct). subst m. lia.
    + destruct Hf as [Hct He]. cbn [raw_of flat_map app]. rewrite pop_until_noop.
      * unfold push_item. cbn [fst snd]. split; [reflexivity|]. cbn. split; [exact He | exact Hct].
      * cbn [count_nl]. fold (raw_of r). rewrite count_raw. pose proof (chain_len _ _ Hct). apply extends_length in He. lia.
    + unfold pop_until_nth_list. cbn. split; [reflexivity | exact Hm].
Qed.

(** * finishing *)
Definition fpop (st : list frame * list lnode) : list frame * list lnode :=
  match st with
  | (f :: g :: r, roots) => (addsub g (fclose f) :: r, roots)
  | ([f], roots) => ([], fclose f :: roots)
  | ([], roots) => st
  end.
Fixpoint fpops (k : nat) (st : list frame * list lnode) := match k with O => st | S k' => fpops k' (fpop st) end.
Lemma pop_pop fs roots : pop (pop (raw_of fs, roots)) = (raw_of (fst (fpop (fs, roots))), snd (fpop (fs, roots))).
Proof. destruct fs as [|f [|g r]]; reflexivity. Qed.
Lemma pops_fpops : forall k fs roots, pops (2 * k) (raw_of fs, roots) = (raw_of (fst (fpops k (fs, roots))), snd (fpops k (fs, roots))).
Proof. induction k as [|k IH]; intros fs roots; [reflexivity|].
  replace (2 * S k) with (S (S (2 * k))) by lia. cbn [pops fpops]. rewrite pop_pop.
  destruct (fpop (fs, roots)) as [fs' roots'] eqn:E. cbn [fst snd]. apply IH. Qed.
Definition ffinish (st : list frame * list lnode) : list lnode := rev (snd (fpops (length (fst st)) st)).
Lemma finish_ffinish fs roots : finish (raw_of fs, roots) = ffinish (fs, roots).
Proof. unfold finish, ffinish. cbn [fst]. rewrite length_raw, pops_fpops. reflexivity. Qed.

(** * the frames against the forest that follows: attach *)
Definition ext_of (m : marker) (l : lnode) : bool := extends m (lmarker l).
Definition closing (f : frame) (forest : list lnode) : lnode * list lnode :=
  let (a, b) := span (ext_of (fm f)) forest in
  let item := LI (fm f) (fid f) (rev (fsubs f) ++ a) in
  match b with
  | LL m' items :: b1 => if marker_eqb m' (fm f) then (LL (fm f) (rev (fdone f) ++ item :: items), b1)
                         else (LL (fm f) (rev (fdone f) ++ [item]), b)
  | _ => (LL (fm f) (rev (fdone f) ++ [item]), b)
  end.
Fixpoint attach (top : frame) (rest : list frame) (roots : list lnode) (forest : list lnode) : list lnode :=
  let (l, b) := closing top forest in
  match rest with
  | [] => rev (l :: roots) ++ b
  | g :: r => attach (addsub g l) r roots b
  end.

Lemma closing_nil f : closing f [] = (fclose f, []).
Proof. unfold closing, fclose, fitem. cbn. rewrite app_nil_r. reflexivity. Qed.

Lemma attach_nil : forall rest top roots, attach top rest roots [] = ffinish (top :: rest, roots).
Proof. induction rest as [|g r IH]; intros top roots; cbn [attach]; rewrite closing_nil.
  - unfold ffinish. cbn. rewrite app_nil_r. reflexivity.
  - rewrite IH. unfold ffinish. cbn [fst length fpops fpop]. reflexivity. Qed.

(* the three cases of one line *)
Lemma place_shape m id forest : exists items brest,
  place (m, id) forest = LL m (LI m id (fst (span (ext_of m) forest)) :: items) :: brest /\
  forall done, closing (mkf m done id []) forest = (LL m (rev done ++ LI m id (fst (span (ext_of m) forest)) :: items), brest).
Proof. unfold place, closing. cbn [fm fid fsubs fdone rev app].
  change (fun l : lnode => extends m (lmarker l)) with (ext_of m).
  destruct (span (ext_of m) forest) as [a b]. cbn [fst].
  destruct b as [|[m' items'|m' i' s'] b1].
  - exists [], []. split; reflexivity.
  - destruct (marker_eqb m' m); [exists items', b1 | exists [], (LL m' items' :: b1)]; split; reflexivity.
  - exists [], (LI m' i' s' :: b1). split; reflexivity. Qed.

Lemma closing_same top m its brest : fm top = m ->
  closing top (LL m its :: brest) = (LL m (rev (fdone top) ++ fitem top :: its), brest).
Proof. intros E. unfold closing. cbn [span]. unfold ext_of at 1. cbn [lmarker]. rewrite E, extends_irrefl, marker_eqb_refl.
  unfold fitem. rewrite E, app_nil_r. reflexivity. Qed.

Lemma closing_sub top m its brest : extends (fm top) m = true ->
  closing top (LL m its :: brest) = closing (addsub top (LL m its)) brest.
Proof. intros E. unfold closing. cbn [span]. unfold ext_of at 1. cbn [lmarker]. rewrite E.
  cbn [addsub fm fid fsubs fdone rev]. destruct (span (ext_of (fm top)) brest) as [a2 b2].
  rewrite <- app_assoc. reflexivity. Qed.

Lemma closing_other top m its brest : marker_eqb (fm top) m = false -> extends (fm top) m = false ->
  closing top (LL m its :: brest) = (fclose top, LL m its :: brest).
Proof. intros E1 E2. unfold closing. cbn [span]. unfold ext_of at 1. cbn [lmarker]. rewrite E2.
  rewrite marker_eqb_sym, E1. rewrite app_nil_r. reflexivity. Qed.

Lemma attach_step m id forest : forall rest top roots,
  attach top rest roots (place (m, id) forest) =
  match push_f m id (floop m top rest roots) with
  | (t :: r, ro) => attach t r ro forest
  | ([], ro) => rev ro ++ forest
  end.
Proof. destruct (place_shape m id forest) as [items [brest [Hp Hc]]]. rewrite Hp.
  set (item := LI m id (fst (span (ext_of m) forest))) in *.
  induction rest as [|g r IH]; intros top roots; cbn [floop].
  - destruct (marker_eqb (fm top) m) eqn:E1.
    + apply marker_eqb_eq in E1. cbn [push_f attach]. rewrite (closing_same _ _ _ _ E1), Hc.
      cbn [rev]. rewrite <- !app_assoc. reflexivity.
    + destruct (extends (fm top) m) eqn:E2.
      * cbn [push_f attach]. unfold newf. rewrite (Hc []). cbn [rev app]. rewrite (closing_sub _ _ _ _ E2). reflexivity.
      * cbn [push_f attach]. unfold newf. rewrite (Hc []). cbn [rev app]. rewrite (closing_other _ _ _ _ E1 E2).
        cbn [rev]. rewrite <- !app_assoc. reflexivity.
  - destruct (marker_eqb (fm top) m) eqn:E1.
    + apply marker_eqb_eq in E1. cbn [push_f attach]. rewrite (closing_same _ _ _ _ E1), Hc.
      cbn [rev]. rewrite <- !app_assoc. reflexivity.
    + destruct (extends (fm top) m) eqn:E2.
      * cbn [push_f attach]. unfold newf. rewrite (Hc []). cbn [rev app]. rewrite (closing_sub _ _ _ _ E2). reflexivity.
      * rewrite <- IH. cbn [attach]. rewrite (closing_other _ _ _ _ E1 E2). reflexivity.
Qed.

Theorem run_attach : forall d top rest roots,
  Forall (fun l => fst l <> []) d -> chain top rest ->
  ffinish (fold_left fstep d (top :: rest, roots)) = attach top rest roots (spec d).
Proof. induction d as [|[m id] d IH]; intros top rest roots Hd Hc.
  - cbn [fold_left spec fold_right]. symmetry. apply attach_nil.
  - inversion Hd as [|? ? Hm Hd']; subst. cbn [fst] in Hm.
    cbn [fold_left spec fold_right]. fold (spec d). rewrite attach_step.
    unfold fstep at 2. cbn [fst snd].
    pose proof (floop_chain m rest top roots Hc) as Hf.
    destruct (floop m top rest roots) as [t r ro|t r ro|ro]; cbn [push_f].
    + destruct Hf as [Hct Hmt]. apply IH; [exact Hd'|]. subst m. destruct r; cbn in *; [exact Hm | exact Hct].
    + destruct Hf as [Hct He]. apply IH; [exact Hd'|]. cbn. split; assumption.
    + apply IH; [exact Hd' | exact Hm].
Qed.

Theorem fparse_spec d : Forall (fun l => fst l <> []) d -> ffinish (fold_left fstep d ([], [])) = spec d.
Proof. destruct d as [|[m id] d]; intros Hd; [reflexivity|].
  inversion Hd as [|? ? Hm Hd']; subst. cbn [fst] in Hm.
  cbn [fold_left fstep fst snd]. rewrite run_attach; [| exact Hd' | exact Hm].
  cbn [spec fold_right]. fold (spec d).
  destruct (place_shape m id (spec d)) as [items [brest [Hp Hc]]]. etransitivity; [|symmetry; exact Hp].
  cbn [attach]. unfold newf. rewrite (Hc []). reflexivity. Qed.

(** * the machine on the parser stack refines the frame machine *)
Lemma raw_run : forall d fs roots,
  Forall (fun l => fst l <> []) d -> match fs with [] => True | top :: rest => chain top rest end ->
  fold_left step d (raw_of fs, roots) =
  (raw_of (fst (fold_left fstep d (fs, roots))), snd (fold_left fstep d (fs, roots))).
Proof. induction d as [|[m id] d IH]; intros fs roots Hd Hc; [reflexivity|].
  inversion Hd as [|? ? Hm Hd']; subst. cbn [fst] in Hm. cbn [fold_left].
  destruct (raw_step fs roots m id Hm Hc) as [Hs Hc']. rewrite Hs.
  destruct (fstep (fs, roots) (m, id)) as [fs' roots'] eqn:E. cbn [fst snd] in *.
  apply IH; [exact Hd'|]. destruct fs'; [contradiction | exact Hc']. Qed.

Theorem parse_spec d : Forall (fun l => fst l <> []) d -> parse d = spec d.
Proof. intros Hd. unfold parse. change ([], []) with (raw_of [], @nil lnode).
  rewrite (raw_run d [] [] Hd I).
  destruct (fold_left fstep d ([], [])) as [fs roots] eqn:E. cbn [fst snd].
  rewrite finish_ffinish, <- E. apply fparse_spec. exact Hd. Qed.

(* pop_until_nth_list never pops on a block of list lines (every reachable stack) *)
Theorem pop_until_never_pops d m : Forall (fun l => fst l <> []) d -> m <> [] ->
  let st := fold_left step d ([], []) in
  pop_until_nth_list m (pop_loop (S (length (fst st))) m st) = pop_loop (S (length (fst st))) m st.
Proof. intros Hd Hm st. subst st. change ([], []) with (raw_of [], @nil lnode).
  rewrite (raw_run d [] [] Hd I).
  assert (Hc : match fst (fold_left fstep d ([], [])) with [] => True | top :: rest => chain top rest end).
  { clear Hm. assert (G : forall d fs roots, Forall (fun l => fst l <> []) d ->
        match fs with [] => True | top :: rest => chain top rest end ->
        match fst (fold_left fstep d (fs, roots)) with [] => True | top :: rest => chain top rest end).
    { clear. induction d as [|[m id] d IH]; intros fs roots Hd Hc; [exact Hc|].
      inversion Hd as [|? ? Hm Hd']; subst. cbn [fst] in Hm. cbn [fold_left].
      destruct (raw_step fs roots m id Hm Hc) as [_ Hc'].
      destruct (fstep (fs, roots) (m, id)) as [fs' roots'] eqn:E. cbn [fst] in Hc'.
      apply IH; [exact Hd'|]. destruct fs'; [contradiction | exact Hc']. }
    apply G; [exact Hd | exact I]. }
  destruct (fold_left fstep d ([], [])) as [fs roots]. cbn [fst snd] in *.
  destruct fs as [|top rest].
  - cbn. unfold pop_until_nth_list. reflexivity.
  - rewrite pop_loop_floop by (rewrite length_raw; cbn [length]; lia).
    pose proof (floop_chain m rest top roots Hc) as Hf.
    destruct (floop m top rest roots) as [t r ro|t r ro|ro]; cbn [raw_after].
    + destruct Hf as [Hct Hmt]. apply pop_until_noop. rewrite count_raw. pose proof (chain_len _ _ Hct). subst m. lia.
    + destruct Hf as [Hct He]. cbn [raw_of flat_map app]. apply pop_until_noop.
      cbn [count_nl]. fold (raw_of r). rewrite count_raw. pose proof (chain_len _ _ Hct). apply extends_length in He. lia.
    + reflexivity.
Qed.
