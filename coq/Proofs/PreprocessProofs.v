(** What Model/Preprocess.preprocess computes on arrangements of plain text, closed comments, nowiki elements
    and <nowiki/> tags: comments disappear together with one line break directly before them, nowiki content is
    set aside untouched (whatever it contains short of an angle bracket), everything else stays. *)
From Coq Require Import List NArith Bool Arith Lia.
From WTP Require Import Base.Str Model.Body Model.Preprocess Proofs.BodyProofs.
Import ListNotations.
Open Scope N_scope.

Inductive pseg := SPlain (s : str) | SComment (s : str) | SNowiki (c : str) | SNowikiEmpty.
Definition t_selfclose (name : str) : str := 60 :: name ++ [47; 62].
Definition render_p (sg : pseg) : str :=
  match sg with
  | SPlain s => s
  | SComment s => s_copen ++ s ++ s_cclose
  | SNowiki c => el s_nowiki c
  | SNowikiEmpty => t_selfclose s_nowiki
  end.
Definition render_ps (segs : list pseg) : str := concat (map render_p segs).

Fixpoint drop_nl (s : str) : str :=
  match s with
  | [] => []
  | [c] => if c =? 10 then [] else [c]
  | c :: r => c :: drop_nl r
  end.
Fixpoint last_nl (s : str) : bool :=
  match s with
  | [] => false
  | [c] => c =? 10
  | _ :: r => last_nl r
  end.
Fixpoint spec (segs : list pseg) : list pitem :=
  match segs with
  | [] => []
  | SPlain s :: rest => map PCh (match rest with SComment _ :: _ => drop_nl s | _ => s end) ++ spec rest
  | SComment _ :: rest => spec rest
  | SNowiki c :: rest => PNw c :: spec rest
  | SNowikiEmpty :: rest => PNwEmpty :: spec rest
  end.

Definition seg_ok (sg : pseg) : Prop :=
  match sg with SPlain s => lt_free s | SComment s => gt_free s | SNowiki c => lt_free c | SNowikiEmpty => True end.
Fixpoint no_adjacent_plain (segs : list pseg) : Prop :=
  match segs with
  | SPlain _ :: ((SPlain _ :: _) as rest) => False
  | _ :: rest => no_adjacent_plain rest
  | [] => True
  end.

(** * one construct at a time *)
Lemma pre_skip x rest : pre (length x) (x ++ rest) = pre 0 rest.
Proof. induction x as [|c x IH]; [reflexivity|]. cbn [length app pre]. exact IH. Qed.

Lemma pre_match x rest emit : x <> [] -> here (x ++ rest) = Some (emit, rest) -> pre 0 (x ++ rest) = emit ++ pre 0 rest.
Proof. intros Hx Hh. destruct x as [|c x]; [congruence|]. cbn [app pre]. cbn [app] in Hh. rewrite Hh.
  rewrite app_length. replace (length x + length rest - length rest)%nat with (length x) by lia. rewrite pre_skip. reflexivity. Qed.

Lemma here_nowiki c rest : lt_free c -> here (el s_nowiki c ++ rest) = Some ([PNw c], rest).
Proof. intros Hc. unfold here, el. cbn [app]. rewrite <- !app_assoc. cbn [app].
  change (match_pat (p_open s_nowiki) (60 :: t_open s_nowiki ++ c ++ 60 :: t_close s_nowiki ++ rest))
    with (Some (c ++ 60 :: t_close s_nowiki ++ rest)). cbv beta iota.
  rewrite (cut_pat_ltfree (p_close s_nowiki) c _ rest); [reflexivity | eexists; reflexivity | exact Hc | reflexivity]. Qed.

Lemma here_nowiki_empty rest : here (t_selfclose s_nowiki ++ rest) = Some ([PNwEmpty], rest).
Proof. reflexivity. Qed.

Lemma comment_here_closed s rest : gt_free s -> comment_here (s_copen ++ s ++ s_cclose ++ rest) = Some rest.
Proof. intros Hs. unfold comment_here, between.
  change (match_pat (lit s_copen) (s_copen ++ s ++ s_cclose ++ rest)) with (Some (s ++ s_cclose ++ rest)). cbv beta iota.
  rewrite cut_cclose by exact Hs. reflexivity. Qed.

Lemma here_comment s rest : gt_free s -> here (s_copen ++ s ++ s_cclose ++ rest) = Some ([], rest).
Proof. intros Hs. unfold here.
  change (match_pat (p_open s_nowiki) (s_copen ++ s ++ s_cclose ++ rest)) with (@None str).
  change (match_pat (p_selfclose s_nowiki) (s_copen ++ s ++ s_cclose ++ rest)) with (@None str). cbv beta iota.
  change (s_copen ++ s ++ s_cclose ++ rest) with (60 :: [33; 45; 45] ++ s ++ s_cclose ++ rest) at 1.
  cbv beta iota. change (60 =? 10) with false. cbv iota.
  change (60 :: [33; 45; 45] ++ s ++ s_cclose ++ rest) with (s_copen ++ s ++ s_cclose ++ rest).
  rewrite (comment_here_closed s rest Hs). reflexivity. Qed.

Lemma here_nl_comment s rest : gt_free s -> here (10 :: s_copen ++ s ++ s_cclose ++ rest) = Some ([], rest).
Proof. intros Hs. unfold here.
  change (match_pat (p_open s_nowiki) (10 :: s_copen ++ s ++ s_cclose ++ rest)) with (@None str).
  change (match_pat (p_selfclose s_nowiki) (10 :: s_copen ++ s ++ s_cclose ++ rest)) with (@None str). cbv beta iota.
  change (10 =? 10) with true. cbv iota.
  rewrite (comment_here_closed s rest Hs). reflexivity. Qed.

(* a character other than '<' starts neither tag *)
Lemma match_not_lt p c r : (exists q, p = PC 60 :: q) -> c <> 60 -> match_pat p (c :: r) = None.
Proof. intros Hp Hc. destruct (match_pat p (c :: r)) as [a|] eqn:E; [|reflexivity].
  destruct (match_lt _ _ _ Hp E) as [r' Hr]. inversion Hr. congruence. Qed.

Lemma comment_here_not_lt c r : c <> 60 -> comment_here (c :: r) = None.
Proof. intros Hc. unfold comment_here, between. rewrite (match_not_lt (lit s_copen) c r ltac:(eexists; reflexivity) Hc). reflexivity. Qed.
Lemma comment_here_nil : comment_here [] = None.
Proof. reflexivity. Qed.

Lemma here_plain_char c r : c <> 60 -> (c = 10 -> comment_here r = None) -> here (c :: r) = None.
Proof. intros Hc Hnl. unfold here.
  rewrite (match_not_lt (p_open s_nowiki) c r ltac:(eexists; reflexivity) Hc), (match_not_lt (p_selfclose s_nowiki) c r ltac:(eexists; reflexivity) Hc).
  destruct (N.eqb_spec c 10) as [->|Hn].
  - rewrite (Hnl eq_refl). reflexivity.
  - rewrite (comment_here_not_lt c r Hc). reflexivity. Qed.

Lemma drop_nl_true s : last_nl s = true -> s = drop_nl s ++ [10].
Proof. induction s as [|c [|d s] IH]; intros H; [discriminate| |].
  - cbn in *. rewrite H. apply N.eqb_eq in H. subst. reflexivity.
  - change (last_nl (c :: d :: s)) with (last_nl (d :: s)) in H.
    change (drop_nl (c :: d :: s)) with (c :: drop_nl (d :: s)). cbn [app]. f_equal. apply IH. exact H. Qed.
Lemma drop_nl_false s : last_nl s = false -> drop_nl s = s.
Proof. induction s as [|c [|d s] IH]; intros H; [reflexivity| |].
  - cbn in *. rewrite H. reflexivity.
  - change (last_nl (c :: d :: s)) with (last_nl (d :: s)) in H.
    change (drop_nl (c :: d :: s)) with (c :: drop_nl (d :: s)). f_equal. apply IH. exact H. Qed.
Lemma drop_nl_lt s : lt_free s -> lt_free (drop_nl s).
Proof. induction 1 as [|c s Hc Hs IH]; [constructor|]. destruct s as [|d s].
  - cbn. destruct (c =? 10); constructor; [exact Hc | constructor].
  - change (drop_nl (c :: d :: s)) with (c :: drop_nl (d :: s)). constructor; assumption. Qed.

(* plain text is kept; its last line break only if no closed comment follows *)
Lemma pre_plain t : lt_free t -> forall rest, (last_nl t = false \/ comment_here rest = None) ->
  pre 0 (t ++ rest) = map PCh t ++ pre 0 rest.
Proof. induction 1 as [|c t Hc Ht IH]; intros rest Hr; [reflexivity|]. cbn [app pre map].
  assert (Hh : here (c :: t ++ rest) = None).
  { apply here_plain_char; [exact Hc|]. intros ->. destruct t as [|d t'].
    - cbn [app]. destruct Hr as [Hr|Hr]; [discriminate | exact Hr].
    - cbn [app]. inversion Ht; subst. apply comment_here_not_lt. assumption. }
  rewrite Hh. f_equal. apply IH. destruct Hr as [Hr|Hr]; [|right; exact Hr]. left.
  destruct t as [|d t']; [reflexivity | exact Hr]. Qed.

Lemma pre_plain_nl_comment t0 s rest : lt_free t0 -> gt_free s ->
  pre 0 (t0 ++ 10 :: s_copen ++ s ++ s_cclose ++ rest) = map PCh t0 ++ pre 0 rest.
Proof. intros Ht Hs. induction Ht as [|c t Hc Ht IH].
  - cbn [app map].
    assert (E : (10 :: s_copen ++ s ++ s_cclose) ++ rest = 10 :: s_copen ++ s ++ s_cclose ++ rest)
      by (cbn [app]; rewrite <- !app_assoc; reflexivity).
    pose proof (pre_match (10 :: s_copen ++ s ++ s_cclose) rest [] ltac:(discriminate)) as P.
    rewrite E in P. apply P. apply here_nl_comment. exact Hs.
  - cbn [app pre map].
    assert (Hh : here (c :: t ++ 10 :: s_copen ++ s ++ s_cclose ++ rest) = None).
    { apply here_plain_char; [exact Hc|]. intros ->. destruct t as [|d t'].
      - cbn [app]. apply comment_here_not_lt. discriminate.
      - cbn [app]. inversion Ht; subst. apply comment_here_not_lt. assumption. }
    rewrite Hh. f_equal. exact IH. Qed.

Lemma pre_comment s rest : gt_free s -> pre 0 (s_copen ++ s ++ s_cclose ++ rest) = pre 0 rest.
Proof. intros Hs.
  assert (E : (s_copen ++ s ++ s_cclose) ++ rest = s_copen ++ s ++ s_cclose ++ rest) by (rewrite <- !app_assoc; reflexivity).
  pose proof (pre_match (s_copen ++ s ++ s_cclose) rest [] ltac:(discriminate)) as P.
  rewrite E in P. apply P. apply here_comment. exact Hs. Qed.

(** * the theorem *)
Lemma comment_here_render_head sg rest : match sg with SComment _ => False | SPlain _ => False | _ => True end ->
  comment_here (render_p sg ++ rest) = None.
Proof. destruct sg as [s|s|c|]; intros H; try contradiction; reflexivity. Qed.

Theorem preprocess_spec segs : Forall seg_ok segs -> no_adjacent_plain segs -> preprocess (render_ps segs) = spec segs.
Proof. unfold preprocess, render_ps. induction segs as [|sg segs IH]; intros Hok Hadj; [reflexivity|].
  inversion Hok as [|? ? Hsg Hrest]; subst. cbn [map concat].
  assert (Hadj' : no_adjacent_plain segs).
  { destruct sg; try exact Hadj. destruct segs as [|[]]; try exact Hadj; try exact I. contradiction. }
  specialize (IH Hrest Hadj').
  destruct sg as [s|s|c|]; cbn [render_p seg_ok spec] in *.
  - (* plain text: look at what follows *)
    destruct segs as [|nxt segs'].
    + cbn [map concat spec]. rewrite pre_plain; [reflexivity | exact Hsg | right; reflexivity].
    + destruct nxt as [s2|s2|c2|]; [contradiction | | |].
      * (* a comment follows *)
        inversion Hrest as [|? ? Hc2 Hrest']; subst. cbn [seg_ok] in Hc2.
        cbn [map concat render_p spec] in *. rewrite <- !app_assoc in *.
        destruct (last_nl s) eqn:El.
        -- rewrite (drop_nl_true s El) at 1. rewrite <- app_assoc. cbn [app].
           rewrite pre_plain_nl_comment; [| apply drop_nl_lt; exact Hsg | exact Hc2].
           f_equal. rewrite <- IH. symmetry. apply pre_comment. exact Hc2.
        -- rewrite (drop_nl_false s El). rewrite pre_plain; [| exact Hsg | left; exact El]. f_equal. exact IH.
      * cbn [map concat] in *. rewrite pre_plain; [f_equal; exact IH | exact Hsg |]. right. reflexivity.
      * cbn [map concat] in *. rewrite pre_plain; [f_equal; exact IH | exact Hsg |]. right. reflexivity.
  - rewrite <- !app_assoc. rewrite <- IH. apply pre_comment. exact Hsg.
  - rewrite <- IH. apply (pre_match (el s_nowiki c) _ [PNw c]); [discriminate | apply here_nowiki; exact Hsg].
  - rewrite <- IH. apply (pre_match (t_selfclose s_nowiki) _ [PNwEmpty]); [discriminate | apply here_nowiki_empty].
Qed.

(* non-vacuity: "a\n<!--c-->b<nowiki>{{x}}</nowiki><nowiki/>" *)
Example preprocess_example :
  let segs := [SPlain [97; 10]; SComment [99]; SPlain [98]; SNowiki [123; 123; 120; 125; 125]; SNowikiEmpty] in
  Forall seg_ok segs /\ no_adjacent_plain segs /\
  preprocess (render_ps segs) = [PCh 97; PCh 98; PNw [123; 123; 120; 125; 125]; PNwEmpty].
Proof. cbn zeta. split; [|split; [exact I | vm_compute; reflexivity]].
  repeat constructor; cbn; discriminate. Qed.
