(** The #expr ladder machine is total: on every token list, fuel linear in the number of tokens (and so a nesting
    depth of recursive calls linear in it) is enough -- with that fuel it ends in a tree or in a syntax error, never
    out of fuel -- and more fuel never changes the answer. *)
From Coq Require Import List String NArith Bool Arith Lia.
From WTP Require Import Model.ExprParse Model.ExprTotal.
Import ListNotations.
Local Open Scope list_scope.

Section Proofs.
Variable full : list level.
Notation L := (List.length full).
Notation parse3 := (parse3 full).
Notation loop3 := (loop3 full).


(* one unfolding of each machine *)
Lemma parse3_S f lv ts : parse3 (S f) lv ts =
  match lv with
  | [] =>
    match ts with
    | TOp o :: r =>
      if String.eqb o "-" then match parse3 f [] r with Ok a r' => Ok (GUn "-" a) r' | e => e end
      else if String.eqb o "+" then atom3 (parse3 f full) r else Syntax
    | _ => atom3 (parse3 f full) ts
    end
  | (LBin, ops) :: rest => match parse3 f rest ts with Ok a r => loop3 f ops rest a r | e => e end
  | (LPre, ops) :: rest =>
    match ts with
    | TOp o :: r => if mem o ops then match parse3 f lv r with Ok a r' => Ok (GUn o a) r' | e => e end else parse3 f rest ts
    | _ => parse3 f rest ts
    end
  end.
Proof. reflexivity. Qed.
Lemma loop3_S f ops rest a ts : loop3 (S f) ops rest a ts =
  match ts with
  | TOp o :: r => if mem o ops then match parse3 f rest r with Ok b r' => loop3 f ops rest (GBin o a b) r' | e => e end else Ok a ts
  | _ => Ok a ts
  end.
Proof. reflexivity. Qed.
Lemma parse_S f lv ts : ExprParse.parse full (S f) lv ts =
  match lv with
  | [] =>
    match ts with
    | TOp o :: r =>
      if String.eqb o "-" then match ExprParse.parse full f [] r with Some (a, r') => Some (GUn "-" a, r') | None => None end
      else if String.eqb o "+" then atom (ExprParse.parse full f full) r else None
    | _ => atom (ExprParse.parse full f full) ts
    end
  | (LBin, ops) :: rest => match ExprParse.parse full f rest ts with Some (a, r) => ExprParse.loop full f ops rest a r | None => None end
  | (LPre, ops) :: rest =>
    match ts with
    | TOp o :: r => if mem o ops then match ExprParse.parse full f lv r with Some (a, r') => Some (GUn o a, r') | None => None end
                    else ExprParse.parse full f rest ts
    | _ => ExprParse.parse full f rest ts
    end
  end.
Proof. reflexivity. Qed.
Lemma loop_S f ops rest a ts : ExprParse.loop full (S f) ops rest a ts =
  match ts with
  | TOp o :: r => if mem o ops then match ExprParse.parse full f rest r with
                                    | Some (b, r') => ExprParse.loop full f ops rest (GBin o a b) r' | None => None end
                  else Some (a, ts)
  | _ => Some (a, ts)
  end.
Proof. reflexivity. Qed.

(** * the three-valued machine erases to the machine of Model/ExprParse.v *)
Lemma atom_erase rec3 rec ts : (forall r, erase (rec3 r) = rec r) -> erase (atom3 rec3 ts) = atom rec ts.
Proof. intros H. destruct ts as [|[n|o| |] r]; try reflexivity. cbn [atom3 atom]. rewrite <- H.
  destruct (rec3 r) as [a [|[n|o| |] r']| |]; reflexivity. Qed.

Lemma erase_both : forall f,
  (forall lv ts, erase (parse3 f lv ts) = ExprParse.parse full f lv ts)
  /\ (forall ops rest a ts, erase (loop3 f ops rest a ts) = ExprParse.loop full f ops rest a ts).
Proof. induction f as [|f [IHp IHl]]; [split; reflexivity|]. split.
  - intros lv ts. rewrite parse3_S, parse_S. destruct lv as [|[[|] ops] rest].
    + destruct ts as [|[n|o| |] r]; try (apply atom_erase; intros; apply IHp).
      destruct (String.eqb o "-").
      * rewrite <- IHp. destruct (parse3 f [] r); reflexivity.
      * destruct (String.eqb o "+"); [apply atom_erase; intros; apply IHp | reflexivity].
    + rewrite <- IHp. destruct (parse3 f rest ts) as [a r| |]; try reflexivity. apply IHl.
    + destruct ts as [|[n|o| |] r]; try apply IHp. destruct (mem o ops); [|apply IHp].
      rewrite <- IHp. destruct (parse3 f (_ :: rest) r); reflexivity.
  - intros ops rest a ts. rewrite loop3_S, loop_S. destruct ts as [|[n|o| |] r]; try reflexivity.
    destruct (mem o ops); [|reflexivity]. rewrite <- IHp. destruct (parse3 f rest r) as [b r'| |]; try reflexivity. apply IHl. Qed.

(** * a successful parse consumes at least one token; the loop never gives tokens back *)
Lemma atom_consumes rec ts a r : (forall x b y, rec x = Ok b y -> List.length y < List.length x) ->
  atom3 rec ts = Ok a r -> List.length r < List.length ts.
Proof. intros H. destruct ts as [|[n|o| |] t]; cbn [atom3]; try discriminate.
  - intros E. inversion E; subst. cbn. lia.
  - destruct (rec t) as [b [|[n|o| |] r']| |] eqn:E; try discriminate. intros E2. inversion E2; subst.
    apply H in E. cbn in *. lia. Qed.

Lemma consumes : forall f,
  (forall lv ts a r, parse3 f lv ts = Ok a r -> List.length r < List.length ts)
  /\ (forall ops rest a ts e r, loop3 f ops rest a ts = Ok e r -> List.length r <= List.length ts).
Proof. induction f as [|f [IHp IHl]]; [split; intros; discriminate|]. split.
  - intros lv ts a r. rewrite parse3_S. destruct lv as [|[[|] ops] rest].
    + destruct ts as [|[n|o| |] t]; try (apply atom_consumes; intros x b y; apply IHp).
      destruct (String.eqb o "-").
      * destruct (parse3 f [] t) as [b y| |] eqn:E; try discriminate. intros E2. inversion E2; subst. apply IHp in E. cbn. lia.
      * destruct (String.eqb o "+"); [|discriminate]. intros E. apply atom_consumes in E; [cbn; lia | intros x b y; apply IHp].
    + destruct (parse3 f rest ts) as [b y| |] eqn:E; try discriminate. intros E2. apply IHp in E. apply IHl in E2. lia.
    + destruct ts as [|[n|o| |] t]; try apply IHp. destruct (mem o ops); [|apply IHp].
      destruct (parse3 f (_ :: rest) t) as [b y| |] eqn:E; try discriminate. intros E2. inversion E2; subst.
      apply IHp in E. cbn. lia.
  - intros ops rest a ts e r. rewrite loop3_S. destruct ts as [|[n|o| |] t]; try (intros E; inversion E; subst; lia).
    destruct (mem o ops); [|intros E; inversion E; subst; lia].
    destruct (parse3 f rest t) as [b y| |] eqn:E; try discriminate. intros E2. apply IHp in E. apply IHl in E2. cbn. lia. Qed.

(** * fuel linear in the number of tokens is enough *)
Definition K := L + 3.
Definition loop_bound (n : nat) : nat := n * K + 1.
Lemma bound_eq n l : bound full n l = n * K + l + 2.
Proof. reflexivity. Qed.

Definition P (n : nat) : Prop := forall lv ts f, List.length ts = n -> List.length lv <= L -> bound full n (List.length lv) <= f ->
  parse3 f lv ts <> OutOfFuel.
Definition Q (n : nat) : Prop := forall ops rest a ts f, List.length ts = n -> List.length rest <= L -> loop_bound n <= f ->
  loop3 f ops rest a ts <> OutOfFuel.

Lemma atom_total rec ts : (forall r, S (List.length r) = List.length ts -> rec r <> OutOfFuel) -> atom3 rec ts <> OutOfFuel.
Proof. intros H. destruct ts as [|[n|o| |] t]; cbn [atom3]; try discriminate.
  specialize (H t eq_refl). destruct (rec t) as [b [|[n|o| |] r']| |]; try discriminate. congruence. Qed.

Lemma Q_step n : (forall m, m < n -> P m) -> (forall m, m < n -> Q m) -> Q n.
Proof. intros HP HQ ops rest a ts f Hn Hr Hf. unfold loop_bound in Hf. destruct f as [|f]; [lia|].
  rewrite loop3_S. destruct ts as [|[k|o| |] t]; try discriminate.
  destruct (mem o ops); [|discriminate]. cbn [List.length] in Hn. destruct n as [|n]; [discriminate|]. injection Hn as Hn.
  cbn [Nat.mul] in Hf.
  destruct (parse3 f rest t) as [b y| |] eqn:E; try discriminate.
  - apply (proj1 (consumes f)) in E as Hc.
    apply (HQ (List.length y)); try assumption; try reflexivity; [lia|]. unfold loop_bound.
    assert (List.length y * K <= n * K) by (apply Nat.mul_le_mono_r; lia). unfold K in *. lia.
  - exfalso. revert E. apply (HP n); [lia | assumption | assumption | rewrite bound_eq; unfold K in *; lia]. Qed.

Lemma P_step n : (forall m, m < n -> P m) -> (forall m, m <= n -> Q m) -> P n.
Proof. intros HP HQ. unfold P. intros lv. induction lv as [|[[|] ops] rest IH]; intros ts f Hn Hl Hf;
    rewrite bound_eq in Hf; (destruct f as [|f]; [lia|]); rewrite parse3_S; cbn [List.length] in *.
  - (* the terminal *)
    assert (Hatom : forall t, S (List.length t) = List.length ts -> forall g, n * K <= g -> parse3 g full t <> OutOfFuel).
    { intros t Ht g Hg. destruct n as [|n]; [lia|]. apply (HP n); [lia | lia | cbn [List.length]; lia | rewrite bound_eq; cbn [List.length Nat.mul] in *; unfold K in *; lia]. }
    destruct ts as [|[k|o| |] t].
    + discriminate.
    + discriminate.
    + destruct (String.eqb o "-").
      * cbn [List.length] in Hn. destruct n as [|n]; [discriminate|]. injection Hn as Hn. cbn [Nat.mul] in Hf.
        destruct (parse3 f [] t) eqn:E; try discriminate. exfalso. revert E.
        apply (HP n); [lia | lia | cbn [List.length]; lia | rewrite bound_eq; cbn [List.length Nat.mul] in *; unfold K in *; lia].
      * destruct (String.eqb o "+"); [|discriminate]. apply atom_total. intros r Hr.
        cbn [List.length] in Hn. destruct n as [|[|n]]; try (cbn in *; lia).
        apply (HP n); [lia | lia | cbn [List.length]; lia | rewrite bound_eq; cbn [List.length Nat.mul] in *; unfold K in *; lia].
    + apply atom_total. intros r Hr. apply (Hatom r Hr). lia.
    + discriminate.
  - (* a binary level *)
    destruct (parse3 f rest ts) as [a r| |] eqn:E; try discriminate.
    + apply (proj1 (consumes f)) in E as Hc.
      apply (HQ (List.length r)); try reflexivity; try lia. unfold loop_bound.
      assert (List.length r * K <= n * K) by (apply Nat.mul_le_mono_r; lia).
      assert (List.length r * K + K <= n * K).
      { replace (List.length r * K + K) with (S (List.length r) * K) by (cbn; lia). apply Nat.mul_le_mono_r. lia. }
      unfold K in *. lia.
    + exfalso. revert E. apply IH; try assumption; try lia. rewrite bound_eq. lia.
  - (* a prefix level *)
    assert (Hskip : parse3 f rest ts <> OutOfFuel) by (apply IH; try assumption; try lia; rewrite bound_eq; lia).
    destruct ts as [|[k|o| |] t]; try exact Hskip.
    destruct (mem o ops); [|exact Hskip].
    cbn [List.length] in Hn. destruct n as [|n]; [discriminate|]. injection Hn as Hn. cbn [Nat.mul] in Hf.
    destruct (parse3 f (_ :: rest) t) eqn:E; try discriminate. exfalso. revert E.
    apply (HP n); [lia | lia | cbn [List.length]; lia | rewrite bound_eq; cbn [List.length Nat.mul] in *; unfold K in *; lia]. Qed.

Lemma PQ : forall n, (forall m, m <= n -> P m) /\ (forall m, m <= n -> Q m).
Proof. induction n as [|n [IHP IHQ]].
  - assert (Q0 : Q 0) by (apply Q_step; intros; lia).
    assert (P0 : P 0) by (apply P_step; [intros; lia | intros m Hm; replace m with 0 by lia; exact Q0]).
    split; intros m Hm; replace m with 0 by lia; assumption.
  - assert (QS : Q (S n)) by (apply Q_step; intros m Hm; [apply IHP | apply IHQ]; lia).
    assert (HQ' : forall m, m <= S n -> Q m).
    { intros m Hm. destruct (Nat.eq_dec m (S n)) as [->|]; [exact QS | apply IHQ; lia]. }
    assert (PS : P (S n)) by (apply P_step; [intros m Hm; apply IHP; lia | exact HQ']).
    split; [|exact HQ']. intros m Hm. destruct (Nat.eq_dec m (S n)) as [->|]; [exact PS | apply IHP; lia]. Qed.

Theorem never_out_of_fuel ts f : bound full (List.length ts) L <= f -> parse3 f full ts <> OutOfFuel.
Proof. intros Hf. apply (proj1 (PQ (List.length ts)) (List.length ts) (le_n _) full ts f eq_refl (le_n _) Hf). Qed.

(** more fuel never changes the answer *)
Lemma fuel_mono : forall f,
  (forall lv ts, parse3 f lv ts <> OutOfFuel -> parse3 (S f) lv ts = parse3 f lv ts)
  /\ (forall ops rest a ts, loop3 f ops rest a ts <> OutOfFuel -> loop3 (S f) ops rest a ts = loop3 f ops rest a ts).
Proof. induction f as [|f [IHp IHl]]; [split; intros; cbn in *; congruence|].
  assert (Hatom : forall ts, atom3 (parse3 f full) ts <> OutOfFuel -> atom3 (parse3 (S f) full) ts = atom3 (parse3 f full) ts).
  { intros ts H. destruct ts as [|[n|o| |] t]; try reflexivity. cbn [atom3] in *.
    destruct (parse3 f full t) eqn:E; try congruence; rewrite IHp by congruence; rewrite E; reflexivity. }
  split.
  - intros lv ts H. rewrite (parse3_S (S f)), (parse3_S f). rewrite parse3_S in H.
    destruct lv as [|[[|] ops] rest].
    + destruct ts as [|[n|o| |] t]; try (apply Hatom; exact H).
      destruct (String.eqb o "-").
      * destruct (parse3 f [] t) eqn:E; try congruence; rewrite IHp by congruence; rewrite E; reflexivity.
      * destruct (String.eqb o "+"); [apply Hatom; exact H | reflexivity].
    + destruct (parse3 f rest ts) eqn:E; try congruence; rewrite IHp by congruence; rewrite E; try reflexivity. apply IHl. exact H.
    + destruct ts as [|[n|o| |] t]; try (apply IHp; exact H). destruct (mem o ops); [|apply IHp; exact H].
      destruct (parse3 f (_ :: rest) t) eqn:E; try congruence; rewrite IHp by congruence; rewrite E; reflexivity.
  - intros ops rest a ts H. rewrite (loop3_S (S f)), (loop3_S f). rewrite loop3_S in H.
    destruct ts as [|[n|o| |] t]; try reflexivity. destruct (mem o ops); [|reflexivity].
    destruct (parse3 f rest t) eqn:E; try congruence; rewrite IHp by congruence; rewrite E; try reflexivity. apply IHl. exact H. Qed.

Theorem answer_is_stable ts f : bound full (List.length ts) L <= f ->
  parse3 f full ts = parse3 (bound full (List.length ts) L) full ts.
Proof. intros Hf. induction Hf as [|f Hf IH]; [reflexivity|].
  rewrite (proj1 (fuel_mono f)); [exact IH|]. apply never_out_of_fuel. exact Hf. Qed.
End Proofs.
