From Coq Require Import List Arith Bool Lia.
Import ListNotations.
From WTP Require Import Model.Analyze.

Lemma mem_In x l : mem x l = true <-> In x l.
Proof. unfold mem. rewrite existsb_exists. split.
  - intros [y [Hy He]]. apply Nat.eqb_eq in He. now subst.
  - intros H. exists x. split; [exact H | apply Nat.eqb_refl]. Qed.

Lemma mem_nIn x l : mem x l = false <-> ~ In x l.
Proof. rewrite <- mem_In. destruct (mem x l); split; congruence. Qed.

Lemma includers_In edges u t : In t (includers edges u) <-> In (u, t) edges.
Proof. unfold includers. rewrite in_map_iff. split.
  - intros [[a b] [Hb Hf]]. apply filter_In in Hf. destruct Hf as [Hin He].
    simpl in *. apply Nat.eqb_eq in He. now subst.
  - intros H. exists (u, t). split; [reflexivity|]. apply filter_In. split; [exact H|].
    simpl. apply Nat.eqb_refl. Qed.

(** The closure the property speaks of. *)
Inductive Clo (edges : list (nat * nat)) (flagged : list nat) : nat -> Prop :=
| Clo_flag f : In f flagged -> Clo edges flagged f
| Clo_step u t : Clo edges flagged u -> In (u, t) edges -> Clo edges flagged t.

Section Inv.
  Variable n : nat.
  Variable edges : list (nat * nat).
  Variable flagged : list nat.
  Hypothesis edges_lt : forall u t, In (u, t) edges -> t < n.
  Hypothesis flagged_lt : forall f, In f flagged -> f < n.

  Record Inv (marked stack : list nat) : Prop := {
    inv_nodup : NoDup marked;
    inv_lt : forall x, In x marked -> x < n;
    inv_stack : forall x, In x stack -> In x marked;
    inv_flag : forall f, In f flagged -> In f marked;
    inv_sound : forall x, In x marked -> Clo edges flagged x;
    inv_done : forall u t, In u marked -> ~ In u stack -> In (u, t) edges -> In t marked
  }.

  Definition measure (marked stack : list nat) : nat := 2 * (n - length marked) + length stack.

  Lemma marked_le marked : NoDup marked -> (forall x, In x marked -> x < n) -> length marked <= n.
  Proof. intros Hnd Hlt. rewrite <- (seq_length n 0). apply NoDup_incl_length; [exact Hnd|].
    intros x Hx. apply in_seq. specialize (Hlt x Hx). lia. Qed.

  (* visit: generalised invariant with a set [pend] of includers of [u] still to process *)
  Lemma visit_spec ts : forall marked stack m' s',
    visit ts marked stack = (m', s') ->
    NoDup marked -> (forall x, In x marked -> x < n) -> (forall x, In x ts -> x < n) ->
    NoDup m' /\ (forall x, In x m' -> x < n) /\
    (forall x, In x m' <-> In x marked \/ In x ts) /\
    (forall x, In x s' <-> In x stack \/ (In x ts /\ ~ In x marked)) /\
    measure m' s' <= measure marked stack.
  Proof. induction ts as [|t r IH]; intros marked stack m' s' Hv Hnd Hlt Hts; cbn [visit] in Hv.
    - inversion Hv; subst. repeat split; try assumption; try tauto.
      + intros [H|[]]; exact H. + intros [H|[[] _]]; exact H. + lia.
    - destruct (mem t marked) eqn:Hm.
      + apply mem_In in Hm. destruct (IH _ _ _ _ Hv Hnd Hlt) as (A & B & C & D & E).
        { intros x Hx; apply Hts; right; exact Hx. }
        repeat split; try assumption.
        * intros Hx. apply C in Hx. destruct Hx as [Hx|Hx]; [left; exact Hx | right; right; exact Hx].
        * intros [Hx|[Hx|Hx]]; apply C; [left; exact Hx | left; subst; exact Hm | right; exact Hx].
        * intros Hx. apply D in Hx. destruct Hx as [Hx|[Hx Hn]]; [left; exact Hx | right; split; [right; exact Hx| exact Hn]].
        * intros [Hx|[[Hx|Hx] Hn]]; apply D; [left; exact Hx | subst; contradiction | right; split; assumption].
      + apply mem_nIn in Hm.
        assert (Ht : t < n) by (apply Hts; left; reflexivity).
        destruct (IH _ _ _ _ Hv) as (A & B & C & D & E).
        { constructor; assumption. }
        { intros x [Hx|Hx]; [subst; exact Ht | apply Hlt; exact Hx]. }
        { intros x Hx; apply Hts; right; exact Hx. }
        repeat split; try assumption.
        * intros Hx. apply C in Hx. destruct Hx as [[Hx|Hx]|Hx]; [right; left; exact Hx | left; exact Hx | right; right; exact Hx].
        * intros [Hx|[Hx|Hx]]; apply C; [left; right; exact Hx | left; left; exact Hx | right; exact Hx].
        * intros Hx. apply D in Hx. destruct Hx as [[Hx|Hx]|[Hx Hn]].
          -- right. split; [left; exact Hx | subst; exact Hm].
          -- left; exact Hx.
          -- right. split; [right; exact Hx|]. intros H; apply Hn; right; exact H.
        * intros [Hx|[[Hx|Hx] Hn]]; apply D.
          -- left; right; exact Hx.
          -- left; left; exact Hx.
          -- destruct (Nat.eq_dec t x) as [->|Hne]; [left; left; reflexivity|].
             right. split; [exact Hx|]. intros [H|H]; [contradiction | apply Hn; exact H].
        * assert (Hl : length (t :: marked) <= n).
          { apply marked_le; [constructor; assumption|].
            intros x [Hx|Hx]; [subst; exact Ht | apply Hlt; exact Hx]. }
          unfold measure in *. cbn [length] in *. lia.
  Qed.

  Lemma loop_spec fuel : forall marked stack,
    Inv marked stack -> measure marked stack < fuel ->
    let (m', s') := loop fuel edges marked stack in Inv m' s' /\ s' = [].
  Proof. induction fuel as [|f IH]; intros marked stack HI Hm; [lia|].
    cbn [loop]. destruct stack as [|p rest]; [split; [exact HI|reflexivity]|].
    destruct (visit (includers edges p) marked rest) as [m' s'] eqn:Hv.
    destruct HI as [Hnd Hlt Hst Hfl Hso Hdo].
    destruct (visit_spec _ _ _ _ _ Hv Hnd Hlt) as (A & B & C & D & E).
    { intros x Hx. apply includers_In in Hx. eapply edges_lt; exact Hx. }
    apply IH.
    - constructor; try assumption.
      + intros x Hx. apply D in Hx. apply C. destruct Hx as [Hx|[Hx _]];
          [left; apply Hst; right; exact Hx | right; exact Hx].
      + intros g Hg. apply C. left. apply Hfl. exact Hg.
      + intros x Hx. apply C in Hx. destruct Hx as [Hx|Hx]; [apply Hso; exact Hx|].
        apply includers_In in Hx. eapply Clo_step; [|exact Hx]. apply Hso. apply Hst. left; reflexivity.
      + intros u t Hu Hns He. apply C. apply C in Hu.
        destruct (Nat.eq_dec u p) as [->|Hne].
        * right. apply includers_In. exact He.
        * destruct (in_dec Nat.eq_dec u marked) as [Hi|Hn].
          -- left. apply (Hdo u t Hi); [|exact He].
             intros [H|H]; [congruence|]. apply Hns. apply D. left; exact H.
          -- exfalso. apply Hns. apply D. destruct Hu as [Hu|Hu]; [contradiction|].
             right. split; assumption.
    - unfold measure in *. cbn [length] in *. lia.
  Qed.
End Inv.

Section Main.
  Variable n : nat.
  Variable edges : list (nat * nat).
  Variable flagged : list nat.
  Hypothesis edges_lt : forall u t, In (u, t) edges -> t < n.
  Hypothesis flagged_lt : forall f, In f flagged -> f < n.
  Hypothesis flagged_nodup : NoDup flagged.

  Lemma propagate_exact :
    snd (propagate n edges flagged) = [] /\
    forall x, In x (fst (propagate n edges flagged)) <-> Clo edges flagged x.
  Proof.
    unfold propagate.
    assert (HI : Inv n edges flagged flagged (rev flagged)).
    { constructor; try assumption.
      - intros x Hx. apply in_rev. exact Hx.
      - intros f Hf; exact Hf.
      - intros x Hx. apply Clo_flag. exact Hx.
      - intros u t Hu Hn. exfalso. apply Hn. apply in_rev. rewrite rev_involutive. exact Hu. }
    pose proof (loop_spec n edges flagged edges_lt (fuel_for n flagged) flagged (rev flagged) HI) as H.
    destruct (loop (fuel_for n flagged) edges flagged (rev flagged)) as [m s].
    destruct H as [[Hnd Hlt Hst Hfl Hso Hdo] Hs].
    { unfold measure, fuel_for. rewrite rev_length. lia. }
    cbn [fst snd]. split; [exact Hs|]. intros x. split; [apply Hso|].
    intros Hc. induction Hc as [f Hf | u t Hu IH He]; [apply Hfl; exact Hf|].
    apply (Hdo u t IH); [|exact He]. subst s. intros [].
  Qed.

  Variable reds : list (nat * nat).
  Hypothesis reds_fun : forall r d d', In (r, d) reds -> In (r, d') reds -> d = d'.

  Lemma analyze_exact x :
    In x (analyze n edges flagged reds) <->
    Clo edges flagged x
    \/ (exists d, In (x, d) reds /\ Clo edges flagged d)
    \/ (exists r, In (r, x) reds /\ Clo edges flagged r).
  Proof.
    destruct propagate_exact as [_ Hm]. unfold analyze.
    set (m1 := fst (propagate n edges flagged)) in *.
    assert (Hsrc : forall y, In y (redirect_sources reds m1) <->
                             exists d, In (y, d) reds /\ In d m1 /\ ~ In y m1).
    { intros y. unfold redirect_sources. rewrite in_map_iff. split.
      - intros [[a b] [Ha Hf]]. apply filter_In in Hf. destruct Hf as [Hin Hb].
        apply andb_true_iff in Hb. destruct Hb as [H1 H2]. cbn [fst snd] in *. subst a.
        apply mem_In in H1. apply negb_true_iff in H2. apply mem_nIn in H2.
        exists b. tauto.
      - intros [d [H1 [H2 H3]]]. exists (y, d). split; [reflexivity|].
        apply filter_In. split; [exact H1|]. cbn [fst snd].
        apply andb_true_iff. split; [apply mem_In; exact H2|].
        apply negb_true_iff. apply mem_nIn. exact H3. }
    set (m2 := redirect_sources reds m1 ++ m1) in *.
    assert (Hdst : forall y, In y (redirect_dests reds m2) <->
                             exists r, In (r, y) reds /\ In r m2 /\ ~ In y m2).
    { intros y. unfold redirect_dests. rewrite in_map_iff. split.
      - intros [[a b] [Ha Hf]]. apply filter_In in Hf. destruct Hf as [Hin Hb].
        apply andb_true_iff in Hb. destruct Hb as [H1 H2]. cbn [fst snd] in *. subst b.
        apply mem_In in H1. apply negb_true_iff in H2. apply mem_nIn in H2.
        exists a. tauto.
      - intros [r [H1 [H2 H3]]]. exists (r, y). split; [reflexivity|].
        apply filter_In. split; [exact H1|]. cbn [fst snd].
        apply andb_true_iff. split; [apply mem_In; exact H2|].
        apply negb_true_iff. apply mem_nIn. exact H3. }
    assert (Hm2 : forall y, In y m2 <-> In y m1 \/ exists d, In (y, d) reds /\ In d m1).
    { intros y. unfold m2. rewrite in_app_iff, Hsrc. split.
      - intros [[d [A [B _]]]|H]; [right; exists d; tauto | left; exact H].
      - intros [H|[d [A B]]]; [right; exact H|].
        destruct (in_dec Nat.eq_dec y m1) as [Hi|Hn]; [right; exact Hi|].
        left. exists d. tauto. }
    rewrite in_app_iff, Hdst. split.
    - intros [[r [A [B C]]]|H].
      + apply Hm2 in B. destruct B as [B|[d [B1 B2]]].
        * right. right. exists r. split; [exact A | apply Hm; exact B].
        * assert (x = d) by (eapply reds_fun; eassumption). subst d.
          left. apply Hm. exact B2.
      + apply Hm2 in H. destruct H as [H|[d [A B]]].
        * left. apply Hm. exact H.
        * right. left. exists d. split; [exact A | apply Hm; exact B].
    - intros [H|[[d [A B]]|[r [A B]]]].
      + right. apply Hm2. left. apply Hm. exact H.
      + right. apply Hm2. right. exists d. split; [exact A | apply Hm; exact B].
      + destruct (in_dec Nat.eq_dec x m2) as [Hi|Hn]; [right; exact Hi|].
        left. exists r. split; [exact A|]. split; [|exact Hn].
        apply Hm2. left. apply Hm. exact B.
  Qed.
End Main.

(* non-vacuity: a concrete cyclic graph with a self-inclusion, a diamond and redirects *)
Example analyze_example :
  let edges := [(0,1); (1,0); (1,2); (2,2); (3,4); (0,5); (1,5)] in
  set_eqb (analyze 8 edges [0] [(6,5); (2,7)]) [0;1;2;5;6;7] = true.
Proof. vm_compute. reflexivity. Qed.

(** * re-analysis: closing an already closed set again, with more templates and more flags *)
Lemma Clo_mono edges edges' F F' x :
  (forall e, In e edges -> In e edges') -> (forall f, In f F -> Clo edges' F' f) -> Clo edges F x -> Clo edges' F' x.
Proof. intros He HF H. induction H as [f Hf | u t _ IH Hin]; [apply HF; exact Hf|].
  apply (Clo_step edges' F' u t IH). apply He. exact Hin. Qed.

(* marks found in the store (any subset of an earlier closure) plus new flags, over a grown inclusion graph:
   the second analysis gives exactly what one analysis of everything would give *)
Theorem reanalysis_exact edges edges' F F' marks :
  (forall e, In e edges -> In e edges') ->
  (forall m, In m marks -> Clo edges F m) -> (forall f, In f F -> In f marks) ->
  forall x, Clo edges' (F' ++ marks) x <-> Clo edges' (F' ++ F) x.
Proof. intros He Hm HF x. split; intros H.
  - apply (Clo_mono edges' edges' (F' ++ marks) (F' ++ F) x (fun e h => h)); [|exact H].
    intros f Hf. apply in_app_or in Hf. destruct Hf as [Hf|Hf].
    + apply Clo_flag. apply in_or_app. left. exact Hf.
    + apply (Clo_mono edges edges' F (F' ++ F) f He); [|apply Hm; exact Hf].
      intros g Hg. apply Clo_flag. apply in_or_app. right. exact Hg.
  - apply (Clo_mono edges' edges' (F' ++ F) (F' ++ marks) x (fun e h => h)); [|exact H].
    intros f Hf. apply Clo_flag. apply in_app_or in Hf. apply in_or_app. destruct Hf as [Hf|Hf]; [left; exact Hf | right; apply HF; exact Hf]. Qed.

Theorem closure_idempotent edges F marks :
  (forall m, In m marks <-> Clo edges F m) -> forall x, Clo edges marks x <-> Clo edges F x.
Proof. intros Hm x. split; intros H.
  - apply (Clo_mono edges edges marks F x (fun e h => h)); [|exact H]. intros f Hf. apply Hm. exact Hf.
  - apply (Clo_mono edges edges F marks x (fun e h => h)); [|exact H]. intros f Hf. apply Clo_flag. apply Hm. apply Clo_flag. exact Hf. Qed.
