From Coq Require Import List NArith Bool Arith Lia.
From WTP Require Import Base.Str Proofs.StrProofs Model.ArgViews.
Import ListNotations.
Open Scope N_scope.

(** * Stripping *)
Definition head_ok (sp : N -> bool) (s : str) : Prop :=
  match s with c :: _ => sp c = false | [] => True end.
Definition stripped (sp : N -> bool) (s : str) : Prop := head_ok sp s /\ head_ok sp (rev s).

Lemma lstrip_by_split sp s : exists w, s = w ++ lstrip_by sp s /\ forallb sp w = true.
Proof. induction s as [|c s [w [Hw Hf]]]; cbn [lstrip_by].
  - exists []. split; reflexivity.
  - destruct (sp c) eqn:E.
    + exists (c :: w). split; [cbn; f_equal; exact Hw | cbn; rewrite E; exact Hf].
    + exists []. split; reflexivity. Qed.

Lemma lstrip_by_head sp s : head_ok sp (lstrip_by sp s).
Proof. induction s as [|c s IH]; cbn [lstrip_by]; [exact I|].
  destruct (sp c) eqn:E; [exact IH | exact E]. Qed.

Lemma lstrip_by_id sp s : head_ok sp s -> lstrip_by sp s = s.
Proof. destruct s as [|c s]; cbn; [reflexivity|]. intros ->. reflexivity. Qed.

Lemma head_ok_app sp a b : a <> [] -> head_ok sp (a ++ b) <-> head_ok sp a.
Proof. destruct a; [congruence|]. reflexivity. Qed.

Lemma strip_by_stripped sp s : stripped sp (strip_by sp s).
Proof. unfold stripped, strip_by, rstrip_by. rewrite rev_involutive.
  split; [|apply lstrip_by_head].
  set (t := lstrip_by sp s). pose proof (lstrip_by_head sp s) as Ht. fold t in Ht.
  destruct (lstrip_by_split sp (rev t)) as [w [Hw _]].
  set (u := lstrip_by sp (rev t)) in *.
  destruct u as [|c u'] eqn:Eu; [exact I|].
  assert (Ht' : t = rev (c :: u') ++ rev w).
  { rewrite <- rev_app_distr, <- Hw, rev_involutive. reflexivity. }
  rewrite Ht' in Ht. apply head_ok_app in Ht; [exact Ht|].
  cbn. intros Hnil. apply app_eq_nil in Hnil. destruct Hnil; discriminate. Qed.

Lemma stripped_strip_id sp s : stripped sp s -> strip_by sp s = s.
Proof. intros [H1 H2]. unfold strip_by, rstrip_by. rewrite (lstrip_by_id sp s H1).
  rewrite (lstrip_by_id sp (rev s) H2). apply rev_involutive. Qed.

Lemma head_ok_weaken (sp sp' : N -> bool) s :
  (forall c, sp' c = true -> sp c = true) -> head_ok sp s -> head_ok sp' s.
Proof. intros H. destruct s as [|c s]; cbn; [tauto|]. intros Hc.
  destruct (sp' c) eqn:E; [|reflexivity]. apply H in E. congruence. Qed.

Lemma sp_lua_py c : sp_lua c = true -> sp_py c = true.
Proof. unfold sp_lua, sp_py, is_space. intros H. apply orb_true_iff in H.
  destruct H as [H|H]; rewrite H; [reflexivity|]. rewrite orb_true_r. reflexivity. Qed.

Lemma drop_nl_stripped s : stripped sp_py s -> drop_nl s = s.
Proof. intros [_ H]. unfold drop_nl. destruct (rev s) as [|c r] eqn:E.
  - cbn. rewrite <- (rev_involutive s), E. reflexivity.
  - assert (c <> 10) by (intros ->; cbv in H; discriminate).
    assert (drop_nl_rev (c :: r) = c :: r) as ->.
    { unfold drop_nl_rev. destruct (N.eqb_spec c 10); [congruence | reflexivity]. }
    rewrite <- E. apply rev_involutive. Qed.

Lemma lua_value_after_regex v :
  strip_by sp_lua (drop_nl (strip_by sp_py v)) = strip_by sp_py v.
Proof. pose proof (strip_by_stripped sp_py v) as Hs. rewrite (drop_nl_stripped _ Hs).
  apply stripped_strip_id. destruct Hs as [H1 H2].
  split; eapply head_ok_weaken; try eassumption; apply sp_lua_py. Qed.

(** * Per-argument well-formedness (what the property's quantifier requires) *)
Definition named_ok (n v : str) : Prop :=
  let name := strip_by sp_py n in
  name <> [] /\ forallb cls_expander name = true /\ forallb cls_lua name = true /\
  strip_by sp_py (collapse_ws name) = name /\
  lstrip_by sp_py v <> [] /\
  (positive_number name = true -> to_num name <= 1000).

Definition arg_ok (a : str) : Prop :=
  tok_text a = a /\
  match split_eq a with
  | None => drop_nl a = a
  | Some (n, v) => named_ok n v
  end.

Lemma split_named_ok cls a n v :
  split_eq a = Some (n, v) -> strip_by sp_py n <> [] -> forallb cls (strip_by sp_py n) = true ->
  split_named cls a = Some (strip_by sp_py n, strip_by sp_py v).
Proof. intros Hs Hn Hc. unfold split_named. rewrite Hs.
  destruct n as [|c n']; [exfalso; apply Hn; reflexivity|].
  destruct (strip_by sp_py (c :: n')) eqn:E; [congruence|]. rewrite Hc. reflexivity. Qed.

Lemma split_named_none cls a : split_eq a = None -> split_named cls a = None.
Proof. intros H. unfold split_named. rewrite H. reflexivity. Qed.

Lemma split_eq_nil_none a : split_eq a <> None -> a <> [].
Proof. destruct a; cbn; congruence. Qed.

Theorem views_agree args : Forall arg_ok args -> forall idx,
  view_parser args idx = view_expander args (idx + 1) /\
  view_expander args (idx + 1) = view_lua args (idx + 1).
Proof. unfold view_parser. induction 1 as [|a args [Htok Ha] _ IH]; intros idx; [split; reflexivity|].
  cbn [map view_parser_tok view_expander view_lua]. rewrite Htok.
  destruct (split_eq a) as [[n v]|] eqn:Hs.
  - destruct Ha as (Hn & Hce & Hcl & Hcol & Hv & Hnum).
    rewrite (split_named_ok cls_expander a n v Hs Hn Hce), (split_named_ok cls_lua a n v Hs Hn Hcl).
    assert (Hane : a <> []) by (apply split_eq_nil_none; congruence).
    destruct a as [|c a']; [congruence|].
    destruct (lstrip_by sp_py v) eqn:Ev; [congruence|].
    rewrite lua_value_after_regex. destruct (IH idx) as [IH1 IH2].
    destruct (positive_number (strip_by sp_py n)) eqn:Hp.
    + rewrite N.min_l by (apply Hnum; reflexivity). split; f_equal; assumption.
    + rewrite Hcol. split; f_equal; assumption.
  - rewrite !(split_named_none _ a Hs), Ha. destruct (IH (idx + 1)) as [IH1 IH2].
    destruct a as [|c a'].
    + split; f_equal; assumption.
    + split; f_equal; assumption.
Qed.

(* non-vacuity: " b c = 2 " | "x" | "3=r\n" | "\nz" satisfies arg_ok and the views are what one expects *)
Example views_example :
  let args := [[32;98;32;99;32;61;32;50;32]; [120]; [51;61;114;10]; [10;122]] in
  view_parser args 0 = [(KStr [98;32;99], [50]); (KInt 1, [120]); (KInt 3, [114]); (KInt 2, [10;122])]
  /\ view_expander args 1 = view_parser args 0 /\ view_lua args 1 = view_parser args 0.
Proof. vm_compute. repeat split. Qed.
