From Coq Require Import List Arith Lia Bool.
Import ListNotations.
From WTP Require Import Model.Nest.

(* ---------- attach: what the open frames do with a forest that follows ---------- *)
Fixpoint attach (top : frame) (rest : list frame) (forest : list item) : list item :=
  let (a, b) := span (absorbs (fl top)) forest in
  let top' := mk (fl top) (fid top) (rev a ++ fch top) in
  match rest with
  | [] => rev (fch top') ++ b
  | g :: r => attach (addc g (close top')) r b
  end.

Lemma span_all {A} (p : A -> bool) xs : (forall x, In x xs -> p x = true) -> span p xs = (xs, []).
Proof. induction xs as [|x r IH]; simpl; intros Hx; [reflexivity|].
  rewrite Hx by (left; reflexivity). rewrite IH; [reflexivity|]. intros y Hy; apply Hx; right; exact Hy. Qed.

Lemma span_app {A} (p : A -> bool) xs : let (a, b) := span p xs in xs = a ++ b.
Proof. induction xs as [|x r IH]; simpl; [reflexivity|].
  destruct (p x); [|reflexivity]. destruct (span p r) as [a b]. simpl. now rewrite IH. Qed.

(* stack well-formedness: levels strictly increase from bottom to top, bottom is level 0, headings >= 1 *)
Fixpoint incr (top : frame) (rest : list frame) : Prop :=
  match rest with
  | [] => fl top = 0
  | g :: r => fl g < fl top /\ incr g r
  end.

Definition blk_ok (b : blk) := match b with H l _ => 1 <= l | _ => True end.

Lemma incr_addc top rest it : incr top rest -> incr (addc top it) rest.
Proof. destruct rest; simpl; auto. Qed.

Lemma attach_nil top rest : attach top rest [] = finish (top, rest).
Proof.
  unfold finish; simpl fst; simpl snd. revert top.
  induction rest as [|g r IH]; intros top.
  - simpl. rewrite app_nil_r. reflexivity.
  - simpl. rewrite IH. destruct top as [l i c]; reflexivity.
Qed.

(* a frame of level 0 absorbs everything *)
Lemma absorbs_root it : forall l, l = 0 -> absorbs l it = true \/ exists l' i c, it = ISec l' i c /\ l' = 0.
Proof. intros l ->. destruct it; simpl; auto. destruct l; simpl; [right; eauto | left; reflexivity]. Qed.

(* Key lemma 1: an item the top frame absorbs is simply appended *)
Lemma attach_absorb top rest it f :
  absorbs (fl top) it = true -> attach top rest (it :: f) = attach (addc top it) rest f.
Proof.
  intros Ha. destruct rest as [|g r]; simpl; rewrite Ha; destruct (span (absorbs (fl top)) f) as [a b]; simpl;
  rewrite <- !app_assoc; simpl; reflexivity.
Qed.

(* Key lemma 2: an item the top frame does not absorb closes it (if it is not the last frame) *)
Lemma attach_reject top g r it f :
  absorbs (fl top) it = false -> attach top (g :: r) (it :: f) = attach (addc g (close top)) r (it :: f).
Proof. intros Ha. simpl. rewrite Ha. simpl. destruct top; reflexivity. Qed.

(* popw with predicate p agrees with attach when p = "does not absorb it" on the popped frames *)
Lemma popw_attach p it top rest f :
  incr top rest ->
  (forall fr, fl fr <> 0 -> p fr = negb (absorbs (fl fr) it)) ->
  (forall l, l = 0 -> absorbs l it = true) ->
  let (t', r') := popw p top rest in
  attach top rest (it :: f) = attach t' r' (it :: f) /\ absorbs (fl t') it = true /\ incr t' r'.
Proof.
  intros Hi Hp H0. revert top Hi.
  induction rest as [|g r IH]; intros top Hi; cbn [popw incr] in *.
  - split; [reflexivity|]. split; [apply H0; exact Hi | exact Hi].
  - destruct Hi as [Hlt Hi].
    assert (Hne : fl top <> 0) by lia.
    rewrite (Hp top Hne).
    destruct (absorbs (fl top) it) eqn:Ha; cbn [negb].
    + split; [reflexivity|]. split; [exact Ha|]. cbn [incr]. split; assumption.
    + specialize (IH (addc g (close top)) (incr_addc _ _ _ Hi)).
      destruct (popw p (addc g (close top)) r) as [t' r'].
      destruct IH as [E [A I]]. split; [|split; assumption].
      rewrite <- E. apply attach_reject. exact Ha.
Qed.

Lemma attach_push l id t' r' forest :
  attach (mk l id []) (t' :: r') forest =
  let (a, b) := span (absorbs l) forest in attach (addc t' (ISec l id a)) r' b.
Proof.
  cbn [attach fl fid fch]. destruct (span (absorbs l) forest) as [a b].
  rewrite app_nil_r. unfold close; cbn [fl fid fch]. rewrite rev_involutive. reflexivity.
Qed.

Theorem run_attach d : forall top rest,
  Forall blk_ok d -> incr top rest ->
  finish (fold_left step d (top, rest)) = attach top rest (spec d).
Proof.
  induction d as [|b d IH]; intros top rest Hok Hi.
  - symmetry; apply attach_nil.
  - inversion Hok as [|? ? Hb Hd]; subst. cbn [fold_left spec fold_right]. fold (spec d).
    destruct b as [l id | id | id]; cbn [step place].
    + (* heading *)
      cbn [blk_ok] in Hb.
      destruct (span (absorbs l) (spec d)) as [a b] eqn:Es.
      pose proof (popw_attach (fun f => l <=? fl f) (ISec l id a) top rest b Hi) as P.
      destruct (popw (fun f => l <=? fl f) top rest) as [t' r'].
      destruct P as [E [A I]].
      * intros fr _. cbn [absorbs]. destruct (l <=? fl fr) eqn:E1, (fl fr <? l) eqn:E2; cbn [negb]; try reflexivity;
          (apply Nat.leb_le in E1 || apply Nat.leb_gt in E1); (apply Nat.ltb_lt in E2 || apply Nat.ltb_ge in E2); lia.
      * intros l0 ->. cbn [absorbs]. destruct l; [lia|reflexivity].
      * rewrite E. rewrite (attach_absorb t' r' (ISec l id a) b A).
        rewrite IH; [| assumption | cbn [incr fl]; split; [cbn [absorbs] in A; apply Nat.ltb_lt in A; exact A | exact I]].
        rewrite attach_push, Es. reflexivity.
    + (* text *)
      rewrite IH; [| assumption | apply incr_addc; exact Hi].
      symmetry. apply attach_absorb. reflexivity.
    + (* horizontal rule *)
      pose proof (popw_attach hr_pops (IHR id) top rest (spec d) Hi) as P.
      destruct (popw hr_pops top rest) as [t' r'].
      destruct P as [E [A I]].
      * intros fr Hne. unfold hr_pops; cbn [absorbs].
        destruct (2 <? fl fr) eqn:E1, (fl fr <=? 2) eqn:E2; cbn [negb]; try reflexivity;
          (apply Nat.ltb_lt in E1 || apply Nat.ltb_ge in E1); (apply Nat.leb_le in E2 || apply Nat.leb_gt in E2); lia.
      * intros l0 ->. reflexivity.
      * rewrite E. rewrite (attach_absorb t' r' _ _ A). apply IH; [assumption | apply incr_addc; exact I].
Qed.

Lemma spec_levels d : Forall blk_ok d -> forall it, In it (spec d) -> absorbs 0 it = true.
Proof.
  induction d as [|b d IH]; intros Hok it Hin; [destruct Hin|].
  inversion Hok as [|? ? Hb Hd]; subst. cbn [spec fold_right] in Hin. fold (spec d) in Hin.
  destruct b as [l id|id|id]; cbn [place] in Hin.
  - pose proof (span_app (absorbs l) (spec d)) as Sp.
    destruct (span (absorbs l) (spec d)) as [a r]. destruct Hin as [<-|Hin].
    + cbn [absorbs blk_ok] in *. apply Nat.ltb_lt. lia.
    + apply IH; [assumption|]. rewrite Sp. apply in_or_app; right; exact Hin.
  - destruct Hin as [<-|Hin]; [reflexivity | apply IH; assumption].
  - destruct Hin as [<-|Hin]; [reflexivity | apply IH; assumption].
Qed.

Theorem parse_spec d : Forall blk_ok d -> parse d = spec d.
Proof.
  intros Hok. unfold parse. rewrite run_attach; [| assumption | reflexivity].
  cbn [attach root fl fid fch]. rewrite span_all by (apply spec_levels; assumption).
  cbn [rev app]. rewrite ?app_nil_r, ?rev_involutive. reflexivity.
Qed.

